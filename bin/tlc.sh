#!/bin/sh
# usage: tlc.sh <metadir> <workers> <heap> [tlc args...]   (cwd must be the spec directory)
M=$1; W=$2; X=$3; shift 3
exec java -XX:+UseParallelGC -Xss1g -Xmx$X -Dtlc2.tool.queue.IStateQueue=StateDeque -cp /opt/veriftools/tla/tla2tools.jar:/opt/veriftools/tla/CommunityModules-deps.jar tlc2.TLC -workers $W -metadir $M -cleanup -noGenerateSpecTE "$@"
