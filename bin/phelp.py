"""Helpers shared by the per-property check modules in bin/props_d/."""
TYS = ['rat', 'f64', 'cx', 'i64']


def with_types(tys, suite):
    """transform for Ctx.tlc_cases: stamp TLC-generated cases with suite and element type(s).
    tys: list -> every type for every case; tuple -> rotate through the types."""
    def f(c, n):
        out = []
        for t in (tys if isinstance(tys, list) else [tys[n % len(tys)]]):
            d = dict(c)
            d['ty'] = t
            d['suite'] = suite
            out.append(d)
        return out
    return f
