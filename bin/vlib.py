"""Driver library for the ohsl TLA+ model-based verification checks.

A check = (1) rebuild the Rust conformance harness against /repo's working tree,
          (2) TLC design checks (MC_*.cfg: invariants / laws, exhaustive in small scope),
          (3) spec -> impl: TLC enumerates cases (Gen_*.cfg), the harness executes them on the real code,
          (4) impl -> spec: the harness generates cases over the property's stated range and executes them,
          (5) every recorded event is validated by TLC against Trace_*.tla (total trace spec),
          (6) evidence/<ID>.json is written.
Exit 0: nothing violated.  Exit 1 + "VIOLATION property=<id> replay=<path>": violation.  Exit 2: tool error.
"""
import json, os, re, subprocess, sys, time, hashlib, shutil

VERIF = os.path.dirname(os.path.dirname(os.path.abspath(__file__)))
SPEC = os.path.join(VERIF, 'spec')
HARNESS = os.path.join(VERIF, 'harness')
BIN = os.path.join(HARNESS, 'target', 'debug', 'ohsl-conf')
REPO = os.environ.get('OHSL_REPO', '/repo')
CP = '/opt/veriftools/tla/tla2tools.jar:/opt/veriftools/tla/CommunityModules-deps.jar'


class ToolError(Exception):
    pass


def prepare_harness():
    """harness/Cargo.toml is generated: the path dependency points at $OHSL_REPO (default /repo)."""
    t = open(os.path.join(HARNESS, 'Cargo.toml.in')).read().replace('@OHSL_REPO@', REPO)
    p = os.path.join(HARNESS, 'Cargo.toml')
    if not os.path.exists(p) or open(p).read() != t:
        open(p, 'w').write(t)
    lock = os.path.join(HARNESS, 'Cargo.lock')
    if not os.path.exists(lock):
        shutil.copy(os.path.join(REPO, 'Cargo.lock'), lock)


ENV_VALUES = ['0', '', 'x', '2', '1', '3 ']


def crate_env_names():
    """Names of the environment variables the crate under test can read (scan of $OHSL_REPO/src): string literals passed to
    env::var / var_os, plus every upper-case literal in a file that touches std::env (names kept in constants)."""
    import re
    names = set()
    src = os.path.join(REPO, 'src')
    for root, _, fs in os.walk(src):
        for f in fs:
            if not f.endswith('.rs'):
                continue
            try:
                t = open(os.path.join(root, f), errors='replace').read()
            except OSError:
                continue
            names.update(re.findall(r'\bvar(?:_os)?\s*\(\s*"([A-Za-z_][A-Za-z0-9_]*)"', t))
            if 'env::' in t or 'std::env' in t:
                names.update(re.findall(r'"([A-Z][A-Z0-9_]{3,})"', t))
    return sorted(names)


def sh(cmd, cwd=None, env=None, timeout=None):
    e = dict(os.environ)
    if env:
        e.update(env)
    try:
        p = subprocess.run(cmd, cwd=cwd, env=e, stdout=subprocess.PIPE, stderr=subprocess.STDOUT, timeout=timeout, text=True, errors='replace')
    except subprocess.TimeoutExpired as ex:
        out = ex.stdout if isinstance(ex.stdout, str) else (ex.stdout or b'').decode(errors='replace')
        return 124, out
    return p.returncode, p.stdout


def read_ndjson(path):
    out = []
    with open(path) as f:
        for line in f:
            line = line.strip()
            if line:
                out.append(json.loads(line))
    return out


class Ctx:
    def __init__(self, pid, tier, seed):
        self.pid, self.tier, self.seed = pid, tier, seed
        self.quick = tier == 'quick'
        self.out = os.path.join(VERIF, 'out', pid)
        os.makedirs(self.out, exist_ok=True)
        self.t0 = time.time()
        self.states = 0
        self.transitions = 0
        self.mc_runs = []
        self.trace_runs = []
        self.events = 0
        self.cases = 0
        self.nontrivial = set()
        self.samples = []
        self.violations = []
        self.known = []
        self.notes = []
        self.assumptions = []
        self.exhaustive_parts = []
        self.action_cov = {}
        self.nrep = 0
        self.validations = []
        self.unevaluable = 0
        kf = json.load(open(os.path.join(VERIF, 'known_findings.json')))
        self.findings = [f for f in kf.get('findings', []) if f.get('property') == pid]

    # ------------------------------------------------------------------ build
    def build(self):
        prepare_harness()
        feats = []
        try:
            if 'verif-trace' in open(os.path.join(REPO, 'Cargo.toml')).read():
                feats = ['--features', 'hooks']
        except OSError:
            pass
        # the lock file follows the repository's
        rc, out = sh(['cargo', 'build', '--offline'] + feats, cwd=HARNESS, env={'CARGO_NET_OFFLINE': 'true'}, timeout=1800)
        if rc != 0:
            # a tree that does not build with hooks is retried without
            if feats:
                rc, out = sh(['cargo', 'build', '--offline'], cwd=HARNESS, env={'CARGO_NET_OFFLINE': 'true'}, timeout=1800)
            if rc != 0:
                print(out[-4000:])
                raise ToolError('harness build failed')
        self.hooks = bool(feats)

    # ------------------------------------------------------------------ TLC
    def _tlc(self, module, cfg, workers, heap, timeout, env=None, extra=None, tag='mc'):
        meta = os.path.join(self.out, 'tlc_%s_%s' % (tag, re.sub(r'\W', '_', cfg)))
        shutil.rmtree(meta, ignore_errors=True)
        cmd = ['java', '-XX:+UseParallelGC', '-Xss1g', '-Xmx' + heap, '-Dtlc2.tool.queue.IStateQueue=StateDeque', '-cp', CP, 'tlc2.TLC',
               '-workers', str(workers), '-metadir', meta, '-cleanup', '-noGenerateSpecTE', '-config', cfg] + (extra or []) + [module + '.tla']
        t = time.time()
        rc, out = sh(cmd, cwd=SPEC, env=env, timeout=timeout)
        shutil.rmtree(meta, ignore_errors=True)
        dt = time.time() - t
        gen = dist = 0
        m = re.findall(r'(\d+) states generated, (\d+) distinct states found', out)
        if m:
            gen, dist = int(m[-1][0]), int(m[-1][1])
        return dict(rc=rc, out=out, generated=gen, distinct=dist, wall=dt, module=module, cfg=cfg)

    def tlc_mc(self, module, cfg, workers=8, heap='8g', timeout=3600, env=None, expect_violation=None, label=None):
        """Exhaustive design-level check.  The spec is ours: a failure here is a tool/spec error, unless the
        run is a 'deviation switch' run that is EXPECTED to exhibit a counterexample (expect_violation=<invariant>)."""
        r = self._tlc(module, cfg, workers, heap, timeout, env=env, extra=['-coverage', '1'] if self.quick is False else None, tag='mc')
        ok = 'Model checking completed. No error has been found.' in r['out']
        info = dict(module=module, cfg=cfg, states_generated=r['generated'], distinct_states=r['distinct'], wall_s=round(r['wall'], 1), ok=ok)
        if label:
            info['what'] = label
        if expect_violation:
            hit = ('Invariant %s is violated' % expect_violation) in r['out'] or ('Temporal properties were violated' in r['out'] and expect_violation == 'LIVENESS')
            info['expected_counterexample'] = expect_violation
            info['exhibited'] = hit
            self.mc_runs.append(info)
            if not hit:
                print(r['out'][-3000:])
                raise ToolError('deviation-switch run %s/%s did not exhibit the expected counterexample %s' % (module, cfg, expect_violation))
            return r
        self.mc_runs.append(info)
        if r['rc'] == 124:
            raise ToolError('TLC timeout on %s/%s' % (module, cfg))
        if not ok:
            print(r['out'][-6000:])
            raise ToolError('TLC design check failed on %s/%s (specification error, not an implementation verdict)' % (module, cfg))
        self.states += r['distinct']
        self.transitions += r['generated']
        return r

    def tlc_cases(self, module, cfg, workers=4, heap='6g', timeout=3600, tag='CASE', env=None, name=None, transform=None):
        """spec -> impl: run the model, collect every line <<"CASE", "<json>">> it prints."""
        r = self._tlc(module, cfg, workers, heap, timeout, env=env, tag='gen')
        if r['rc'] == 124:
            raise ToolError('TLC timeout on %s/%s' % (module, cfg))
        if 'Model checking completed. No error has been found.' not in r['out'] and 'states generated' not in r['out']:
            print(r['out'][-4000:])
            raise ToolError('TLC case generation failed on %s/%s' % (module, cfg))
        if 'Error:' in r['out'] and 'No error has been found' not in r['out']:
            print(r['out'][-4000:])
            raise ToolError('TLC case generation reported an error on %s/%s' % (module, cfg))
        raw = []
        pat = re.compile(r'^<<"%s", "(.*)">>$' % tag)
        for line in r['out'].splitlines():
            m = pat.match(line.strip())
            if m:
                raw.append(m.group(1).replace('\\"', '"').replace('\\\\', '\\'))
        raw.sort()          # TLC prints in a worker-dependent order: make the case list reproducible
        cases = []
        for n, s in enumerate(raw):
            c = json.loads(s)
            cases.extend(transform(c, n) if transform else [c])
        path = os.path.join(self.out, (name or ('gen_' + cfg.replace('.cfg', ''))) + '.cases.ndjson')
        with open(path, 'w') as f:
            for i, c in enumerate(cases):
                c['cid'] = i + 1
                f.write(json.dumps(c) + '\n')
        self.mc_runs.append(dict(module=module, cfg=cfg, role='case generation (spec -> impl)', cases=len(cases), states_generated=r['generated'],
                                 distinct_states=r['distinct'], wall_s=round(r['wall'], 1), ok=True))
        self.states += r['distinct']
        self.transitions += r['generated']
        return path

    # ------------------------------------------------------------------ harness
    def gen(self, suite, name=None, tier=None, seed=None):
        path = os.path.join(self.out, (name or suite) + '.cases.ndjson')
        rc, out = sh([BIN, 'gen', suite, tier or self.tier, str(self.seed if seed is None else seed), path], timeout=3600)
        if rc != 0:
            print(out[-3000:])
            raise ToolError('harness gen %s failed' % suite)
        return path

    def exec(self, suite, cases, name=None, env=None):
        path = cases.replace('.cases.ndjson', '') + '.events.ndjson'
        if name:
            path = os.path.join(self.out, name + '.events.ndjson')
        rc, out = sh([BIN, 'exec', suite, cases, path], timeout=7200, env=env)
        if rc != 0:
            print(out[-3000:])
            raise ToolError('harness exec %s failed (rc=%d)' % (suite, rc))
        return path

    def validate(self, module, events_path, cases_path, suite, nontrivial=None, key=None, heap='6g', timeout=7200, chunk=40000):
        """impl -> spec: TLC validates every recorded event against the trace specification."""
        events = read_ndjson(events_path)
        cases = read_ndjson(cases_path)
        bycid = {c['cid']: c for c in cases}
        self.validations.append(dict(module=module, events=events_path, cases=cases_path, suite=suite))
        json.dump(self.validations, open(os.path.join(self.out, 'validations.json'), 'w'))
        self.cases += len(cases)
        self.events += len(events)
        for e in events:
            if nontrivial is None or nontrivial(e):
                k = key(e) if key else {kk: v for kk, v in e.items() if kk not in ('id', 'cid', 'k')}
                self.nontrivial.add(hashlib.md5(json.dumps(k, sort_keys=True).encode()).digest())
        if events and len(self.samples) < 6:
            self.samples.append(dict(suite=suite, case=_clip(bycid.get(events[0].get('cid'), cases[0] if cases else {})), first_event=_clip(events[0])))
            mid = events[len(events) // 2]
            self.samples.append(dict(suite=suite, event=_clip(mid)))
        # validate in chunks (each chunk is its own TLC run; history-start events carry `pre`, chunks are cut at case boundaries)
        start = 0
        nmis = 0
        while start < len(events):
            end = min(len(events), start + chunk)
            while end < len(events) and events[end].get('cid') == events[end - 1].get('cid'):
                end += 1
            part = events[start:end]
            ppath = events_path + '.part'
            with open(ppath, 'w') as f:
                for e in part:
                    f.write(json.dumps(e) + '\n')
            r = self._tlc(module, 'Trace.cfg', 1, heap, timeout, env={'TRACE': ppath}, tag='trace')
            os.remove(ppath)
            out = r['out']
            mism = re.findall(r'^<<"MISMATCH", (\d+), (-?\d+), (.*)>>$', out, re.M)
            consumed = r['distinct'] - 1
            ok = 'Model checking completed. No error has been found.' in out
            self.trace_runs.append(dict(module=module, events=len(part), consumed=consumed, mismatches=len(mism), wall_s=round(r['wall'], 1)))
            if r['rc'] == 124:
                raise ToolError('TLC timeout validating %s' % events_path)
            if (not ok and not mism) or consumed != len(part):
                # TLC could not evaluate some event (an operator applied to a malformed value logged from the code under
                # test: wrong length, missing element, ...).  On the unchanged tree this never happens; when it does, the
                # offending event is reported as a violation ("unevaluable") and validation resumes at the next case.
                ls = re.findall(r'\bl = (\d+)', out)
                evalerr = ('Error: ' in out) and not ('Postcondition' in out and consumed == len(part))
                if evalerr and ls and 1 <= int(ls[-1]) <= len(part) and self.unevaluable < 200:
                    k = int(ls[-1])                      # 1-based index of the event TLC choked on
                    for (l, eid, why) in mism:
                        if int(l) < k:
                            e = part[int(l) - 1]
                            nmis += 1
                            self._violation(suite, module, e, bycid.get(e.get('cid')), why.strip('"'))
                    bad = part[k - 1]
                    nmis += 1
                    self.unevaluable += 1
                    self._violation(suite, module, bad, bycid.get(bad.get('cid')), 'unevaluable event (malformed output of the code under test)')
                    nxt = start + k
                    while nxt < len(events) and events[nxt].get('cid') == bad.get('cid'):
                        nxt += 1
                    start = nxt
                    continue
                print(out[-6000:])
                raise ToolError('trace validation of %s by %s ended abnormally (not a verdict)' % (events_path, module))
            for (l, eid, why) in mism:
                e = part[int(l) - 1]
                nmis += 1
                self._violation(suite, module, e, bycid.get(e.get('cid')), why.strip('"'))
            start = end
        return nmis

    def _violation(self, suite, module, event, case, why):
        for f in self.findings:
            if f.get('suite', suite) == suite and all(event.get(k) == v for k, v in f.get('match', {}).items()):
                if f['what'] not in self.known:
                    self.known.append(f['what'])
                return
        if len(self.violations) >= 50:
            self.violations.append(None)
            return
        self.nrep += 1
        path = os.path.join(self.out, 'replay_%s_%d.json' % (self.tier, self.nrep))
        json.dump(dict(property=self.pid, suite=suite, trace_module=module, why=why, seed=self.seed, tier=self.tier, case=case, event=event, env=getattr(self, 'envset', None)), open(path, 'w'))
        self.violations.append(path)

    def direct_violation(self, suite, why, payload):
        """violation found outside trace validation (e.g. a TLC-generated case the harness could not execute)"""
        self.nrep += 1
        path = os.path.join(self.out, 'replay_%s_%d.json' % (self.tier, self.nrep))
        json.dump(dict(property=self.pid, suite=suite, why=why, seed=self.seed, tier=self.tier, payload=payload), open(path, 'w'))
        self.violations.append(path)

    # ------------------------------------------------------------------ evidence
    def finish(self, level='model_checking', rule='', trusted=None, extra=None):
        nviol = len(self.violations)
        cov = dict(
            states=self.states, transitions=self.transitions,
            traces_validated_against_impl=self.cases,
            evaluations=self.events, distinct_nontrivial=len(self.nontrivial), rule=rule,
            samples=self.samples or [dict(note='no events')],
            tlc_design_runs=self.mc_runs, tlc_trace_runs=_summ(self.trace_runs),
            trusted_base=trusted or [], exhaustive=False,
            exhaustive_parts=self.exhaustive_parts,
            explanation='states/transitions are summed over the exhaustive TLC design-check and case-generation runs listed in tlc_design_runs; '
                        'traces_validated_against_impl counts cases (histories / calls) executed on the real crate whose every event TLC accepted; '
                        'evaluations counts recorded events.')
        if extra:
            cov.update(extra)
        ev = dict(property_id=self.pid, tier=self.tier, seed=self.seed, level=level, coverage=cov,
                  assumptions=self.assumptions, wall_s=round(time.time() - self.t0, 1), violations=nviol,
                  known_findings_reported=self.known, notes=self.notes)
        if getattr(self, 'envset', None):
            json.dump(ev, open(os.path.join(self.out, 'evidence_env.json'), 'w'), indent=1)
        elif REPO == '/repo':
            # X-checks (specification coverage beyond the listed properties) keep their record apart from the per-property evidence
            edir = os.path.join(VERIF, 'evidence_extra' if self.pid.startswith('X') else 'evidence')
            os.makedirs(edir, exist_ok=True)
            json.dump(ev, open(os.path.join(edir, self.pid + '.json'), 'w'), indent=1)
        else:   # a scratch copy is being checked (mutation testing): never touch the committed evidence
            json.dump(ev, open(os.path.join(self.out, 'evidence_scratch.json'), 'w'), indent=1)
        for k in self.known:
            print('KNOWN-FINDING: property=%s %s' % (self.pid, k))
        for v in self.violations:
            if v:
                print('VIOLATION property=%s replay=%s' % (self.pid, v))
        print('%s %s: states=%d transitions=%d cases=%d events=%d violations=%d wall=%.1fs' % (
            self.pid, self.tier, self.states, self.transitions, self.cases, self.events, nviol, time.time() - self.t0))
        return 1 if nviol else 0


def _clip(v, n=700):
    s = json.dumps(v)
    if len(s) <= n:
        return v
    return dict(clipped=s[:n] + '...')


def _summ(runs):
    return dict(runs=len(runs), events=sum(r['events'] for r in runs), mismatches=sum(r['mismatches'] for r in runs),
                wall_s=round(sum(r['wall_s'] for r in runs), 1), modules=sorted(set(r['module'] for r in runs)))


def main():
    import props
    a = sys.argv[1:]
    if len(a) < 2:
        print('usage: check <ID> quick|thorough | check <ID> --replay <path>')
        sys.exit(2)
    pid = a[0]
    seed = int(os.environ.get('VERIF_SEED', '1') or 1)
    if pid not in props.CHECKS:
        print('unknown property', pid)
        sys.exit(2)
    try:
        if a[1] == '--replay':
            rp = json.load(open(a[2]))
            os.environ.update(rp.get('env') or {})
            ctx = Ctx(pid, 'quick', rp.get('seed', seed))
            ctx.out = os.path.join(VERIF, 'out', pid, 'replay')
            os.makedirs(ctx.out, exist_ok=True)
            ctx.build()
            if rp.get('case') is None:
                print('replay file has no executable case:', rp.get('why'))
                sys.exit(2)
            cpath = os.path.join(ctx.out, 'replay.cases.ndjson')
            c = dict(rp['case'])
            c['cid'] = 1
            open(cpath, 'w').write(json.dumps(c) + '\n')
            ev = ctx.exec(rp['suite'], cpath)
            n = ctx.validate(rp['trace_module'], ev, cpath, rp['suite'])
            for v in ctx.violations:
                if v:
                    print('VIOLATION property=%s replay=%s' % (pid, a[2]))
                    break
            print('replay: %d mismatching events' % n)
            sys.exit(1 if n else 0)
        tier = a[1]
        if tier not in ('quick', 'thorough'):
            print('tier must be quick or thorough')
            sys.exit(2)
        tier = os.environ.get('VERIF_TIER', tier) if False else tier
        ctx = Ctx(pid, tier, seed)
        # replay files of earlier runs of this tier would otherwise sit next to the new ones
        import glob as _glob
        for f in _glob.glob(os.path.join(ctx.out, 'replay_%s_*.json' % tier)):
            os.remove(f)
        ctx.build()
        names = crate_env_names()
        ctx.notes.append('environment: the crate reads no environment variable (scan of src/), so every result is a function of the call arguments and the CPU set only' if not names
                         else 'environment: the crate can read %s; the whole quick check is repeated with these set to each of %r (the model has no environment: every result must be unchanged)' % (names, ENV_VALUES))
        try:
            rc = props.CHECKS[pid](ctx)
            if rc == 0 and names:
                for k, val in enumerate(ENV_VALUES):
                    os.environ.update({n: val for n in names})
                    c2 = Ctx(pid, 'quick', seed)
                    c2.envset = {n: val for n in names}
                    c2.hooks = getattr(ctx, 'hooks', False)
                    c2.out = os.path.join(ctx.out, 'env_%d' % k)
                    os.makedirs(c2.out, exist_ok=True)
                    print('environment variant %d: %s' % (k, c2.envset))
                    rc = props.CHECKS[pid](c2)
                    if rc != 0:
                        break
                for n in names:
                    os.environ.pop(n, None)
        except ToolError as ex:
            # a vacuity / consistency guard of the check fired AFTER violations had already been established:
            # the violations are the verdict (a broken implementation may well starve a later stage of events)
            if [v for v in ctx.violations if v]:
                print('NOTE: check aborted by a guard after violations were found:', ex)
                ctx.notes.append('aborted by guard after violations: %s' % ex)
                rc = ctx.finish(rule='(run aborted by a guard after violations were found)')
            else:
                raise
        sys.exit(rc)
    except ToolError as ex:
        print('TOOL-ERROR:', ex)
        sys.exit(2)
    except Exception:
        import traceback
        print('TOOL-ERROR: internal error of the driver')
        print(traceback.format_exc())
        sys.exit(2)
