"""C05 - a tridiagonal matrix of any size equals its dense twin; solve is exact or refuses."""
from phelp import with_types

PID = 'C05'

CLAIM = dict(
    text='Tridiag.tla defines a tridiagonal matrix as (n, sub, main, sup) with the dense twin as its meaning, the determinant as the three-term recurrence, and the '
         'Thomas algorithm of tridiagonal.rs step by step over exact rationals with its two refusals as terminal states. TLC (i) checks for every matrix with n <= 3 over '
         '{-1,0,1,2} (thorough: n = 4 over {-1,0,1}) that the machine never returns a wrong answer (completes => T x = r exactly), refuses exactly when some leading principal '
         'minor - i.e. some pivot - of the dense twin vanishes (Leibniz determinants), that the recurrence determinant equals the Leibniz and the fraction-free determinant, and that '
         'index, conversion, transpose, arithmetic and the product loop (n = 1 and n = 2 branches included) agree with the dense twin; (ii) emits every such matrix as a case '
         'executed on the real Tridiagonal<Rat/f64/Complex>; (iii) validates recorded executions for n = 1..12: histories over every constructor and operation, exact solve-or-refuse '
         'on general integer data, a zero pivot arising at every chosen elimination step, and diagonally dominant systems. The trace specification decides refusal from the minors: '
         'when the model refuses the call must have panicked with a message mentioning "zero"; otherwise it must have returned x with T x = r exactly (recomputed by TLC). '
         'Awkward pivots: integer systems on which the textbook elimination is exact in f64 although the pivots (49, 51, 98, 103, 147, ...) have inexact reciprocals, including singular ones whose zero pivot is an exact cancellation of such numbers - exact answer or refusal is demanded of f64 as of Rat. Exponent sweep: exact systems scaled by 2^k over the whole f64 exponent axis (-1070..1020; subnormal pivots; Complex for -530..500), right-hand side scaled alike or not at all, det where representable, judged exactly on the integer system. CPU count: a sample of histories and products up to n = 40 with the process restricted to 1..3 CPUs. Std-trait forms: Clone::clone_from as a mutator of the sequence model, along chains of sources of the same size, larger, smaller, 1 x 1 and back, built by every constructor / grown by resize / cloned from a dropped original, targets fresh / mutated / resized - the target must become the source, size included, the source stay as it was; then size, diagonals, conversion, index reads, product, det and solve (exact for every element type) on target and source, a write to one and a look at the other (both ways), clone_from in the opposite direction, clone-and-drop. Refused calls and what follows (sequences on ONE object, all element types, on data where the float elimination is exact so that the model decides answer-or-refusal and the exact solution): the object starts with a zero pivot at the first, a middle or the LAST step (n = 1: the zero entry); the refused solve, a right-hand side of another size (must be refused) and out-of-range get / set are followed at once by the same solve again (must refuse again), det (exactly 0) and the observers, the same calls on a clone, stand-alone solves on other regular and singular objects on the same thread, mutators that keep the pivot zero (assignment of the same value, *= 2, negation - must still refuse, twice), the assignment that repairs it (must return the exact solution, repeatedly and on a clone), and back; a refused call leaves the object as it was. Operands of another size: sum, difference and product with an operand of size n+1 / n-1 must refuse. Relatively tiny pivots: exact dyadic f64 / Complex systems (n = 2..6, every step) on which the whole elimination is exact and one pivot is 2^-30, 2^-52, 2^-53 (real) or 2^-30, 2^-53, 2^-60 (purely imaginary) times its diagonal entry; entries, right-hand side and returned solution are logged as polynomials in eps = 2^-t with small Gaussian-integer coefficients and TLC decides over that polynomial ring (minors must not vanish identically, T xs = L eps^K r coefficientwise) - a refusal of such a regular system is a violation (a real pivot 2^-60 times its diagonal cannot occur in an exact f64 elimination and is therefore only covered for Complex). Complex on the axes: Gaussian-integer tridiagonal systems with pivots from {+-1, +-i, +-2, +-2i, +-4i, +-1+-i} (purely imaginary pivots arising during elimination, a zero pivot at a chosen step) are judged EXACTLY over Gaussian rationals (complex minor recurrence and cross-multiplied residual in TLC); diagonally dominant systems with every entry exactly on an axis in units; scalar factors and divisors i, -i, 2i, -1 (result * divisor = operand) in histories and sequences. The diagonally dominant float systems are repeated for every n at extreme magnitudes (uniformly scaled by 2^+-60, 2^+-200, 2^+-400, solution O(1) or equally extreme; row- / column-graded): same guard on exactly descaled data, a refusal is a violation. '
         'Sequences on ONE object (n = 1..12, all three types): det, solve, product, conversion and all reads through the index operator before and after EVERY mutating operation (index writes, transpose_in_place, resize, += c, -= c, *= s, /= s) '
         'and every re-binding of the object to an operator result (neg, +, -, * s, / s); the trace specification keeps the model\'s current value and demands that every event starts from it.',
    note='Exact: all Rat cases; f64/Complex on integer histories and on data constructed so that every operation of the Thomas algorithm is exact in binary floating point (pivots +-1, +-2, '
         'integer multipliers), where the float result is converted to exact rationals and checked like Rat. Floats on the TLC-enumerated small matrices: only the outcome (answer vs refusal) '
         'is demanded. Measured: diagonally dominant f64/Complex systems - backward error units of eps(|T||x|+|r|) <= 96 (x8 complex; a-priori 12u for diagonally dominant Thomas elimination, factor 8), '
         'determinant error <= 32 n units of eps F_n (recurrence on absolute values). In float sequences the solve bound is demanded wherever the model state is strictly diagonally dominant by rows or columns (decided by TLC on the integer parts). resize: only the new size is demanded. Off-diagonal-band element access may panic or return 0. The refusal message is only required to mention "zero".',
    design='4 (C05)')

NT = lambda e: True


def check(ctx):
    q = ctx.quick
    ctx.tlc_mc('MC_Tridiag', 'MC_Tridiag_quick.cfg' if q else 'MC_Tridiag.cfg',
               label='Thomas algorithm as a state machine with the two refusals vs Leibniz minors / exact residual; det recurrence = Leibniz; operator laws; n <= 3 over {-1,0,1,2}' + ('' if q else ', n = 4 over {-1,0,1}'))
    ctx.exhaustive_parts.append('every tridiagonal matrix n <= 3 over {-1,0,1,2}%s through the transcribed Thomas algorithm' % ('' if q else ' and n = 4 over {-1,0,1}'))
    gen = ctx.tlc_cases('MC_Tridiag', 'Gen_Tridiag_quick.cfg' if q else 'Gen_Tridiag.cfg', transform=with_types(('rat', 'f64', 'rat', 'cx'), 'tridiag'), name='gen_tridiag')
    ev = ctx.exec('tridiag', gen)
    ctx.validate('Trace_Tridiag', ev, gen, 'tridiag', nontrivial=NT)
    cases = ctx.gen('tridiag')
    ev = ctx.exec('tridiag', cases)
    ctx.validate('Trace_Tridiag', ev, cases, 'tridiag', nontrivial=NT)
    ctx.exhaustive_parts.append('every n in 1..12; a zero pivot at every elimination step 0..n-1 for every n')
    return ctx.finish(
        rule='cases: (i) every matrix of the Tridiag model as det/solve/product/convert calls, element types rotating rat/f64/rat/cx; (ii) for n = 1..12: histories of 19-39 operations '
             '(three constructors, every operation, random integer data), exact solve-or-refuse on general and sparse-diagonal integer matrices, zero pivot at step s for every s < n, '
             'exact-dyadic systems without zero pivot, diagonally dominant systems; every event is counted; distinct = distinct (operation, operand, arguments, outcome) tuples.',
        trusted=['harness projection of Tridiagonal<T> through its accessors', 'exact f64 -> rational conversion and double-double references (harness/src/suites/tridiag.rs, banded.rs, dd.rs)',
                 'TLC', 'Tridiag.tla dense-twin operators (cross-checked against Leibniz determinants in MC_Tridiag)'])
