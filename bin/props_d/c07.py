"""C07 - sparse products equal dense products; transpose is the adjoint; scaling scales products."""
from _sparse_common import transform_c07, op_counts, nontrivial, STATE_OPS

PID = 'C07'

CLAIM = dict(
    text='Mul / TMul in SparseCSC.tla transcribe the column scatter / gather loops of Sparse::multiply / transpose_multiply. On every reachable state of the C06 history machine (so on matrices that have been through inserts, overwrites, scalings and transposes; shapes 0..2 x 0..3, every entry set of <= 2 (thorough 3) entries in every order, histories of 2 (3) operations) TLC checks for ALL vectors over {-1,0,1,2}: Mul(S,x) = Dense(S) x, TMul(S,y) = Dense(S)^T y, Mul(Transpose(S),y) = TMul(S,y), TMul(Transpose(S),x) = Mul(S,x), <y, A x> = <A^T y, x> for all pairs, Mul(Scale(S,a),x) = a Mul(S,x) and the same for TMul. '
         'The model behaviours are replayed on the real Sparse<Rat>/Sparse<f64> with a products event on every state, and recorded executions over all shapes 0..10 x 0..10 (zero dimensions, empty/full/diagonal/single-column/row/empty-border patterns, histories of 30 modifications) are validated event by event: TLC recomputes the exact dense products of the matrix and compares multiply, transpose_multiply (each called twice on the same object), transpose().multiply, transpose().transpose_multiply, both sides of the adjoint identity computed with the crate-own Vector::dot (each compared with its exact value), the products of a scaled copy, and the dense route of the crate to_dense() * x / to_dense()^T * y (Matrix * Vector). Every history probes the products on the same object before and after every mutating step (insert new, overwrite with a different value, scale, re-binding to transpose()); in-history scale and transpose advance the reference by the abstract operator and are judged by the next probe. Every probe uses a main pair of vectors with pairwise distinct non-zero components AND a battery of vectors with exact zeros for both x and y (unit vectors e_k for every k, zeros at the first / last / every second position, a single non-zero entry, all-zero, negative zero), each put through multiply, transpose_multiply, the explicit-transpose products, the scaled products and the adjoint identity. Exact (integers).',
    note='Decided exactly by TLC. In C07 histories constructors and inserts are not judged (C06 does that); they carry the state (scale and transpose are C07 operations and are judged through the following probe): the dense reference is the abstract content of the real object\'s logged well-formed fields, so C07 demands exactly "sparse product = dense product of the same matrix". Integer-valued data (exact in f64 and Rat); by bilinearity agreement on these points is a polynomial-identity test. Trusted: TLC, Dense.tla MatVec/Transpose as the dense reference, the harness projection to integers; the adjoint scalars are computed by Vector::dot of the crate (src/vector/functions.rs).',
    design='4 (C07)')


def check(ctx):
    q = ctx.quick
    ctx.tlc_mc('MC_SparseCSC', 'MC_SparseCSC_C07_quick.cfg' if q else 'MC_SparseCSC_C07.cfg',
               label='product invariants on every state of the C06 history machine (shapes 0..2 x 0..3, <= %d entries in every order, <= %d operations; the quick machine includes explicit zeros: zero initial entry, insert of 0, scale by 0), all vectors over {-1,0,1,2}: A x, A^T y, explicit transpose, adjoint identity for all pairs, scaling by {-1,0,2,3}' % ((2, 2) if q else (3, 3)))
    if not q:
        ctx.tlc_mc('MC_SparseCSC', 'MC_SparseCSC_C07_zero.cfg', label='product invariants on the machine with explicit zeros (zero initial entry, insert of 0, scale by 0): shapes 0..2 x 0..3, <= 3 entries, <= 2 operations')
        genz = ctx.tlc_cases('MC_SparseCSC', 'Gen_SparseCSC_zero.cfg', transform=transform_c07(ctx.seed + 1, both_ctors=False), name='gen_sparse_c07_zero')
        evz = ctx.exec('sparse', genz)
        ctx.validate('Trace_SparseCSC', evz, genz, 'sparse', nontrivial=nontrivial)
    gen = ctx.tlc_cases('MC_SparseCSC', 'Gen_SparseCSC_quick.cfg' if q else 'Gen_SparseCSC.cfg', transform=transform_c07(ctx.seed, both_ctors=not q), name='gen_sparse_c07')
    ev = ctx.exec('sparse', gen)
    need = STATE_OPS + ('products',)
    cnt, _ = op_counts(ev, need)
    ctx.validate('Trace_SparseCSC', ev, gen, 'sparse', nontrivial=nontrivial)
    ctx.exhaustive_parts.append('all model behaviours of length 2 on shapes 0..2 x 0..%d replayed on the real Sparse with a products event on every state' % (2 if q else 3))
    cases = ctx.gen('sparse', name='sparse_c07', tier=ctx.tier + ':c07')
    ev = ctx.exec('sparse', cases)
    cnt2, _ = op_counts(ev, need)
    ctx.validate('Trace_SparseCSC', ev, cases, 'sparse', nontrivial=nontrivial)
    ctx.exhaustive_parts.append('all 121 shapes 0..10 x 0..10 (products on the fresh matrix and after each of 4 modifications)')
    ctx.notes.append('events per operation: replay %s; recorded %s' % (cnt, cnt2))
    return ctx.finish(
        rule='cases: (i) every TLC-enumerated behaviour of the history machine with a products event after the constructor and after every operation, (ii) per shape (r,c) in 0..10^2 (every shape, twice in quick) a random pattern (random triplet order or raw arrays) with products on the fresh matrix and after each step of a rotated skeleton insert-new/scale/insert-new/transpose/overwrite/overwrite/scale/transpose/insert-new/overwrite (6 steps quick, 10 thorough), '
             '(iii) empty/full/diagonal/last-column/first-row/empty-border patterns with several vectors and an explicit transpose, (iv) histories of 30 modifications with products after every one, (vi) from_vecs inputs with full columns / a single column / a single row stored descending, rotated and in random row order at sizes 10 and below, products after construction, overwrites, transpose, new entry, scale, (ix) workspace wrap-around cases, all in the one harness process and thread: a large instance (many rows / many columns / full), and for every operation (transpose, multiply, transpose_multiply, get, to_dense, to_triplets/col_index, scale, insert overwrite/new, from_triplets, and all together) a use on the large instance, G-1 unlogged calls on small instances (<= 2 rows/columns, <= 3 entries) and the same use again, for G in {255,256,257,511,512,65535,65536,65537}; the large uses are ordinary events, the small calls are only counted (event gap), (v) zero-centred histories (overwrite with 0, new 0 entry, scale by 0) with products after each step; main vectors have pairwise distinct non-zero components in -15..15, battery vectors with exact zeros as described, scale factors in {-3..3}; element types Rat and f64. '
             'A products event is non-trivial if at least one of the vectors is non-empty; distinct = distinct (vectors, factor, results).',
        trusted=['harness projection of product vectors to integers and accumulation of the adjoint scalars (harness/src/suites/sparse.rs)', 'TLC', 'Dense.tla MatVec/Transpose as the dense reference'])
