"""C10 - polynomial root finder."""
import json
import zlib

PID = 'C10'

CLAIM = dict(
    text='Roots.tla models poly_solve: (1) the quadratic branch exactly over Gaussian integers (for a(x-r1)(x-r2) the discriminant is a square, so sgn, q = -(b+sgn*sqrt)/2, '
         'q/a, c/q are computable): TLC checks for ALL a # 0, r1, r2 with components in -2..2 and both branches of the square root that the formula is well defined, returns '
         '{r1, r2}, and that q = 0 happens only for b = c = 0, which must return the double root 0 (with the guard switched off TLC exhibits the 0/0 of D4); the triple-root test '
         'of the cubic fires exactly for r1 = r2 = r3; (2) the control skeleton (dispatch on degree, deflation loop with bounded Laguerre runs, optional polishing) for degrees '
         '0..6, both settings, every outcome of every iteration: exactly `degree` values, all finite, bounded work, termination, degree 0 rejected (with the non-finite-step '
         'guard switched off TLC exhibits the NaN of D8). TLC expands a*prod(x - r_i) for every multiset of <= 5 (quick: 4) small Gaussian-integer roots; the real '
         'Polynomial<f64>/<Cmplx>::roots is run on them and on seeded random polynomials of degree 1..12 (discs, circles, clusters, multiplicities, zero roots, purely imaginary '
         'roots, binomials, scaled roots, random coefficients with ratios up to 1e6), refine false/true, and every call is validated: count = degree, all finite, normwise '
         'backward error max_z |p(z)|/(max|a_k| max(1,|z|)^n) within the per-path guard of Roots.tla (1e-13 linear, 2e-13 quadratic and refined cubic, 5e-13 degree >= 4 refined, 1e-8 degree >= 4 unrefined, 1e-4 unrefined cubic), for separated roots a one-to-one match within 1e-6*scale (for integer roots decided by TLC as set '
         'equality of the rounded values), degree 0 => panic.',
    note='The exact quadratic/triple-root branches and the skeleton are decided by TLC at design level; the values returned by the real code are judged on harness measurements '
         '(double-double Horner) against per-path constants calibrated on the unchanged tree (22 seeds, 1.96e6 calls) and frozen at >= 100x the worst conforming value: '
         'degree 1: 1e-15 -> 1e-13; degree 2: 2e-15 -> 2e-13; refined cubic 2e-15 -> 2e-13; degree >= 4 refined 5e-15 -> 5e-13; degree >= 4 unrefined 6.3e-11 -> 1e-8; '
         'unrefined cubic, by the conditioning amp = sum|terms|/|dis| of Cardano\'s discriminant (logged as amp_e): amp <= 1e11: 7.5e-11 -> 1e-8; 1e12..1e14: 1.3e-9 -> 1e-6; larger / dis = 0: 1.3e-7 -> 1e-4. Sequences of calls on ONE object (roots with both flags, repeated, interleaved with '
         'IndexMut / coeffs() assignment, push, pop / trim) are judged against the current coefficients, so remembered results are rejected. '
         'Three genuine defect classes are listed in '
         'known_findings.json and reported as KNOWN-FINDING (Laguerre cycling on (near-)symmetric root configurations, degree >= 4: accuracy clauses of the classes '
         'binomial/ring/sparse/coeffs; loss of a zero root when a cubic is polished: matching clause; unrefined cubic whose Cardano sign rule selects the cancelling branch (event field cancel = true; Re(d1) exactly 0 with the square root on the side opposite to the rule): accuracy clauses - the complementary sub-classes are generated deterministically (class `cardano`) and are strict); count, finiteness and rejection stay checked for them. "Well separated" is made precise as: all roots distinct and absolute root condition <= 1e3*scale (computed from the true roots at generation '
         'time), or distinct Gaussian-integer roots for the TLC cases. Random palindromic / anti-palindromic polynomials are strict at degree <= 6; degree 7-8 (anti-)palindromic polynomials are exercised only through the recorded D16 instances (five explicit degree-8 polynomials (x^n +- 1)(x +- 1)^2(x -+ 1), keyed by their coefficient list `pid8`, unrefined backward-error clause only; their refined runs and every other polynomial stay strict). The path taken inside the real code (which formula, how many Laguerre iterations) is not observed.',
    design='4 (C10)')


def _stamp(quick):
    def f(c, n):
        # TLC prints cases in a worker-dependent order: derive every choice from the case itself, not from its position
        n = zlib.crc32(json.dumps(c, sort_keys=True).encode())
        out = []
        real = all(x == 0 for x in c['im'])
        for ty in (['f64', 'cx'] if real else ['cx']):
            for refine in (False, True):
                if quick and real and ty == 'cx' and (n + refine) % 2:
                    continue
                out.append(dict(suite='roots', ty=ty, refine=refine, re=c['re'], im=c['im'], rre=c['rre'], rim=c['rim'], sep=c['distinct'], cls='tlc'))
        return out
    return f


def check(ctx):
    q = ctx.quick
    ctx.tlc_mc('MC_Roots', 'MC_Roots_quad_quick.cfg' if q else 'MC_Roots_quad.cfg', label='quadratic formula exact over Gaussian integers: all a, r1, r2 in -2..2 (quick: a in -1..1), both square-root branches')
    ctx.tlc_mc('MC_Roots', 'MC_Roots_cubic_quick.cfg' if q else 'MC_Roots_cubic.cfg', label='triple-root test d0 = d1 = 0 <=> r1 = r2 = r3')
    ctx.tlc_mc('MC_Roots', 'MC_Roots_skel.cfg', label='control skeleton degrees 0..6, both settings, all iteration outcomes: count, finiteness, work bound, rejection, termination')
    ctx.tlc_mc('MC_Roots', 'MC_Roots_D4.cfg', expect_violation='QuadFinite', label='D4 at design level: without the q = 0 guard the double root at zero is 0/0')
    ctx.tlc_mc('MC_Roots', 'MC_Roots_D8.cfg', expect_violation='SkelFinite', label='D8 at design level: a non-finite Laguerre step turns the iterate into NaN')
    nt = lambda e: True
    key = lambda e: {k: v for k, v in e.items() if k not in ('id', 'cid', 'be_e15', 'match_e12')}
    gen = ctx.tlc_cases('MC_Roots', 'Gen_Roots_quick.cfg' if q else 'Gen_Roots.cfg', transform=_stamp(q), name='gen_roots')
    ev1 = ctx.exec('roots', gen)
    ctx.validate('Trace_Roots', ev1, gen, 'roots', nontrivial=nt, key=key)
    ctx.exhaustive_parts.append('every multiset of 1..%d roots out of %d Gaussian integers times %d leading coefficients, expanded by TLC' % ((4, 7, 2) if q else (5, 9, 3)))
    cases = ctx.gen('roots')
    ev2 = ctx.exec('roots', cases)
    ctx.validate('Trace_Roots', ev2, cases, 'roots', nontrivial=nt, key=key)
    if not q:
        ctx.exhaustive_parts.append('all 100 842 quintics with coefficients in -3..3 (leading coefficient non-zero), both refinement settings')
    # calibration record
    worst_be, worst_m, cls, nsep = {}, 0, {}, 0
    def path(e):
        d, r = e['deg'], e['refine']
        return 'deg1' if d == 1 else 'deg2' if d == 2 else ('deg3/refined' if r else 'deg3/unrefined') if d == 3 else ('deg>=4/refined' if r else 'deg>=4/unrefined')
    for p in (ev1, ev2):
        for line in open(p):
            e = json.loads(line)
            cls[e['cls']] = cls.get(e['cls'], 0) + 1
            if e['deg'] >= 1 and e['lead_nz'] and not e['panic'] and e['fam'] not in ('lagcycle', 'cardanoaxis'):
                if e['chk'] in ('all', 'be'):
                    worst_be[path(e)] = max(worst_be.get(path(e), 0), e['be_e15'])
                if e['sep'] and e['chk'] == 'all':
                    nsep += 1
                    worst_m = max(worst_m, e['match_e12'])
    ctx.notes.append('events per class: %s; separated-root events: %d' % (cls, nsep))
    ctx.notes.append('calibration (this run): worst backward error %s (units of 1e-15, per path; guards: Roots.tla BeGuardE15 / BeGuardE6; known-finding classes excluded); worst matching distance for separated roots %d units of 1e-12*scale (guard 1e-6 = 1e6 units)' % (worst_be, worst_m))
    return ctx.finish(
        rule='cases: (i) every TLC-expanded product over multisets of small Gaussian-integer roots (f64 when the coefficients are real, Cmplx always), (ii) for every degree 1..12 '
             'and both coefficient types ten seeded root/coefficient patterns, (iii) the input classes of D4/D8, degree 0 and the empty list, (iv) every combination of zero / real / imaginary / general coefficients in every position of degree-1..3 polynomials with magnitudes spread up to 1e6 both ways, (v) sequences of calls and mutations on one object, and refused calls (degree 0, empty, index out of range, ...) immediately followed on the same thread by ordinary calls of every degree 1..8, twice, (vi) small-integer polynomials (coefficients -3..3): products (a*x^k + b)*q(x) for k = 2..5 (real and Gaussian-integer), palindromic / anti-palindromic polynomials, polynomials in x^2 and x^3 (times a linear factor), degree 4..6; every quintic with coefficients in -3..3 (thorough; a seeded sample in quick) and a sample of the sextics - roots matched against independent reference roots (Aberth iteration + double-double Newton) when these are simple and well conditioned; (vii) compositions p(x) = q(x^k), k = 2..4, inner q of degree 2..4 from the hard classes of the closed forms (perfect cube + constant in eight directions, Cardano axis sub-classes, quadratics with q = 0 / tiny discriminant / dominant middle coefficient, near-multiple roots) up to total degree 12, and random q up to total degree 8 (near-binomial compositions and random q(x^4) of degree 12 are instances of D10 and left out); each with refine = false and true. '
             'One event per call; distinct = distinct (class, degree, settings, measurements).',
        trusted=['harness measurements in double-double (harness/src/suites/roots.rs, dd.rs)', 'TLC', 'Roots.tla / Poly.tla'])
