"""Shared by c08.py / c09.py: turning TLC's exact 2x2 CG cases into harness cases of suite krylov."""
KINDS = [('cg', 1), ('bicg', 1), ('bicg', 2), ('bicgstab', 1), ('qmr', 1)]


def replay_cases(mode, budgets, all_kinds, tol_e=10):
    """transform for Ctx.tlc_cases: one harness case per (system, solver[, budget]); the exact solution (TLC's last
    rational iterate) and the exact iterates travel with the case."""
    def f(c, n):
        out = []
        xs = c['iters'][-1] if c['iters'] else [[0, 1], [0, 1]]
        kinds = KINDS if all_kinds else [KINDS[n % 5]]
        for (kind, itol) in kinds:
            for b in budgets:
                out.append(dict(suite='krylov', mode=mode, A=c['A'], b=c['b'], kx=c['k'], iters=c['iters'], xs=xs, kind=kind, itol=itol,
                                budget=b, tol=dict(m=1, e=tol_e), guess='zero', rhs='given'))
        return out
    return f


def op_counts(ctx, events_path):
    import json, collections
    cnt = collections.Counter()
    with open(events_path) as f:
        for line in f:
            if line.strip():
                cnt[json.loads(line)['op']] += 1
    return dict(cnt)
