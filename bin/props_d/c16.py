"""C16 - threaded dot product equals the sequential one for every length and CPU count; schedule independent."""
import json

PID = 'C16'

CLAIM = dict(
    text='ParDot.tla models dot_f64 as a concurrent machine (Spawn in order with the code\'s chunk rule, Work = one product per step arbitrarily interleaved, Join in spawn order, Finish) whose sums are '
         'TERMS (index sequences), so that non-associativity of float addition is respected. TLC checks for EVERY interleaving with len <= 8, nt <= 4 (quick) / len <= 12, nt <= 6 (thorough): Deterministic '
         '(the final term is schedule independent), EachIndexOnce (its flattening is 0..len-1 in order), InBounds, Disjoint, and Terminates under weak fairness; and the partition lemma Covers /\\ InOrder for '
         'ALL len 0..200 x nt 1..16 (3216 pairs, the property\'s whole stated range). Three deviation configurations (remainder dropped, ceiling chunk, completion-order join) must each produce their counterexample. '
         'The real code is then run under in-process sched_setaffinity for EVERY length 0..200 x EVERY worker count 1..16 (observed through num_cpus::get()) plus random lengths up to 10^5, under busy-loop load and under a '
         'narrower affinity than at the first call; Trace_ParDot demands of every run: three repetitions bit-identical, equal bit for bit to the sequential dot and - as an integer - to the exact dot product that TLC '
         'computes from the logged operands and to the value of the model\'s final term ExpectedTerm(len, nt) on them (integer data, all products non-zero, exact partial sums).',
    note='General (non exactly summable) data are judged up to reassociation only: repetitions bit-identical, |dot_f64 - dot| and |dot_f64 - double-double reference| <= 8 units of n*eps*sum|x_i y_i| (harness-measured). '
         'The chunk formula is not demanded by the trace spec (any in-order partition gives the same values). Schedules of the real threads are sampled (repetitions, load), not enumerated: exhaustiveness over schedules is a '
         'model-level result. Hook events (spawn/join) are not used: the hook commit does not exist; all verdicts are hook-free. Worker counts above the number of CPUs of the machine cannot be produced (recorded in notes). '
         'Trusted: TLC, num_cpus::get() as the worker count of the call, the projection of an f64 to its bit pattern / integer.',
    design='4 (C16)')


def check(ctx):
    q = ctx.quick
    ctx.tlc_mc('MC_ParDot', 'MC_ParDot_quick.cfg' if q else 'MC_ParDot.cfg',
               label='all interleavings of Spawn/Work/Join/Finish for len <= %d, nt <= %d: TypeOK, Deterministic, EachIndexOnce, InBounds, Disjoint; liveness Terminates under WF' % ((8, 4) if q else (12, 6)))
    ctx.tlc_mc('MC_ParDot', 'MC_ParDot_lemma.cfg', label='partition lemma Covers /\\ InOrder for all len 0..200 x nt 1..16 (one state per pair)')
    ctx.exhaustive_parts.append('partition lemma for all 3216 pairs (len 0..200, nt 1..16); all interleavings of the machine for len <= %d, nt <= %d' % ((8, 4) if q else (12, 6)))
    # deviation switches: each invariant must reject the behaviour it is there to exclude
    ctx.tlc_mc('MC_ParDot', 'MC_ParDot_dev_remainder.cfg', expect_violation='EachIndexOnce', label='deviation: last chunk not extended to len')
    ctx.tlc_mc('MC_ParDot', 'MC_ParDot_dev_ceil.cfg', expect_violation='InBounds', label='deviation: ceiling chunk size')
    ctx.tlc_mc('MC_ParDot', 'MC_ParDot_dev_join.cfg', expect_violation='Deterministic', label='deviation: partial sums added in completion order')
    ctx.tlc_mc('MC_ParDot', 'MC_ParDot_dev_lemma.cfg', expect_violation='Lemma', label='deviation: ceiling chunk size against the partition lemma')
    # impl -> spec
    cases = ctx.gen('pardot')
    ev = ctx.exec('pardot', cases)
    ctx.validate('Trace_ParDot', ev, cases, 'pardot', key=lambda e: (e['op'], e['len'], e['nt'], e.get('mode'), e.get('phase'), e['r1']))
    pairs, apairs, short, maxnt, avail = set(), set(), 0, 0, 0
    scarce = [0, 0, 0]   # events, calls that returned no value, calls that returned a value
    with open(ev) as f:
        for line in f:
            e = json.loads(line)
            if e['op'] == 'pardot_s':
                scarce[0] += 1
                scarce[1 if not e['returned'] else 2] += 1
                continue
            avail = e['avail']
            maxnt = max(maxnt, e['nt'])
            if e['len'] <= 200 and e['op'] == 'pardot':
                pairs.add((e['len'], e['nt']))
                if e.get('phase') == 'alias':
                    apairs.add((e['len'], e['nt']))
            if e['nt'] != e['want']:
                short += 1
    full = len([1 for p in pairs if 1 <= p[1] <= 16])
    ctx.notes.append('distinct (length 0..200, observed worker count) pairs executed on integer data: %d of 3216; largest observed worker count %d; CPUs available %d' % (full, maxnt, avail))
    ctx.notes.append('aliased calls x.dot_f64(&x): %d distinct (length 0..200, worker count) pairs on integer data' % len(apairs))
    ncase = sum(1 for l in open(cases) if '"scarce"' in l)
    ctx.notes.append('thread shortage (child processes with RLIMIT_AS = current size + 1..17 MiB): %d cases, %d calls with a verdict, %d of them failed to create threads (panic, no value), %d returned a value' % (ncase, scarce[0], scarce[1], scarce[2]))
    if scarce[1] < 3:
        ctx.assumptions.append('the address-space limit did not provoke thread-creation failures on this machine: the thread-shortage family was vacuous in this run')
    if short:
        ctx.assumptions.append('%d runs observed a worker count different from the requested one (fewer CPUs than 16 available): worker counts above %d were not exercised on the real code' % (short, maxnt))
    if full == 3216:
        ctx.exhaustive_parts.append('real code: every length 0..200 x every worker count 1..16 (3216 pairs), three repetitions each')
    return ctx.finish(
        rule='cases: every (length 0..200, worker count 1..16) pair on integer data (x3 data seeds in thorough), each followed by the ALIASED call x.dot_f64(&x) / x.dot(&x) on the same object (exact sum of squares; bit-identical to the two-object call x.dot_f64(&x.clone()), also on float data); per worker count ~11-39 lengths around the worker count each under busy-loop load, under a narrower affinity '
             'than at the first call, and with general float data; random lengths up to 10^5; overflowing sums of strictly positive finite data (every product finite, two or more of about 1e308, placed everywhere / in the first / middle / last chunk only / one at each end so that only the total overflows; x = y and x != y) for every worker count: three repetitions, sequential dot and aliased calls must all be +inf bit for bit. Signed-zero families on exact data (all products -0.0 / all +0.0 / mixed / one non-zero product among them, zeros on either operand) for every worker count: repetitions, dot and aliased calls compared as bit patterns with +0.0 (or the one product). Thread shortage: child processes whose address space is limited to the current size + 1/3/5/9/17 MiB (everything pre-allocated before, limit restored after) call dot_f64 twice; a child that dies gives no event and no verdict; demanded: a value that is returned equals the sequential product bit for bit (a panic returns no value). Long range: exact integer data at lengths w*B*k and w*B*k -+ 1 (B in {2^j, 3*2^j, 5*2^j} up to 2^17, k in 1..3, every worker count w; seeded sample in quick, full grid up to 2^22 elements in thorough) bit-identical to the exact value; vectors of 2^20, 2^21, 3*2^20 general elements at 2/3/7/16 workers called 30-50 times must give ONE bit pattern. One event per run. distinct = distinct (kind, length, observed worker count, mode, phase, bit pattern).',
        trusted=['num_cpus::get() observed in-process = worker count used by the call', 'harness projection of f64 to bit pattern and integer', 'TLC', 'double-double reference (general data only)'],
        extra=dict(pairs_covered=full, cpus_available=avail))
