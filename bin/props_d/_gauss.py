"""Shared helpers of the C01 / C02 checks (suite 'gauss', Gauss.tla / MC_Gauss.tla / Trace_Gauss.tla)."""
import collections, itertools, json
import vlib


def _perm_sign(p):
    s = 1
    for i in range(len(p)):
        for j in range(i + 1, len(p)):
            if p[i] > p[j]:
                s = -s
    return s


def gauss_int_det(re, im, n):
    """exact determinant of the Gaussian-integer matrix re + i*im (row-major lists), Leibniz formula; n <= 4"""
    tr, ti = 0, 0
    for p in itertools.permutations(range(n)):
        pr, pi = 1, 0
        for i in range(n):
            a, b = re[i * n + p[i]], im[i * n + p[i]]
            pr, pi = pr * a - pi * b, pr * b + pi * a
        s = _perm_sign(p)
        tr += s * pr
        ti += s * pi
    return tr, ti


def _transpose(d, n):
    return [d[j * n + i] for i in range(n) for j in range(n)]


def model_transform(kind, float_every):
    """Ctx.tlc_cases transform: every model case is run on Matrix<Rat> (with the model's exact expectation);
    every `float_every`-th case also on Matrix<f64> and on Matrix<Cmplx> (A + i*A' with A' the previous matrix of
    the same order; for systems / inverses only when that complex matrix is exactly nonsingular)."""
    prev = {}
    seen = [0]

    def f(c, _n_out):
        idx = seen[0]
        seen[0] += 1
        n = c['n']
        base = dict(c)
        base['suite'] = 'gauss'
        base['fam'] = 'model'
        if kind == 'det':
            base['inv'] = not c['sing']
        out = []
        r = dict(base)
        r['ty'] = 'rat'
        out.append(r)
        if idx % float_every == 0:
            fl = {k: v for k, v in base.items() if k not in ('want', 'wdet')}
            f64 = dict(fl)
            f64['ty'] = 'f64'
            out.append(f64)
            cx = dict(fl)
            cx['ty'] = 'cx'
            pa, pb = prev.get(n, (c['a']['d'], c.get('b', [0] * n)))
            im = None
            for cand in (pa, _transpose(pa, n), [0] * (n * n)):
                if gauss_int_det(c['a']['d'], cand, n) != (0, 0):
                    im = cand
                    break
            if kind == 'solve':
                # a real nonsingular A with zero imaginary part is always available as the last candidate
                cx['ai'] = dict(r=n, c=n, d=im)
                cx['bi'] = list(pb)
            else:
                im = pa
                cx['ai'] = dict(r=n, c=n, d=im)
                nons = gauss_int_det(c['a']['d'], im, n) != (0, 0)
                cx['inv'] = nons
                cx['sing'] = not nons
            out.append(cx)
        prev[n] = (c['a']['d'], c.get('b', [0] * n))
        return out
    return f


def nontrivial(e):
    return e.get('n', 0) >= 2 or e.get('panic')


HARD = ('uscale', 'bal', 'tinycol', 'tinyrow', 'unitpiv', 'cyc_upper', 'zerostage', 'depcol')


def census(ctx, events_path, expect, families=False):
    """vacuity guard: every (op, ty) branch of Trace_Gauss must have been exercised - with families=True also by the
    sequence cases (after at least one mutator) and by the special-value / extreme-magnitude families; returns worst float units"""
    cnt = collections.Counter()
    grp = collections.Counter()
    worst = collections.defaultdict(int)
    for e in vlib.read_ndjson(events_path):
        cnt[(e['op'], e['ty'])] += 1
        fam = e.get('fam', '')
        if fam.startswith('seq_') and e.get('k', 0) >= 2:
            grp[('seq', e['op'], e['ty'])] += 1
        for pre in ('sweep', 'wilk', 'large_', 'rowcol', 'st_'):
            if fam.startswith(pre):
                grp[(pre, e['op'], e['ty'])] += 1
        if 'sunits' in e or 'srunits' in e or 'cunits' in e or 'crunits' in e:
            grp[('sharp', e['op'], e['ty'])] += 1
        if fam.startswith('ill_') and '+b_A' in fam:
            grp[('ill', e['op'], e['ty'])] += 1
        if fam.startswith(HARD) and (e['ty'] == 'rat' or fam.startswith(('uscale', 'bal', 'tiny'))):
            grp[('hard', e['op'], e['ty'])] += 1
        for k in ('units_m', 'runits_m', 'lunits_m', 'sunits_m', 'srunits_m', 'cunits_m', 'crunits_m', 'sdunits_m'):
            if k in e:
                kk = '%s.%s.%s' % (e['op'], k, e['ty'])
                worst[kk] = max(worst[kk], e[k])
    # Vacuity is a statement about the CHECK, not about the code under test: every call is logged as an event even when
    # it panics or returns garbage (then the trace specification rejects it), so the counts below do not depend on the
    # implementation; and they are only enforced when validation reported nothing.
    if ctx.violations:
        return cnt, worst
    for k in expect:
        if cnt[k] == 0:
            raise vlib.ToolError('no %s/%s event in %s: a branch of Trace_Gauss is not exercised' % (k[0], k[1], events_path))
        if families and k[0] in ('solve', 'agree') and k[1] != 'rat' and grp[('ill',) + k] == 0:
            raise vlib.ToolError('no ill-conditioned %s/%s event in %s' % (k[0], k[1], events_path))
        if families and k[1] != 'rat':
            need = ['sweep', 'wilk', 'rowcol', 'st_'] + (['large_'] if k[0] in ('solve', 'agree') else []) + (['sharp'] if k[0] in ('solve', 'agree', 'inverse') else [])
            miss = [g for g in need if grp[(g,) + k] == 0]
            if miss:
                raise vlib.ToolError('no %s %s/%s event in %s' % (miss, k[0], k[1], events_path))
        if families and (grp[('seq',) + k] == 0 or grp[('hard',) + k] == 0):
            raise vlib.ToolError('no sequence / special-family %s/%s event in %s' % (k[0], k[1], events_path))
    return cnt, worst


def merge_worst(into, worst):
    for k, v in worst.items():
        into[k] = max(into.get(k, 0), v)


def guard(n, cx):
    return (8 if cx else 1) * 8 * n ** 3 * 2 ** (n - 1)
