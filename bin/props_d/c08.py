"""C08 - iterative solvers: reported success means solved to the tolerance."""
import json
from _krylov_common import replay_cases, op_counts

PID = 'C08'

CLAIM = dict(
    text='Krylov.tla models the success/budget protocol shared by solve_cg, solve_bicg (itol 1 and 2), solve_bicgstab and solve_qmr (Start, AcceptInitial, Iterate, HalfStepExit, Breakdown, ReturnOk, Exhaust) with the residual classes and breakdowns chosen by the environment. '
         'TLC checks exhaustively for the four kinds, budgets 0..3 (quick) / 0..5 (thorough) and every environment: OkMeansPassed (Ok(k) only when the residual test passed at iteration k, k <= budget), BudgetZeroUntouched, the variant (strictly decreasing measure, it grows by at most one per step), termination under weak fairness, and PrefixClosed (the run with any smaller budget fed the same environment is a prefix: Err after j iterations for j < k, the identical Ok(k) for j >= k). '
         'Against the real code TLC validates every recorded call: systems of order 1..60 (SPD, strictly dominant nonsymmetric, symmetric indefinite, general nonsymmetric, ill-conditioned up to 1e12 incl. Hilbert, exactly singular, zero right-hand side; every pattern and triplet order), guesses zero/random/exact, tolerances 1e-12..1e-2, budgets {0,1,2,n,2n,1000}, plus all TLC-enumerated 2x2 integer SPD systems with budgets 0..3. '
         'plus structured small-integer systems on which the recurrences break down EXACTLY (triangular, block triangular, rows/columns holding only the diagonal, diag(+1,-1,..), skew, permutations, nilpotent shifts, singular blocks; right-hand sides e_k for every k, e_i+e_j, ones, A e_k; all solvers, budgets >= 2), systems with known eigenvectors for one-step collapses (diagonal, Householder-symmetric, nonsymmetric 2x2 / triangular / block-diagonal; b = v_i + d v_j, v_i + v_j + d v_k and the part of v_j orthogonal to v_i plus d v_i, d = 1e-4..1e-13, tol 1e-12..1e-6, zero and small guesses), independent decimal scales of the three arguments (x0, A, b each from 1e-170..1e150 with A*x0, b and the solution kept in the normal range; the reference norms and residuals are evaluated with scaling, never by squaring raw entries), ties with the user-supplied tolerance (dyadic constructions blockdiag(1-e, 1+e)*2^sa, b = +-2^sb, 2..8 unknowns, where the first residual relative to |b| equals e = 2^-k bit for bit, tol = e and its two neighbouring f64; feedback ties: tol := the Err(resid_k) value returned with budget k and a tiny tolerance, and for BiCGSTAB the half-step residuals recomputed through the public API in the operation order of the solver, each with both neighbours and budgets k-1, k, k+1, 1000), and sequences on ONE Sparse object (products/solves, then insert overwriting an existing diagonal/off-diagonal entry, insert of a new entry, scale, transpose(), direct writes to the public fields val / row_index / col_start, also two alternating objects and extreme legal budgets up to usize::MAX, each followed by a solve with every solver, judged against the independently tracked CURRENT dense matrix). '
         'Guards (in Trace_Krylov.tla): Ok(k) => k <= budget, x finite, res_units <= 1 (QMR: calibrated 100, on the structured family 2000, because the residual-gap theorem does not cover its coupled recurrences); budget 0 => x bit-identical; the re-runs with budgets 1..k are Err for j < k and Ok(k) with the same x for j = k.',
    note='Decided exactly by TLC: the protocol properties on the model. Resting on harness measurements: the true residual ||b - A x||_2 (double-double, from a dense copy assembled from the triplets, not from the Sparse object), '
         'the drift unit 8*(p+10)*max(k,1)*eps*(||A||_F*max_j||x_j|| + ||b||)/||b|| with max_j over the iterates obtained hook-free by re-running with budgets 1..k, bit patterns / a 64-bit FNV fingerprint of x. '
         'For a zero right-hand side the solvers divide by 1 instead of ||b||; the same convention is used for the true relative residual. Nothing is demanded of Err results or of iterates.',
    design='4 (C08)')


def check(ctx):
    q = ctx.quick
    ctx.tlc_mc('MC_Krylov', 'MC_Krylov_quick.cfg' if q else 'MC_Krylov.cfg',
               label='protocol: 4 kinds x budgets 0..%d x every smaller budget x every residual-class/breakdown sequence; OkMeansPassed, BudgetZeroUntouched, PrefixClosed, Variant, termination' % (3 if q else 5))
    nt = lambda e: e['op'] == 'prefix' or bool(e.get('ok'))
    # spec -> impl: every 2x2 SPD integer system of the exact CG model, budgets 0..3 (the exact run needs k <= 2 iterations)
    gen = ctx.tlc_cases('MC_Krylov', 'Gen_Krylov_quick.cfg' if q else 'Gen_Krylov.cfg', transform=replay_cases('c08', [0, 1, 2, 3], not q), name='gen_krylov_c08')
    ev = ctx.exec('krylov', gen)
    ctx.validate('Trace_Krylov', ev, gen, 'krylov', nontrivial=nt)
    ctx.exhaustive_parts.append('every 2x2 symmetric strictly dominant integer system of the exact CG model (diagonal 2..%d, off-diagonal up to %d, right-hand sides -%d..%d) with budgets 0..3' % ((4, 1, 2, 2) if q else (6, 2, 3, 3)))
    cnt1 = op_counts(ctx, ev)
    # impl -> spec
    cases = ctx.gen('krylov', name='krylov_c08', tier=ctx.tier + ':c08')
    ev = ctx.exec('krylov', cases)
    ctx.validate('Trace_Krylov', ev, cases, 'krylov', nontrivial=nt)
    cnt2 = op_counts(ctx, ev)
    nok = sum(1 for l in open(ev) if '"op":"solve"' in l and '"ok":true' in l)
    ctx.notes.append('events per op: TLC cases %s; generated %s; generated calls answering Ok: %d' % (json.dumps(cnt1), json.dumps(cnt2), nok))
    ctx.assumptions.append('zero right-hand side: relative residual taken with denominator 1 (the convention of all four solvers)')
    return ctx.finish(
        rule='cases: (i) every TLC-enumerated 2x2 system x solver x budget 0..3, (ii) seeded systems: 9 families x 5 solver variants (plus (iii) 14 structured shapes x orders 2..5 and one of 6..10 x every e_k/e_i+e_j/ones/A e_k x 5 solver variants, (iv) sequences of 2 in-place mutations on one Sparse object with all solvers after each) x orders 1..60 (each order comes round for each family/solver pair in thorough) x budgets {0,1,2,n,2n,1000} x tolerances 1e-12..1e-2 x guesses zero/random/exact x right-hand sides zero/random/A*x; '
             'one "solve" event per call plus one "prefix" event (k re-runs) per successful call with k >= 1. Non-trivial = the call answered Ok (the implication has a true antecedent) or a prefix event; distinct = distinct event contents.',
        trusted=['harness measurement of the true residual and drift unit (harness/src/suites/krylov.rs, dd.rs)', 'TLC', 'Krylov.tla protocol as the reference'])
