"""Shared by c06.py / c07.py (not a property module: the leading underscore keeps it out of discovery)."""
import json, random
import vlib

TYS = ['rat', 'f64']
STATE_OPS = ('from_triplets', 'from_vecs', 'insert', 'scale', 'transpose')


def ctor_steps(c, kind):
    """constructor step of a TLC-generated case: the triplet list in TLC's order, or the raw arrays TLC computed from it
    (these run through every within-column order because every triplet order is enumerated)."""
    if kind == 'from_vecs':
        s0 = c['exp'][0]
        return dict(op='from_vecs', arg=dict(rows=c['rows'], cols=c['cols'], val=s0['val'], ri=s0['ri'], cs=s0['cs']))
    return dict(op='from_triplets', arg=dict(rows=c['rows'], cols=c['cols'], ts=c['ts']))


def transform_c06(both_ctors):
    """TLC behaviour -> C06 case(s): constructor + the model's operations; `exp` (the concrete states of the
    transcribed algorithms) is kept for the informational storage-order comparison only."""
    def f(c, n):
        out = []
        kinds = ['from_triplets', 'from_vecs'] if both_ctors else [['from_triplets', 'from_vecs'][(n // 2) % 2]]
        for q, kind in enumerate(kinds):
            out.append(dict(suite='sparse', prop='C06', ty=TYS[(n + q) % 2], steps=[ctor_steps(c, kind)] + c['ops'], exp=c['exp']))
        return out
    return f


def _distinct(rnd, n):
    return rnd.sample([v for v in range(-15, 16) if v != 0], n)


def _unit(n, k, v):
    return [v if n and i == k % n else 0 for i in range(n)]


def _zero_vec(rnd, n, kind):
    base = _distinct(rnd, n)
    single = rnd.randrange(n) if n else 0
    out = []
    for k in range(n):
        z = [k == 0, k + 1 == n, k % 2 == 0, k % 2 == 1, k != single, True, k % 3 != 1][kind]
        out.append(base[k] if not z else ('-0' if kind >= 6 else 0))
    return out


def _products(rnd, r, k):
    """one probe: the main pair (pairwise distinct non-zero components) + the battery with exact zeros
    (e_j for every j, zeros first / last / alternating, single non-zero entry, all zero, negative zero)"""
    zx = [_unit(k, j, 1) for j in range(max(r, k))] + [_zero_vec(rnd, k, kind) for kind in range(7)]
    zy = [_unit(r, j, 1) for j in range(max(r, k))] + [_zero_vec(rnd, r, kind) for kind in range(7)]
    return dict(op='products', x=_distinct(rnd, k), y=_distinct(rnd, r), a=rnd.choice([-3, -2, -1, 0, 2, 3]), zx=zx, zy=zy)


def transform_c07(seed, both_ctors):
    """TLC behaviour -> C07 case(s): a products event on every state of the behaviour; vectors drawn
    deterministically from (seed, case number)."""
    def f(c, n):
        rnd = random.Random(seed * 1000003 + n)
        out = []
        kinds = ['from_triplets', 'from_vecs'] if both_ctors else [['from_triplets', 'from_vecs'][(n // 2) % 2]]
        for q, kind in enumerate(kinds):
            r, k = c['rows'], c['cols']
            steps = [ctor_steps(c, kind), _products(rnd, r, k)]
            for o in c['ops']:
                steps.append(o)
                if o['op'] == 'transpose':
                    r, k = k, r
                steps.append(_products(rnd, r, k))
            out.append(dict(suite='sparse', prop='C07', ty=TYS[(n + q) % 2], steps=steps))
        return out
    return f


def op_counts(events_path, need):
    """vacuity guard: every branch of the trace specification must be exercised by the recorded events"""
    cnt = {}
    conf = [0, 0]
    with open(events_path) as f:
        for line in f:
            if not line.strip():
                continue
            e = json.loads(line)
            cnt[e['op']] = cnt.get(e['op'], 0) + 1
            if 'conf' in e:
                conf[0] += 1
                conf[1] += 1 if e['conf'] == 0 else 0
    for op in need:
        if not cnt.get(op):
            raise vlib.ToolError('no %s event recorded in %s (vacuous run)' % (op, events_path))
    return cnt, conf


def nontrivial(e):
    if e['op'] == 'products':
        return bool(e.get('panic')) or bool(e.get('x')) or bool(e.get('y'))
    return bool(e.get('panic')) or e.get('f', {}).get('nz', 0) > 0
