"""C20 - mismatched shapes / out-of-range arguments are rejected; borrowed operands are never mutated; clones are independent."""
import json, re
import vlib

PID = 'C20'

CLAIM = dict(
    text='Guards.tla holds the table of checked entry points (DESIGN Appendix B) as TLA+ data: for each group its parameter kinds, '
         'acceptance predicate, forms (by-reference / consuming / &self), borrowed-operand counts and target flag. TLC checks the table for '
         'consistency and enumerates EVERY size/index tuple (sizes, band widths and variable counts 0..6, indices 0..7, band offsets -7..7; quick: sizes 0..4, indices 0..5, widths/counts 0..2) of '
         'every group; the harness executes every form of the group on operands of exactly those sizes and the trace specification, which '
         'recomputes the acceptance from the tuple, demands: not accepted => every form panicked, and for an out-of-range row/column/band/node/entry '
         'address the receiver is bit-for-bit unchanged after the panic; accepted => no panic (on well-formed operands: every size >= 1, band widths '
         'below the dimension), every borrowed operand bit-for-bit unchanged (FNV hash of the IEEE bit patterns and the integer values), all forms '
         'return the same result; and the set of entry points executed equals the table key set. The same tuples are executed again (sizes 0..4, quick 0..3) on AGED receivers - built at an old size and brought to the tuple size by every size-changing operation of the type (Vector resize/pop/push/clear/insert, Matrix resize/delete_row/transpose_in_place/clear, Banded::resize, Tridiagonal::resize, Sparse insert/transpose, Polynomial push/pop/trim, Mesh1D::read with fewer/more nodes; the predicate is evaluated on the NEW size; the old state also shares SOME dimensions with the new one - same length, same rows*cols in another shape, same n and m1+m2 with another split, same widths with another n, no-op resize; indices and operand sizes cover the old and the new layout) - and every by-reference/consuming pair is executed on operand VARIANTS (negative entries, zeros, -0.0; second operand distinct / equal / all-zero / identity / the SAME object; scalars 0.0, -0.0, 1, -1, 2, 0.5), results compared by IEEE bit pattern. Finally every pair is run on INEXACT operands (tenths, thirds, random significands, magnitudes 1e-8..1e8 within one operand, seeded by VERIF_SEED; f64 and Complex<f64> elements) over every accepted shape / length relation (sizes 0..6, polynomial lengths 0..9; quick 0..4 / 0..7): each result is logged as its list of 16-hex-digit bit patterns and the trace specification demands equal lists (and shapes) for all forms. Ohsl.tla gives the workspace semantics '
         '(Create, Clone, Mutate - incl. the size-changing operations - changes one object only, Observe changes nothing, Convert, Drop); TLC proves Independent over every interleaving '
         'of <= 4 mutations of a value and its clone for Vector, Polynomial, Matrix, Banded, Tridiagonal (an aliasing clone is exhibited as a '
         'counterexample), replays those interleavings on the real types, and validates 200-step random workspace sessions over all eight '
         'container kinds incl. cross-type conversions: after every step the value of EVERY live object must equal the model value.',
    note='Exact (integer data, bit patterns). Not demanded (soundness, DESIGN section 7): accept => no panic for zero-sized or ill-formed operands; '
         'state after a rejected compound assignment; cross_section_x/ynode with an out-of-range node on a mesh that has no node in the other '
         'direction (the code copies nothing and returns an empty section - observed, reported as a note). The single-argument index operators of Vector, Polynomial, Mesh1D (node) and the checked (i,j) index of Tridiagonal are table rows (read and write) and are run on receivers shrunk by read/resize/pop/trim/clear with indices valid for the old size only. Excluded by the property: raw (i,j) index of '
         'Matrix, Banded, Mesh2D; Sparse::from_vecs. Newton::solve_jacobian (vector Newton) has no accessor to project its receiver and is left to C17. '
         'Sparse/Mesh1D/Mesh2D implement no Clone, so clone independence covers the five clonable kinds. Trusted: TLC, the harness projections '
         '(guards.rs: pj/val), the binding of names to calls in guards.rs (a missing binding is a tool error; a skipped entry point fails the coverage event).',
    design='4 (C20)')


def _table_keys(out):
    m = re.search(r'^<<"TABLE", "(.*)">>$', out, re.M)
    if not m:
        raise vlib.ToolError('MC_Guards did not print its TABLE line')
    return set(json.loads(m.group(1).replace('\\"', '"')))


def _stamp(kind, seed=1):
    def f(c, n):
        d = dict(c)
        d['kind'] = kind
        d['vseed'] = seed          # the inexact operand data depend on VERIF_SEED
        d['suite'] = 'guards'
        return [d]
    return f


def check(ctx):
    q = ctx.quick
    r = ctx.tlc_mc('MC_Guards', 'MC_Guards_quick.cfg' if q else 'MC_Guards.cfg',
                   label='table consistency (ASSUME TableOK) + every (group, tuple) combination; invariant: accept field = predicate')
    keys = _table_keys(r['out'])
    ctx.tlc_mc('MC_Ohsl', 'MC_Ohsl_quick.cfg' if q else 'MC_Ohsl.cfg',
               label='every interleaving of <= %d mutations of a value and its clone, 5 kinds; invariants Independent, Shape; property OnlyTarget' % (3 if q else 4))
    ctx.tlc_mc('MC_Ohsl', 'MC_Ohsl_alias.cfg', expect_violation='Independent',
               label='deviation switch Deep = FALSE (clone is an alias): Independent must fail')

    # ---- spec -> impl: every enumerated tuple on the real entry points
    cases = ctx.tlc_cases('MC_Guards', 'Gen_Guards_quick.cfg' if q else 'Gen_Guards.cfg', transform=_stamp('call', ctx.seed), name='gen_guards')
    n = sum(1 for _ in open(cases))
    with open(cases, 'a') as f:
        f.write(json.dumps(dict(kind='coverage', suite='guards', cid=n + 1)) + '\n')
    ev = ctx.exec('guards', cases)
    seen = set()
    groups = set()
    for e in vlib.read_ndjson(ev):
        if e.get('op') == 'call':
            groups.add(e['g'])
            for fr in e['forms']:
                seen.add(e['g'] + '.' + fr['f'])
    if seen != keys:
        raise vlib.ToolError('entry points executed differ from the table: missing %s, extra %s' % (sorted(keys - seen)[:8], sorted(seen - keys)[:8]))
    ctx.validate('Trace_Guards', ev, cases, 'guards', key=lambda e: (e.get('g'), e.get('t'), [(fr['f'], fr['panic']) for fr in e.get('forms', [])]))
    ctx.exhaustive_parts.append('%d entry points in %d groups, every size/index tuple of the stated range on fresh operands, on aged receivers (every size-changing preparation) and on the operand variants of the pairs (%d calls)' % (len(keys), len(groups), n))

    # ---- spec -> impl: every clone/mutation interleaving of the model on the real types
    cl = ctx.tlc_cases('MC_Ohsl', 'Gen_Ohsl_quick.cfg' if q else 'Gen_Ohsl.cfg', transform=_stamp('clone'), name='gen_ohsl')
    ev2 = ctx.exec('guards', cl)
    ctx.validate('Trace_Guards', ev2, cl, 'guards')
    ctx.exhaustive_parts.append('all interleavings of %d mutations of an original and its clone (Vector, Polynomial, Matrix, Banded, Tridiagonal)' % (3 if q else 4))

    # ---- impl -> spec: random workspace sessions
    ss = ctx.gen('guards', name='sessions')
    ev3 = ctx.exec('guards', ss)
    ctx.validate('Trace_Guards', ev3, ss, 'guards')
    ctx.notes.append('Mesh2D::cross_section_xnode(i >= nx) on a mesh with ny = 0 (and cross_section_ynode(j >= ny) with nx = 0) returns an empty Mesh1D '
                     'instead of panicking; degenerate zero-size receiver, outside the demanded part (Guards!RejDom).')
    ctx.assumptions.append('dev profile with overflow checks: usize underflows such as Tridiagonal n - 1 for n = 0 panic')
    return ctx.finish(
        rule='cases: (i) every (group, tuple) of the Guards table enumerated by TLC - one event per call carrying all forms; (ii) every TLC-enumerated '
             'clone/mutation interleaving (create, clone, 3-4 mutations: one event per step with all live objects); (iii) seeded random 200-step '
             'workspace sessions. Every event is non-trivial; distinct = distinct (group, tuple, per-form outcome) resp. distinct session steps.',
        trusted=['harness projections pj/val and the name -> call binding (harness/src/suites/guards.rs)', 'TLC', 'Guards.tla table as the statement of Appendix B',
                 'Dense.tla operators for the session model'],
        extra=dict(entry_points=len(keys), groups=len(groups)))
