"""C02 - determinant and inverse."""
import _gauss as G

PID = 'C02'

CLAIM = dict(
    text='Gauss.tla extends the LU machine with Det = (-1)^exchanges * prod U_ii and InverseColumn(j), and states the required treatment of a column that is zero on and below the diagonal (skip: no division, determinant exactly 0). '
         'TLC (i) factorises EVERY matrix of the scope, singular ones included (all 2401 2x2 over -3..3, all 19 683 3x3 over {-1,0,1} in thorough, 4 374 of them in quick), through every pivot tie and checks Det = Leibniz determinant, '
         'A*Inv = Inv*A = I for the nonsingular ones, P*A = L*U; with the switch SkipZeroColumn = FALSE (the behaviour before the repair of D6) TLC exhibits the counterexample; '
         '(ii) emits every matrix as a case: Matrix<Rat>::determinant must equal the model value exactly, inverse() must be the two-sided inverse; '
         '(iii) validates recorded calls for orders 1..8 (dense, sparse, triangular, permuted triangular, permutation-like with 0-3 transpositions i.e. both parities, forced exchanges at step s, zero rows/columns, duplicated rows/columns, row sums, low rank, zero matrix, graded, scaled, tiny entries 2^-20..2^-997 beside one normal pivot candidate): '
         'plus (hardening) an all-zero pivot column at every stage s (structural and as a dependent column), unit-modulus pivots (+-1, +-i, (3+4i)/5), exactly unit triangular / elementary / diagonal (also singular) matrices, uniform scaling 2^+-60 / 2^+-200 / 2^+-400 and balanced gradings / one tiny column (determinant called wherever ||A||_F^n and the pivot products stay representable, inverse at every scale), '
         'and SEQUENCES on one Matrix object: determinant(), inverse(), then each of 21 mutators (IndexMut, set_row/col, swap_rows/elem, fill*, += -= *= /=, scalar +=/-=, transpose_in_place, resize), then determinant(), inverse() again, judged against the entries the object holds at that moment. '
         'Rat determinant = fraction-free determinant recomputed by TLC from the logged matrix, inverse products exactly I, matrix projected after each &self call equal to the one before; f64/Complex: |det^ - det| <= n eps\' ||A||_F^n and inverse residuals within the GEPP bound, bit patterns of the matrix unchanged.',
    note='Exact over Rat at every order (sign/parity, zero for singular input). The float determinant guard is an a-priori perturbation bound and is loose at n = 8 (it detects NaN/garbage, not a sign error on a tiny determinant there); the float reference determinant is exact integer arithmetic (cross-checked by TLC) for integer input and double-double elimination otherwise. '
         'The left inverse residual is judged in units that carry one condition number ((X - A^-1)A), it is only judged when kappa_inf <= 1e8 (never for graded input); the right residual is judged always. inverse() of a singular matrix is outside the property and not called. Trusted: TLC, harness projections, dd.rs.',
    design='4 (C02)')

EXPECT = [('det', ty) for ty in ('rat', 'f64', 'cx')] + [('inverse', ty) for ty in ('rat', 'f64', 'cx')]


def check(ctx):
    q = ctx.quick
    ctx.tlc_mc('MC_Gauss', 'MC_GaussDet_quick.cfg' if q else 'MC_GaussDet.cfg',
               label='LU machine + Det + InverseColumn on every matrix of the scope incl. singular, every pivot tie: Det = Leibniz, A*Inv = Inv*A = I, P*A = L*U, |multipliers| <= 1, Bareiss = Leibniz')
    ctx.tlc_mc('MC_Gauss', 'MC_GaussDet_D6.cfg', expect_violation='Inv_Det',
               label='deviation switch SkipZeroColumn = FALSE (defect D6, repaired): division by a zero pivot column, determinant undefined')
    worst = {}
    gen = ctx.tlc_cases('MC_Gauss', 'Gen_GaussDet_quick.cfg' if q else 'Gen_GaussDet.cfg', transform=G.model_transform('det', 3 if q else 2), name='gen_gauss_det')
    ev = ctx.exec('gauss', gen)
    ctx.validate('Trace_Gauss', ev, gen, 'gauss', nontrivial=G.nontrivial)
    G.merge_worst(worst, G.census(ctx, ev, EXPECT)[1])
    ctx.exhaustive_parts.append('every matrix of the model scope (n <= 3, singular included): determinant() on Matrix<Rat> = Leibniz determinant, inverse() two-sided')
    cases = ctx.gen('gauss', name='gauss_c02', tier=ctx.tier + ':c02')
    ev = ctx.exec('gauss', cases)
    ctx.validate('Trace_Gauss', ev, cases, 'gauss', nontrivial=G.nontrivial)
    cnt, w = G.census(ctx, ev, EXPECT, families=True)
    G.merge_worst(worst, w)
    ctx.notes.append('worst float MILLI-units observed (guard in units: 8 n^3 2^(n-1), x8 complex): %s' % dict(sorted(worst.items())))
    return ctx.finish(
        rule='cases: (i) every matrix of the TLC scope on Rat, every 2nd/3rd also on f64 and Complex (A + iA\'), (ii) seeded matrices of order 1..8 in 27 families (nonsingular and singular) for Rat, f64, Complex, (iii) special-value and extreme-magnitude families, (iv) 21 mutator sequences on one object. '
             'Each case = determinant() and, for provably nonsingular input, inverse(). (v) 60/500 HISTORIES (mix cases: 8 calls whose sizes zig-zag across Rat/f64/Complex, some of them unlogged solver calls; a replay re-executes the whole history), (vi) dense-stored band / lower-triangular matrices with a small diagonal. Every call is logged even when it panics or returns a result of the wrong shape (such an event is rejected, never a tool error). (vii) EXPONENT SWEEP of exchange-requiring matrices by 2^k, k = -950..950 step 25 plus +-511..+-600 (Complex |k| <= 500): inverse at every k, determinant where ||A||_F^n is representable, (viii) growth adversaries (graded Wilkinson, rho = 0.9..1000, n = 2..8, noisy entries, transposed / row-permuted). Float inverse events additionally carry srunits = max|AX - I| in units of eps || |L||U| || max|X| (reference elimination in double-double, logged only when no pivot choice is nearly tied), guard 64 n (x8 complex). (ix) MIXED MAGNITUDES within one matrix (D1 A0 D2, independent power-of-two row / column scalings; exact reference det(A0) 2^(sum of exponents); determinant judged by |det^ - det| <= 64 n eps |det| tr(|A^-1||L||U|), inverse by the componentwise residual), (x) STRUCTURED small-integer matrices of order 5..12 (symmetric with cancelling signed row sums incl. vanishing leading minors, skew + diagonal, persymmetric, Toeplitz, circulant, arrowhead, singular leading block), (xi) POISONED histories (panicking calls through every entry point followed by logged calls). (xii) inverse() at order 257 (quick) and 300, 513 (thorough), judged by the componentwise residual. Non-trivial: n >= 2. Distinct = distinct (call, element type, operand hash, outcome).',
        trusted=['TLC', 'harness/src/suites/gauss.rs projections, double-double reference determinant and residuals (harness/src/dd.rs)', 'Gauss.tla definitions (Leibniz determinant, fraction-free determinant cross-checked against it) as the reference'],
        extra=dict(worst_float_milliunits=worst))
