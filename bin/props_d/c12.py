"""C12 - polynomial division."""
import json

PID = 'C12'

CLAIM = dict(
    text='PolyDiv.tla is the long-division loop of polydiv as a state machine (q, r, count) over exact rationals, with named switches for floating-point rounding of the '
         'cancelled leading term and for the explicit clearing of that term (the repair of D7). TLC checks, for ALL dividends of degree <= 3 and divisors of degree <= 2 over '
         '-2..2 (-1..1 in the quick tier; empty polynomials, zero divisors, divisors longer than the dividend included) and every rounding residue at every step: the loop '
         'invariant u = q*v + r, the variant (deg r strictly decreases), at most deg u - deg v + 1 steps, final deg r < deg v or r = 0, zero/empty divisor rejected without '
         'iterating, never "exceeded maximum iterations", termination; with the switches set to the code before the repair TLC exhibits the StepBound and NeverGivesUp '
         'counterexamples. Every (u, v) of the model and recorded runs of the real code for all (len u, len v) in 0..11 x 0..7 are validated: over Rat (and f64 runs whose '
         'arithmetic is exact, and Complex<f64> on Gaussian integers with divisor lead 1, -1, i, -i) TLC checks u = q*v + r, the degree condition and equality with the machine\'s (q, r) exactly; for general f64 (coefficient ratios up to 1e6) '
         'and Complex<f64> the outcome must be Ok with deg r < deg v or r = 0 and identity residual <= 16*(deg u+1) units of eps*(||u||inf + ||q||1*||v||inf) (double-double).',
    note='Exact part decided by TLC on reduced rationals. Float part: the residual is measured by the harness in double-double; the guard 16*(deg u+1) is an a-priori bound '
         '(each coefficient of r is updated at most deg u - deg v + 1 times, each update commits at most 2 rounding errors of relative size eps/2 on quantities bounded by '
         '||u||inf + ||q||1*||v||inf) with a factor >= 8, and was calibrated (worst observed value in the evidence notes). The number of loop iterations of the real code is not '
         'observable without a hook: exceeding the cap is observed as Err, a spin would be observed as a timeout (tool error). Divisors whose leading coefficient is zero '
         'without being the zero polynomial are outside the property and accepted.',
    design='4 (C12)')


def _stamp(c, n):
    out = []
    ints = lambda p: [x[0] for x in p]
    for ty in ('rat', 'f64x'):
        d = dict(suite='polydiv', ty=ty, u=ints(c['u']), v=ints(c['v']))
        # f64 is exact when the leading coefficient of v is a power of two (|lc| in {1, 2} here) - or v is zero/empty
        if ty == 'f64x' and d['v'] and abs(d['v'][-1]) not in (0, 1, 2):
            continue
        out.append(d)
    # Complex<f64> with the divisor multiplied by i (or -i): leading coefficient +-i when |lc(v)| = 1 -> exact over Gaussian integers
    v = ints(c['v'])
    if not v or abs(v[-1]) <= 1:
        sg = 1 if (sum(v) + len(c['u'])) % 2 == 0 else -1
        u = ints(c['u'])
        out.append(dict(suite='polydiv', ty='cxg', u=u, ui=list(reversed(u)), v=[0] * len(v), vi=[sg * x for x in v]))
    return out


def check(ctx):
    q = ctx.quick
    ctx.tlc_mc('MC_PolyDiv', 'MC_PolyDiv_quick.cfg' if q else 'MC_PolyDiv.cfg',
               label='exact arithmetic, repaired algorithm: identity, variant, step bound, remainder, zero divisor, termination; all (u,v) deg<=3/2 over %s' % ('-1..1' if q else '-2..2'))
    ctx.tlc_mc('MC_PolyDiv', 'MC_PolyDiv_round_quick.cfg' if q else 'MC_PolyDiv_round.cfg',
               label='floating-point rounding of the cancelled term (any residue at any step) with the leading term cleared explicitly: same invariants and termination')
    if not q:
        ctx.tlc_mc('MC_PolyDiv', 'MC_PolyDiv_orig.cfg', label='exact arithmetic, algorithm before the repair (relies on exact cancellation): conforms in exact arithmetic')
    ctx.tlc_mc('MC_PolyDiv', 'MC_PolyDiv_D7_step.cfg', expect_violation='StepBound', label='D7 at design level: rounding residue, leading term not cleared -> a second pass at the same degree')
    ctx.tlc_mc('MC_PolyDiv', 'MC_PolyDiv_D7_giveup.cfg', expect_violation='NeverGivesUp', label='D7 at design level: err_max_iter reached for a divisor with nonzero leading coefficient')
    nt = lambda e: bool(e.get('panic') or e.get('degu', -1) >= 0 or e.get('u'))
    gen = ctx.tlc_cases('MC_PolyDiv', 'Gen_PolyDiv_quick.cfg' if q else 'Gen_PolyDiv.cfg', transform=_stamp, name='gen_polydiv')
    ev = ctx.exec('polydiv', gen)
    ctx.validate('Trace_PolyDiv', ev, gen, 'polydiv', nontrivial=nt)
    ctx.exhaustive_parts.append('every (u, v) of the model (deg u <= 3, deg v <= 2 over %s) divided by the real Polynomial<Rat> and Polynomial<f64>' % ('-1..1' if q else '-2..2'))
    cases = ctx.gen('polydiv')
    ev = ctx.exec('polydiv', cases)
    ctx.validate('Trace_PolyDiv', ev, cases, 'polydiv', nontrivial=nt)
    ctx.exhaustive_parts.append('all 96 length pairs (len u, len v) in 0..11 x 0..7 over exact arithmetic')
    worst = {}
    kinds = {}
    for line in open(ev):
        e = json.loads(line)
        kinds[e['kind'] + '/' + e['ty']] = kinds.get(e['kind'] + '/' + e['ty'], 0) + 1
        if e['kind'] == 'float' and e['ok'] and e['lead_nz']:
            w = e['id_milli'] / 1000.0 / max(1, 16 * (e['degu'] + 1))
            if w > worst.get(e['ty'], (0, 0))[0]:
                worst[e['ty']] = (w, e['id_milli'] / 1000.0, e['degu'])
    ctx.notes.append('events per kind/type: %s' % kinds)
    ctx.notes.append('calibration (this run): worst identity residual as a fraction of the guard 16*(deg u+1): ' +
                     ', '.join('%s %.4f (%.2f units at deg u = %d)' % (t, w[0], w[1], w[2]) for t, w in sorted(worst.items())))
    return ctx.finish(
        rule='cases: (i) every (u, v) of the TLC model on Polynomial<Rat> and (exact) Polynomial<f64>; (ii) for every (len u, len v) in 0..11 x 0..7 random integer '
             'polynomials whose exact division stays within 16-bit numerators (Rat / exact f64 alternating); (iii) rational coefficients; (iv) zero/empty divisors and '
             'dividends; (v) general f64 / Complex<f64> coefficients with magnitudes 1e-3..1e3, the input of D7 included; '
             '(vi) special exact values: Complex divisors with leads of modulus 1 (i, -i, -1, 1, (3+4i)/5, (-4+3i)/5, (5+12i)/13), Gaussian-integer data (exact), monomial '
             'divisors c*x^m for m = 0..deg u+3, constant divisors, 0 / 1 / -1 forced into the constant, an inner and the leading position of u and v; (vii) sequences on ONE object used as dividend and as divisor before and after every mutator (IndexMut, coeffs() assignment / push / pop, trim), judged against the current coefficients; (viii) single index writes that flip the zero-ness of one object used as divisor and dividend (zero -> non-zero lead -> coefficients zeroed one at a time -> all zero: Err, never panic / Ok -> non-zero again; empty -> push), is_zero() observed around every write; Rat, f64 and Complex<f64>; (ix) refused calls (polydiv by the empty / zero polynomial, a vanishing leading coefficient that makes the exact type panic inside polydiv, index out of range) immediately followed on the same thread by ordinary divisions, twice. One event per call; distinct = distinct '
             '(operands, outcome) / (degrees, outcome, units).',
        trusted=['harness residual measurement in double-double (harness/src/suites/polydiv.rs, dd.rs)', 'TLC', 'PolyDiv.tla / Poly.tla'])
