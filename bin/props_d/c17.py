"""C17 - Newton: success means a root; bounded work; failure reported carrying the last iterate; state untouched."""

PID = 'C17'

CLAIM = dict(
    text='Newton.tla is the protocol machine common to the six solvers (f64, Cmplx, Vec64 solve / solve_jacobian, Vector<Cmplx> solve / solve_jacobian): Eval, IterEnd(met), '
         'ReturnOk only directly after IterEnd(TRUE), ReturnErr(last) only after exactly maxIter unmet steps, configuration never written. TLC (i) explores every behaviour for all variants, '
         'dimensions 1..3 (thorough 1..6), limits 0..4 (0..8), every oracle "criterion first met at step R / never", two consecutive solves: Iterations <= maxIter, Evals <= maxIter*(2n+3), '
         'maxIter = 0 => no Eval and Err(guess), Err carries the last iterate, Idempotent, outcome = closed form, projection lemma for the hook-free trace spec, termination; '
         'the switch MutatesGuess = TRUE exhibits the Idempotent counterexample; (ii) enumerates the problems with R in {never, 1, 2} as cases that the harness realises with root-free / linear functions '
         'and the real solver must report what the model reports; (iii) validates recorded executions of the real code event by event: the user closures log every call (bit patterns of the point), '
         'the driver logs parameters() before/after and the result; three solves per case on one object (limit m twice, then m+1). Decided exactly by TLC on the recorded bit patterns: '
         'event sequence is a behaviour of the machine, work bound, limit 0, no panic, parameters() unchanged, second call bit-identical, and Err carries the last iterate by prefix closure '
         '(the value carried under limit m is bit-equal to a point evaluated in step m+1 of the run with limit m+1, whose first evaluations repeat the shorter run bit for bit).',
    note='Units part (harness measurement, guard in Trace_Newton.tla): Ok => |x - x*| <= 8*(tol + delta^2 + eps(|x*|+1)) for families with analytically known simple roots and guesses inside the provable '
         'quadratic-convergence ball (radius <= m1/(2 M2): scalar families have sup|f\'|/inf|f\'| <= 2 on the ball, so |dx| <= tol implies |e| <= 8/3 tol before the last step; systems are diagonally dominant '
         'with gap >= 1.05 on the ball, so residual <= tol implies |e| <= tol (Varah)). Success is REQUIRED from limit 14 on (calibrated: worst observed 5-6 steps; 2x rule), failure is REQUIRED for the root-free, '
         'non-differentiable, NaN and constant families (criterion provably never met). Iterations are not observable hook-free; "exactly maxIter steps when the criterion is never met" is decided by the ladder rule (per-step cost inferred from the limit-1 run of the same object, nothing hard-coded), plus the evaluation bound, limit 0/1 cases and prefix closure. '
         'The vector variants expose no parameters() (needs T: Copy): their configuration is checked through behaviour (second call identical). KNOWN FINDING (known_findings.json): on the unchanged crate a NaN residual in a position >= 1 is ignored by Vector::norm_inf and the system solvers return Ok with NaN components; position 0 fails as required. Trusted: TLC, the recording closures and family definitions in newton.rs.',
    design='4 (C17)')


def _stamp(c, n):
    d = dict(c)
    d['suite'] = 'newton'
    return [d]


def check(ctx):
    q = ctx.quick
    ctx.tlc_mc('MC_Newton', 'MC_Newton_quick.cfg' if q else 'MC_Newton.cfg',
               label='every behaviour of the Newton protocol machine: 6 variants x dimensions x limits x oracles x evaluations per step, two solves: bounds, failure protocol, limit 0, idempotence, outcome law, projection lemma, prefix closure')
    ctx.tlc_mc('MC_Newton', 'MC_Newton_live.cfg', label='termination of two consecutive solves (liveness under weak fairness)')
    ctx.tlc_mc('MC_Newton', 'MC_Newton_mut.cfg', expect_violation='Idempotent',
               label='switch MutatesGuess = TRUE (a solve that stores its last iterate as the guess): the second solve differs - Idempotent is not vacuous')
    ctx.exhaustive_parts.append('all behaviours of the protocol machine in the stated scope (design level)')
    nt = lambda e: e.get('op') == 'end' and (e.get('cnt', 0) > 0 or e.get('maxit') == 0)
    key = lambda e: {k: v for k, v in e.items() if k not in ('id', 'cid')}
    # spec -> impl: the model's verdict for oracle R in {never, 1, 2} must be the real solver's verdict
    gen = ctx.tlc_cases('MC_Newton', 'Gen_Newton_quick.cfg' if q else 'Gen_Newton.cfg', transform=_stamp, name='gen_newton')
    ev = ctx.exec('newton', gen)
    ctx.validate('Trace_Newton', ev, gen, 'newton', nontrivial=nt, key=key)
    ctx.exhaustive_parts.append('every (variant, dimension, limit, R in {never,1,2}) of the model executed on the real solvers')
    # impl -> spec
    cases = ctx.gen('newton')
    ev = ctx.exec('newton', cases)
    ctx.validate('Trace_Newton', ev, cases, 'newton', nontrivial=nt, key=key)
    ctx.assumptions.append('generated functions are deterministic and pure; tol in [1e-12, 1e-4], delta in {1e-9..1e-6, 2^-26}, |x*| <= 4.3, limits 0..50')
    ctx.notes.append('calibration (unchanged tree, 20 seeds at thorough size, 159 549 successful basin solves of which 52 632 on structured-zero systems and 40 934 with permuted equations): worst steps to success 6 (limit from which success is required: NEED = 14 >= 2 x 6); worst distance 2.5e-4 units (guard 1 unit)')
    return ctx.finish(
        rule='cases: (i) every TLC-enumerated protocol problem with oracle R in {never, 1, 2}; (ii) per variant: polynomials with separated real/complex roots (product form, degree 1..5), e^z - c, cos z - z, '
             'diagonally dominant nonlinear systems (sine / square nonlinearity) of dimension 1..6 with exact Jacobians, guesses throughout the provable basin, tol 1e-12..1e-4, limits 0..50; '
             '(ii-b) systems of dimension 3..6 whose Jacobians have exact structural zeros in every arrangement (cyclic forward/backward, lower/upper triangular, arrow, chained 2-blocks, random sparse 1-2 off-diagonals per row) '
             'with coupling at 0.8-0.95 of the dominance limit (gap still >= 1.05), all four system variants; a quarter to a half of the systems list their equations in a permuted order (same root, same basin; the dense solve must pivot past zero entries); '
             '(iii) root-free, non-differentiable, NaN-producing, constant functions, a double root and a divergent iteration; '
             '(ii-c) special values: roots and / or guesses with components exactly -1, 0, -0, 1, +-2^k, all components equal, guess exactly at the root (root a little off a special guess so that it stays inside the basin), every variant, tol mostly <= 1e-9; '
             '(ii-d) nested / re-entrant use: outer functions F(x) = G(x) - G(x*) whose G couples to the solution w(x) of an inner system that the user function solves with a real ohsl Newton solve per evaluation '
             '(all constants in closed form, w(x*) = w*; diagonal dominance and basin proved with |dw/dx| <= 1/gap_inner): inner size equal / smaller / larger, scalar in system, system in scalar, complex in real, real in complex (fixed right-hand side), '
             'user-Jacobian inner solver, two levels deep (A calls B calls C); half of them run the inner solves of call 2 on a second thread (std::thread::scope) while the first is mid-solve - call 2 must stay bit-identical to call 1; '
             '(ii-e) SAME-OBJECT re-entrancy: the user function of a solve calls solve on the very object that is solving (inner problem t - tau(y) = 0 converging at once with closed-form result; inner root-free problem using the whole budget; a second object whose function calls back into the first), every variant: in-basin outer problems must succeed, root-free outer problems must stop within the budget (evaluation watchdog); '
             '(iii-b) an undefined equation while the others have converged: systems of dimension 2..5, equation p in every position NaN always or from the second step on (sqrt / acos of a Newton step outside the domain), the other equations linear and already at / one step from their roots, all four system variants: must fail, and success never carries a non-finite component; '
             '(iv) ladders: never-converging functions (root-free, constant, non-differentiable, z^2 with tol 1e-300) solved under limits 1, 0, 2, 3, 5, 8, 13, 20, 50 on one object, all six variants: '
             'closure calls under limit m = m x calls under limit 1 (exactly m steps), every run a prefix of the longer ones, Err carries a point of step m+1; '
             '(v) reconfiguration sequences: solve, then every ordered arrangement of every non-empty subset of tolerance/delta/iterations/guess (64) plus same-value sets, guess(root), iterations(0), solve again: '
             'must be bit-identical (points, verdict, value) to a fresh object with the final configuration, parameters() = final values. Three solves per std/seq case, nine per ladder. An end event is non-trivial if the solve evaluated a closure or the limit is 0; '
             'distinct = distinct (bit patterns, verdict) tuples.',
        trusted=['recording closures and function families (harness/src/suites/newton.rs)', 'analytic roots / basin radii computed in newton.rs', 'TLC', 'Newton.tla'])
