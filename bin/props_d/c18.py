"""C18 - finite-difference Jacobian: m x n for every m, n; forward difference quotients; restore before next."""

PID = 'C18'

CLAIM = dict(
    text='Jacobian.tla states, over the integers, what a legal evaluation point is (the base point, or the base with exactly one coordinate moved by exactly delta), '
         'what the result is (m x n, entry (i,j) the forward difference quotient - for an affine map exactly M[i][j]) and gives the algorithm as a step machine '
         '(EvalBase, then per coordinate in any order Perturb, EvalPerturbed, Restore, StoreCol). TLC (i) explores every behaviour of the machine for all affine problems '
         '1 <= m,n <= 3, M over {-1,2} with two base points (thorough: also {-1,0,2} with one base point), delta in {1,2}: discipline, every coordinate perturbed exactly once, result = M, quotient law, '
         'a store writes its own column only, no panic for any shape, termination; with the switch SetColRangeAgainst = "rows" (the code before fix D1) TLC exhibits the panic on a wide Jacobian; '
         '(ii) enumerates those problems as cases run on the real Mat64::jacobian / Matrix::<Cmplx>::jacobian_cmplx; (iii) validates recorded executions of the real code on affine maps '
         'for all shapes 1..6 x 1..6, dyadic M, c, x in [-4,4]^n, delta = 2^-k for every k = 4..26: every float operation is exact, so the points at which the user closure was called '
         'and the returned matrix are logged as scaled integers and decided EXACTLY (shape, every entry, every evaluation point). '
         'Smooth nonlinear maps (sin / product / exp terms, complex: squares / product / exp) with delta = 1e-8 and 2^-k are judged in integer units.',
    note='Exact part: TLC on integers. Units part (harness measurement, bound in Trace_Jacobian.tla): |J_ij - dF_i/dx_j| <= 8*(delta*M2 + eps*G/delta), a forward-difference truncation + rounding theorem '
         '(G = op-count * bound of |F_i| terms + |x_j| * bound of |dF|), and the restore discipline up to rounding: at most one coordinate further than 8 eps (|x_j|+delta) from the base. '
         'How often a point is evaluated and the order of the coordinates are left open (not fixed by the property). Trusted: TLC, the harness closures (record points, evaluate the map), the scaling to integers.',
    design='4 (C18)')


def _stamp(c, n):
    """TLC-generated problem -> executable case: integers are exact in both element types (scales 2^0)."""
    d = dict(c)
    d.update(suite='jacobian', kind='affine', ms=0, xs=0, ty=('f64', 'cx')[n % 2])
    if d['ty'] == 'cx':
        # an imaginary twin derived deterministically from the real data (rotated / negated): integers again
        md = d['M']['d']
        d['Mi'] = dict(r=d['M']['r'], c=d['M']['c'], d=[-v for v in md[1:] + md[:1]])
        d['ci'] = [v + 1 for v in d['c']]
        d['xi'] = [-v + 2 for v in d['x']]
    return [d]


def check(ctx):
    q = ctx.quick
    inv = 'discipline, perturbed exactly once, result m x n = M, quotient law, own column only, no panic'
    ctx.tlc_mc('MC_Jacobian', 'MC_Jacobian_quick.cfg',
               label='every behaviour (every coordinate order) of the Jacobian machine on all affine problems 1<=m,n<=3, M over {-1,2}, delta in {1,2}, two base points: ' + inv)
    if not q:
        ctx.tlc_mc('MC_Jacobian', 'MC_Jacobian.cfg',
                   label='the same for M over {-1,0,2} (all 21 297 matrices of shapes 1..3 x 1..3), delta in {1,2}, one base point: ' + inv)
    ctx.tlc_mc('MC_Jacobian', 'MC_Jacobian_live.cfg', label='termination (liveness under weak fairness) of the Jacobian machine, all shapes 1..3 x 1..3')
    ctx.tlc_mc('MC_Jacobian', 'MC_Jacobian_D1.cfg', expect_violation='NoPanic',
               label='deviation switch SetColRangeAgainst = "rows" (code before fix D1): StoreCol(j) refused for j >= m, the machine panics on a wide Jacobian')
    ctx.exhaustive_parts.append('all behaviours of the Jacobian machine for 1<=m,n<=3 (design level)')
    nt = lambda e: True
    key = lambda e: {k: v for k, v in e.items() if k not in ('id', 'cid')}
    # spec -> impl
    gen = ctx.tlc_cases('MC_Jacobian', 'Gen_Jacobian_quick.cfg' if q else 'Gen_Jacobian.cfg', transform=_stamp, name='gen_jacobian')
    ev = ctx.exec('jacobian', gen)
    ctx.validate('Trace_Jacobian', ev, gen, 'jacobian', nontrivial=nt, key=key)
    ctx.exhaustive_parts.append('every affine problem of the model (1<=m,n<=3) executed on the real code, element types alternating')
    # impl -> spec
    cases = ctx.gen('jacobian')
    ev = ctx.exec('jacobian', cases)
    ctx.validate('Trace_Jacobian', ev, cases, 'jacobian', nontrivial=nt, key=key)
    ctx.exhaustive_parts.append('all 36 shapes 1..6 x 1..6 for both element types, affine (exact) and smooth (units); every k = 4..26')
    ctx.notes.append('calibration (unchanged tree, 20 seeds at thorough size): worst smooth-map error 0.0625 units, worst x^2 tight-oracle error 0.233 units real / 0.125 complex (a-priori theorem guards, 1 unit); restore discipline: far = 1, dunits <= 1 throughout')
    ctx.assumptions.append('smooth-map bound assumes |x_j| <= 4 (+delta), delta <= 1/16 and coefficient magnitudes <= 2 (the generated range)')
    return ctx.finish(
        rule='cases: (i) every TLC-enumerated affine problem, (ii) per shape (m,n) in 1..6^2 and element type: affine dyadic maps with delta = 2^-k cycling through k = 4..26, '
             '(iii) smooth maps with delta = 1e-8 / 2^-k; (iv) non-affine maps f_i = +-x_p^2 on dyadic data with exact squares (shapes 1x1, 1xn, nx1 and others, all k): entry = +-(2x+delta) EXACTLY (a central stencil or another step is a different integer); '
             '(v) the same maps at general points with delta = 1e-8: tight oracle against the double-double forward quotient of the evaluated points in units of 4 eps|f|/delta (complex 12), half of the points within [-0.1,0.1] where 2x differs from 2x+delta by more than a unit; '
             '(vi) affine maps mixing O(1) entries with small non-zero entries +-2^-8..2^-24 at every delta = 2^-k (result in units of 2^-24, exact expectation M[i][j]: no entry may be lost), quadratic maps at tiny points 2^-12..2^-20, '
             'two-term maps x_p^2 - x_q^2 with coefficient 1 or i, complex affine / quadratic maps with genuinely complex coefficients at exactly real / purely imaginary / partly real points where the value is exactly real / imaginary (the imaginary part of the derivative must survive); '
             '(vii) LARGE OFFSETS: f = c + Mx with integer M and constants c_r = +-m 2^K up to the point where one ulp of f_r equals delta (K = 51 - s for delta = 2^-s) and on a grid below, every value verified exactly representable in integer arithmetic by the harness: the Jacobian equals M exactly; '
             '(viii) coordinates that coincide with the step: +-delta, +-2delta, +-delta/2, complex (+-delta, +-0), (0, +-delta), (+-delta, +-delta), in random positions, every delta of the grid, on the affine, quadratic, smooth and tight-oracle families; '
             '(ix) LARGE and extreme-aspect shapes for the affine and quadratic families, both element types: n in {31,32,33,34,40,64,65} x m in {1,2,n,2n}, tall m x n with m in {8n-1,8n,8n+1,16n,100} for n = 1..6, wide 1 x n / 2 x n; the same exact expectations checked entry by entry and point by point in integer arithmetic by the harness, logged as a count of wrong entries / illegal points (event jac_big: count = 0 and shape demanded by TLC); '
             'special points cycle through every family: exact +0.0/-0.0 coordinates, all negative, all equal, maps that ignore some variables (perturbing them leaves f bit-for-bit unchanged). One event per call; every event is non-trivial (n >= 1 coordinates perturbed); wide (m < n), tall and square shapes all occur; '
             'distinct = distinct (problem, points, result) tuples.',
        trusted=['harness closures (jacobian.rs): record the argument, evaluate the map', 'scaling of exact dyadic floats to integers (BAD when not exact)', 'TLC', 'Jacobian.tla operators'])
