"""C15 - vectors: arithmetic, reductions, norms, edits under any history; linspace / powspace."""
from phelp import TYS

PID = 'C15'

CLAIM = dict(
    text='VectorSeq.tla defines every Vector operation as an operator on integer sequences (complex vectors: two sequences). TLC (i) explores every editing history '
         'of depth 3 (quick) / 4 (thorough) from every sequence of length <= 3 over {0,1,2}, demanding after every step that the model equals a twin list driven by '
         'independent Sequences-primitive definitions (Append, SubSeq, Head/Tail) and that sort/find/insert/pop/swap/resize/slices satisfy their laws; (ii) checks, over ALL '
         'integer vectors of length <= 3 (quick) / <= 4 (thorough) with entries -2..2 against every second vector of the same length, inf^2 <= sum of squares <= one^2, non-negativity, '
         'homogeneity, the triangle inequality (1- and inf-norm; Cauchy-Schwarz for the 2-norm), dot symmetric and bilinear, sum/product slice additivity, and the complex forms; '
         '(iii) enumerates every transition of that machine (every operation incl. observers from every state) as cases replayed on the real Vector<i64/Rat/f64/Complex<f64>>; '
         '(iv) validates, event by event, recorded executions of the real code: every length 0..64 with ALL inclusive index ranges of sum_slice / product_slice and every observer, '
         'random histories of 100-300 operations with the projected vector logged after every step, exact scalar division, complex moduli on Pythagorean data. Exact (integers).',
    note='Float clauses rest on harness measurements judged by guards in Trace_VectorSeq.tla: norm_2 against a double-double reference, guard 2 units of 4*n*eps (a-priori rounding bound about (n+2) half-eps; worst measured over 20 seeds at thorough size: 0.15 units); norm_p (p in [1,8]) in units of '
         '4*(n+|log2 norm|)*eps (the code raises to the rounded exponent fl(1/p), so its error grows with |ln norm| - measured, not a defect); inf<=2<=1, triangle inequality and homogeneity under '
         'power-of-two scaling up to the same units (bit-exact for the 1- and inf-norm); linspace/powspace (n>=2): first element bit-equal to a, last within 4 units of eps*max(|a|,|b|), monotone '
         '(strictly when the spacing is >= 2^-30 of the magnitude). Not demanded (documented-undefined or outside the stated domain): sum/product/norm_inf/find of the empty vector; for index out of '
         'range / size mismatch only "the vector is not modified" (rejection itself is C20). TLC integers are 32-bit: generators keep entries < 10^5 and lengths <= 64, logged values are bounded before they enter arithmetic, a logged state is taken over after a mismatch only if it is within bounds (otherwise the following events of that history are reported as desync). Trusted: TLC, the harness projection of a Vector to integers, double-double reference code.',
    design='4 (C15)')


def _stamp(c, n):
    """TLC-generated behaviours: rotate through the element types; complex cases get deterministic imaginary twins."""
    ty = TYS[n % 4]
    d = dict(c)
    d['ty'] = ty
    d['suite'] = 'vector'
    if not isinstance(d.get('init'), list):
        d['init'] = []
    if ty == 'cx':
        d['initi'] = [(2 * a + 1) % 3 for a in d['init']]
        ops = []
        for o in d['ops']:
            o = dict(o)
            o['xi'] = (o.get('x', 0) + 1) % 3
            o['vi'] = [(a + 2) % 3 for a in (o.get('v') or [])]
            ops.append(o)
        d['ops'] = ops
    return [d]


def check(ctx):
    q = ctx.quick
    ctx.tlc_mc('MC_VectorSeq', 'MC_VectorSeq_quick.cfg' if q else 'MC_VectorSeq.cfg',
               label='every editing history of depth %d from every sequence of length <= 3 over {0,1,2}: model = twin list after every step; sort/find/insert/pop/swap/resize/slice laws in every state' % (3 if q else 4))
    ctx.tlc_mc('MC_VectorSeq', 'MC_VectorSeq_laws_quick.cfg' if q else 'MC_VectorSeq_laws.cfg',
               label='all integer vectors of length <= %d with entries -2..2 (x every second vector of that length): norm laws, dot bilinear/symmetric, slice additivity, complex forms' % (3 if q else 4))
    nt = lambda e: e.get('panic') or e.get('pre') or e.get('post') or e.get('rv') or e.get('op') in ('fnorms', 'linspace', 'powspace', 'new', 'zeros', 'ones')
    # spec -> impl: every transition of the model replayed on the real Vector<T>
    gen = ctx.tlc_cases('MC_VectorSeq', 'Gen_VectorSeq_quick.cfg' if q else 'Gen_VectorSeq.cfg', transform=_stamp, name='gen_vector')
    ev = ctx.exec('vector', gen)
    ctx.validate('Trace_VectorSeq', ev, gen, 'vector', nontrivial=nt)
    ctx.exhaustive_parts.append('every transition (all operations incl. observers, every in-range argument and one out-of-range argument per index) of the VectorSeq machine from every sequence of length <= %s over {0,1,2}, replayed on the real Vector' % ('3' if q else '2, two steps deep'))
    # impl -> spec
    cases = ctx.gen('vector')
    ev = ctx.exec('vector', cases)
    ctx.validate('Trace_VectorSeq', ev, cases, 'vector', nontrivial=nt)
    ctx.exhaustive_parts.append('every length 0..64: all inclusive index ranges (a, b) of sum_slice and product_slice (2 x 2080 ranges per pass), each observer')
    return ctx.finish(
        rule='cases: (i) every TLC-enumerated behaviour of the VectorSeq machine; (ii) per length 0..64 a reductions case (all ranges of sum_slice, every observer, find of present/absent values, out-of-domain ranges) and a products case '
             '(all ranges of product_slice); (iii) random histories of 100-300 operations incl. out-of-range arguments; (iv) exact scalar division; (v) complex vectors with integer moduli; (vi) general f64 vectors (norm clauses); '
             '(vii) linspace/powspace incl. a = b and end points 1..8 ulps apart in both directions (non-dyadic a, sizes 2..64, p = 1, 2, 0.5); (viii) all-zero vectors of every length 1..64 reached through x - x, x * 0, 0.0 * x, x *= 0, x -= x, assign(0), clear+resize, zeros(n), new(n, 0) (signed zeros included) under every norm/reduction; '
             '(ix) per length special inputs: entries +-1, single non-zero entry, sorted / reverse-sorted with ties, all equal, duplicate maxima of opposite sign; float norm checks at x = 0, y = -x, alpha = 0. Operators may be adopted (x = x - y): the returned vector becomes the value under test. (x) dot and the ALIASED by-reference forms &v + &v, &v - &v, v.dot(&v) (same object on both sides; the specification is given the logged pre-state as second operand) for every length 0..64 on every element type also in quick, non-zero entries with all products positive. For Vec64 every dot event also runs the threaded dot_f64 on the same operands (default CPU affinity, aliased and two-object, all lengths 0..64, empty vectors also reached through clear() and resize(0)): same exact value, no panic. norm_p is also run with exponents next to whole numbers (k -+ 1 ulp, 2 ulp, 1e-15 .. 1e-8 for k = 1..8 inside [1, 8], the accumulated values of p += 0.1 and p += 0.25, 1 + 1e-9) on vectors whose k- and (k-1)-norms are far apart, against the reference evaluated with the same p. (xii) MAGNITUDE SWEEP: integer vectors with exactly representable 2-norm ([1,2,2] at every scale, Pythagorean and repeated/single entries rotating; all of them in thorough) scaled by 2^k for every k the definition admits (-1070..1000 for norm_1 / norm_inf / sum / sum_slice / abs; the range in which squares, products and their sums stay normal for norm_2, complex moduli, dot, dot_f64, product_slice); every result is logged as its exact integer multiple of the scale and compared by TLC with the operator applied to the unscaled vector; plus general data with entries at 2^k, 2^(k-1), 2^(k-3), 2^(k-10) for every k in -495..495 under the float-norm clauses. (xiii) Clone::clone_from as a mutator (the vector becomes a copy of the source: destinations longer / equal / shorter / empty) and == / != (operands sharing a prefix but differing in length) in the model, the design check, the per-size cases and the random histories of every element type. (xiv) cancellation family, lengths 16..64: huge terms 2^52 / 2^53 / 2^60 that cancel or combine exactly in left-to-right order at every residue mod 8 among zeros, small integers and halves; TLC recomputes the exact value of every range sum (coefficient per scale); exactness of sum / sum_slice / dot is demanded exactly for the ranges whose left-to-right partial sums are all representable (certified per range by the harness in 128-bit integers). (xi) sign of zero: dot / sum / sum_slice / norm_1 (and dot_f64) accumulate from T::zero() = +0.0, so a zero result is +0.0 bit for bit whatever the signs of the zero terms; all -0.0 / all +0.0 / mixed / one non-zero entry among signed zeros for every length on f64 and Complex<f64>. Element types i64/Rat/f64/Complex<f64> rotate (quick) or are all used (thorough). An event is non-trivial if it panics, touches a non-empty vector or is a stand-alone constructor/float check; '
             'distinct = distinct (operation, arguments, operand, outcome) tuples.',
        trusted=['harness projection of Vector<T> to integers (harness/src/util.rs jvec)', 'TLC', 'VectorSeq.tla operators as the reference definitions (cross-checked by MC_VectorSeq)', 'double-double reference evaluation (harness/src/dd.rs)'])
