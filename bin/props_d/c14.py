"""C14 - complex elementary / trigonometric / hyperbolic functions (weakest fit: see CLAIM.note)."""
import json
import vlib

PID = 'C14'

CLAIM = dict(
    text='ComplexFun.tla is a catalogue of the 38 public Complex<f64> functions: 59 relations chosen definitionally (power series for exp/sin/cos/sinh/cosh, '
         'reduction to the real function on the real axis, tan = sin/cos, cot = cos/sin and the reciprocal functions (each judged relative to |f(z)|), f(f^-1(z)) = z for ln and the twelve inverse functions, (sqrt z)^2 = z, '
         'z^w = exp(w ln z), log_b z = ln z / ln b, polar round trip, Pythagorean identities, closed forms of new/conj/abs_sqr/abs/zero/one), the inverse/reciprocal pairings, '
         'the stated range predicates (Re sqrt >= 0, Im ln in (-pi,pi], Re asin in [-pi/2,pi/2], Re acos in [0,pi], arg in (-pi,pi]), singular points, branch cuts, and a lattice of 941 regions '
         '(8 directions x 7 modulus classes; both sides of each half-axis at 1e-9 x 7 modulus classes; 8 directions around each of +-1, +-i at distances 1e-3..1e-6; '
         'neighbourhoods of the 24 poles/zeros n*pi/2, |n| <= 6, of tan/sec/cot/csc on the real and of tanh/sech/coth/csch on the imaginary axis at distances 1e-3, 1e-4, 1e-5, 1e-6 in 8 directions; '
         'the -0.0 twins of every axis ray and modulus class incl. +-1, +-i; the point 0). '
         'TLC checks the catalogue\'s consistency (every function has a defining relation bottoming out in series/closed forms within 3 levels; pairings mutual and parallel between the trigonometric and hyperbolic tables; '
         'every cut has lattice regions on it and on both sides of it on every segment; the matrix shape) and enumerates the complete obligation list: relation x region (11 774) plus exact expectations '
         'sqrt(w^2) for the 48 Gaussian integers |Re|,|Im| <= 3 (principal root by the sign rule) and z^k for 24 Gaussian integers x k in -3..3, computed with ComplexField.tla. '
         'For every evaluation point the harness calls ALL catalogue functions back to back on that same z, each twice in a row (bit-identical results demanded), in catalogue order, reversed, shuffled, or with a chosen ordered pair of the 20 modulus/phase-decomposing functions in front, and takes every value a relation uses from that one pass; '
         'at the end of a pass all 400 ordered pairs must have been adjacent (checked by the trace specification against ComplexFun.Decomp). '
         'pow/powf are additionally judged for exponents k +- (1 ulp, 1e-15 .. 1e-6) around every integer -3..3 and +-0.5, +-1.5 (pow also with imaginary part +-1e-9) against exp(w ln z) in double-double. '
         'Immediately after each call the same function is called on every signed-zero twin of its argument and on the argument again (for z in the -0.0 regions and at 0, for every exponent and base with a zero part), each twin value judged against its own reference (caches keyed by ==). '
         'Every region is also evaluated at the points built from the crate\'s own constants (ohsl::constant PI, PI_2, PI_4, FRAC_1_PI, FRAC_2_PI, TAU, SQRTPI, SQRT2, SQRT1_2, E, EULER, their halves and doubles, exact bit patterns): +-C as real part, imaginary part or both, with zero, ordinary or constant other part, and as exponents and bases of pow/powf/log. '
         'A soak obligation per function (2^16+64 consecutive guarded calls on fixed inexact arguments, every result bit-identical to the first, no panic) covers call-count dependence. '
         'The harness discharges every obligation on the real code; the trace specification accepts iff EVERY obligation appears, in the specification\'s own order, with the parameters the specification fixed, '
         'err_units <= 1, range flag true.',
    note='Decided by the specification/TLC: the case matrix, its complete coverage, the range predicates and which functions pair up, the exact sqrt/integer-power expectations. '
         'NOT decided by TLC: the numeric agreement. TLC cannot evaluate a transcendental function; err_units is measured by trusted Rust code (harness/src/suites/cfun.rs) against independent references '
         '(double-double power series, exp by argument halving, ln by Newton iteration on that exp from the real std ln/atan2, real std functions on the axes) in units of 64*eps*max(1,|values|)*cond, '
         'where cond is a per-relation constant calibrated on the unchanged tree (26 seeds x 4 passes x 8 random points per region = 205.5e6 evaluations (22 seeds): worst observation 0.0078 unit, i.e. 128x below the guard; no range-predicate failure). This part is of level "exploration" in substance: '
         'a branch/sign/quadrant error is O(|z|) >= 1e-3, i.e. >= 1e9 units, but an error below ~1e-12 relative is not detected. On a branch cut only the range predicate and the right-inverse identity are demanded (no side convention): for arguments with a -0.0 part the open ends of the ranges are closed by the specification and z^w is accepted for either limit of ln z. Next to the poles the quotient definitions are evaluated in double-double from the crate\'s own sin/cos/sinh/cosh at the same f64 argument, so a closed form that cancels there (relative error eps/(2 d^2)) is rejected from d = 1e-3 on. The point 0 lies outside 1e-3 <= |z| but inside the non-overflowing domain; only relations whose members are all finite there are demanded. '
         'Range predicates not stated by the property (e.g. Re acosh >= 0) are not demanded.',
    design='4 (C14), 8, Appendix C')


def _pass(ctx, base, nrand, seed, name):
    """one complete pass over the obligation list: start marker, all obligations in canonical order, end marker"""
    cases = [dict(kind='start', suite='cfun')]
    for c in base:
        d = dict(c)
        d['nrand'] = nrand
        d['seed'] = seed
        d['suite'] = 'cfun'
        cases.append(d)
    cases.append(dict(kind='end', suite='cfun'))
    path = '%s/%s.cases.ndjson' % (ctx.out, name)
    with open(path, 'w') as f:
        for i, c in enumerate(cases):
            c['cid'] = i + 1
            f.write(json.dumps(c) + '\n')
    ev = ctx.exec('cfun', path)
    events = vlib.read_ndjson(ev)
    if len(events) > 39000:
        raise vlib.ToolError('C14: a pass must fit one trace-validation chunk')
    if not events or events[0].get('op') != 'start' or events[-1].get('op') != 'end' or len(events) != len(cases):
        raise vlib.ToolError('C14: the recorded pass is not delimited by start/end markers or lost events')
    ctx.validate('Trace_ComplexFun', ev, path, 'cfun', nontrivial=lambda e: e.get('op') not in ('start', 'end'),
                 key=lambda e: (e.get('op'), e.get('pos'), e.get('worst_z')))
    return events


def check(ctx):
    q = ctx.quick
    ctx.tlc_mc('MC_ComplexFun', 'MC_ComplexFun.cfg', workers=4,
               label='catalogue consistency (10 constant-level statements) and a cursor over the complete obligation list')
    gen = ctx.tlc_cases('MC_ComplexFun', 'Gen_ComplexFun.cfg', workers=1, name='gen_cfun')
    base = sorted(vlib.read_ndjson(gen), key=lambda c: c['pos'])
    if [c['pos'] for c in base] != list(range(1, len(base) + 1)):
        raise vlib.ToolError('C14: the enumerated obligation list has gaps')
    ctx.exhaustive_parts.append('the complete obligation list of ComplexFun.tla (%d obligations: relation x region, sqrt of Gaussian squares, integer powers), every obligation discharged in every pass' % len(base))
    worst = 0
    for p in range(1 if q else 10):
        ev = _pass(ctx, base, 2 if q else 12, ctx.seed * 1000 + p, 'cfun_pass%d' % p)
        worst = max([worst] + [e.get('fine', 0) for e in ev])
    ctx.notes.append('worst observed error in this run: %.4f units (guard 1 unit)' % (worst / 1e4))
    return ctx.finish(
        rule='cases = the obligations enumerated by TLC from ComplexFun.tla, one event per obligation and pass; each relation obligation is evaluated on the deterministic lattice points of its region '
             '(moduli 1e-3, 0.3, 0.7, 1-1e-3, 1-1e-6, 1, 1+1e-6, 1+1e-3, 2, 3, 5, 10; angles 15/45/75 degrees inside quadrants; offsets +-1e-9 beside the axes; distances 1e-3..1e-6 around +-1, +-i and around the poles) '
             'plus 2 (quick) / 12 (thorough, 10 passes) seeded random points of the region; two-argument functions on 14-18 fixed second arguments (exponents exactly -3..3, +-0.5, +-1.5, 0, signed zeros; bases on both real half-axes, the imaginary axis, of modulus one) plus random ones (|w| <= 3). '
             'Distinct = distinct (obligation, worst point).',
        trusted=['TLC', 'ComplexFun.tla catalogue (consistency-checked)', 'harness/src/suites/cfun.rs: point generation per region descriptor, double-double reference series, error measurement',
                 'real std functions (f64::sin, exp, ln, atan2, ...) as axis references and Newton starting values'])
