"""X02 - the textual output of the crate: Display / Debug impls, the file writers, the constants (beyond the listed properties)."""
import glob, os, struct
import vlib

PID = 'X02'

CLAIM = dict(
    text='Text.tla models everything in /repo/src that turns values into text: a text is a sequence of lines, a line a sequence of tokens, and one '
         'layout function per impl says which value stands where: Display / Debug of Complex ("( re, im )"), Vector (the list on one line), Matrix '
         '(one line per row), Polynomial (the monomials / the coefficient list), Tridiagonal and Banded (the n x n array with "*" outside the band; '
         'Debug: the diagonals / the compact storage), the file writers Vector::output (one element per line), Matrix::output, Mesh1D::output, '
         'Mesh2D::output / output_var (with their precision argument), and the eleven f64 constants and I of src/constant.rs. TLC (i) checks on every object '
         'of every kind up to small sizes (content over a 2-letter alphabet) that the text has the stated number of lines, tokens and placeholders, '
         'that a reader who sees only the text gets the object back (Parse(Layout(x)) = x, hence two different objects never print the same text; '
         'for matrices with rows * cols > 0 -- all empty shapes print no token), that the writers and the Display layouts agree, and pairwise '
         'injectivity directly on a smaller domain; that the reference digits of the constants are mutually consistent in exact digit arithmetic; '
         '(ii) enumerates those objects as cases rendered by the real code; (iii) validates every rendering recorded from the real code on every '
         'shape 0..6 (x 0..6), element types f64, i64, Complex<f64>, Complex<i64>, alphabets of dyadic numbers, decimal fractions and special values '
         '(signed zeros, NaN, infinities, 5e-324, f64::MAX, 1e300, halfway cases), the formatter flags {:.3} {:.0} {:12} {:>14.1} {:+} {:010.2} '
         '{:#?} {:.2?} {:9?}, precisions 0..18, 20, 30, 60, 320, 1100 for the writers that take one: the text read back must have the lines and '
         'tokens of the layout, and every printed number must denote the value that stands there (parse-back, or correct to the requested number '
         'of decimals where a precision applies); each constant must be THE f64 nearest to the reference value (which fixes its bit pattern).',
    note='Exact (decided by TLC on integers): the layout (which alphabet index stands where), counts, exponents of monomials, sizes printed by the '
         'Debug impls, the constants (digit sequences of the two rounding-interval ends against 40 reference decimals). Numbers: a token is judged '
         'by the harness against EVERY alphabet value -- u = 0 iff str::parse gives that value (numerically; NaN to NaN; the sign of a zero is not '
         'demanded), q = exact decimal distance in half units of the last printed decimal (digit-vector arithmetic, no floats); TLC demands u = 0 '
         'where no precision applies, and for the f64 writers exactly p decimals, q <= 1 (Trace_Text.Guard: '
         'rounded to p decimals, a tie either way) and q = 0 whenever the value has a p-digit expansion. Not constrained (cosmetic / undocumented): blanks, tabs, brackets, commas, '
         'labels, blank lines at the end of a text, the final newline, the order of the monomials of a polynomial and whether a zero monomial is '
         'printed, whether formatter flags are honoured (they are not: see the notes), the message printed for an empty Banded. Trusted: TLC, '
         'Text.tla, the harness lexer and its exact decimal arithmetic (harness/src/suites/text.rs: lex, Dec), str::parse::<f64>, the reference '
         'digits of EULER (all others are cross-checked by TLC through algebraic relations).',
    design='12.9 (X02)')

OPS = ['cx_disp', 'cx_dbg', 'vec_disp', 'vec_dbg', 'vec_out', 'mat_disp', 'mat_dbg', 'mat_out', 'poly_disp', 'poly_dbg', 'tri_disp', 'tri_dbg',
       'band_disp', 'band_dbg', 'm1_out', 'm2_out', 'm2_outvar', 'const', 'const_i']


def hx(x):
    return struct.pack('>d', x).hex()


ALPHA_F = [[0.0, 1.5, -2.25], [-0.5, 1.0, 0.1], [float('nan'), -0.0, 1e300], [-1.0, 1.0, 2.0], [0.125, -7.0, 1e-7], [float('inf'), 3.0, -1e21]]
ALPHA_I = [[0, 1, -1], [7, -35, 10], [-1, 1, 123456789], [9223372036854775807, 0, -42]]


def transform(c, n):
    """a TLC-enumerated object -> a case: element type and alphabet rotate with the case number"""
    kind, nc = c['kind'], c['nc']
    out = dict(suite='text', kind=kind, flags=n % 3 == 0, stale=n % 2 == 0)
    if kind in ('m1', 'm2'):
        ty = 'f64'
    elif nc == 2:
        ty = 'cx' if (kind != 'cx' and kind != 'vec') or n % 2 == 0 else 'cxi'
    elif kind == 'band' or kind == 'poly':
        ty = 'f64' if n % 2 == 0 else 'i64'
    else:
        ty = 'f64' if n % 3 else 'i64'
    ints = ty in ('i64', 'cxi')
    al = (ALPHA_I[n % len(ALPHA_I)] if ints else ALPHA_F[n % len(ALPHA_F)])
    if kind == 'poly' and not ints:
        al = ALPHA_F[[0, 1, 3, 4][n % 4]]            # NaN / inf coefficients occur in the harness-generated cases
    out['ty'] = ty
    out['alpha'] = [str(x) for x in al] if ints else [hx(x) for x in al]
    for k in ('v', 'a', 'tri', 'band', 'm', 'nv'):
        if k in c:
            out[k] = c[k]
    if kind in ('m1', 'm2'):
        out['ps'] = [[0, 3], [1, 17], [2, 30], [5, 4]][n % 4]
    return [out]


def _nontrivial(e):
    return any(t.get('t') in ('n', 'c', 't') for l in e.get('lines', []) for t in l) or e['op'].startswith('const')


def _coverage(ctx, cases_path, events_path, label, full):
    cases = {c['cid']: c for c in vlib.read_ndjson(cases_path)}
    seen, flags, shapes, ps, panics = {}, {}, set(), set(), {}
    fam = dict(nan=0, inf=0, negzero=0, tiny_or_huge=0, rounded=0, exact_p=0, p_gt_17=0, stale_file=0, empty_object=0, lead_one=0, worst_q=0, neg0_sign_printed=0)
    for e in vlib.read_ndjson(events_path):
        c = cases[e['cid']]
        seen[(e['op'], e['ty'])] = seen.get((e['op'], e['ty']), 0) + 1
        if e['panic']:
            panics[e['op']] = panics.get(e['op'], 0) + 1
        if e['op'].startswith('const'):
            continue
        if e.get('fl') not in ('', 'p') and not e['panic']:
            k = (e['op'], e['fl'])
            a, b = flags.get(k, (0, 0))
            flags[k] = (a + (1 if e['same'] else 0), b + (0 if e['same'] else 1))
        al = c['alpha']
        fam['nan'] += 1 if any(x.startswith('7ff8') for x in al) else 0
        fam['inf'] += 1 if any(x in ('7ff0000000000000', 'fff0000000000000') for x in al) else 0
        fam['negzero'] += 1 if '8000000000000000' in al else 0
        fam['neg0_sign_printed'] += 1 if e.get('neg0') else 0
        fam['tiny_or_huge'] += 1 if any(x in ('0000000000000001', '7fefffffffffffff', '7e37e43c8800759c', '01a56e1fc2f8f359') for x in al) else 0
        fam['stale_file'] += 1 if e['op'].endswith('_out') and c.get('stale') else 0
        fam['empty_object'] += 1 if not _nontrivial(e) else 0
        if e['op'] == 'poly_disp' and c['v'] and c['alpha'][c['v'][-1][0] - 1] in ('1', '-1', hx(1.0), hx(-1.0)):
            fam['lead_one'] += 1
        if e['op'] in ('m1_out', 'm2_out', 'm2_outvar'):
            ps.add(e['p'])
            fam['p_gt_17'] += 1 if e['p'] > 17 else 0
            for l in e['lines']:
                for t in l:
                    for qq in t['q']:
                        m = min(qq)
                        fam['worst_q'] = max(fam['worst_q'], m if m < 9 else 0)
                        fam['rounded'] += 1 if m == 1 else 0
                        fam['exact_p'] += 1 if m == 0 else 0
        if e['op'].startswith('vec'):
            shapes.add(('vec', len(c['v']), e['ty']))
        if e['op'].startswith('mat'):
            shapes.add(('mat', c['a']['r'], c['a']['c'], e['ty']))
        if e['op'].startswith('tri'):
            shapes.add(('tri', c['tri']['n']))
        if e['op'].startswith('band'):
            shapes.add(('band', c['band']['n']))
        if e['op'].startswith('poly'):
            shapes.add(('poly', len(c['v']), e['ty']))
    missing = [o for o in OPS if not any(k[0] == o for k in seen) and (full or not o.startswith('const'))]
    if missing:
        raise vlib.ToolError('vacuity: %s exercised no event for %s' % (label, missing))
    if full:
        want = ({('vec', n, t) for n in range(7) for t in ('f64', 'i64', 'cx', 'cxi')} | {('mat', r, c, 'f64') for r in range(7) for c in range(7)}
                | {('tri', n) for n in range(1, 7)} | {('band', n) for n in range(7)} | {('poly', n, t) for n in range(7) for t in ('f64', 'i64')})
        if want - shapes:
            raise vlib.ToolError('vacuity: shapes missing from the harness-generated cases: %s' % sorted(want - shapes, key=str)[:5])
        zero = [k for k, v in fam.items() if v == 0]
        if zero:
            raise vlib.ToolError('vacuity: an input family is missing: %s' % zero)
        if not {0, 17} <= ps or len(ps) < 8:
            raise vlib.ToolError('vacuity: precisions exercised: %s' % sorted(ps))
    hon = ', '.join('%s{:%s} same text as unflagged %d / different %d' % (k[0], k[1], v[0], v[1]) for k, v in sorted(flags.items()))
    ctx.notes.append('%s: events per (op, type): %s; families: %s; precisions: %s; panics: %s'
                     % (label, ', '.join('%s/%s=%d' % (k[0], k[1], v) for k, v in sorted(seen.items())), fam, sorted(ps), panics))
    if hon:
        ctx.notes.append('%s: formatter flags (observed, not judged beyond "the text still denotes the value"): %s' % (label, hon))
    return flags


def _no_files_left(ctx):
    left = glob.glob(os.path.join(ctx.out, '**', 'text_out_*.dat'), recursive=True)
    for p in left:
        os.remove(p)
    if left:
        ctx.notes.append('%d output files had to be removed by the driver' % len(left))


def check(ctx):
    q = ctx.quick
    env = {'TEXT_DIR': ctx.out}
    ctx.tlc_mc('MC_Text', 'MC_Text_quick.cfg' if q else 'MC_Text.cfg',
               label='every object of every kind up to small sizes over a 2-letter alphabet: Count (lines, tokens, placeholders), Inverse (a reader of the '
                     'text gets the object back), Views (writers and Display layouts agree); ASSUME: the reference digits of the constants are mutually '
                     'consistent in exact digit arithmetic')
    ctx.tlc_mc('MC_Text', 'MC_Text_inj.cfg', label='pairwise: two different objects of a kind never print the same text (smaller domain)')
    cfg = 'Gen_Text_quick.cfg' if q else 'Gen_Text.cfg'
    cases = ctx.tlc_cases('MC_Text', cfg, transform=transform, name=cfg.replace('.cfg', '').lower())
    ev = ctx.exec('text', cases, env=env)
    _coverage(ctx, cases, ev, 'TLC-generated cases', False)
    ctx.validate('Trace_Text', ev, cases, 'text', nontrivial=_nontrivial)
    ctx.exhaustive_parts.append('every object the model enumerates (Gen config: all vectors of length <= 3 of real and complex elements, all matrices up to 2 x 2, '
                                'tridiagonal up to %s, banded up to n = %s with bandwidths 0..1, polynomials of up to 3 coefficients, Mesh1D / Mesh2D up to 1 node '
                                'per direction, over an alphabet of %s values) rendered by the real code through every impl' % (('2', '2', '2') if q else ('3', '3', '3')))
    cases = ctx.gen('text')
    ev = ctx.exec('text', cases, env=env)
    _coverage(ctx, cases, ev, 'harness-generated cases', True)
    ctx.validate('Trace_Text', ev, cases, 'text', nontrivial=_nontrivial)
    ctx.exhaustive_parts.append('every vector length 0..6 (f64, i64, Complex<f64>, Complex<i64>), every matrix shape 0..6 x 0..6 (f64), every tridiagonal size 1..6, '
                                'every banded size 0..6, every polynomial length 0..6 (f64, i64) occurs (checked); all twelve constants')
    _no_files_left(ctx)
    ctx.assumptions.append('alphabets of at most 8 numbers per case; printed numbers of at most 4000 digits')
    ctx.notes.append('observed, not judged: Display of a 1 x 1 Tridiagonal panics -- format!("{}", Tridiagonal::<f64>::with_vecs(vec![], vec![2.5], vec![])) -> "index out of bounds: the len is 0 but the index is 0" at src/tridiagonal.rs:229 (row 0 reads sup[0]; Debug of the same object works); Display of a Polynomial without '
                     'coefficients panics (degree() is an Err, "TODO unwrap" in the source); Banded Display of an empty matrix prints "Empty tridiagonal matrix"; '
                     'a 0 x 0 Tridiagonal cannot be constructed (n - 1 underflows), so its "Empty tridiagonal matrix" branch is unreachable; every Display / Debug '
                     'impl of the crate ignores width, precision, sign and alternate flags; Polynomial Display prints |c| after a sign chosen by c < 0, so a '
                     'coefficient -0.0 prints as "+ -0" (abs keeps the sign of a zero) and NaN as "+ NaN"; stdout debugging output (not covered: no value is returned): Sparse::insert prints '
                     '"find_row: ..." / "row_index: ..." lines, Newton<Cmplx>::solve prints "current: ..., deriv: ..." every iteration')
    return ctx.finish(
        rule='cases: (i) every object enumerated by MC_Text (Gen config), element type and alphabet rotating; (ii) per kind every shape 0..6 with random '
             'content over random alphabets of the families dyadic / decimal fractions / special values / mixed (quick: once, thorough: five times), with the '
             'formatter flags on a fraction of the cases and 2-6 precisions per mesh drawn from 0..18, 20, 30, 60, 320, 1100. An event is non-trivial if its '
             'text contains at least one number; distinct = distinct (rendering, flags, content, alphabet, text) tuples.',
        trusted=['harness lexer (harness/src/suites/text.rs: lex_line, lex_poly) and exact decimal arithmetic (Dec, dist_units)',
                 'str::parse::<f64> as the reader of printed numbers', 'TLC', 'Text.tla layout functions and reference digits as the reference definitions'])
