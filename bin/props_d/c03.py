"""C03 - dense matrix algebra and editing."""
from phelp import TYS, with_types

PID = 'C03'

CLAIM = dict(
    text='Dense.tla defines every Matrix operation as a mathematical operator. TLC (i) explores every editing history of depth 2-3 on all shapes 0..2(3) x 0..2(3) checking the shape invariant and the algebraic laws in every state, (ii) enumerates those histories as cases that are replayed on the real Matrix<Rat/f64/Complex/i64>, and (iii) validates, event by event, recorded executions of the real code over all shapes 0..8 exhaustively and random 50-200 step histories: each post-state/return value must equal the operator applied to the model state. Exact (integers); a single wrong element, shape or missing panic in any recorded step is rejected.',
    note='Trusted: TLC, the Dense.tla operators (cross-checked by the algebraic laws), the harness projection of a Matrix to integers. Element values are small integers (exact in every element type); complex matrices are validated as real and imaginary parts. norm_p/norm_frob are judged against an independent evaluation in units of 16*(r*c+1)*eps (harness measurement), for p = 1..6 on integer data and for large exponents (7 .. 2e9) on matrices with entries 0 / +-1 whose maximum is attained several times (every |a|^p exact, so the definition is k^(1/p) free of overflow; a shortcut to the max norm is off by ln(k)/p). Two further families: histories on Matrix<u32> kept inside the unsigned range (an operation that leaves the element type through an intermediate panics and is rejected), and every entrywise operator of Matrix<f64> on inexact values, where each result entry must carry the bit pattern of the one IEEE operation of the definition (sign of a zero not demanded); there the primitive f64 operation is the trusted reference.',
    design='4 (C03)')


def check(ctx):
    q = ctx.quick
    ctx.tlc_mc('MC_Dense', 'MC_Dense_quick.cfg' if q else 'MC_Dense.cfg', label='every editing history (depth 2/3) on shapes 0..2/0..3 x 0..2/0..3; shape invariant + algebraic laws in every state')
    # spec -> impl: every behaviour of the model replayed on the real Matrix<T>
    gen = ctx.tlc_cases('MC_Dense', 'Gen_Dense_quick.cfg' if q else 'Gen_Dense.cfg', transform=with_types(tuple(TYS) if q else TYS, 'dense'), name='gen_dense')
    ev = ctx.exec('dense', gen)
    nt = lambda e: (e.get('panic') or (e.get('post', {}).get('d')) or e.get('rm', {}).get('d') or e.get('rv'))
    ctx.validate('Trace_Dense', ev, gen, 'dense', nontrivial=nt)
    ctx.exhaustive_parts.append('all model behaviours of length %d on shapes 0..2 x 0..2 replayed on the real Matrix' % (2 if q else 3))
    # impl -> spec: all shapes 0..8 exhaustively + long random histories
    cases = ctx.gen('dense')
    ev = ctx.exec('dense', cases)
    ctx.validate('Trace_Dense', ev, cases, 'dense', nontrivial=nt)
    ctx.exhaustive_parts.append('all 729 product shapes (r,k,c) in 0..8 and all 81 shapes (r,c) in 0..8 for every other operation')
    return ctx.finish(
        rule='cases: (i) every TLC-enumerated editing history of the Dense model, (ii) matrix products for all (r,k,c) in 0..8^3, (iii) a 40-operation history per shape (r,c) in 0..8^2, '
             '(iv) random histories of 50-200 operations incl. out-of-range arguments; element types Rat/f64/Complex<f64>/i64, (v) histories on Matrix<u32> inside the unsigned range, (vi) entrywise operators of Matrix<f64> on inexact values compared bit for bit with the single IEEE operation. An event is non-trivial if it panics or touches a non-empty operand/result; '
             'distinct = distinct (operation, arguments, operand, outcome) tuples.',
        trusted=['harness projection of Matrix<T> to integers (harness/src/util.rs jmat)', 'TLC', 'Dense.tla operators as the reference definitions'])


