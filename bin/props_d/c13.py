"""C13 - complex arithmetic is exact field arithmetic; compound-assignment forms, identities, equality, order."""

PID = 'C13'

CLAIM = dict(
    text='ComplexField.tla defines Complex<T> over exact rationals: field operations from the definitions (division = multiplication by conj(w)/|w|^2), '
         'mixed real forms, zero/one, equality, lexicographic order, and the eight compound-assignment forms as statement-level machines transcribed from complex/mod.rs '
         '(save old real part; update real; update imaginary from the saved value). TLC checks exhaustively over all pairs/triples with components in {-2,-1,-1/2,0,1/2,1,2} (quick: {-1,-1/2,0,1/2,1}): '
         'field axioms, z*conj z = |z|^2, division inverse of multiplication and equal to the quotient formula, mixed real forms = complex forms with zero imaginary part, '
         'every machine\'s final state = its binary counterpart (a deviation run with the read-after-overwrite error exhibits the counterexample), trichotomy/transitivity of the order and its consistency with =. '
         'Every triple of the model is replayed on the real Complex<Rat> and Complex<f64>, and seeded random Gaussian rationals, f64 operands of magnitude 1e-100..1e100 '
         '(zero parts, purely real/imaginary, real scalars on either side) and NaN-free f64 triples are recorded and validated event by event by TLC: '
         'rational results must equal the specification exactly; on f64 every assignment form must have the bit pattern of its binary form and z+0, 0+z, z-0, z*1, 1*z, z/1 the bit pattern of z.',
    note='Exact (decided by TLC on rationals): all Complex<Rat> results, f64 results whose exact value is representable, equality/order results, bit-pattern equality (strings). '
         'Harness measurement (trusted Rust code, double-double reference): the f64 error in units of eps*|exact| (normwise), guard <= 8 units (a-priori bounds: sqrt(5)/2 units for the product, < 4 for the quotient), and per COMPONENT in units of eps*(|ac|+|bd|) resp. eps*(|ad|+|bc|) (over |w|^2 for quotients; the exact component for single-rounding operations), guard <= 24 units (a-priori 1 resp. 2.5), so that the small component of a product/quotient of operands with components of very different magnitude must be accurate on its own. '
         'Ordering on wide-range f64 values is validated through a strictly increasing embedding of integer ranks (0, +-1e-100..+-1e100 incl. two adjacent floats). '
         'Division by an exactly zero divisor is outside the stated domain and not judged.',
    design='4 (C13)')


def _stamp(c, n):
    c = dict(c)
    c['kind'] = 'triple'
    c['suite'] = 'cfield'
    return [c]


def check(ctx):
    q = ctx.quick
    ctx.tlc_mc('MC_ComplexField', 'MC_ComplexField_quick.cfg' if q else 'MC_ComplexField.cfg',
               label='all triples (field/order laws) and all pairs x 8 compound-assignment machines, components in %s' % ('{-1,-1/2,0,1/2,1}' if q else '{-2,-1,-1/2,0,1/2,1,2}'))
    ctx.tlc_mc('MC_ComplexField', 'MC_ComplexField_dev.cfg', expect_violation='AsgEqualsBinary',
               label='deviation switch SavedOld = FALSE (imaginary update reads the overwritten real part): counterexample expected')
    # spec -> impl: every triple of the model replayed on Complex<Rat> and Complex<f64>
    gen = ctx.tlc_cases('MC_ComplexField', 'Gen_ComplexField_quick.cfg' if q else 'Gen_ComplexField.cfg', transform=_stamp, name='gen_cfield')
    ev = ctx.exec('cfield', gen)
    nt = lambda e: not (e.get('op') == 'cmp3' and e.get('c_zw') == 'eq' and e.get('c_wv') == 'eq')
    ctx.validate('Trace_ComplexField', ev, gen, 'cfield', nontrivial=nt)
    ctx.exhaustive_parts.append('all %d model triples with components in %s: order/equality on every triple, every operator variant on every pair' % ((9 ** 3, '-1..1') if q else (25 ** 3, '-2..2')))
    # impl -> spec: random Gaussian rationals, rank-embedded f64 triples, wide-range f64 operands
    cases = ctx.gen('cfield')
    ev = ctx.exec('cfield', cases)
    import vlib
    if not any(e.get('op') == 'soak_end' for e in vlib.read_ndjson(ev)):
        raise vlib.ToolError('C13: the soak family (call-count dependence) did not run')
    ctx.validate('Trace_ComplexField', ev, cases, 'cfield', nontrivial=nt)
    return ctx.finish(
        rule='cases: (i) every TLC-enumerated triple (z,w,v) (all operator variants on (z,w) when v = 0, order/equality on every triple), (ii) random Gaussian rationals n/d, |n| <= 9, d <= 4 (half dyadic, run on f64 too), '
             '(iii) random f64 triples over ranks -10..10 (0, +-1e-100..+-1e100) incl. ties in exactly one component (either) and in both, (iv) f64 pairs with components of magnitude 1e-100..1e100 in 25 operand-shape combinations (zero parts, purely real/imaginary, equal operands), '
             '(vi) a soak of 2^20+64 consecutive guarded calls of each of the 29 operations on fixed inexact operands (every result bit-identical to the first, no panic: call-count dependence), '
             '(v) f64 pairs whose components differ by factors 1e-6..1e-20 (either component, either or both operands). The operators <, <=, >, >=, ==, != are called directly besides partial_cmp. One event per public call: '
             '4 binary, neg, conj, abs_sqr, 5 mixed real forms, 8 assignment forms (+ their binary twins), identity group, comparison group. Distinct = distinct (operation, operands, outcome).',
        trusted=['TLC', 'ComplexField.tla operators (cross-checked by the field/order laws)', 'harness projection of Complex<T> to rationals / bit strings', 'double-double reference (harness/src/dd.rs) for the f64 error units'])
