"""C04 - a banded matrix behaves exactly like the dense matrix with the same band."""
from phelp import with_types

PID = 'C04'

CLAIM = dict(
    text='Banded.tla defines a banded matrix as (n, m1, m2, compact storage) with explicit, unconstrained padding slots; its meaning is the dense twin, '
         'which never reads padding. The compact LU of banded.rs (left shift, pivot search by magnitude inside the window, exchange with sign flip, '
         'stored multipliers, forward/back substitution) is transcribed step by step over exact rationals. TLC (i) checks for every band matrix with n <= 3 '
         '(all bandwidths; n = 4 with m1+m2 <= 2 in the thorough tier), in-band values {-1,0,1} and zero / distinct nonzero padding that the machine yields the Leibniz '
         'determinant (exactly 0 for singular matrices, without dividing by a zero pivot), the Cramer solution for every nonsingular system, nonzero pivots and '
         'multipliers bounded by 1, and that the index map, the band loop of the product, the arithmetic and the fraction-free determinant / cross-multiplied '
         'residual used at larger n agree with the dense definitions; with the switch PivotBy = "signed" (defect D2) TLC exhibits the DetOK counterexample '
         'diag(-1,1), m1 = 1; (ii) emits every such matrix as a case executed on the real Banded<Rat/f64/Complex>; (iii) validates recorded executions of the '
         'real code for all 385 (n <= 10, m1, m2): histories of index / fill / arithmetic / product operations compared in band only, determinant and solve of '
         'seven value families (positive, mixed sign, negative diagonal, zero diagonal with nonzero sub-diagonal, tiny sub-diagonal, singular, general reals) with arbitrary padding. '
         'Rat: det must equal the fraction-free determinant of the dense twin and A x = b must hold exactly, both recomputed by TLC. Floats: backward error units <= 8 n^3 2^(n-1) (x8 complex). '
         'Floats, every (n, m1 >= 2, m2): pivot columns whose candidates inside the search window are graded 1, 2^-60, 2^-120, ... in chosen orders (diagonal zero or smallest, largest first / last / random) at a chosen elimination step - '
         'only the pivot of largest magnitude keeps the backward error inside the guard. Complex on the axes: Gaussian-integer systems A = P(2L)U with purely imaginary pivots (squared moduli powers of two, so every complex float operation of the elimination is exact) are judged EXACTLY - TLC recomputes the fraction-free determinant over Gaussian integers and checks A x = b over Gaussian rationals by cross-multiplication; a float family with every entry exactly on the real or imaginary axis; scalar factors and divisors i, -i, 2i, -1 in histories and sequences; graded pivot candidates exactly on the negative imaginary axis. CPU count: the product for n up to 40 (beyond the number of CPUs) and a sample of the small-n histories re-run with the process restricted to 1, 2, 3 CPUs must give the same events. Awkward pivots: integer systems A = P(4L)U whose elimination is exact in f64 although the pivots (49, 51, 98, 103, 147, ...) have inexact reciprocals - f64 is judged exactly like Rat. Exponent sweep: such exact systems scaled by 2^k for k over the whole f64 exponent axis (-1070..1020, grid of 8 in the quick tier and 2 at the extremes, every k in the thorough tier; subnormal pivots included; Complex for -530..500 where its own quotient stays in range), right-hand side scaled alike or not at all, det where 2^(nk) is representable - judged exactly on the integer system by homogeneity. Growth adversaries for banded partial pivoting (f64 and Complex, n = 8..12, m1 = 2..4, wide upper band carrying the last one or two columns or a full band of noise): in every column the diagonal is the smallest candidate and the k-th candidate is rho times the previous one (rho = 1.5, 2, 4, 7.9, 8.1, 16; also all deeper candidates about rho), inexact noise on every entry - the residual is judged componentwise in units of eps (|L||U||x|)_i with the factors of a reference elimination with partial pivoting in double-double (ties excluded), guard 16 n (x4 complex), i.e. WITHOUT the worst-case growth 2^(n-1): a search that keeps a smaller row (multipliers above 1) is rejected. Std-trait forms: Clone::clone_from as a mutator of the sequence model, along chains of sources of the same geometry, the same storage shape with another split, the same number of slots with another n, larger, smaller, 1 x 1 and back, sources built plainly / grown by resize / cloned from a dropped original, targets fresh / mutated / resized - the target must become the source, geometry included, the source stay as it was; then all observers, det and solve on target and source, a write to one and a look at the other (both ways), clone_from in the opposite direction, clone-and-drop, and == / != against a clone (true), a clone with one entry changed and an object with the same storage but another split (false; != the negation). Operands of different geometry: for every (n, m1, m2) with n <= 7 (8 in the thorough tier) +, -, += and -= (both forms) with a second operand that agrees in the aggregates a storage check could see but not in geometry - equal n and equal m1+m2 with another split (identical storage shape), equal number of slots with another n, one bandwidth or the size off by one, contained and containing bands: the call must refuse or deliver the sum / difference of the dense twins (Trace_Banded: panic or DenseLin), and the left operand must be intact afterwards. Refused calls and what follows (sequences on one object that starts singular with column k = first / middle / last zero, n = 1 with a zero entry): solve on the singular matrix, a right-hand side of another size (must be refused) and out-of-range get / set are followed at once by the same call again, det (exactly 0), the calls on a clone, stand-alone solve / det on other regular and singular objects on the same thread, assignments that keep the matrix singular, the assignment that repairs it (solve and det must then be right, repeatedly), the matrix broken again, scaled, and repaired with another value; every event must start from the model value - a refused call leaves the object as it was. Other geometries: one object resized to a different (n, m1, m2) - systematically pairs with the same number of storage slots but another storage shape, pairs that only move the split, and Banded::empty() followed by resize - then fill and assignment of every in-band entry through the index operator, then every observer against the dense twin (resize itself is only required to deliver the new geometry with well-formed storage). Non-finite padding (floats): NaN, +-inf, +-f64::MAX (overflowing under *= 4) and -0.0 in the slots outside the matrix must not reach product, det or solve. Extreme magnitudes (floats, every n): regular systems uniformly scaled by 2^+-60, 2^+-200, 2^+-400 with the solution O(1) or as extreme as the matrix, and row- / column-graded by such factors - the same guard must hold (the measure is evaluated on exactly descaled data), a panic or refusal is a violation; det is judged while 2^(n e) stays representable. Sequences on ONE object: det, solve, product and all in-band reads before and after EVERY mutating operation '
         '(index writes, fill, fill_band, resize, += / -= &B and B, *= s, /= s, += c, -= c); the trace specification keeps the model\'s current value and demands that every event starts from it.',
    note='Exact: everything over Rat and all integer-valued histories in every element type (decided by TLC). Measured: f64/Complex det and solve - the harness '
         'computes error units against complex double-double references (backward error of solve in units of eps(|A||x|+|b|); determinant error in units of '
         'eps sqrt(n) prod_i max(|row_i|, max|a|)), TLC applies the a-priori GEPP guard. Singular systems: det must be 0 (exact types) / within the guard of 0 (floats); '
         'solve on a singular system is outside the property and accepted whatever it does. Off-band element access may panic or return 0. '
         'Padding of arbitrary content is built through the public API (Banded::new + resize re-interpretation + in-band assignment); if that does not reproduce the requested storage the plainly built matrix (uniform padding = fill value) is used instead. '
         'A "built" event per case checks that new + in-band assignment put every entry into slot (i, m1+j-i); exact det/solve events carry the matrix the case prescribes as operand.',
    design='4 (C04)')

NT = lambda e: True


def check(ctx):
    q = ctx.quick
    ctx.tlc_mc('MC_Banded', 'MC_Banded_quick.cfg' if q else 'MC_Banded.cfg',
               label='compact band LU as a state machine vs Leibniz/Cramer on the dense twin, n <= 3 %s, values {-1,0,1}; operator laws for every (n,m1,m2), n <= %d' % (('(n = 3: m1+m2 <= 3), padding distinct nonzero', 6) if q else ('all bandwidths, padding zero / distinct nonzero', 8)))
    if not q:
        ctx.tlc_mc('MC_Banded', 'MC_Banded4.cfg', label='the same for n = 4, m1 + m2 <= 2')
    ctx.tlc_mc('MC_Banded', 'MC_Banded_signed.cfg', expect_violation='DetOK',
               label='deviation switch PivotBy = "signed" (defect D2): DetOK must fail (diag(-1,1) stored with one sub-diagonal)')
    ctx.exhaustive_parts.append('every band matrix n <= 3 over {-1,0,1} (thorough: n = 4 with m1+m2 <= 2) through the transcribed compact LU')
    # spec -> impl
    wt = with_types(('rat', 'f64', 'rat', 'cx'), 'banded')

    def tr(c, k):
        out = wt(c, k)
        if q and k % 3 != 0:          # quick: det / solve on every enumerated matrix, product / reads on every third
            for d in out:
                d['aux'] = False
        return out
    gen = ctx.tlc_cases('MC_Banded', 'Gen_Banded_quick.cfg' if q else 'Gen_Banded.cfg', transform=tr, name='gen_banded')
    ev = ctx.exec('banded', gen)
    ctx.validate('Trace_Banded', ev, gen, 'banded', nontrivial=NT)
    # impl -> spec: all 385 (n, m1, m2)
    cases = ctx.gen('banded')
    ev = ctx.exec('banded', cases)
    ctx.validate('Trace_Banded', ev, cases, 'banded', nontrivial=NT)
    ctx.exhaustive_parts.append('all 385 triples (n <= 10, m1 < n, m2 < n): one history and seven value families each on the real code')
    return ctx.finish(
        rule='cases: (i) every initial state of the Banded model (n <= 3) as det/solve/product/index calls, element types rotating rat/f64/rat/cx; '
             '(ii) for each of the 385 (n,m1,m2): histories of 14-30 operations (every operation of the API, own/ref forms, random padding), det/solve/product on seven value families, graded pivot-candidate float cases for m1 >= 2; '
             '(iii) for n = 1..10 sequences on one object interleaving det/solve/product/reads with every mutator; '
             'every event is counted (each carries a non-empty operand); distinct = distinct (operation, operand, arguments, outcome) tuples.',
        trusted=['harness projection of Banded<T> through compact() and the index operator', 'double-double reference elimination and residuals (harness/src/suites/banded.rs, dd.rs)',
                 'TLC', 'Banded.tla dense-twin operators (cross-checked against Leibniz/Cramer in MC_Banded)'])
