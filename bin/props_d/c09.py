"""C09 - iterative solvers converge on well-posed systems and never corrupt a correct x."""
import json
from _krylov_common import replay_cases, op_counts

PID = 'C09'

CLAIM = dict(
    text='Krylov.tla: ExactStart (an initial residual that passes the test => the only continuation is AcceptInitial: Ok(0), x untouched) is checked by TLC for all four kinds; with the switch BiCGInitialCheck = FALSE (solve_bicg before fix D5) TLC exhibits the counterexample. '
         'The CG recurrences of solve_cg are transcribed over exact rationals and checked by TLC on every 2x2 symmetric strictly dominant integer system in scope: termination within n = 2 iterations, recurrence residual = true residual in every state, final iterate = Cramer solution; the exact iterates are emitted as cases and replayed on the real solvers. '
         'Against the real code TLC validates every recorded call on generated systems with provable conditioning (SPD = D + S with Gershgorin-bounded kappa <= 12 and <= 1000; strictly row-dominant nonsymmetric with ratio <= 0.4 and diagonals of either sign; nonsymmetric dominant matrices with equal row and column sums or symmetric pattern (circulants, D + constant-weight cyclic shifts, D + weighted permutations, skew part + dominant diagonal, one SPD circulant sub-family for CG); strongly non-normal upwind stencils (family upw: tridiag(-a,d,-c) and pentadiagonal with a/c in {3,4,5,8}, d = a+c+margin, margin 1/0.5/0.1, n = 30..60 inside the window n*log10(a/c)/2 <= 13.6, and 5-point upwind convection-diffusion stencils on grids up to order 60; right-hand sides ones/sin(k h)/e_1/random, zero and random guesses, tol 1e-6..1e-10; BiCG, BiCGSTAB, QMR; iteration guard 10n+100); initial guesses at distance 1e3, 1e6, 1e9 (QMR: 1e7) from the solution with tol >= 1e-12 x distance (QMR 1e-10 x), all solver variants incl. BiCG itol 2; sequences on one Sparse object, or two objects of the same size in alternation (between solves: insert overwriting / new entry / scale / transpose(), and writes through the public fields - one coefficient of val, the whole val array scaled or sign-flipped, made symmetric / nonsymmetric, a consistent rewrite of val, row_index and col_start; round 0 is a solve, products only, or nothing, so that the first solve may also follow the first mutation; every solve is judged against the independently tracked current dense matrix); extreme legal budgets usize::MAX, usize::MAX - 1, u32::MAX, i64::MAX on small well-posed systems for every variant; orders 1..60, every pattern/triplet order, right-hand sides 1e-8..1e8 and zero, guesses zero/random, tol 1e-12..1e-3): '
         'Ok, k <= 4n+40 (all kinds), for CG additionally k <= ceil(1.5*(sqrt(kappa)/2)*ln(2*sqrt(kappa)*max(1,|r0|/|b|)/tol))+5, agreement with Matrix::solve_basic on the dense copy within 4*kappa*tol + 64*n*kappa*eps; budget ladder after every successful convergence call (generous budget -> Ok(k); then budget k and k+1 must answer Ok(k) with bit-identical x and budget k-1 must answer Err - TLC checks the same law, BudgetLadder, on the protocol model); exact initial guess (integer systems, true residual exactly 0) => Ok(0) and x bit-identical; zero rhs + zero guess => Ok(0) and x = 0.',
    note='Decided exactly by TLC: ExactStart and the exact-rational CG laws (2x2 only: 3x3 overflows TLC integers). Resting on harness measurements: the Gershgorin / row-dominance condition bound, the CG iteration bound computed from it (logged as an integer, compared by the spec), agreement units against the dense solution. '
         '4n+40 is a calibrated constant (see notes), the CG bound is a-priori. Iterates are compared with the exact ones as conformance notes only. '
         'Random guesses are drawn on the scale of the solution (zero rhs: |r0| <= 1) because the stopping test is relative to |b|; the convergence clause is exercised on real-valued entries only - on integer data BiCG/QMR can hit an exact Lanczos breakdown (e.g. A = 256*[[1,0],[-1,-3]], b = 256*(12,0): solve_bicg returns Err(NaN)), an algorithmic limit of look-ahead-free BiCG rather than a coding defect. Known findings (known_findings.json): solve_bicg and solve_qmr fail (Err, or 5..98 n iterations) on upwind tridiagonal stencils once (a/c)^(n/2) >~ 1e14 with a smooth right-hand side and zero guess (events flagged harsh: n*log10(a/c)/2 >= 14.2; a few such cases are generated so that the finding stays visible; BiCGSTAB is checked strictly there); solve_bicgstab hits an exact breakdown on tridiag(-8,9.1,-1), n = 30, b = 1e-7*sin; solve_qmr occasionally stalls just above a tolerance <= 5e-12 (2 of 684 000 calibration systems).',
    design='4 (C09)')


def check(ctx):
    q = ctx.quick
    ctx.tlc_mc('MC_Krylov', 'MC_Krylov_quick.cfg' if q else 'MC_Krylov.cfg', label='protocol incl. ExactStart for all four kinds (BiCGInitialCheck = TRUE)')
    ctx.tlc_mc('MC_Krylov', 'MC_Krylov_D5.cfg', expect_violation='ExactStartInv', label='deviation switch BiCGInitialCheck = FALSE (solve_bicg before fix D5): ExactStart counterexample expected')
    ctx.tlc_mc('MC_Krylov', 'MC_KrylovCG_quick.cfg' if q else 'MC_KrylovCG.cfg', label='exact-rational CG on every 2x2 system in scope: residual recurrence = true residual, termination within 2 iterations, solution = Cramer, no early acceptance')
    # spec -> impl: the exact iterates replayed on the real solvers
    gen = ctx.tlc_cases('MC_Krylov', 'Gen_Krylov_quick.cfg' if q else 'Gen_Krylov.cfg', transform=replay_cases('c09', [2000], True), name='gen_krylov_c09')
    ev = ctx.exec('krylov', gen)
    ctx.validate('Trace_Krylov', ev, gen, 'krylov')
    ctx.exhaustive_parts.append('every 2x2 symmetric strictly dominant integer system of the exact CG model x 5 solver variants: result compared with the exact rational solution')
    cnt1 = op_counts(ctx, ev)
    # conformance notes: exact iterates vs real iterates (CG, BiCG)
    worst = 0; nit = 0; late = 0
    for line in open(ev):
        e = json.loads(line)
        if e['op'] == 'iter':
            nit += 1; worst = max(worst, e['iter_units'])
    ctx.notes.append('conformance note: %d real CG/BiCG iterates compared with TLC\'s exact rational iterates, worst deviation %d units of 1e-12*max(1,|x_j|)' % (nit, worst))
    # impl -> spec
    cases = ctx.gen('krylov', name='krylov_c09', tier=ctx.tier + ':c09')
    ev = ctx.exec('krylov', cases)
    ctx.validate('Trace_Krylov', ev, cases, 'krylov')
    cnt2 = op_counts(ctx, ev)
    wk = {}
    for line in open(ev):
        e = json.loads(line)
        if e['op'] == 'conv' and e['ok']:
            key = e['kind'] + str(e['itol'])
            wk[key] = max(wk.get(key, 0), round(e['k'] / (4 * e['n'] + 40), 3))
    ctx.notes.append('events per op: TLC cases %s; generated %s; worst k/(4n+40) per solver in this run: %s' % (json.dumps(cnt1), json.dumps(cnt2), json.dumps(wk, sort_keys=True)))
    ctx.notes.append('calibration of the iteration guard 4n+40 on the unchanged tree (bin/krylov_calibrate.py thorough 1 24: 24 seeds x 50 000 cases, 683 974 conv events): worst k/(4n+40) = 0.464 (qmr, n = 53, k = 117); '
                     'bicg 0.384, bicgstab 0.372, cg 0.386; worst k/n = 2.21 (n >= 10); the guard is 2.15 x the worst observation. Re-run after adding the equal-row/column-sum family and the sequences (24 seeds, 1 197 993 conv events): worst 0.4275 (bicgstab, n = 59, k = 118), qmr 0.3975, bicg 0.392, cg 0.373. CG a-priori bound: worst k/bound = 0.52. agree_units and res_units never exceeded 1.')
    ctx.notes.append('calibration of the upwind family (bin/krylov_calibrate.py thorough 1 24 upw: 24 seeds x 8 400 cases, 201 600 conv events): inside the strict window worst k/(4n+40) = 0.441 (bicg), 0.436 (qmr), 0.257 (bicgstab); '
                     'a parameter scan (20 seeds x 17 088 cases, all n = 30..60 in steps of 5) showed one BiCG near-breakdown inside the window at 1.054 x (4n+40) (pentadiagonal a/c = 3, n = 50, b = e_1, random guess), hence the family guard 10n+100 = 2.3 x that observation; '
                     'in the finding window (index >= 14.2) unmodified BiCG failed 1566 of 4800 and QMR 771 of 2400 runs.')
    ctx.notes.append('far-guess cases (bin/krylov_calibrate.py thorough 1 24 far: 24 seeds x 9 000 cases): no failure, worst k/(4n+40) = 0.457 (bicgstab), agree_units <= 1; with a reduction of 1e-12 |r0| asked of solve_qmr it stalled in 4 of 54 000 runs (the recorded attainable-accuracy finding), hence the 1e-10 limit for QMR.')
    return ctx.finish(
        rule='cases: (i) every TLC-enumerated 2x2 system x 5 solver variants, (ii) seeded systems: families spd (kappa <= 12), spd3 (kappa <= 1000), dd, and integer twins spdi/ddi for exact starts x solver variants (CG on SPD only) x orders 1..60 x tolerances 1e-12..1e-3 x right-hand sides zero/random/A*x of scale 1e-8..1e8 x guesses zero/random/exact; '
             'events: conv (general), ladder (budgets k, k+1, k-1 after Ok(k)), exact (exact guess), zero (zero rhs and guess), iter (conformance note). Every event is non-trivial; distinct = distinct event contents.',
        trusted=['harness: Gershgorin/row-dominance condition bounds, CG iteration bound, agreement units (harness/src/suites/krylov.rs)', 'Matrix::solve_basic as the dense reference (C01)', 'TLC', 'Krylov.tla'])
