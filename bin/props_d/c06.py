"""C06 - all views of a sparse matrix agree; the compressed-column structure stays well-formed."""
from _sparse_common import transform_c06, op_counts, nontrivial, STATE_OPS

PID = 'C06'

CLAIM = dict(
    text='SparseCSC.tla holds the abstract matrix (a finite map from positions to values) next to the concrete compressed-column state on which the algorithms of src/sparse.rs are transcribed (stable sort by column + counting pass, column-index expansion, first-hit lookup, insert = overwrite or rebuild, transpose = count/prefix-sum/scatter, column walks for to_triplets/to_dense). '
         'TLC (i) explores the history machine exhaustively - every shape 0..2 x 0..3, every duplicate-free entry set of <= 3 entries in every triplet order, then every history of <= 3 operations from insert(new)/insert(overwrite)/scale/transpose (thorough: 0..3 x 0..3 with <= 3 entries / 2 operations, 0..2 x 0..3 with <= 4 entries / 3 operations, 0..2 x 0..2 with <= 4 entries / 4 operations) - with the invariants WellFormed, Refines (abstract content of the concrete state = abstract matrix), Views (get, to_triplets, to_dense, col_index and the triplet / raw-array round trips all describe the abstract matrix) in every state; '
         '(ii) enumerates those behaviours as cases (from_triplets in every order, and from_vecs on the arrays in every within-column order) replayed on the real Sparse<Rat>/Sparse<f64>; (iii) validates event by event recorded executions over all shapes 0..8 x 0..8, every permutation of the triplet list for <= 5 entries, random permutations beyond, raw-array inputs with empty border rows/columns, special patterns and histories of 50 operations: after every step the six public fields must be well-formed storage whose abstract content equals the reference map, and get on every position, to_triplets, to_dense and col_index must each describe that map. Exact (integers).',
    note='Decided exactly by TLC: the model-level invariants in the stated small scope, and for every recorded step the equality of abstract content and views with the reference. Content and views are compared BY VALUE: an explicitly stored zero and an absent entry are the same (get may answer Some(0) or None, to_triplets / the entry count may or may not include it), but the value 0 must be reported by every view after an overwrite with 0 or a scaling by 0; the arrays must be well-formed and duplicate-free either way. The order of row indices inside a column is not demanded (compared with the transcription only as an informational note in the evidence). Duplicate entries count as ill-formed. Trusted: TLC, the abstract operators of SparseCSC.tla (cross-checked against the transcribed algorithms by the Refines/Views invariants, and the linear refinement test against its definition on perturbed maps), the harness projection of the public fields and view results to integers. col_index is compared with the expansion of the logged (well-formed) column starts. Behaviour on out-of-range positions or duplicate triplets is outside the property and not generated.',
    design='4 (C06)')


def check(ctx):
    q = ctx.quick
    inv = 'WellFormed, Refines, Views, linear-refinement equivalence in every state'
    if q:
        ctx.tlc_mc('MC_SparseCSC', 'MC_SparseCSC_quick.cfg', label='history machine: shapes 0..2 x 0..3, every entry set of <= 3 entries in every triplet order, every history of <= 3 insert/overwrite/scale/transpose; ' + inv)
        ctx.tlc_mc('MC_SparseCSC', 'MC_SparseCSC_zero_quick.cfg', label='same machine with explicit zeros (initial zero entry, insert of 0 new/overwrite, scale by 0): shapes 0..2 x 0..3, <= 3 entries, <= 2 operations; + Inv_Value (by-value tests = definition; a storage that drops zeros passes)')
    else:
        ctx.tlc_mc('MC_SparseCSC', 'MC_SparseCSC_zero.cfg', label='same machine with explicit zeros (initial zero entry, insert of 0 new/overwrite, scale by 0): shapes 0..2 x 0..3, <= 3 entries, <= 3 operations; + Inv_Value')
        ctx.tlc_mc('MC_SparseCSC', 'MC_SparseCSC.cfg', label='history machine: shapes 0..3 x 0..3, every entry set of <= 3 entries in every triplet order, every history of <= 2 operations; ' + inv)
        ctx.tlc_mc('MC_SparseCSC', 'MC_SparseCSC_deep.cfg', label='same machine: shapes 0..2 x 0..3, <= 4 entries in every order, histories of <= 3 operations; ' + inv)
        ctx.tlc_mc('MC_SparseCSC', 'MC_SparseCSC_deep2.cfg', label='same machine: shapes 0..2 x 0..2, <= 4 entries (the full matrix) in every order, histories of <= 4 operations; ' + inv)
    # spec -> impl: every behaviour of the model replayed on the real Sparse<T>
    gen = ctx.tlc_cases('MC_SparseCSC', 'Gen_SparseCSC_quick.cfg' if q else 'Gen_SparseCSC.cfg', transform=transform_c06(both_ctors=not q), name='gen_sparse_c06')
    ev = ctx.exec('sparse', gen)
    cnt, conf = op_counts(ev, STATE_OPS)
    ctx.validate('Trace_SparseCSC', ev, gen, 'sparse', nontrivial=nontrivial)
    ctx.exhaustive_parts.append('all model behaviours of length 2 on shapes 0..2 x 0..%d (every entry set <= 3, every triplet order; from_triplets and from_vecs) replayed on the real Sparse' % (2 if q else 3))
    ctx.notes.append('informational (never a violation): the storage order of the real object equals the transcribed algorithms\' order in %d of %d replayed steps' % (conf[0] - conf[1], conf[0]))
    # ... and the behaviours of the machine with explicit zeros
    genz = ctx.tlc_cases('MC_SparseCSC', 'Gen_SparseCSC_zero_quick.cfg' if q else 'Gen_SparseCSC_zero.cfg', transform=transform_c06(both_ctors=not q), name='gen_sparse_c06_zero')
    evz = ctx.exec('sparse', genz)
    op_counts(evz, STATE_OPS)
    ctx.validate('Trace_SparseCSC', evz, genz, 'sparse', nontrivial=nontrivial)
    ctx.exhaustive_parts.append('all model behaviours of length 2 with explicit zeros (zero initial entry, insert 0, scale by 0) on shapes 0..2 x 0..2, <= %d entries' % (2 if q else 3))
    # impl -> spec: the property's full stated range
    cases = ctx.gen('sparse')
    ev = ctx.exec('sparse', cases)
    cnt2, _ = op_counts(ev, STATE_OPS)
    ctx.validate('Trace_SparseCSC', ev, cases, 'sparse', nontrivial=nontrivial)
    ctx.exhaustive_parts.append('all 81 shapes 0..8 x 0..8; every permutation of the triplet list of each generated pattern with <= 5 entries')
    ctx.notes.append('events per operation: replay %s; recorded %s' % (cnt, cnt2))
    return ctx.finish(
        rule='cases: (i) every TLC-enumerated behaviour of the history machine (from_triplets in every order / from_vecs in every within-column order, then 2 operations), '
             '(ii) per shape (r,c) in 0..8^2 a random duplicate-free pattern in random triplet order or as raw arrays + 6 operations, (iii) all n! triplet orders of patterns with n <= 5 entries (half of them confined to two columns) + transpose, '
             '(iv) raw compressed-column arrays with shuffled columns and empty border rows/columns, (v) empty/full/diagonal/single-column/single-row patterns, (vi) histories of 50 insert(new)/overwrite/scale/transpose operations with occasional re-construction, (viii) from_vecs inputs with full columns / a single column / a single row stored descending, rotated and in random row order at sizes 8 and below, every view after construction, overwrites, transpose, new entry, scale, (ix) workspace wrap-around cases, all in the one harness process and thread: a large instance (many rows / many columns / full), and for every operation (transpose, multiply, transpose_multiply, get, to_dense, to_triplets/col_index, scale, insert overwrite/new, from_triplets, and all together) a use on the large instance, G-1 unlogged calls on small instances (<= 2 rows/columns, <= 3 entries) and the same use again, for G in {255,256,257,511,512,65535,65536,65537}; the large uses are ordinary events, the small calls are only counted (event gap), (x) poison sequences: every kind of refused call (insert / get out of range, from_triplets with a bad triplet at any list position after 0, 1 or many valid ones, wrong-length vectors, inconsistent raw arrays) run under a panic guard and followed at once, on the same thread, by the fields and all views of the SAME object (the reference does not move: it must still be the unchanged matrix), a fresh assembly of the same shape, one of another shape and an insert sequence, each judged as usual; the refused call itself only has to not return where src/sparse.rs documents a panic, (vii) zero-centred histories: overwrite of an existing entry with 0, new entry 0, scale by 0, transposes in between, non-zero over zero; explicit zeros also occur at random in every other family (8% of constructor values, 12%/25% of new/overwriting inserts); element types Rat and f64 (integer data). '
             'An event is non-trivial if the matrix has at least one stored entry (or the call panicked); distinct = distinct (operation, arguments, logged fields and views).',
        trusted=['harness projection of Sparse<T> fields and view results to integers (harness/src/suites/sparse.rs)', 'TLC', 'abstract operators of SparseCSC.tla as the reference'])
