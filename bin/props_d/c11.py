"""C11 - polynomial ring and calculus laws."""

import json
import zlib

PID = 'C11'

CLAIM = dict(
    text='Poly.tla defines sum, difference, negation, product, scalar multiple, Horner evaluation, (repeated) differentiation, trim, is_zero and degree of coefficient '
         'sequences over integers, rationals and Gaussian integers from the textbook formulae. TLC (i) checks the ring and calculus laws (commutativity, associativity, '
         'distributivity, p-p=0, the empty polynomial acting as zero, degree of products, evaluation homomorphism at 5 points, Horner = power sum, linearity of the '
         'derivative, product rule, k*a_k, order deg+1 gives the empty polynomial, agreement of the rational/Gaussian operators with the integer ones) on ALL triples of '
         'coefficient sequences of length 0..3 over {-1,0,1} (64 000 triples in the thorough tier), (ii) enumerates all 1 600 ordered pairs (and all pairs of '
         'Gaussian-integer polynomials of length <= 2) as cases executed on the real Polynomial<Rat>/<f64>/<Cmplx>, by reference and consuming, and (iii) validates every '
         'recorded call of the real code for all length pairs 0..9 x 0..9 (degree 0..8 and the empty polynomial, either order), rational coefficients, zero polynomials, '
         'leading zeros, RUNS of equal coefficients (all equal, a window of 3..5 equal values at every position, blocks), evaluation points |x| <= 2, derivative orders 0..deg+1: each result must be equal as a polynomial to the operator applied to the operands, not '
         'longer than the textbook length, and each value equal exactly. Exact (integers / reduced rationals).',
    note='Decided exactly by TLC. Not demanded (accepted whatever happens): eval/derivative/trim of the empty polynomial, derivative orders above deg+1, derivative_at at '
         'order deg+1, degree() of the empty polynomial; a result may carry fewer leading zeros than the model. Trusted: TLC, Poly.tla (cross-checked by the laws), '
         'the harness projection of a Polynomial through size() and the index operator.',
    design='4 (C11)')


def _stamp(tys):
    def f(c, n):
        # TLC prints cases in a worker-dependent order: derive every choice from the case itself, not from its position
        n = zlib.crc32(json.dumps(c, sort_keys=True).encode())
        d = dict(c)
        d['suite'] = 'poly'
        d['ty'] = 'cx' if 'pi' in c else tys[n % len(tys)]
        d['form'] = 'own' if (n // len(tys)) % 2 else 'ref'
        # the unary battery once per p (when q is empty), the pair battery always
        d['bat'] = 'full' if not c['q'] else 'pair'
        cx = d['ty'] == 'cx'
        d['xs'] = [[-2, 1, 2, 0, -1], [1, 2, -2, -1, 0], [2, -1, 0, 1, -2]][n % 3] if not cx else [0, 1, -1, 0, -2]
        d['ss'] = [3, -2, 0]
        if cx:
            d['xsi'] = [1, 1, 1, -2, 0]
            d['ssi'] = [1, 0, -1]
        d['beyond'] = 1
        return [d]
    return f


def check(ctx):
    q = ctx.quick
    ctx.tlc_mc('MC_Poly', 'MC_Poly_quick.cfg' if q else 'MC_Poly.cfg',
               label='ring + calculus laws on all triples of coefficient sequences of length 0..3 (third operand 0..%d) over {-1,0,1}' % (2 if q else 3))
    nt = lambda e: bool(e.get('panic') or e.get('p') or e.get('q'))
    # spec -> impl: every ordered pair of the model's polynomials on the real types
    gen = ctx.tlc_cases('MC_Poly', 'Gen_Poly.cfg', transform=_stamp(['rat', 'f64']), name='gen_poly')
    ev = ctx.exec('poly', gen)
    ctx.validate('Trace_Poly', ev, gen, 'poly', nontrivial=nt)
    gen = ctx.tlc_cases('MC_Poly', 'Gen_Poly_cx_quick.cfg' if q else 'Gen_Poly_cx.cfg', transform=_stamp(['cx']), name='gen_poly_cx')
    ev = ctx.exec('poly', gen)
    ctx.validate('Trace_Poly', ev, gen, 'poly', nontrivial=nt)
    ctx.exhaustive_parts.append('all 1 600 ordered pairs of integer polynomials of length 0..3 over {-1,0,1}; all pairs of Gaussian-integer polynomials of length 0..2 over %s' % ('{0,1}' if q else '{-1,0,1}'))
    # impl -> spec
    cases = ctx.gen('poly')
    ev = ctx.exec('poly', cases)
    ctx.validate('Trace_Poly', ev, cases, 'poly', nontrivial=nt)
    ctx.exhaustive_parts.append('all 100 length pairs 0..9 x 0..9 (degree 0..8 and the empty polynomial)')
    _cover(ctx, ev)
    return ctx.finish(
        rule='cases: (i) every pair of the model enumerated by TLC, (ii) random pairs for every length pair 0..9 x 0..9, |coeff| <= 9, Polynomial<Rat>/<f64>/<Cmplx> rotating, '
             'by-reference and consuming forms, (iii) rational coefficients, (iv) zero polynomials / leading zeros / cancelling sums, (v) the same object on both sides of every by-reference operator and chained expressions, (vi) sequences on ONE object: every observer, a mutator (IndexMut, coeffs() assignment / push / pop, trim), the same observers with the same arguments again - judged against the current coefficients, (vii) single writes that flip the zero-ness (zero <-> non-zero, empty -> push) with is_zero() / degree() / size() / eval observed twice before and after each write, (viii) histories and moves: operands built through histories (Vec::with_capacity + push, coeffs().pop / truncate / clear + refill, trim after padding, index writes, results of earlier operations), every observer called on the operand, the operand ITSELF consumed by / passed to every consuming and by-reference operation in both positions, every observer called on the result, (ix) refused calls (eval / derivative / trim of the empty polynomial, index out of range, polydiv by zero, roots of degree 0) immediately followed on the same thread by the ordinary battery, twice, (x) two live objects related by Clone (clone, `&p + &empty`, clone after observers, clone of a clone, a clone that outlives its original): mutators and observers interleaved on both, the observers with the same arguments on one and then the other, each judged against its own model (event field obj). One event per public call; '
             'non-trivial = a non-empty operand or a panic; distinct = distinct (operation, operands, arguments, outcome).',
        trusted=['harness projection of Polynomial<T> through size() and Index (harness/src/suites/poly.rs)', 'TLC', 'Poly.tla operators as reference definitions'])


def _cover(ctx, evpath):
    import json
    ops = {}
    for line in open(evpath):
        e = json.loads(line)
        k = '%s/%s' % (e['op'], e['kind'])
        ops[k] = ops.get(k, 0) + 1
    ctx.notes.append('events per (operation/kind) in the recorded run: ' + ', '.join('%s=%d' % kv for kv in sorted(ops.items())))
