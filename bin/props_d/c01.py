"""C01 - dense direct solvers solve_basic / solve_lu."""
import _gauss as G

PID = 'C01'

CLAIM = dict(
    text='Gauss.tla gives Gaussian elimination with partial pivoting and the in-place LU solver of solve.rs as step-wise machines over exact rationals (pivot = any row of maximal magnitude). '
         'TLC (i) runs both machines on every nonsingular integer system of the scope (n=1 over -3..3, n=2 over -2..2, n=3 over {-1,0,1}; thorough adds all 25 right-hand sides for n=2, the full 3x3 set and 17 496 row-permuted unit-triangular 4x4 systems), through every tie, '
         'checking in every state that the Cramer/Leibniz solution satisfies the intermediate system, that no pivot is zero, that |multipliers| <= 1, that both machines end in the Cramer solution and agree, and that P*A = L*U; '
         '(ii) emits every such system as a case that the real solve_basic and solve_lu solve on Matrix<Rat> (result must equal the model solution), Matrix<f64> and Matrix<Cmplx>; '
         '(iii) validates recorded calls of the real code for n = 1..8 (dense, sparse, permuted triangular, graded 2^+-20, scaled 2^+-332, zero / 2^-20 / 2^-40 / 2^-57 / 2^-997 leading pivots forcing an exchange with a chosen row at every elimination step): '
         'plus (hardening) right-hand sides with exact zeros (zero vector, every unit vector e_k, leading zeros, a column / row of A) on systems that exchange rows at every step, pivots of modulus exactly 1 (+-1, +-i, (3+4i)/5) with non-zero entries below, exactly identity / unit triangular / elementary / permutation / diagonal matrices, uniform scaling 2^+-60 / 2^+-200 / 2^+-400 / 2^+-500 (complex: up to 2^+-332, the range of the textbook division of Complex<f64>), balanced row / column grading 2^+-60..2^+-400 whose pivot products under/overflow although the determinant is O(1), one tiny column / row, ill-conditioned nonsingular systems for n = 3..8 without any conditioning limit (Hilbert, Lotkin, Cauchy, Vandermonde on clustered nodes, scaled Pascal, nearly parallel rows/columns u v^T + 2^-20..2^-45 B, prescribed singular values 1..1e-8/1e-10/1e-12/1e-14 built as Q1 D Q2 with Householder reflectors; each with b = A x_true for an O(1) x_true and with a random b; entries encoded exactly as mantissa * 2^e; nonsingularity certified by double-double elimination), and SEQUENCES on one Matrix object (determinant()/inverse() called and discarded, solves on clones with two right-hand sides, then each of 21 mutators, then the solves again - judged against the entries the object holds at that moment); a Rat event is accepted iff len(x) = n and A*x = b exactly (cross-multiplied in TLC) and both solvers returned the same vector; a float event iff its backward error, measured in double-double, is <= 8 n^3 2^(n-1) units of eps (x8 complex), the a-priori bound of GEPP.',
    note='Exact over Rat (decided by TLC on integers). For f64/Complex the residual is measured by the harness in double-double arithmetic and logged as integer units; the bound is an a-priori theorem (Higham Thm 9.5, growth <= 2^(n-1)) with a constant factor > 5, so a correct GEPP cannot be rejected whatever cond(A) is (a method that is only forward stable, e.g. x = inverse(A) * b, exceeds the guard by orders of magnitude on the ill-conditioned families with b = A x_true), while an ineffective exchange on a tiny pivot gives >= 1e8 units. '
         'The pivot rule itself is not demanded of the implementation (any rule that solves exactly / backward-stably is accepted). Generated systems are provably nonsingular (determinant nonzero modulo 2^31-1); a panic of either solver on such a system is a violation. Trusted: TLC, harness projections, dd.rs.',
    design='4 (C01)')

EXPECT = [(op, ty) for op in ('solve', 'agree') for ty in ('rat', 'f64', 'cx')]


def check(ctx):
    q = ctx.quick
    ctx.tlc_mc('MC_Gauss', 'MC_Gauss_quick.cfg' if q else 'MC_Gauss.cfg',
               label='GEPP and LU-solve machines on every nonsingular system of the scope, every pivot tie: Preserved, NonzeroPivot, MultipliersBounded, Solved, Agree, P*A = L*U, Bareiss = Leibniz, residual predicate; deadlock check = no machine gets stuck')
    if not q:
        ctx.tlc_mc('MC_Gauss', 'MC_Gauss_n4.cfg', label='the same on all 17 496 row permutations of 4x4 unit upper triangular matrices over {-1,0,1} (exchanges at every step, up to 3 successive)')
    worst = {}
    # spec -> impl: every system of the model solved by the real code
    gen = ctx.tlc_cases('MC_Gauss', 'Gen_Gauss_quick.cfg' if q else 'Gen_Gauss.cfg', transform=G.model_transform('solve', 3 if q else 2), name='gen_gauss_solve')
    ev = ctx.exec('gauss', gen)
    ctx.validate('Trace_Gauss', ev, gen, 'gauss', nontrivial=G.nontrivial)
    G.merge_worst(worst, G.census(ctx, ev, EXPECT)[1])
    ctx.exhaustive_parts.append('every nonsingular system of the model scope (n <= 3) solved by solve_basic and solve_lu on Matrix<Rat>; result = Cramer solution')
    # impl -> spec: n = 1..8, all families
    cases = ctx.gen('gauss', name='gauss_c01', tier=ctx.tier + ':c01')
    ev = ctx.exec('gauss', cases)
    ctx.validate('Trace_Gauss', ev, cases, 'gauss', nontrivial=G.nontrivial)
    G.merge_worst(worst, G.census(ctx, ev, EXPECT, families=True)[1])
    ctx.notes.append('worst float MILLI-units observed (guard in units: 8 n^3 2^(n-1), x8 complex, x2 for agree): %s' % dict(sorted(worst.items())))
    return ctx.finish(
        rule='cases: (i) every nonsingular (A, b) of the TLC scope on Rat, every 2nd/3rd also on f64 and Complex (A + iA\'), (ii) seeded systems n = 1..8 in families dense / sparse / permuted triangular / 20-bit dense / graded / scaled / zero-or-tiny leading pivot at step s with exchange partner r, '
             'for Rat, f64, Complex, (iii) special right-hand sides x exchange-at-every-step / unit-pivot / exactly structured matrices, (iv) extreme uniform scalings, balanced gradings, tiny column / row (floats), (v) 21 mutator sequences on one object, (vi) ill-conditioned families (cond up to 1e14) with b = A x_true and random b. Each case = solve_basic, solve_lu (each on its own clone) and their agreement. (vii) 60/500 HISTORIES (mix cases: 8 calls whose sizes zig-zag 8,1,7,2,... across Rat/f64/Complex, about 40% of them unlogged determinant/inverse/solve_lu/solve_basic/lu_decomp_in_place calls; a replay re-executes the whole history), (viii) dense-stored band / lower-triangular matrices with a small diagonal (the exchange brings up a row reaching further right). Every call is logged even when it panics or returns a result of the wrong shape (such an event is rejected, never a tool error). (ix) EXPONENT SWEEP: systems that need an exchange (zero or 2^-57 leading pivot) scaled by 2^k for k = -1000..1000 step 25 and +-511, +-512, +-513, +-537, +-538, +-600 (Complex: |k| <= 500, where Complex<f64>::abs and the textbook division still work), (x) growth adversaries (graded Wilkinson: diagonal d, strictly lower -rho d, last column ones, rho = 0.9..1000, noisy entries, also transposed / row-permuted), (xi) orders 31..129 (quick) / 9..129 (thorough): non-dominant banded, block-tridiagonal, arrow and sparse-structured systems whose exact pivots stay above 1e-8 max|a|. Float events additionally carry sunits = residual in units of eps || |L||U| || ||x|| (|L||U| from a reference elimination in double-double, logged only when no pivot choice is nearly tied), guard 64 n (x8 complex): the componentwise bound of partial pivoting without the 2^(n-1) worst-case growth; for n > 8 it is the only effective guard. (xii) MIXED MAGNITUDES within one matrix: D1 A0 D2 with A0 small integers and independent power-of-two row (2^-300..2^300) and column (2^-600..2^600) scalings, judged by the scaling-invariant componentwise residual max_i |r_i| / (eps (|L||U||x|)_i) <= 64 n, (xiii) STRUCTURED small-integer matrices of order 5..12 over Rat/f64/Complex (symmetric with cancelling signed row sums incl. vanishing leading minors, skew-symmetric + diagonal, persymmetric, Toeplitz, circulant, arrowhead, singular leading block), (xiv) POISONED histories: calls that panic part-way (exact arithmetic overflowing after an exchange, wrong-length b, singular input) through every entry point, immediately followed by ordinary logged calls. Non-trivial: n >= 2. Distinct = distinct (call, element type, operand hash, outcome).',
        trusted=['TLC', 'harness/src/suites/gauss.rs projections and double-double residuals (harness/src/dd.rs)', 'Gauss.tla definitions (Leibniz determinant, Cramer) as the reference'],
        extra=dict(worst_float_milliunits=worst))
