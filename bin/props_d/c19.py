"""C19 - meshes: stored data through every access path, interpolation, quadrature, file round trip."""
import glob, os
import vlib

PID = 'C19'

CLAIM = dict(
    text='Mesh.tla defines the 1-D store node -> vars and the 2-D store (i,j) -> vars with every access path (set/get, index, '
         'assign, apply, cross-sections, var_as_matrix), piecewise-linear interpolation over exact rationals and the trapezium sums. '
         'TLC (i) explores every history of <= 2-3 writes on all mesh shapes 2..4 (x 2..4), 1-2 variables, values {0,1,3}, asserting on '
         'every transition the read-after-write law through every access path; proves by enumeration on all grids from {0,1,2,4,5} that '
         'interpolation returns nodal values at nodes and the linear interpolant between neighbours, that the trapezium rule equals the '
         'nodal-weight form and the iterated 1-D rule and is exact for every linear / bilinear integrand with small integer coefficients '
         '(against the closed-form integral), and square_trapezium = trapezium of squares; (ii) enumerates those behaviours as cases '
         'replayed on the real Mesh1D/Mesh2D; (iii) validates event by event recorded executions of the real code on non-uniform dyadic '
         'grids with 2..12 nodes per direction (spacings 2^-k, k <= 9), 1..4 variables, integer (dyadic) data: every returned number is '
         'exact and is recomputed by TLC from the model state. Special families: grids translated to large coordinates (offsets +-64, +-4096, +-2^20, '
         'and straddling 0) with interpolation on both sides of every node at dyadic distances 2^-12..2^-18 (exact) and at 1e-6..4e-6 (units); nearly '
         'uniform grids with spacings h(1 + e 2^-K), K = 12..30, in one or both directions, and exactly uniform ones, whose trapezium / square_trapezium '
         'values are recomputed exactly by TLC as split numbers H + L/2^F; file round trips into meshes that hold other data on another grid with equally '
         'many, fewer and more nodes, checked through every accessor; non-uniform grids (4..12 nodes, 1-D and both directions of 2-D) whose cell widths have '
         'uniform-looking summary statistics (first = last = mean, first = last, first = mean, palindromic, permuted multiset, two alternating widths, one odd cell); grids with WIDE cells (16, 64, 1024, 2^20) next to narrow ones (2^-9..1) in every order: interpolation on both '
         'sides of every node at 2^-12..2^-19 and 1e-6..4e-6 (exact, node-relative, inside narrow cells; units inside wide cells), quadratures exact as split numbers; round trips that reuse ONE file name (bit-exact nodal values at the nodes on grids with inexact reciprocal spacings; a longer output - bigger mesh, more variables, more digits - first, then a shorter one over it, and the reverse orders as controls).',
    note='Exact (decided by TLC on integers/rationals): all access paths, interpolation at nodes / mid-cells / dyadic points, 1-D and 2-D '
         'trapezium, square_trapezium. Harness measurements judged by guards in Trace_Mesh.tla: interpolation at arbitrary interior points '
         '(>= 1e-6 from every node; double-double reference, guard 4 units of 8 eps max|data|, a-priori bound 2.5 eps max|data|) and the '
         'output(file,p)/read(file) round trip (guard 1 unit of 10^-p per node and variable). Writes to a non-existent node must leave the '
         'store unchanged; whether they panic is C20. Trusted: TLC, Mesh.tla, the harness projection (get_nodes_vars node by node, scaling '
         'by powers of two), dd.rs.',
    design='4 (C19)')

WRITES = ('set', 'iset', 'isetv', 'assign', 'apply')
OPS1 = ['set', 'isetv', 'iset', 'get', 'index', 'index_all', 'coord', 'nodes', 'nnodes', 'nvars', 'interp', 'interp_off', 'interp_any', 'trap', 'roundtrip']
OPS2 = ['set', 'isetv', 'iset', 'assign', 'apply', 'get', 'index', 'index_all', 'coord', 'xnodes', 'ynodes', 'nnodes', 'nvars',
        'xsec_x', 'xsec_y', 'vam', 'trap', 'sq_trap']


def _sets1(vars_, n):
    """write the nodal data of a 1-D mesh through the three write paths"""
    ops = []
    for k, v in enumerate(vars_):
        w = (n + k) % 3
        if w == 0:
            ops.append(dict(op='set', node=k, v=v))
        elif w == 1:
            ops.append(dict(op='isetv', node=k, v=v))
        else:
            ops.extend(dict(op='iset', node=k, var=q, x=x) for q, x in enumerate(v))
    return ops


def _interp(xn, p, r):
    """interpolation op at the point p / 2^r (in units of the grid): exact ('interp') iff every cell containing it has a power-of-two width"""
    f = 1 << r
    widths = [xn[k + 1] - xn[k] for k in range(len(xn) - 1) if xn[k] * f <= p <= xn[k + 1] * f]
    exact = all(w & (w - 1) == 0 for w in widths)
    return dict(op='interp' if exact else 'interp_q', p=p, r=r)


def make_transform(iscale_log2):
    def transform(c, n):
        mode, nv, xn, yn = c['mode'], c['nv'], c['xn'], c['yn']
        out = dict(suite='mesh', mode=mode, nv=nv, xn=xn, yn=yn, sx=n % 3, sy=(n // 3) % 3, sv=(n // 2) % 3, ty='f64')
        ops = []
        if mode == 'store2':
            out['kind'] = 'm2'
            out['ty'] = 'rat' if n % 3 == 2 else 'f64'
            for s, o in enumerate(c['ops']):
                if o['op'] == 'set':
                    ops.append(dict(op='set', i=o['i'], j=o['j'], v=o['v']))
                elif o['op'] == 'iset':
                    ops.append(dict(op='iset', i=o['i'], j=o['j'], var=o['var'], x=o['x']))
                else:
                    ops.append(dict(op='assign', x=o['x']))
                if o['op'] != 'assign' and o['i'] < len(xn) and o['j'] < len(yn):
                    ops.append(dict(op='get' if (n + s) % 2 else 'index', i=o['i'], j=o['j']))
            ops.append(dict(op='index_all'))
            ops += [dict(op='xsec_x', i=i) for i in range(len(xn))] + [dict(op='xsec_y', j=j) for j in range(len(yn))]
            ops += [dict(op='vam', var=v) for v in range(nv)]
            ops += [dict(op='trap', var=n % nv), dict(op='sq_trap', var=(n + 1) % nv)]
        elif mode == 'store1':
            out['kind'] = 'm1'
            out['ty'] = 'rat' if n % 3 == 2 else 'f64'
            for s, o in enumerate(c['ops']):
                if o['op'] == 'set':
                    ops.append(dict(op='set', node=o['i'], v=o['v']))
                else:
                    ops.append(dict(op='iset', node=o['i'], var=o['var'], x=o['x']))
                if o['i'] < len(xn):
                    ops.append(dict(op='get' if (n + s) % 2 else 'index', node=o['i']))
            ops += [dict(op='index_all'), dict(op='nodes')]
            ops += [_interp(xn, x, 0) for x in xn] + [_interp(xn, xn[k] + xn[k + 1], 1) for k in range(len(xn) - 1)]
            ops += [dict(op='trap', var=v) for v in range(nv)]
            ops.append(dict(op='roundtrip', p=n % 7, m0=1 + n % 4))
            # the same file name again: a longer output (bigger mesh, more variables, more digits) first, then this mesh over it
            ops.append(dict(op='roundtrip', p=3, m0=len(xn), slot=1, aux=dict(n=len(xn) + 4, nv=4 if nv == 1 else nv, p=10)))
            ops.append(dict(op='roundtrip', p=10, m0=1, slot=1))
            ops.append(dict(op='roundtrip', p=2, m0=len(xn), slot=1))
        elif mode in ('data1', 'lin1'):
            out['kind'] = 'm1'
            ops = _sets1(c['vars'], n)
            f = 1 << iscale_log2
            if mode == 'data1':
                ops += [_interp(xn, p, iscale_log2) for p in range(xn[0] * f, xn[-1] * f + 1)]
            else:
                ops += [_interp(xn, xn[k] + xn[k + 1], 1) for k in range(len(xn) - 1)]
            ops += [dict(op='trap', var=v) for v in range(nv)]
            ops.append(dict(op='roundtrip', p=n % 5, m0=len(xn)))
            ops.append(dict(op='roundtrip', p=9, m0=len(xn), slot=1))
            ops.append(dict(op='roundtrip', p=1 + n % 3, m0=len(xn), slot=1))
        elif mode == 'lin2':
            out['kind'] = 'm2'
            out['ty'] = 'rat' if n % 4 == 3 else 'f64'
            a, b, cc, d = c['co']
            ops = [dict(op='apply', var=nv - 1, a=a, b=b, c=cc, d=d), dict(op='vam', var=nv - 1)]
            ops += [dict(op='trap', var=v) for v in range(nv)] + [dict(op='sq_trap', var=nv - 1)]
            ops += [dict(op='xsec_x', i=n % len(xn)), dict(op='xsec_y', j=n % len(yn))]
        else:
            raise vlib.ToolError('unexpected mode %r in a generated case' % mode)
        out['ops'] = ops
        return [out]
    return transform


def _nontrivial(e):
    def nz(v):
        if isinstance(v, list):
            return any(nz(x) for x in v)
        return isinstance(v, int) and not isinstance(v, bool) and v != 0
    return e.get('panic') or nz(e.get('post')) or e.get('op') in ('roundtrip', 'interp_any')


def _count_ops(ctx, events_path, label, need1, need2):
    seen = {}
    for e in vlib.read_ndjson(events_path):
        seen[(e['kind'], e['op'])] = seen.get((e['kind'], e['op']), 0) + 1
    missing = [('m1', o) for o in need1 if ('m1', o) not in seen] + [('m2', o) for o in need2 if ('m2', o) not in seen]
    if missing:
        raise vlib.ToolError('vacuity: %s exercised no event for %s' % (label, missing))
    ctx.notes.append('%s: events per (kind, op): %s' % (label, ', '.join('%s/%s=%d' % (k[0], k[1], v) for k, v in sorted(seen.items()))))


def _count_families(ctx, cases_path, events_path):
    """the special input families must be present: large coordinates, near-node points on both sides, nearly uniform grids, round trips into
    meshes with equally many / fewer / more nodes"""
    cases = {c['cid']: c for c in vlib.read_ndjson(cases_path)}
    n = dict(near_dyadic=0, near_1e6=0, large_offset_interp=0, fine_trap1=0, fine_trap2=0, fine_sq=0, fine_both=0, rt_same=0, rt_fewer=0, rt_more=0, rt_over_longer=0, rt_over_shorter=0, two_node=0, stat_trap1=0, stat_trap2=0, stat_sq=0, stat_flm_both=0, wide_exact=0, wide_units=0, wide_trap1=0, wide_trap2=0, wide_sq=0, node_exact_interior=0, node_last=0)
    for e in vlib.read_ndjson(events_path):
        c = cases[e['cid']]
        if e['kind'] == 'nx':
            if e['node'] == e['nn'] - 1:
                n['node_last'] += 1
            elif e['node'] > 0:
                n['node_exact_interior'] += 1
            continue
        if e['op'] in ('interp', 'interp_any') and 'near' in e:
            n['near_dyadic' if e['op'] == 'interp' else 'near_1e6'] += 1
        if e['op'] in ('interp', 'interp_any') and abs(c.get('ox', 0)) >= 4096:
            n['large_offset_interp'] += 1
        if e['op'] in ('trap', 'sq_trap') and e.get('rl', 0) != 0:
            n['fine_trap1' if e['kind'] == 'm1' else ('fine_sq' if e['op'] == 'sq_trap' else 'fine_trap2')] += 1
            if c.get('kx', 0) > 0 and c.get('ky', 0) > 0:
                n['fine_both'] += 1
        if e['op'] == 'roundtrip' and 'slot' in e:
            n['rt_over_longer' if e['slot'] == 1 else 'rt_over_shorter'] += 1
        if e['op'] == 'roundtrip' and not e['panic']:
            n['rt_same' if e['m0'] == e['nn'] else ('rt_fewer' if e['m0'] < e['nn'] else 'rt_more')] += 1
        if c.get('family') == 'stat' and e['op'] in ('trap', 'sq_trap'):
            n['stat_trap1' if e['kind'] == 'm1' else ('stat_sq' if e['op'] == 'sq_trap' else 'stat_trap2')] += 1
            if e['kind'] == 'm2' and c.get('fam') == 0:         # first = last = mean cell width in x AND y, interior non-uniform
                n['stat_flm_both'] += 1
        if c.get('family') == 'wide' and e['op'] in ('interp_off', 'interp_any'):
            n['wide_exact' if e['op'] == 'interp_off' else 'wide_units'] += 1
        if c.get('family') == 'wideq' and e['op'] in ('trap', 'sq_trap'):
            n['wide_trap1' if e['kind'] == 'm1' else ('wide_sq' if e['op'] == 'sq_trap' else 'wide_trap2')] += 1
        if e['op'] in ('trap', 'interp') and len(c['xn']) == 2:
            n['two_node'] += 1
    if min(n.values()) == 0:
        raise vlib.ToolError('vacuity: an input family is missing from the harness-generated cases: %s' % n)
    ctx.notes.append('input families (events): %s' % n)


def _no_files_left(ctx):
    left = glob.glob(os.path.join(ctx.out, '**', 'mesh_rt_*.dat'), recursive=True)
    for p in left:
        os.remove(p)
    if left:
        ctx.notes.append('%d round-trip files had to be removed by the driver' % len(left))


def check(ctx):
    q = ctx.quick
    env = {'MESH_DIR': ctx.out}
    ctx.tlc_mc('MC_Mesh', 'MC_Mesh_quick.cfg' if q else 'MC_Mesh.cfg',
               label='write histories of depth 2 on every mesh shape 2..4 (x 2..4), 1-2 variables (read-after-write through every access path on every '
                     'transition); interpolation laws on all 25 grids x all data over {0,1,3}; trapezium = nodal-weight form = iterated rule; exactness for '
                     'every linear/bilinear integrand with coefficients in %s on all 25 grids / 625 grid pairs; square_trapezium = trapezium of squares'
                     % ('{-1,2}' if q else '{-2,0,1,3}'))
    if not q:
        ctx.tlc_mc('MC_Mesh', 'MC_Mesh_d3a.cfg', label='every history of 3 writes, all shapes 2..4 x 2..4, one variable')
        ctx.tlc_mc('MC_Mesh', 'MC_Mesh_d3b.cfg', label='every history of 3 writes, all shapes 2..3 x 2..3, two variables, all value vectors over {0,1,3}')
    # spec -> impl
    gens = [('Gen_Mesh_quick.cfg', 1)] if q else [('Gen_Mesh.cfg', 2), ('Gen_Mesh_d3.cfg', 1)]
    for cfg, isl in gens:
        name = cfg.replace('.cfg', '').lower()
        cases = ctx.tlc_cases('MC_Mesh', cfg, transform=make_transform(isl), name=name)
        ev = ctx.exec('mesh', cases, env=env)
        ctx.validate('Trace_Mesh', ev, cases, 'mesh', nontrivial=_nontrivial)
    ctx.exhaustive_parts.append('every model behaviour (write histories of depth %s on non-square / all shapes; all grids x two data patterns; all grids x '
                                'linear/bilinear basis integrands) replayed on the real meshes' % ('2' if q else '2 and 3'))
    # impl -> spec
    cases = ctx.gen('mesh')
    ev = ctx.exec('mesh', cases, env=env)
    _count_ops(ctx, ev, 'harness-generated cases', OPS1, OPS2)
    _count_families(ctx, cases, ev)
    ctx.validate('Trace_Mesh', ev, cases, 'mesh', nontrivial=_nontrivial)
    ctx.exhaustive_parts.append('every node count 2..12 (1-D) and every shape 2..12 x 2..12 (2-D) occurs, with 1..4 variables')
    _no_files_left(ctx)
    ctx.assumptions.append('nodal data are integers / dyadic numbers (numerators |D| <= 1000, scale 2^-sv, sv <= 3) so that every f64 result is exact; '
                           'magnitudes are bounded so that TLC recomputes every result in 32-bit integers')
    ctx.notes.append('float guards are a-priori (not calibrated): interp_any <= 4 units of 8 eps max|data| (formula bound 2.5 eps max|data|), round trip <= 1 unit '
                     'of 10^-p (correct rounding gives 0.5); worst values observed on the unchanged tree over seeds 1,2,3,7,1234 (quick) and 1,2,7,1234 (thorough): 1 unit each. '
                     'TLC-generated grids contain cell widths 3 and 5: dyadic points in such cells are logged rounded to 2^-20 and compared with the model rational (interp_q).')
    ctx.notes.append('nodal values AT the nodes are demanded bit for bit (query = node coordinate as stored, kind nx: spacings k/64 with odd k >= 47, k/1000, k/3, data 1.0 / '
                     'small integers / general floats / 2^53 next to 1) at the first and every interior node. Measured on the unchanged tree: at the LAST node the code '
                     'evaluates left + ((right-left)/dx)*dx in the only cell containing it and returns e.g. -313.5621684875946 for the stored -313.56216848759465 '
                     '(nodes 5, 5.1, 5.2); that single position is judged in units (worst 1 unit of 8 eps max|data|, guard 4) instead of bit for bit.')
    ctx.assumptions.append('interpolation at arbitrary points: points at distance >= 1e-6 from every node (the 1e-7 snapping window is excluded as the property says)')
    return ctx.finish(
        rule='(0) plus the families named in the claim (large offsets / near-node points, nearly uniform grids, stale receiving meshes); cases: (i) every TLC-enumerated behaviour of MC_Mesh (write histories; data/linear/bilinear cases on all small grids), (ii) per node count 2..12 '
             '1-D histories (f64: interpolation at every node, every mid-cell, random dyadic and arbitrary interior points, trapezium, file round trip; Rat: access '
             'paths), (iii) per shape 2..12 x 2..12 2-D histories (set / index / assign / apply writes incl. writes to non-existent nodes, reads through get, index, '
             'cross-sections, var_as_matrix; trapezium and square_trapezium). An event is non-trivial if the store is non-zero, it panicked, or it is a float '
             'measurement; distinct = distinct (operation, arguments, store, outcome) tuples.',
        trusted=['harness projection of a mesh to integers (harness/src/suites/mesh.rs: proj1/proj2 through get_nodes_vars, power-of-two scaling)',
                 'double-double reference for interpolation at non-dyadic points (harness/src/dd.rs)', 'TLC', 'Mesh.tla operators as the reference definitions'])
