"""X01 - Mesh2D: the whole public surface of src/mesh2d.rs (beyond the listed properties)."""
import glob, os
import vlib

PID = 'X01'

CLAIM = dict(
    text='Mesh2D.tla models ohsl::Mesh2D<T> as the value [element type, x-nodes, y-nodes, nvars, store (i,j,v) -> value] with one operator per '
         'public function of src/mesh2d.rs, written from its documentation and the textbook definitions: new (zeros), nvars, nnodes, coord, '
         'xnodes, ynodes, set_nodes_vars / get_nodes_vars / index / index_mut, assign, apply (function of the node coordinates into one variable, '
         'the others untouched), cross_section_xnode / cross_section_ynode (the 1-D mesh returned: nodes, nvars, values), var_as_matrix, '
         'trapezium / square_trapezium (the iterated composite trapezium rule, times 4, over integers), output / output_var (the file as a '
         'sequence of lines of numbers: y outer, x inner, one blank line per y-node). TLC (i) explores every history of 2 mutators on every mesh '
         'shape 0..3 x 0..3 (quick: without 3x3; thorough: 0..4 x 0..4 without 4x4, and every history of 3 mutators on 0..3 x 0..3 without 3x3), 1-2 variables, f64 (integers) and complex (pairs), all value '
         'vectors over 3 values, asserting on every transition the read-after-write law through EVERY observer (stated without the model\'s write '
         'operators) and on every state: the node <-> slot map i*ny+j is a bijection and the flat store refines the function; cross-sections, '
         'matrix rows/columns and file lines agree; the quadrature equals the sum over cells, the nodal-weight form and the transposed rule, is '
         'additive over every split of the grid in x and y, integrates a constant to constant * area, is exact for bilinear integrands (closed '
         'form), leaves other variables alone, and square_trapezium is the rule of the squares; (ii) enumerates those histories as cases replayed '
         'on the real Mesh2D<f64> / Mesh2D<Complex<f64>>; (iii) validates event by event recorded histories of the real object on every shape '
         '0..6 x 0..6, 1..3 variables, both element types, non-uniform (and some uniform) grids: 4-8 mutators each followed by random observers '
         'and closed by a sweep of every observer with every argument; files are also written over a longer stale file of the same name; grids whose first and last cells are equally wide with a different interior are included. The model state is the mesh content; each event\'s return value and the '
         'store read back after it must equal the model operator applied to the model state; a call with in-range arguments must not panic.',
    note='Exact (decided by TLC on integers): everything on dyadic data (denominators 1,2,4,8) including both quadratures and every printed '
         'digit when the precision suffices. Units: on the "inexact" families (coordinates over 10, 5, 3; values over 3, 5, 10) the quadrature '
         'is logged as the nearest integer of q*4*dx*dy*dv (recomputed exactly by TLC) plus the residual in units of the a-priori rounding bound '
         '(cells+16) u sum_cells (|x_i|+|x_i+1|)(|y_j|+|y_j+1|)/4 sum|v| (guard 8 units, Trace_Mesh2D.QuadGuard); a printed number must equal '
         'the value when the value has a p-digit decimal expansion and be within one unit of 10^-p otherwise. Not constrained (free choices / '
         'undocumented): how a complex value is typeset (Complex\'s Display ignores the precision; brackets and commas are dropped by the '
         'reader), blanks within a line, whether the blank line after the last y-block is present, the storage layout itself, quadratures of a mesh with an empty direction (the code panics or returns 0), '
         'out-of-range arguments (C20). Trusted: TLC, Mesh2D.tla, the harness projection (get_nodes_vars node by node, numerator = round(x*den) '
         'checked bit for bit), the decimal token reader, the residual measurement.',
    design='12.9 (X01)')

MUT = ('set', 'isetv', 'iset', 'assign', 'apply')
OBS = ('nvars', 'nnodes', 'xnodes', 'ynodes', 'coord', 'coord_all', 'get', 'index', 'index_all', 'xsec_x', 'xsec_y', 'vam', 'trap', 'sq_trap',
       'output', 'output_var')
DENS = [(1, 1, 1), (2, 4, 8), (8, 2, 1), (4, 1, 2), (1, 8, 4), (10, 3, 5), (2, 2, 2), (5, 10, 10)]


def transform(c, n):
    """a TLC-enumerated history -> a case: each mutator followed by a read of the touched node and one rotating observer, closed by a sweep"""
    cx, xn, yn, nv = c['cx'], c['xn'], c['yn'], c['nv']
    dx, dy, dv = DENS[n % len(DENS)]
    ops = []
    for s, o in enumerate(c['ops']):
        name = o['op']
        if name == 'set':
            ops.append(dict(op='set' if (n + s) % 2 else 'isetv', i=o['i'], j=o['j'], v=o['v']))
        elif name == 'iset':
            ops.append(dict(op='iset', i=o['i'], j=o['j'], var=o['var'], x=o['x']))
        elif name == 'assign':
            ops.append(dict(op='assign', x=o['x']))
        elif name == 'apply':
            ops.append(dict(op='apply', var=o['var'], co=o['co'], coi=o['coi']))
        else:
            raise vlib.ToolError('unexpected op %r in a generated case' % name)
        if name in ('set', 'iset'):
            ops.append(dict(op='get' if (n + s) % 2 else 'index', i=o['i'], j=o['j']))
            if (n + s) % 3 == 0:
                ops.append(dict(op='coord', i=o['i'], j=o['j']))
        r = (n + 3 * s) % 6
        if r == 0 and xn:
            ops.append(dict(op='xsec_x', i=(n + s) % len(xn)))
        elif r == 1 and yn:
            ops.append(dict(op='xsec_y', j=(n + s) % len(yn)))
        elif r == 2:
            ops.append(dict(op='vam', var=(n + s) % nv))
        elif r == 3:
            ops.append(dict(op='output', p=(n + s) % 6, stale=(n + s) % 2 == 0))
        elif r == 4 and not cx:
            ops.append(dict(op='trap', var=(n + s) % nv))
        else:
            ops.append(dict(op='output_var', var=(n + s) % nv, p=(n + 2 * s) % 6, stale=(n + s) % 2 == 1))
    ops.append(dict(op='sweep', sq=True, p=n % 6))
    return [dict(suite='mesh2d', ty='cx' if cx else 'f64', dx=dx, dy=dy, dv=dv, xn=xn, yn=yn, nv=nv, inexact=n % len(DENS) in (5, 7), ops=ops)]


def _nontrivial(e):
    def nz(v):
        if isinstance(v, list):
            return any(nz(x) for x in v)
        return isinstance(v, int) and not isinstance(v, bool) and v != 0
    return nz(e.get('post'))


def _coverage(ctx, cases_path, events_path, label, full):
    cases = {c['cid']: c for c in vlib.read_ndjson(cases_path)}
    seen, shapes, fam = {}, set(), dict(inexact_quad=0, inexact_quad_resid=0, exact_quad=0, rounded_print=0, exact_print=0, empty_dir=0, one_node_dir=0,
                                        nonsquare=0, after_write=0, stale_file=0, quad_first_eq_last_cell=0)
    panics = 0
    for e in vlib.read_ndjson(events_path):
        c = cases[e['cid']]
        nx, ny = len(c['xn']), len(c['yn'])
        seen[(e['ty'], e['op'])] = seen.get((e['ty'], e['op']), 0) + 1
        shapes.add((nx, ny, c['nv'], e['ty']))
        if e['panic'] and nx > 0 and ny > 0:
            panics += 1
        if e['op'] in ('trap', 'sq_trap') and not e['panic'] and nx > 1 and ny > 1:
            fam['inexact_quad' if c.get('inexact') else 'exact_quad'] += 1
            fam['inexact_quad_resid'] += 1 if e.get('un', 0) > 0 else 0
        if e['op'] in ('trap', 'sq_trap') and not e['panic'] and nx > 1:
            for g in (c['xn'], c['yn']):
                w = [b - a for a, b in zip(g, g[1:])]
                if len(w) >= 3 and w[0] == w[-1] and len(set(w)) > 1:
                    fam['quad_first_eq_last_cell'] += 1
        if e['op'] in ('output', 'output_var') and e.get('stale'):
            fam['stale_file'] += 1
        if e['op'] in ('output', 'output_var') and nx and ny:
            fam['rounded_print' if e['p'] < 3 else 'exact_print'] += 1
        if e['op'] not in MUT and e['op'] != 'new':
            fam['empty_dir'] += 1 if nx == 0 or ny == 0 else 0
            fam['one_node_dir'] += 1 if 1 in (nx, ny) else 0
            fam['nonsquare'] += 1 if nx != ny and nx and ny else 0
            fam['after_write'] += 1 if _nontrivial(e) else 0
    need = [(t, o) for t in ('f64', 'cx') for o in MUT + OBS + ('new',) if not (t == 'cx' and o in ('trap', 'sq_trap'))]
    missing = [k for k in need if k not in seen]
    if missing:
        raise vlib.ToolError('vacuity: %s exercised no event for %s' % (label, missing))
    if full:
        want = {(a, b, v, t) for a in range(7) for b in range(7) for v in (1, 2, 3) for t in ('f64', 'cx')}
        if want - shapes:
            raise vlib.ToolError('vacuity: shapes missing from the harness-generated cases: %s' % sorted(want - shapes)[:5])
        if min(fam.values()) == 0:
            raise vlib.ToolError('vacuity: an input family is missing: %s' % fam)
    ctx.notes.append('%s: events per (type, op): %s; families: %s; panics on non-empty meshes: %d'
                     % (label, ', '.join('%s/%s=%d' % (k[0], k[1], v) for k, v in sorted(seen.items())), fam, panics))


def _no_files_left(ctx):
    left = glob.glob(os.path.join(ctx.out, '**', 'mesh2d_out_*.dat'), recursive=True)
    for p in left:
        os.remove(p)
    if left:
        ctx.notes.append('%d output files had to be removed by the driver' % len(left))


def check(ctx):
    q = ctx.quick
    env = {'MESH2D_DIR': ctx.out}
    ctx.tlc_mc('MC_Mesh2D', 'MC_Mesh2D_quick.cfg' if q else 'MC_Mesh2D.cfg',
               label='every history of 2 mutators (set with every value vector over 3 values, single-entry writes, assign, apply of 2 polynomial '
                     'functions) on every shape %s, 1-2 variables, f64 and complex: read-after-write through every observer on every transition; '
                     'layout bijection, view consistency and the quadrature laws (cell form, nodal weights, transpose, additivity over every '
                     'split, constant * area, bilinear exactness, squares) on every state' % ('0..3 x 0..3 except 3x3' if q else '0..4 x 0..4 except 4x4'))
    if not q:
        ctx.tlc_mc('MC_Mesh2D', 'MC_Mesh2D_d3.cfg', label='every history of 3 mutators on every shape 0..3 x 0..3 except 3x3, 1-2 variables, f64 and complex, all value vectors over 3 values')
    # spec -> impl
    cfg = 'Gen_Mesh2D_quick.cfg' if q else 'Gen_Mesh2D.cfg'
    cases = ctx.tlc_cases('MC_Mesh2D', cfg, transform=transform, name=cfg.replace('.cfg', '').lower())
    ev = ctx.exec('mesh2d', cases, env=env)
    _coverage(ctx, cases, ev, 'TLC-generated cases', False)
    ctx.validate('Trace_Mesh2D', ev, cases, 'mesh2d', nontrivial=_nontrivial)
    ctx.exhaustive_parts.append('every model history of 2 mutators with position-dependent values on the shapes %s, both element types, replayed on the '
                                'real Mesh2D with a read after every write and a full sweep of the observers at the end'
                                % ('(0,2) (2,0) (1,1) (1,3) (3,1) (2,3) (3,2), 2 variables' if q else '0..3 x 0..3 except (0,0) and (3,3), 1 and 3 variables'))
    # impl -> spec
    cases = ctx.gen('mesh2d')
    ev = ctx.exec('mesh2d', cases, env=env)
    _coverage(ctx, cases, ev, 'harness-generated cases', True)
    ctx.validate('Trace_Mesh2D', ev, cases, 'mesh2d', nontrivial=_nontrivial)
    ctx.exhaustive_parts.append('every shape 0..6 x 0..6 with 1, 2 and 3 variables occurs for f64 and for Complex<f64> (checked)')
    _no_files_left(ctx)
    ctx.assumptions.append('coordinate numerators |X| <= 24, value numerators |V| < 2000 (apply: polynomial of degree 2 with small integer coefficients), '
                           'precision 0..5, so that TLC recomputes every result in 32-bit integers; square_trapezium only while 4*area*max|V|^2 < 2^29')
    ctx.assumptions.append('grids are strictly increasing (the constructor accepts any vectors; the quadrature is stated for partitions)')
    ctx.notes.append('float guard is a-priori (not calibrated): quadrature residual <= 8 units of (cells+16) u sum(...) on non-dyadic data, 0 on dyadic data; '
                     'worst observed on the unchanged tree: 1 unit')
    ctx.notes.append('observed, not judged: trapezium / square_trapezium on a mesh with 0 nodes in a direction panic (usize underflow in nx-1 / ny-1) '
                     'except for nx = 1, ny = 0 where they return 0; Complex Display ignores the requested precision')
    return ctx.finish(
        rule='cases: (i) every TLC-enumerated history of MC_Mesh2D (Gen config), (ii) per shape 0..6 x 0..6, nvars 1..3 and element type one (quick) / six '
             '(thorough) random histories of 4 / 8 mutators (set_nodes_vars, whole-vector and single-entry index writes, assign, apply) each followed by '
             '3 / 4 random observers with in-range arguments, the fresh mesh and the final mesh swept by every observer with every argument. An event is '
             'non-trivial if the store it ran on is non-zero; distinct = distinct (operation, arguments, store, outcome) tuples.',
        trusted=['harness projection of a mesh to integers (harness/src/suites/mesh2d.rs: proj through get_nodes_vars, num = round(x*den) verified bit for bit)',
                 'decimal token reader and residual measurement of the quadrature (harness/src/suites/mesh2d.rs: tok, read_lines, quad)',
                 'TLC', 'Mesh2D.tla operators as the reference definitions'])
