"""Discovers the per-property check modules bin/props_d/cNN.py (each defines PID, CLAIM, check(ctx))."""
import importlib, os, sys
_d = os.path.join(os.path.dirname(os.path.abspath(__file__)), 'props_d')
sys.path.insert(0, _d)
CHECKS, CLAIMS = {}, {}
for _f in sorted(os.listdir(_d)):
    if _f.endswith('.py') and not _f.startswith('_'):
        _m = importlib.import_module(_f[:-3])
        CHECKS[_m.PID] = _m.check
        CLAIMS[_m.PID] = _m.CLAIM
