#!/usr/bin/env python3
"""Regenerates MANIFEST.json from the table below (single source of truth for what is claimed)."""
import json, os
V = os.path.dirname(os.path.dirname(os.path.abspath(__file__)))
ids = [json.loads(l)['id'] for l in open(os.path.join(V, 'properties.jsonl'))]
TECH = 'TLA+ specification checked by TLC (exhaustive small scope) + conformance: TLC-enumerated cases replayed on the real crate and recorded executions validated by TLC against the trace specification'
import sys
sys.path.insert(0, os.path.join(V, 'bin'))
import props
CLAIMS = props.CLAIMS
checks = []
for i in ids:
    if i in CLAIMS:
        c = CLAIMS[i]
        checks.append(dict(property_id=i, quick_cmd='bin/check %s quick' % i, thorough_cmd='bin/check %s thorough' % i,
                           evidence_file='/verif/evidence/%s.json' % i, replay_cmd_template='bin/check %s --replay {path}' % i,
                           engine='tlc+ohsl-conf', level_claimed=dict(category=c.get('cat', 'model_checking'), text=c['text'], design_ref='DESIGN.md section ' + c['design']),
                           level_note=c['note'], technique=c.get('tech', TECH)))
NA = {}
m = dict(version=1, setup_cmd='bin/setup',
         hooks=dict(guard='verif-trace', enable='cargo feature verif-trace of ohsl; bin/check builds the harness with --features hooks when /repo/Cargo.toml declares the feature (all verdicts are also reached hook-free)',
                    baseline_off_cmd='cd /repo && cargo test --workspace --no-fail-fast --offline', source_commits=[], add_only=True),
         engines=[dict(name='tlc+ohsl-conf', path='/verif/bin/check', serves_properties=sorted(i for i in CLAIMS if i in ids), kind_free_text='TLC model checking of spec/*.tla + Rust conformance harness (harness/) executing cases on the real crate + TLC trace validation')],
         checks=checks,
         not_applicable=[dict(property_id=i, reason=NA.get(i, 'check not built yet (work in progress; the design for it is in DESIGN.md section 4)')) for i in ids if i not in CLAIMS],
         notes='Model-based verification with explicit TLA+ specifications (spec/), TLC design checks, spec->impl replay and impl->spec trace validation; see DESIGN.md. VERIF_SEED seeds every random choice.')
json.dump(m, open(os.path.join(V, 'MANIFEST.json'), 'w'), indent=1)
print('claimed', sorted(CLAIMS))
