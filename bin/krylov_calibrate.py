#!/usr/bin/env python3
"""Calibration of the C08/C09 guards on the unchanged tree: runs the krylov suite (gen + exec, no TLC) over a range of
seeds at the given tier and prints the worst observed values.  usage: krylov_calibrate.py <tier> <seed_lo> <seed_hi>"""
import json, os, subprocess, sys, collections
V = os.path.dirname(os.path.dirname(os.path.abspath(__file__)))
B = os.path.join(V, 'harness/target/debug/ohsl-conf')
tier, lo, hi = sys.argv[1], int(sys.argv[2]), int(sys.argv[3])
os.makedirs(os.path.join(V, 'out/calib'), exist_ok=True)
W = collections.defaultdict(lambda: (0, None))
def upd(key, val, what):
    if val > W[key][0]: W[key] = (val, what)
fails = []
tot = collections.Counter()
for seed in range(lo, hi + 1):
    for mode in (sys.argv[4].split(',') if len(sys.argv) > 4 else ('c08', 'c09')):
        c = os.path.join(V, 'out/calib/%s.cases.ndjson' % mode); e = os.path.join(V, 'out/calib/%s.events.ndjson' % mode)
        subprocess.run([B, 'gen', 'krylov', '%s:%s' % (tier, mode), str(seed), c], check=True, stdout=subprocess.DEVNULL)
        subprocess.run([B, 'exec', 'krylov', c, e], check=True, stdout=subprocess.DEVNULL)
        for line in open(e):
            ev = json.loads(line); op = ev['op']; tot[op] += 1
            tag = (seed, ev['cid'], ev['fam'], ev['kind'], ev['itol'], ev['n'])
            if op == 'solve':
                tot['solve_ok'] += ev['ok']
                if ev['ok']:
                    upd('c08 res_units', ev['res_units'], tag); upd('c08 res/tol permille', ev['res_permille'], tag)
                    upd('c08 res/tol permille ' + ev['fam'], ev['res_permille'], tag)
                    upd('c08 res_units %s %s' % (ev['kind'], 'struct' if ev['fam'] == 'struct' else 'generic'), ev['res_units'], tag)
                    guard = (2000 if ev['fam'] == 'struct' else 100) if ev['kind'] == 'qmr' else 1
                    if ev['res_units'] > guard or not ev['x_finite'] or ev['k'] > ev['budget']: fails.append(('solve', tag, ev['k'], ev['res_units']))
                if ev['budget'] == 0 and ev['xb_pre'] != ev['xb_post']: fails.append(('budget0', tag))
            elif op == 'prefix':
                upd('c08 longest prefix k', ev['k'], tag)
                if any(ev['oks'][:-1]) or not ev['oks'][-1] or ev['ks'][-1] != ev['k'] or ev['xh'] != ev['xh_k']: fails.append(('prefix', tag))
            elif op == 'conv':
                k, n = ev['k'], ev['n']
                if ev.get('harsh') and ev['kind'] in ('bicg', 'qmr'):
                    tot['harsh_' + ev['kind']] += 1; tot['harsh_%s_%s' % (ev['kind'], 'ok' if ev['ok'] and k <= 10 * n + 100 else 'FAIL')] += 1; continue
                if not ev['ok'] and ev['kind'] == 'bicgstab' and ev['fam'] == 'upw' and (ev.get('ra'), ev.get('mg10'), ev['n'], ev.get('rhs'), ev.get('rhs_e'), ev['guess'], ev.get('flip')) == (8, 1, 30, 'sin', -7, 'zero', 0): tot['KNOWN_bicgstab_exact_breakdown'] += 1; continue
                if not ev['ok']: fails.append(('conv-notok' + ('-KNOWN-qmr-stall' if ev.get('near') and ev['kind'] == 'qmr' else ''), tag, ev['tole'], ev['guess'])); continue
                kk = ev['kind'] + str(ev['itol'])
                if ev['fam'] == 'upw': upd('c09 upw k/(4n+40) ' + kk, k / (4 * n + 40), tag + (k,)); upd('c09 upw k/(10n+100) ' + kk, k / (10 * n + 100), tag + (k,))
                upd('c09 k/n ' + kk, k / n if n >= 10 else 0, tag + (k,))
                if ev['fam'] != 'upw': upd('c09 k/(4n+40) ' + kk, k / (4 * n + 40), tag + (k,))
                if ev['kind'] == 'cg': upd('c09 cg k/cgb', k / ev['cgb'], tag + (k, ev['cgb']))
                upd('c09 agree_units', ev['agree_units'], tag)
                if k > (10 * n + 100 if ev['fam'] == 'upw' else 4 * n + 40) or (ev['kind'] == 'cg' and k > ev['cgb']) or ev['agree_units'] > 1: fails.append(('conv', tag, k, ev['cgb'], ev['agree_units']))
            elif op == 'ladder':
                if not (ev['ok_k'] and ev['k_k'] == ev['k'] and ev['xh_k'] == ev['xh'] and ev['ok_k1'] and ev['k_k1'] == ev['k'] and ev['xh_k1'] == ev['xh'] and not ev['ok_km1']): fails.append(('ladder', tag, ev['k']))
            elif op == 'exact':
                tot['exact_premise'] += ev['res0_zero']
                if ev['res0_zero'] and not (ev['ok'] and ev['k'] == 0 and ev['xb_pre'] == ev['xb_post']): fails.append(('exact', tag))
            elif op == 'zero':
                if not (ev['ok'] and ev['k'] == 0 and ev['x_finite']): fails.append(('zero', tag))
print('events', dict(tot))
for k in sorted(W): print('%-40s %10.4f  %s' % (k, W[k][0], W[k][1]))
print('failures', len(fails))
for f in fails[:40]: print('  ', f)
