------------------------------- MODULE Krylov -------------------------------
(* The success / budget protocol shared by the four iterative solvers of ohsl::Sparse  *)
(* (solve_cg, solve_bicg, solve_bicgstab, solve_qmr), properties C08 and C09, and an   *)
(* exact-rational conjugate-gradient iteration on 2x2 systems.                         *)
(*                                                                                     *)
(* Part 1, protocol.  A machine state is the record                                    *)
(*   [kind, budget, it, phase, xv, rc, rc0, tested, ret, why]                          *)
(*     it      iterations started so far                                               *)
(*     xv      number of times x has been written (0 = x is still the caller's guess)  *)
(*     rc      class of the most recent residual test: "le" (resid <= tol), "gt", "nan"*)
(*     rc0     class of the initial residual                                           *)
(*     tested  iteration number at which rc was computed                               *)
(*     ret     iteration count carried by Ok                                           *)
(* The numerical values are abstracted: the class of every residual test and the       *)
(* occurrence of a breakdown (rho, omega, delta, epsilon, beta or gamma zero) are      *)
(* chosen by the environment.  Step(m, c) is the deterministic reaction of the solver  *)
(* to the environment choice c = [cls, brk]; the named actions are its branches.       *)
EXTENDS Integers, Sequences, Rat
CONSTANTS BiCGInitialCheck     \* TRUE: the required behaviour.  FALSE: solve_bicg before fix D5 (no initial test)

Kinds == {"cg", "bicg", "bicgstab", "qmr"}
Classes == {"le", "gt", "nan"}
Choices == [cls : Classes, brk : BOOLEAN]
Terminal(m) == m.phase \in {"ok", "err"}

InitialCheck(kind) == kind # "bicg" \/ BiCGInitialCheck
\* breakdown tests the code performs before x is written in an iteration (bicgstab: rho_1 = 0;
\* qmr: rho, xi, delta, epsilon, beta, gamma = 0) and after a failed full-step test (bicgstab: omega = 0)
PreBreakdown(kind) == kind \in {"bicgstab", "qmr"}
PostBreakdown(kind) == kind = "bicgstab"

M0(kind, budget) == [kind |-> kind, budget |-> budget, it |-> 0, phase |-> "start", xv |-> 0, rc |-> "none",
                     rc0 |-> "none", tested |-> 0, ret |-> 0, why |-> "none"]

\* ---- the actions, as functions of the state and the environment choice ----
Start(m, c)         == [m EXCEPT !.phase = "init", !.rc = c.cls, !.rc0 = c.cls]
AcceptInitial(m)    == [m EXCEPT !.phase = "ok", !.ret = 0]                       \* Ok(0), x untouched
EnterLoop(m)        == [m EXCEPT !.phase = "loop"]
Exhaust(m)          == [m EXCEPT !.phase = "err", !.why = "exhaust"]
Breakdown(m)        == [m EXCEPT !.phase = "err", !.why = "breakdown"]
Iterate(m, c)       == [m EXCEPT !.it = m.it + 1, !.xv = m.xv + 1, !.rc = c.cls, !.tested = m.it + 1, !.phase = "tested"]
HalfStep(m, c)      == [m EXCEPT !.it = m.it + 1, !.rc = c.cls, !.tested = m.it + 1, !.phase = "half"]   \* s = r - alpha v
HalfStepExit(m)     == [m EXCEPT !.xv = m.xv + 1, !.phase = "ok", !.ret = m.it]     \* x += alpha p; Ok(i)
FullStep(m, c)      == [m EXCEPT !.xv = m.xv + 1, !.rc = c.cls, !.phase = "tested"]
ReturnOk(m)         == [m EXCEPT !.phase = "ok", !.ret = m.it]
Continue(m)         == [m EXCEPT !.phase = "loop"]

Step(m, c) ==
  CASE m.phase = "start"  -> Start(m, c)
    [] m.phase = "init"   -> IF InitialCheck(m.kind) /\ m.rc0 = "le" THEN AcceptInitial(m) ELSE EnterLoop(m)
    [] m.phase = "loop"   -> IF m.it >= m.budget THEN Exhaust(m)
                             ELSE IF PreBreakdown(m.kind) /\ c.brk THEN Breakdown(m)
                             ELSE IF m.kind = "bicgstab" THEN HalfStep(m, c) ELSE Iterate(m, c)
    [] m.phase = "half"   -> IF m.rc = "le" THEN HalfStepExit(m) ELSE FullStep(m, c)
    [] m.phase = "tested" -> IF m.rc = "le" THEN ReturnOk(m)
                             ELSE IF PostBreakdown(m.kind) /\ c.brk THEN Breakdown(m) ELSE Continue(m)
    [] OTHER -> m

\* ---- properties of one machine ----
\* C08: Ok(k) only if the residual test passed at iteration k, and k <= budget
OkMeansPassed(m) == m.phase = "ok" => m.rc = "le" /\ m.ret = m.it /\ m.tested = m.it /\ m.ret <= m.budget
\* C08: with an iteration budget of zero x is never written, and Ok needs the initial test
BudgetZeroUntouched(m) == m.budget = 0 => m.xv = 0 /\ m.it = 0 /\ (m.phase = "ok" => m.rc0 = "le")
\* C09: a start whose residual already passes is accepted as solved: Ok(0), x untouched (all four kinds)
ExactStart(m) == (Terminal(m) /\ m.rc0 = "le") => (m.phase = "ok" /\ m.ret = 0 /\ m.xv = 0)
Bounded(m) == m.it <= m.budget /\ m.xv <= m.it + 1 /\ m.tested <= m.it
\* variant function: strictly decreases on every step of a non-terminal machine
PhaseRank(p) == CASE p = "start" -> 6 [] p = "init" -> 5 [] p = "half" -> 4 [] p = "tested" -> 3 [] p = "loop" -> 1 [] OTHER -> 0
Measure(m) == 5 * (m.budget - m.it) + PhaseRank(m.phase)

\* ---- prefix closure: s runs the same environment with a smaller (or equal) budget ----
PrefixRel(s, m) ==
  LET same == s.it = m.it /\ s.xv = m.xv /\ s.rc = m.rc /\ s.rc0 = m.rc0 /\ s.tested = m.tested /\ s.phase = m.phase
                 /\ s.ret = m.ret /\ s.why = m.why
  IN  CASE ~Terminal(s) -> same
        [] s.phase = "ok" -> same                                   \* budget j >= k: Ok(k) with the same x
        [] s.why = "breakdown" -> same
        [] OTHER -> /\ s.it = s.budget /\ m.it >= s.it /\ m.xv >= s.xv          \* budget j < k: Err after j iterations,
                    /\ (m.phase = "ok" => m.ret > s.budget)                     \* x_j is the j-th iterate of the longer run

(* Part 2, conjugate gradients in exact rational arithmetic on 2x2 systems: the          *)
(* recurrences of solve_cg (rho, beta, alpha, p, q, x, r) transcribed; vectors are       *)
(* pairs of Rat, the matrix is <<a11, a12, a21, a22>> of integers, x0 = 0.               *)
VAdd(u, v) == <<RAdd(u[1], v[1]), RAdd(u[2], v[2])>>
VSub(u, v) == <<RSub(u[1], v[1]), RSub(u[2], v[2])>>
VScale(a, u) == <<RMul(a, u[1]), RMul(a, u[2])>>
VDot(u, v) == RAdd(RMul(u[1], v[1]), RMul(u[2], v[2]))
MatVec2(A, u) == <<RAdd(RMul(R(A[1]), u[1]), RMul(R(A[2]), u[2])), RAdd(RMul(R(A[3]), u[1]), RMul(R(A[4]), u[2]))>>
VZero == <<RZero, RZero>>
IsZeroVec(u) == u[1][1] = 0 /\ u[2][1] = 0
VOfInt(b) == <<R(b[1]), R(b[2])>>

CG0(A, b) == [x |-> VZero, r |-> VOfInt(b), p |-> VZero, rho1 |-> ROne, it |-> 0, done |-> IsZeroVec(VOfInt(b))]
CGStep(A, g) ==
  LET rho == VDot(g.r, g.r)
      p   == IF g.it = 0 THEN g.r ELSE VAdd(g.r, VScale(RDiv(rho, g.rho1), g.p))
      q   == MatVec2(A, p)
      al  == RDiv(rho, VDot(p, q))
      x   == VAdd(g.x, VScale(al, p))
      r   == VSub(g.r, VScale(al, q))
  IN [x |-> x, r |-> r, p |-> p, rho1 |-> rho, it |-> g.it + 1, done |-> IsZeroVec(r)]
\* independent definitions the iteration is checked against
TrueResidual(A, b, x) == VSub(VOfInt(b), MatVec2(A, x))
Det2(A) == A[1] * A[4] - A[2] * A[3]
Cramer(A, b) == <<Norm(b[1] * A[4] - A[2] * b[2], Det2(A)), Norm(A[1] * b[2] - A[3] * b[1], Det2(A))>>
SameVec(u, v) == u[1] = v[1] /\ u[2] = v[2]
=============================================================================
