SPECIFICATION Spec
CONSTANTS Mode = "det"  Scope = "quick"  Skip = TRUE  Emit = TRUE
INVARIANTS EmitCase
CHECK_DEADLOCK FALSE
