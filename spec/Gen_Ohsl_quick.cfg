SPECIFICATION Spec
CONSTANTS Depth = 3  Deep = TRUE  Emit = TRUE
INVARIANTS EmitCase
CHECK_DEADLOCK FALSE
