SPECIFICATION Spec
CONSTANTS MaxDim = 2  Depth = 2  FullInit = TRUE  Emit = FALSE
VIEW View
INVARIANTS Shape Laws
CHECK_DEADLOCK FALSE
