SPECIFICATION Spec
CONSTANTS MaxDim = 2  Depth = 2  Emit = FALSE
VIEW View
INVARIANTS Shape Laws
CHECK_DEADLOCK FALSE
