SPECIFICATION Spec
CONSTANTS Emit = FALSE
INVARIANTS WellFormed EveryFunctionDefined BottomsOut InversePairing ReciprocalPairing RangesAttached CutsBothSides BranchPointNeighbourhoods PoleNeighbourhoods ExactArguments MatrixShape ExactCasesSound Cursor
CHECK_DEADLOCK FALSE
