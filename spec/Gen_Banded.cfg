SPECIFICATION Spec
CONSTANTS MinN = 1  MaxN = 3  LawN = 0  BWTop = 4  Vals <- MCVals  Pads = {7}  PivotBy = "magnitude"  Emit = TRUE
INVARIANTS EmitCase
CHECK_DEADLOCK FALSE
