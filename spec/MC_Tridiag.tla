----------------------------- MODULE MC_Tridiag -----------------------------
(* Design check and case generator for Tridiag.tla (C05).                              *)
(*  - every tridiagonal matrix with 1 <= n <= MaxN and diagonals over Vals (n = MaxN:  *)
(*    over ValsTop), right-hand side (1,..,n); the diagonals are chosen one per action  *)
(*    so that TLC's workers share the enumeration;                                     *)
(*  - the Thomas algorithm runs as a state machine: Start, one ThomasStep per loop     *)
(*    iteration, BackSweep; the two refusals are terminal states;                      *)
(*  - invariants against INDEPENDENT oracles on the dense twin (Leibniz determinants): *)
(*    completes => T x = r exactly; refuses <=> some leading principal minor (= some   *)
(*    pivot) is zero; recurrence determinant = Leibniz determinant; product, transpose,*)
(*    conversion, index and arithmetic agree with the dense twin (n = 1, 2 included).  *)
(*  - Emit = TRUE prints every matrix as a case for the real Tridiagonal<T>.           *)
EXTENDS Tridiag, FiniteSets, Json
CONSTANTS MaxN, Vals, ValsTop, Emit
VARIABLES T, r0, th, stage
vars == <<T, r0, th, stage>>

MCVals3 == {-1, 0, 1}
MCVals4 == {-1, 0, 1, 2}

RowsN(n) == 0..(n - 1)
Perms(n) == {p \in [RowsN(n) -> RowsN(n)] : \A i, j \in RowsN(n) : i # j => p[i] # p[j]}
Sign(n, p) == IF Cardinality({q \in RowsN(n) \X RowsN(n) : q[1] < q[2] /\ p[q[1]] > p[q[2]]}) % 2 = 0 THEN 1 ELSE -1
RECURSIVE ProdOver(_, _, _)
ProdOver(D, p, i) == IF i >= D.r THEN 1 ELSE At(D, i, p[i]) * ProdOver(D, p, i + 1)
RECURSIVE DetSum(_, _)
DetSum(D, S) == IF S = {} THEN 0 ELSE LET e == CHOOSE e \in S : TRUE IN e[2] * ProdOver(D, e[1], 0) + DetSum(D, S \ {e})
\* permutations with their signs, tabulated once (a constant-level definition)
PermSigns == [n \in 0..4 |-> {<<p, Sign(n, p)>> : p \in Perms(n)}]
DetL(D) == DetSum(D, PermSigns[D.r])
Leading(D, k) == Mk(k, k, LAMBDA i, j : At(D, i, j))

VS(n) == IF n = MaxN THEN ValsTop ELSE Vals
Idle == [pc |-> "idle"]
Init == /\ \E n \in 1..MaxN : \E m \in [1..n -> VS(n)] : T = [n |-> n, sub |-> [k \in 1..(n - 1) |-> 0], main |-> m, sup |-> [k \in 1..(n - 1) |-> 0]]
        /\ r0 = [k \in 1..T.n |-> k] /\ th = Idle /\ stage = "sub"
PickSub == /\ stage = "sub" /\ \E s \in [1..(T.n - 1) -> VS(T.n)] : T' = [T EXCEPT !.sub = s]
           /\ stage' = "sup" /\ UNCHANGED <<r0, th>>
PickSup == /\ stage = "sup" /\ \E s \in [1..(T.n - 1) -> VS(T.n)] : T' = [T EXCEPT !.sup = s]
           /\ stage' = "start" /\ UNCHANGED <<r0, th>>
Start == /\ stage = "start" /\ th' = ThomasInit(T, r0) /\ stage' = "thomas" /\ UNCHANGED <<T, r0>>
Step == /\ stage = "thomas" /\ th.pc = "run" /\ th' = ThomasStep(T, r0, th) /\ UNCHANGED <<T, r0, stage>>
BackSweep == /\ stage = "thomas" /\ th.pc = "back" /\ th' = ThomasBack(T, th) /\ UNCHANGED <<T, r0, stage>>
Next == PickSub \/ PickSup \/ Start \/ Step \/ BackSweep
Spec == Init /\ [][Next]_vars

(* ---------------- invariants ---------------- *)
Chosen == stage \in {"start", "thomas"}
Finished == stage = "thomas" /\ th.pc \in {"ok", "refused"}
\* never a wrong answer
CompletesExact == (stage = "thomas" /\ th.pc = "ok") => SolvesExactly(T, th.u, r0)
\* never a refusal with all pivots nonzero, never an answer past a zero pivot (Leibniz minors of the dense twin)
LeibnizPivotZero == \E k \in 1..T.n : DetL(Leading(TDense(T), k)) = 0
RefusesIff == Finished => ((th.pc = "refused") <=> LeibnizPivotZero)
RefusalReason == (stage = "thomas" /\ th.pc = "refused") =>
                    /\ th.why \in {"zero on leading diagonal", "zero pivot"}
                    /\ (th.why = "zero on leading diagonal" <=> T.main[1] = 0)
OperatorAgrees == Finished => Thomas(T, r0) = th
\* determinant and minors: recurrence = Leibniz = fraction-free; SomePivotZero is the predicate the trace spec uses
OtherT(X) == MkT(X.n, LAMBDA i, j : 3 + 2 * i - 5 * j)
DetOK == stage = "start" =>
    LET D == TDense(T) IN
    /\ TDet(T) = DetL(D) /\ DetFF(D) = TDet(T)
    /\ \A k \in 1..T.n : Minors(T)[k + 1] = DetL(Leading(D, k))
    /\ SomePivotZero(T) <=> LeibnizPivotZero
    \* the Gaussian-integer recurrence: on T + i0 it is the real one; on T + i Y it is the fraction-free complex determinant
    /\ LET Z == TNew(T.n)
           Y == OtherT(T)
       IN /\ \A k \in 0..T.n : CMinors(T, Z)[k + 1] = <<Minors(T)[k + 1], 0>>
          /\ (CSomePivotZero(T, Z) <=> SomePivotZero(T))
          /\ CTDet(T, Y) = CDetFF(D, TDense(Y)) /\ CTDet(Y, T) = CDetFF(TDense(Y), D)
    \* the polynomial-in-eps versions: on constant polynomials they are the integer ones; on T + eps Y the minors are
    \* the mixed expansions (checked through the two substitutions eps = 1 and eps = -1)
    /\ LET Lift(X) == [n |-> X.n, sub |-> [k \in 1..(X.n - 1) |-> << <<X.sub[k], 0>> >>], main |-> [k \in 1..X.n |-> << <<X.main[k], 0>> >>],
                       sup |-> [k \in 1..(X.n - 1) |-> << <<X.sup[k], 0>> >>]]
           Y == OtherT(T)
           Mix == [n |-> T.n, sub |-> [k \in 1..(T.n - 1) |-> << <<T.sub[k], 0>>, <<Y.sub[k], 0>> >>], main |-> [k \in 1..T.n |-> << <<T.main[k], 0>>, <<Y.main[k], 0>> >>],
                   sup |-> [k \in 1..(T.n - 1) |-> << <<T.sup[k], 0>>, <<Y.sup[k], 0>> >>]]
           EvalAt(p, x) == LET RECURSIVE Go(_)
                               Go(k) == IF k > Len(p) THEN 0 ELSE p[k][1] + x * Go(k + 1)
                           IN Go(1)
       IN /\ \A k \in 0..T.n : PIsZero(PSub(PMinors(Lift(T))[k + 1], << <<Minors(T)[k + 1], 0>> >>))
          /\ (PSomePivotZero(Lift(T)) <=> SomePivotZero(T))
          /\ \A k \in 0..T.n : /\ EvalAt(PMinors(Mix)[k + 1], 1) = Minors(TAdd(T, Y))[k + 1]
                                /\ EvalAt(PMinors(Mix)[k + 1], -1) = Minors(TSub(T, Y))[k + 1]
          /\ LET xs == [k \in 1..T.n |-> << <<k, 0>>, <<1, 0>> >>]           \* x_k = k + eps
                 rr == [i \in 1..T.n |-> PRowDot(Mix, xs, i)]
             IN PResidualZero(Mix, xs, 1, 0, rr) /\ ~PResidualZero(Mix, [xs EXCEPT ![1] = << <<2, 0>>, <<1, 0>> >>], 1, 0, rr)
                /\ PResidualZero(Mix, [k \in 1..T.n |-> PMul(<< <<0, 0>>, <<3, 0>> >>, xs[k])], 3, 1, rr)
\* every operation against the dense twin
Laws == stage = "start" =>
    LET D == TDense(T)
        Y == OtherT(T)
        v == [k \in 1..T.n |-> 2 * k - 3]
    IN /\ TWellFormed(T) /\ D.r = T.n /\ D.c = T.n
       /\ \A i, j \in RowsN(T.n) : At(D, i, j) = (IF TInBand(T, i, j) THEN TGet(T, i, j) ELSE 0)
       /\ SameTri(FromDenseT(D), T)
       /\ SameMat(D, ToDense(FromDense(D, IMin(1, T.n - 1), IMin(1, T.n - 1))))        \* a tridiagonal matrix is the band (1,1)
       /\ SameSeq(TMatVecLoop(T, v), TMatVec(T, v))
       /\ SameMat(TDense(TTranspose(T)), Transpose(D)) /\ SameTri(TTranspose(TTranspose(T)), T)
       /\ SameMat(TDense(TAdd(T, Y)), Add(D, TDense(Y))) /\ SameMat(TDense(TSub(T, Y)), Sub(D, TDense(Y)))
       /\ SameMat(TDense(TNeg(T)), Neg(D)) /\ SameMat(TDense(TScale(T, -3)), Scale(D, -3))
       /\ SameTri(TDivS(TScale(T, -3), -3), T)
       /\ SameTri(TShift(T, 4), FromDenseT(Shift(D, 4)))
       /\ SameTri(TLin(T, 2, Y, -3), TSub(TScale(T, 2), TScale(Y, 3)))
       /\ \A i, j \in RowsN(T.n) : TInBand(T, i, j) => SameTri(TSet(T, i, j, 9), FromDenseT(SetElem(D, i, j, 9)))
       /\ SameTri(TWithElements(4, 5, 6, T.n), FromDenseT(FillTridiag(New(T.n, T.n, 0), 4, 5, 6)))
       /\ SameTri(TNew(T.n), FromDenseT(New(T.n, T.n, 0)))

EmitCase == (Emit /\ stage = "start") => PrintT(<<"CASE", ToJson([kind |-> "sol", tri |-> T, r |-> r0])>>)
=============================================================================
