INIT InitLemma
NEXT NextLemma
CONSTANTS MaxLen = 0  MaxThreads = 1  Rule = "ceil"  JoinOrder = "spawn"  LemmaLen = 20  LemmaThreads = 8
INVARIANTS Lemma
CHECK_DEADLOCK FALSE
