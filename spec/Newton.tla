------------------------------- MODULE Newton -------------------------------
(* C17 - the protocol of a Newton solve, common to the six variants                      *)
(*   "f64", "cx" (scalar), "vec", "vecj", "cvec", "cvecj" (systems; *j = user Jacobian). *)
(* What the numbers are is not modelled (that half of C17 is judged in units by the      *)
(* trace specification); the machine fixes WHEN the user closure may be called, when a   *)
(* solve may report success or failure, and what the failure carries:                    *)
(*   Eval            one call of a user closure (function or Jacobian), inside a step    *)
(*   IterEnd(met)    end of one Newton step; the stopping criterion was met or not       *)
(*   ReturnOk        only directly after IterEnd(TRUE)                                   *)
(*   ReturnErr(last) only after exactly maxIter steps none of which met the criterion;   *)
(*                   it carries the iterate reached by those steps                       *)
(*   the configuration cfg = (maxIter, guess, ...) is not written by a solve.            *)
(* Iterates are abstracted to their index: point q = the iterate q Newton steps away     *)
(* from the ORIGINAL guess (point 0).  The user function is deterministic and enters     *)
(* through an oracle: R = the first point index at which the criterion is met (0: never) *)
(* and E = the number of closure calls the implementation spends per step.               *)
(* A solve is therefore a function of (cfg, R, E) - two solves from the same cfg must    *)
(* produce the same event sequence and result (Idempotent).                              *)
(* Deviation switch MutatesGuess (no known defect; it shows Idempotent / CfgUnchanged    *)
(* are not vacuous): a solve that stores its last iterate as the new guess.              *)
EXTENDS Integers, Sequences, FiniteSets
CONSTANT MutatesGuess

Variants == {"f64", "cx", "vec", "vecj", "cvec", "cvecj"}
IsScalar(v) == v \in {"f64", "cx"}
\* deliberately generous: admits central differences plus a residual evaluation per step
EvalBound(v, n) == 2 * n + 3
WithinWork(v, n, maxIter, evals) == evals <= maxIter * EvalBound(v, n)

(* ---------------- the outcome, stated independently of the machine ---------------- *)
\* from guess g: after j steps the iterate is point g + j; the criterion is first met at the first j >= 1 with g + j >= R
StepsToMeet(g, R) == IF R - g > 1 THEN R - g ELSE 1
ExpectOk(g, R, maxIter) == R > 0 /\ StepsToMeet(g, R) <= maxIter
ExpectPoint(g, R, maxIter) == IF ExpectOk(g, R, maxIter) THEN g + StepsToMeet(g, R) ELSE g + maxIter

(* ---------------- hook-free projection: what an observer of the closures sees ---------------- *)
(* A solve shows as  begin, eval^cnt, end(ok).  It is the projection of a behaviour of    *)
(* the machine (IterEnd hidden) only if the work bound holds and success is not reported *)
(* without a step.  maxIter = 0: no Eval at all and failure.                             *)
EndAllowed(v, n, maxIter, cnt, ok) == /\ WithinWork(v, n, maxIter, cnt)
                                      /\ (ok => maxIter >= 1)
EvalAllowed(v, n, maxIter, cnt) == cnt + 1 <= maxIter * EvalBound(v, n)

(* ---------------- the machine over a state record ---------------- *)
(* P = [v, n, maxIter, R, E] the problem (P.E in 1..EvalBound); s the state.             *)
NInit(P) == [phase |-> "idle", call |-> 1, cfg |-> [maxIter |-> P.maxIter, guess |-> 0], start |-> 0,
             k |-> 0, evals |-> 0, stepEvals |-> 0, point |-> 0, lastMet |-> FALSE, everMet |-> FALSE,
             hist |-> <<>>, res |-> [ok |-> FALSE, point |-> -1], hist1 |-> <<>>, res1 |-> [ok |-> FALSE, point |-> -1]]

Ev(op, x) == [op |-> op, x |-> x]
Start(P, s) == [s EXCEPT !.phase = "between", !.k = 0, !.evals = 0, !.stepEvals = 0, !.point = s.cfg.guess, !.start = s.cfg.guess,
                         !.lastMet = FALSE, !.everMet = FALSE, !.hist = <<Ev("begin", s.cfg.guess)>>, !.res = [ok |-> FALSE, point |-> -1]]
BeginStep(P, s) == [s EXCEPT !.phase = "step", !.stepEvals = 0]
Eval(P, s) == [s EXCEPT !.evals = s.evals + 1, !.stepEvals = s.stepEvals + 1, !.hist = Append(s.hist, Ev("eval", s.point))]
IterEnd(P, s) == LET met == P.R > 0 /\ s.point + 1 >= P.R
                 IN [s EXCEPT !.phase = "between", !.k = s.k + 1, !.point = s.point + 1, !.lastMet = met,
                              !.everMet = s.everMet \/ met, !.hist = Append(s.hist, Ev("iterend", IF met THEN 1 ELSE 0))]
Return(P, s, ok) == [s EXCEPT !.phase = IF ok THEN "ok" ELSE "err", !.res = [ok |-> ok, point |-> s.point],
                              !.hist = Append(s.hist, Ev(IF ok THEN "ok" ELSE "err", s.point)),
                              !.cfg = IF MutatesGuess THEN [s.cfg EXCEPT !.guess = s.point] ELSE s.cfg]
NextCall(P, s) == [s EXCEPT !.phase = "idle", !.call = 2, !.hist1 = s.hist, !.res1 = s.res]

Finished(s) == s.phase \in {"ok", "err"}
NNext(P, s) ==
  CASE s.phase = "idle" -> {Start(P, s)}
    [] s.phase = "between" -> IF s.lastMet THEN {Return(P, s, TRUE)}
                              ELSE IF s.k >= s.cfg.maxIter THEN {Return(P, s, FALSE)} ELSE {BeginStep(P, s)}
    [] s.phase = "step" -> IF s.stepEvals < P.E THEN {Eval(P, s)} ELSE {IterEnd(P, s)}
    [] Finished(s) /\ s.call = 1 -> {NextCall(P, s)}
    [] OTHER -> {}
=============================================================================
