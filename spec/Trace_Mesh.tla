----------------------------- MODULE Trace_Mesh -----------------------------
(* Trace validation for ohsl::Mesh1D / ohsl::Mesh2D (C19).  The model state `cur` is the *)
(* mesh value [xn, (yn,) nv, vars] the SPECIFICATION computes by putting the recorded    *)
(* operations through the operators of Mesh.tla.  All logged numbers are integers:       *)
(* coordinates are numerators over 2^sx (2^sy), nodal data numerators over 2^sv, a        *)
(* quadrature result is logged times 2^(sx+1+sv) (1-D), 2^(sx+sy+2+sv) (2-D),            *)
(* 2^(sx+sy+2+2sv) (square_trapezium), an interpolated value times 2^sv as a reduced      *)
(* rational [n, d]; TLC recomputes each of them from the model state.  Coordinates are    *)
(* relative to the case's offsets ox, oy (translation; only the harness knows them); a   *)
(* nearly uniform grid carries fine numerators xf / 2^kx (Mesh.tla).  `post` is the      *)
(* store after the call, read back node by node through get_nodes_vars.  An event with a  *)
(* `pre` field starts a new history.                                                      *)
(* Writes to a non-existent node or with a vector of the wrong length must leave the      *)
(* store as it was (whether they panic is the business of C20, not of this property).    *)
EXTENDS TraceBase, Mesh
VARIABLES l, cur
vars == <<l, cur>>

Pre(e) == IF Has(e, "pre") THEN e.pre ELSE cur

\* ---- outcome predicates ----
Wrote(e, X) == ~e.panic /\ e.post = X.vars                 \* accepted write: the store is the model's
Unchanged(e, M) == e.post = M.vars                           \* rejected write / out-of-range read: nothing stored
Read(e, M) == ~e.panic /\ e.post = M.vars                  \* observer: no panic, store untouched
AllLe(s, b) == \A k \in 1..Len(s) : s[k] <= b

\* float guards (single source of truth)
InterpAnyGuard == 4        \* |error| <= 4 units of 8 eps max|data|  (a-priori bound of the formula: 2.5 eps max|data|)
QUnit == 1048576           \* 2^20: resolution of interp_q
RoundTripGuard == 1        \* |read back - written| <= 1 unit of 10^-p  (correctly rounded printing: 0.5 units)

Bilin(e, X, Y) == e.a + e.b * X + e.c * Y + e.d * X * Y

\* the store after event e according to the model (observers and rejected writes: unchanged)
ModelPost1(e, M) ==
  CASE e.op \in {"set", "isetv"} -> IF Acc_Set1(M, e.node, e.v) THEN Set1(M, e.node, e.v) ELSE M
    [] e.op = "iset" -> IF InRange1(M, e.node) /\ InVar(M, e.var) THEN SetVar1(M, e.node, e.var, e.x) ELSE M
    [] OTHER -> M
ModelPost2(e, M) ==
  CASE e.op \in {"set", "isetv"} -> IF Acc_Set2(M, e.i, e.j, e.v) THEN Set2(M, e.i, e.j, e.v) ELSE M
    [] e.op = "iset" -> IF InRange2(M, e.i, e.j) /\ InVar(M, e.var) THEN SetVar2(M, e.i, e.j, e.var, e.x) ELSE M
    [] e.op = "assign" -> Assign2(M, e.x)
    [] e.op = "apply" -> IF InVar(M, e.var) THEN Apply2(M, LAMBDA X, Y : Bilin(e, X, Y), e.var) ELSE M
    [] OTHER -> M
ModelPost(e, M) == IF e.kind = "m1" THEN ModelPost1(e, M) ELSE ModelPost2(e, M)

Explained1(e, M) ==
  CASE e.op \in {"set", "isetv"} -> IF Acc_Set1(M, e.node, e.v) THEN Wrote(e, ModelPost1(e, M)) ELSE Unchanged(e, M)
    [] e.op = "iset" -> IF InRange1(M, e.node) /\ InVar(M, e.var) THEN Wrote(e, ModelPost1(e, M)) ELSE Unchanged(e, M)
    [] e.op = "get" -> IF InRange1(M, e.node) THEN Read(e, M) /\ e.rv = Get1(M, e.node) ELSE Unchanged(e, M)
    [] e.op = "index" -> IF InRange1(M, e.node) THEN Read(e, M) /\ e.rv = Index1(M, e.node) ELSE Unchanged(e, M)
    [] e.op = "index_all" -> Read(e, M) /\ e.rvars = M.vars
    [] e.op = "coord" -> IF InRange1(M, e.node) THEN Read(e, M) /\ e.ri = Coord1(M, e.node) ELSE Unchanged(e, M)
    [] e.op = "nodes" -> Read(e, M) /\ e.rv = M.xn
    [] e.op = "nnodes" -> Read(e, M) /\ e.ri = N1(M)
    [] e.op = "nvars" -> Read(e, M) /\ e.ri = M.nv
    \* interpolation at the dyadic point p / 2^(sx + r): exact
    [] e.op = "interp" -> LET RM == Refine1(M, 2 ^ e.r)
                          IN IF InGrid(RM.xn, e.p) THEN Read(e, M) /\ e.rr = Interp1(RM, e.p) ELSE Unchanged(e, M)
    \* interpolation at the dyadic point x_node + s / 2^(sx + r), given relative to a node (grids with very wide cells): exact
    [] e.op = "interp_off" -> IF InRange1(M, e.node) /\ OffCellOK(M, e.node, e.s, e.r)
                                THEN Read(e, M) /\ e.rr = InterpOff(M, e.node, e.s, e.r) ELSE Unchanged(e, M)
    \* the same on a grid whose cell widths are not powers of two (model-generated grids): the f64 value, rounded to
    \* 2^-20, must be within one such unit of the model's rational
    [] e.op = "interp_q" -> LET RM == Refine1(M, 2 ^ e.r)
                            IN IF InGrid(RM.xn, e.p)
                                 THEN /\ Read(e, M) /\ Len(e.rq) = M.nv
                                      /\ \A v \in 1..M.nv : LET q == Interp1(RM, e.p)[v]
                                                                dlt == e.rq[v] * q[2] - q[1] * QUnit
                                                            IN -q[2] <= dlt /\ dlt <= q[2]
                                 ELSE Unchanged(e, M)
    \* interpolation at an arbitrary interior point (>= 1e-6 from every node): measured error in units
    [] e.op = "interp_any" -> Read(e, M) /\ Len(e.units) = M.nv /\ AllLe(e.units, InterpAnyGuard)
    \* trapezium, exact: ri + rl / 2^kx  (rl = 0 on plain grids; see Mesh.tla, grids with a fine part)
    [] e.op = "trap" -> IF InVar(M, e.var) THEN Read(e, M) /\ <<e.ri, e.rl>> = Trap1x2F(M, e.var) ELSE Unchanged(e, M)
    \* output(file, p) then read(file) into another mesh: same number of nodes, each node and variable within 10^-p
    \* the receiving mesh held other data on another grid (fewer / more / equally many nodes).  Afterwards, through every
    \* accessor: node count nn, nvars nvr; nodes() (nu), coord (cu), get_nodes_vars (gu), index (vu) each within one unit of
    \* 10^-p; trapezium of every variable (tu) within one unit of the bound that follows from those deviations
    [] e.op = "roundtrip" -> /\ Read(e, M) /\ e.nn = N1(M) /\ e.nvr = M.nv
                             /\ Len(e.nu) = N1(M) /\ AllLe(e.nu, RoundTripGuard)
                             /\ Len(e.cu) = N1(M) /\ AllLe(e.cu, RoundTripGuard)
                             /\ Len(e.vu) = N1(M) /\ Len(e.gu) = N1(M)
                             /\ \A k \in 1..N1(M) : /\ Len(e.vu[k]) = M.nv /\ AllLe(e.vu[k], RoundTripGuard)
                                                    /\ Len(e.gu[k]) = M.nv /\ AllLe(e.gu[k], RoundTripGuard)
                             /\ Len(e.tu) = M.nv /\ AllLe(e.tu, RoundTripGuard)
    [] OTHER -> FALSE

Explained2(e, M) ==
  CASE e.op \in {"set", "isetv"} -> IF Acc_Set2(M, e.i, e.j, e.v) THEN Wrote(e, ModelPost2(e, M)) ELSE Unchanged(e, M)
    [] e.op = "iset" -> IF InRange2(M, e.i, e.j) /\ InVar(M, e.var) THEN Wrote(e, ModelPost2(e, M)) ELSE Unchanged(e, M)
    [] e.op = "assign" -> Wrote(e, ModelPost2(e, M))
    [] e.op = "apply" -> IF InVar(M, e.var) THEN Wrote(e, ModelPost2(e, M)) ELSE Unchanged(e, M)
    [] e.op = "get" -> IF InRange2(M, e.i, e.j) THEN Read(e, M) /\ e.rv = Get2(M, e.i, e.j) ELSE Unchanged(e, M)
    [] e.op = "index" -> IF InRange2(M, e.i, e.j) THEN Read(e, M) /\ e.rv = Index2(M, e.i, e.j) ELSE Unchanged(e, M)
    [] e.op = "index_all" -> Read(e, M) /\ e.rvars = M.vars
    [] e.op = "coord" -> IF InRange2(M, e.i, e.j) THEN Read(e, M) /\ e.rv = Coord2(M, e.i, e.j) ELSE Unchanged(e, M)
    [] e.op = "xnodes" -> Read(e, M) /\ e.rv = M.xn
    [] e.op = "ynodes" -> Read(e, M) /\ e.rv = M.yn
    [] e.op = "nnodes" -> Read(e, M) /\ e.rv = <<NX(M), NY(M)>>
    [] e.op = "nvars" -> Read(e, M) /\ e.ri = M.nv
    \* cross-sections: a 1-D mesh (nodes, number of variables, store read through get_nodes_vars and through the index)
    [] e.op = "xsec_x" -> IF Acc_XsecX(M, e.i)
                            THEN LET S == XsecX(M, e.i)
                                 IN Read(e, M) /\ e.rn = S.xn /\ e.rnv = S.nv /\ e.rvars = S.vars /\ e.rivars = S.vars
                            ELSE Unchanged(e, M)
    [] e.op = "xsec_y" -> IF Acc_XsecY(M, e.j)
                            THEN LET S == XsecY(M, e.j)
                                 IN Read(e, M) /\ e.rn = S.xn /\ e.rnv = S.nv /\ e.rvars = S.vars /\ e.rivars = S.vars
                            ELSE Unchanged(e, M)
    [] e.op = "vam" -> IF InVar(M, e.var)
                         THEN LET A == VarAsMatrix(M, e.var)
                              IN Read(e, M) /\ e.rm.r = A.r /\ e.rm.c = A.c /\ e.rm.d = A.d
                         ELSE Unchanged(e, M)
    \* exact: ri + rl / 2^(kx+ky)
    [] e.op = "trap" -> IF InVar(M, e.var) THEN Read(e, M) /\ <<e.ri, e.rl>> = Trap2x4F(M, e.var) ELSE Unchanged(e, M)
    [] e.op = "sq_trap" -> IF InVar(M, e.var) THEN Read(e, M) /\ <<e.ri, e.rl>> = SqTrap2x4F(M, e.var) ELSE Unchanged(e, M)
    [] OTHER -> FALSE

\* kind "nx": the query point is a node coordinate as stored in the mesh; got / want are the bit patterns of the interpolated and of the
\* stored nodal values.  At every node but the last the stored value must come back bit for bit.  At the LAST node the unchanged code
\* evaluates left + ((right - left) / dx) * dx in the only cell that contains it, which is not exact when dx has an inexact reciprocal
\* (measured on the unchanged tree); exactly that position is judged in units of 8 eps max|data| instead.
NodeExact(e) == /\ ~e.panic /\ Len(e.got) = Len(e.want) /\ Len(e.got) > 0
                /\ IF e.node < e.nn - 1 THEN e.got = e.want ELSE AllLe(e.units, InterpAnyGuard)
Explained(e, M) == IF e.kind = "m1" THEN Explained1(e, M) ELSE Explained2(e, M)

\* the logged store has the model's shape (only then can the history continue from it)
ShapeOK(e, M) == IF e.kind = "m1"
                   THEN Len(e.post) = N1(M) /\ \A k \in 1..Len(e.post) : Len(e.post[k]) = M.nv
                   ELSE /\ Len(e.post) = NX(M)
                        /\ \A i \in 1..Len(e.post) : /\ Len(e.post[i]) = NY(M)
                                                     /\ \A j \in 1..Len(e.post[i]) : Len(e.post[i][j]) = M.nv

\* magnitudes: a logged store is adopted after a mismatch only if it is a plausible store -- the model's shape and no
\* entry larger than the entries of the model's stores (so that later quadratures stay inside TLC's integers)
Entries(e, V) == IF e.kind = "m1" THEN {Abs(V[k][v]) : k \in 1..Len(V), v \in 1..Len(V[1])}
                 ELSE UNION {{Abs(V[i][j][v]) : j \in 1..Len(V[1]), v \in 1..Len(V[1][1])} : i \in 1..Len(V)}
MaxOf(S) == IF S = {} THEN 0 ELSE CHOOSE x \in S : \A y \in S : y <= x
Plausible(e, M, X) == /\ ShapeOK(e, M)
                      /\ LET b == MaxOf(Entries(e, M.vars) \cup Entries(e, X.vars)) IN \A x \in Entries(e, e.post) : x <= b

Init == l = 1 /\ cur = [xf |-> <<0, 0>>, kx |-> 0] @@ New1(<<0, 1>>, 1) /\ TLCSet(1, 0)
Step == /\ l <= NRec
        /\ LET e == Rec[l]
               M == Pre(e)
           IN IF e.kind = "nx"
                THEN IF NodeExact(e) THEN cur' = cur ELSE Mismatch(l, e, e.op) /\ cur' = cur
                ELSE IF Explained(e, M)
                       THEN cur' = [M EXCEPT !.vars = e.post]              \* = the model's post-state (checked by Explained)
                       ELSE /\ Mismatch(l, e, e.op)
                            /\ LET X == ModelPost(e, M)                    \* re-synchronise on the logged store if plausible
                               IN cur' = IF Plausible(e, M, X) THEN [M EXCEPT !.vars = e.post] ELSE X
        /\ l' = l + 1
Spec == Init /\ [][Step]_vars
=============================================================================
