SPECIFICATION Spec
CONSTANTS MaxN = 6  MaxLimit = 12  Emit = TRUE  MutatesGuess = FALSE
VIEW View
INVARIANTS EmitCase
CONSTRAINT GenStop
CHECK_DEADLOCK FALSE
