SPECIFICATION Spec
CONSTANTS
  Shapes <- Shapes03q
  NVs = {1, 2}
  Types = {FALSE, TRUE}
  Vals <- MCVals
  Depth = 2
  Emit = FALSE
  Positional = FALSE
VIEW View
INVARIANTS Shape Fresh Layout Views Quad
CHECK_DEADLOCK FALSE
