SPECIFICATION Spec
CONSTANTS MaxDegU = 2  MaxDegV = 1  Rounding = TRUE  DropLeadingTerm = FALSE  Cap = 6  Emit = FALSE
CONSTANTS Vals <- MCVals1
INVARIANTS NeverGivesUp

CHECK_DEADLOCK FALSE
