SPECIFICATION Spec
CONSTANTS MaxLen = 3  MaxLen3 = 0  CxLen = 0  Mode = "gen"
CONSTANTS Vals <- MCVals  CxVals <- MCVals
INVARIANTS EmitCase
CHECK_DEADLOCK FALSE
