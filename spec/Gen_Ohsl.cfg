SPECIFICATION Spec
CONSTANTS Depth = 4  Deep = TRUE  Emit = TRUE
INVARIANTS EmitCase
CHECK_DEADLOCK FALSE
