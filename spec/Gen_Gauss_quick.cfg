SPECIFICATION Spec
CONSTANTS Mode = "solve"  Scope = "quick"  Skip = TRUE  Emit = TRUE
INVARIANTS EmitCase
CHECK_DEADLOCK FALSE
