SPECIFICATION Spec
CONSTANTS Mode = "quad"  MaxDeg = 0  NRoots = 0  MaxRoots = 0  NLead = 0  QZeroGuard = TRUE  StopOnNonFinite = TRUE  MaxIt = 4
CONSTANTS Comp <- Comp2  CompA <- Comp2
INVARIANTS QuadOK QuadFinite

CHECK_DEADLOCK FALSE
