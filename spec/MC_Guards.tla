------------------------------ MODULE MC_Guards ------------------------------
(* Design check and case generator for the Guards table (C20).                          *)
(*  - ASSUME TableOK: the table is consistent (unique names, every guarded group has an *)
(*    accepting tuple inside the demanded domain and a rejecting one, unguarded groups  *)
(*    accept everything, every target group has an out-of-range address and accepts     *)
(*    only in-range ones, every by-reference/consuming pair of Appendix B has both      *)
(*    forms - which share the group's predicate by construction);                       *)
(*  - the initial states are ALL (group, tuple) combinations with sizes and indices in  *)
(*    0..MaxSize(+1), band widths / variable counts in 0..MaxSmall; with Emit = TRUE    *)
(*    each is printed as one case carrying `accept`.                                    *)
EXTENDS Guards, TLC, Json
CONSTANTS MaxSize, MaxSmall, Emit
VARIABLES cur
vars == <<cur>>

Rng(kind) == CASE kind = "n" -> 0..MaxSize
               [] kind = "i" -> 0..(MaxSize + 1)
               [] kind \in {"b", "v"} -> 0..MaxSmall
               [] kind = "o" -> (-(MaxSmall + 1))..(MaxSmall + 1)
RECURSIVE Tup(_)
Tup(ps) == IF ps = <<>> THEN {<<>>} ELSE {<<x>> \o t : x \in Rng(Head(ps)), t \in Tup(Tail(ps))}

RowOK(row) ==
  LET T == Tup(row.ps) IN
    /\ Len(row.ps) >= 1 /\ Len(row.forms) >= 1
    /\ Cardinality(FormNames(row)) = Len(row.forms)
    /\ \A k \in 1..Len(row.forms) : row.forms[k].nb \in 0..2 /\ row.forms[k].f \in {"ref", "mix", "own", "method"}
    /\ \E t \in T : Acc(row.g, t) /\ Dom(row.g, t)
    /\ IF row.guard THEN \E t \in T : ~Acc(row.g, t) /\ RejDom(row.g, t) ELSE \A t \in T : Acc(row.g, t)
    /\ row.target => /\ row.guard
                     /\ \E t \in T : ~AddrOK(row.g, t)
                     /\ \A t \in T : Acc(row.g, t) => AddrOK(row.g, t)
TableOK == /\ Cardinality(GroupNames) = Len(Table)
           /\ \A k \in 1..Len(Table) : RowOK(Table[k]) \/ Print(<<"BAD-ROW", Table[k].g>>, FALSE)
           /\ Paired \subseteq GroupNames
           /\ \A g \in Paired : "own" \in FormNames(Row(g)) /\ "ref" \in FormNames(Row(g))
           /\ PrintT(<<"TABLE", ToJson(EntryKeys)>>)
ASSUME TableOK

Init == \E k \in 1..Len(Table) : \E t \in Tup(Table[k].ps) :
          cur = [op |-> Table[k].g, t |-> t, accept |-> Acc(Table[k].g, t)]
Next == UNCHANGED cur
Spec == Init /\ [][Next]_vars

Consistent == /\ cur.op \in GroupNames /\ Len(cur.t) = Len(Row(cur.op).ps)
              /\ cur.accept = Acc(cur.op, cur.t)
              /\ (~Row(cur.op).guard) => cur.accept
EmitCase == Emit => PrintT(<<"CASE", ToJson(cur)>>)
=============================================================================
