------------------------------ MODULE MC_Guards ------------------------------
(* Design check and case generator for the Guards table (C20).                          *)
(*  - ASSUME TableOK: the table is consistent (unique names, every guarded group has an *)
(*    accepting tuple inside the demanded domain and a rejecting one, unguarded groups  *)
(*    accept everything, every target group has an out-of-range address and accepts     *)
(*    only in-range ones, every by-reference/consuming pair of Appendix B has both      *)
(*    forms - which share the group's predicate by construction);                       *)
(*  - the initial states are ALL (group, tuple) combinations with sizes and indices in  *)
(*    0..MaxSize(+1), band widths / variable counts in 0..MaxSmall; with Emit = TRUE    *)
(*    each is printed as one case carrying `accept`.                                    *)
EXTENDS Guards, TLC, Json
CONSTANTS MaxSize, MaxSmall, AgedMax, Emit
VARIABLES cur
vars == <<cur>>

\* tuple ranges for sizes up to mx and band widths / variable counts up to sm
RngOf(kind, mx, sm) == CASE kind = "n" -> 0..mx
                         [] kind = "i" -> 0..(mx + 1)
                         [] kind \in {"b", "v"} -> 0..sm
                         [] kind = "o" -> (-(sm + 1))..(sm + 1)
RECURSIVE TupOf(_, _, _)
TupOf(ps, mx, sm) == IF ps = <<>> THEN {<<>>} ELSE {<<x>> \o t : x \in RngOf(Head(ps), mx, sm), t \in TupOf(Tail(ps), mx, sm)}
Tup(ps) == TupOf(ps, MaxSize, MaxSmall)
\* aged receivers and operand variants are enumerated over the smaller range 0..AgedMax (old sizes reach AgedMax + 2)
ASmall == IF MaxSmall < AgedMax THEN MaxSmall ELSE AgedMax
TupA(ps) == TupOf(ps, AgedMax, ASmall)

RowOK(row) ==
  LET T == Tup(row.ps) IN
    /\ Len(row.ps) >= 1 /\ Len(row.forms) >= 1
    /\ Cardinality(FormNames(row)) = Len(row.forms)
    /\ \A k \in 1..Len(row.forms) : row.forms[k].nb \in 0..2 /\ row.forms[k].f \in {"ref", "mix", "own", "method"}
    /\ \E t \in T : Acc(row.g, t) /\ Dom(row.g, t)
    /\ IF row.guard THEN \E t \in T : ~Acc(row.g, t) /\ RejDom(row.g, t) ELSE \A t \in T : Acc(row.g, t)
    /\ row.target => /\ row.guard
                     /\ \E t \in T : ~AddrOK(row.g, t)
                     /\ \A t \in T : Acc(row.g, t) => AddrOK(row.g, t)
TableOK == /\ Cardinality(GroupNames) = Len(Table)
           /\ \A k \in 1..Len(Table) : RowOK(Table[k]) \/ Print(<<"BAD-ROW", Table[k].g>>, FALSE)
           /\ Paired \subseteq GroupNames
           /\ Paired = {Table[k].g : k \in {j \in 1..Len(Table) : {"ref", "own"} \subseteq FormNames(Table[j])}}
           /\ \A g \in Paired : "own" \in FormNames(Row(g)) /\ "ref" \in FormNames(Row(g))
           \* every preparation is used by some group and every pair of Appendix B has operand variants
           /\ PrepKeys = UNION {{p.prep : p \in Preps(RecvTy(Table[k].g), [j \in 1..Len(Table[k].ps) |-> 2]) \cup Preps(RecvTy(Table[k].g), [j \in 1..Len(Table[k].ps) |-> 0])} : k \in 1..Len(Table)}
           /\ \A g \in Paired : Variants(g, [j \in 1..Len(Row(g).ps) |-> 1]) # {}
           /\ PrintT(<<"TABLE", ToJson(EntryKeys)>>)
ASSUME TableOK

Case(g, t, prep, old, rhs, sc, pat) == [op |-> g, t |-> t, accept |-> Acc(g, t), prep |-> prep, old |-> old, rhs |-> rhs, sc |-> sc, pat |-> pat]
\* (i) fresh operands; (ii) the receiver aged by every preparation of its type; (iii) operand variants of the pairs
InitFresh == \E k \in 1..Len(Table) : \E t \in Tup(Table[k].ps) : cur = Case(Table[k].g, t, "", <<>>, "other", 0, "plain")
\* aged receivers: the receiver's dimensions tr, a preparation p, and the remaining parameters.  Sizes among the remaining
\* parameters also take the OLD dimensions (an operand fitting the old layout but not the new one); for the binary
\* operations on matrices / band matrices the second operand has the new layout, the old layout, or a near miss.
RECURSIVE TupR(_, _)
TupR(ps, ov) == IF ps = <<>> THEN {<<>>}
                ELSE {<<x>> \o t : x \in (IF Head(ps) = "n" THEN RngOf("n", AgedMax, ASmall) \cup ov ELSE RngOf(Head(ps), AgedMax, ASmall)), t \in TupR(Tail(ps), ov)}
Rest(row, tr, p) ==
  LET rl == Len(tr)
      ov == {p.old[j] : j \in 1..Len(p.old)}
  IN IF row.g \in SameTyBinary /\ rl = 2 THEN {tr, p.old, <<tr[2], tr[1]>>, <<p.old[2], p.old[1]>>}
     ELSE IF row.g \in SameTyBinary /\ rl = 3 THEN {tr, p.old, <<tr[1] + 1, tr[2], tr[3]>>}
     ELSE TupR(SubSeq(row.ps, rl + 1, Len(row.ps)), ov)
InitAged == \E k \in 1..Len(Table) :
              LET row == Table[k]
                  ty == RecvTy(row.g)
              IN /\ ty # "none"
                 /\ \E tr \in TupA(SubSeq(row.ps, 1, RecvLen(ty))) : \E p \in Preps(ty, tr) : \E rest \in Rest(row, tr, p) :
                       cur = Case(row.g, tr \o rest, p.prep, p.old, "other", 0, "plain")
InitVar == \E k \in 1..Len(Table) : \E t \in {u \in TupA(Table[k].ps) : Acc(Table[k].g, u)} : \E v \in Variants(Table[k].g, t) :
               cur = Case(Table[k].g, t, "", <<>>, v.rhs, v.sc, "mixed")
\* (iv) every by-reference / consuming pair on INEXACT data (k/10, k/3, random significands, magnitudes 1e-8..1e8
\* within one operand; f64 and Complex<f64>), every accepted shape / length relation; polynomial lengths up to MaxSize + 3
InexPats == {"inexact1", "inexact2", "inexactc1"}
IsPoly(g) == g \in {"poly.add", "poly.sub", "poly.mul", "poly.neg", "poly.mul_scalar"}
InitInex == \E g \in Paired : \E t \in {u \in TupOf(Row(g).ps, IF IsPoly(g) THEN MaxSize + 3 ELSE MaxSize, MaxSmall) : Acc(g, u)} :
               \E pt \in InexPats : cur = Case(g, t, "", <<>>, "other", 0, pt)
Init == InitFresh \/ InitAged \/ InitVar \/ InitInex
Next == UNCHANGED cur
Spec == Init /\ [][Next]_vars

Consistent == /\ cur.op \in GroupNames /\ Len(cur.t) = Len(Row(cur.op).ps)
              /\ cur.accept = Acc(cur.op, cur.t)
              /\ (~Row(cur.op).guard) => cur.accept
              /\ cur.prep \in PrepKeys \cup {""} /\ (cur.pat # "plain" => cur.accept)
EmitCase == Emit => PrintT(<<"CASE", ToJson(cur)>>)
=============================================================================
