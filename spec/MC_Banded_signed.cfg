SPECIFICATION Spec
CONSTANTS MinN = 1  MaxN = 2  LawN = 0  BWTop = 2  Vals <- MCVals  Pads = {0}  PivotBy = "signed"  Emit = FALSE
INVARIANTS DetOK
CHECK_DEADLOCK FALSE
