INIT InitH
NEXT NextH
CONSTANTS MaxLen = 3  Depth = 4  Emit = FALSE  Vals = {0, 1, 2}  LawLen = 0  BilinLen = 0  Ent <- MCEnt
VIEW View
INVARIANTS TwinAgrees Structure
CHECK_DEADLOCK FALSE
