SPECIFICATION Spec
CONSTANTS Mode = "cg"  MaxBudget = 0  BiCGInitialCheck = TRUE  DiagLo = 2  DiagHi = 4  MaxOff = 1  MaxB = 2  Emit = TRUE
INVARIANTS EmitCase
CHECK_DEADLOCK FALSE
