SPECIFICATION Spec
CONSTANTS
  NA = 2
  MaxVec = 5
  MaxMat = 3
  MaxTri = 4
  MaxBandN = 3
  MaxBandM = 3
  MaxPoly = 6
  MaxM1 = 3
  MaxM2 = 2
  Emit = FALSE
  Pairwise = FALSE
INVARIANTS Count Inverse Views
CHECK_DEADLOCK FALSE
