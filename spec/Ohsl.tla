-------------------------------- MODULE Ohsl --------------------------------
(* Workspace semantics of ohsl values (C20: operand immutability, clone independence).   *)
(* A workspace maps object ids to TAGGED VALUES [k, m, a, b]: k the kind, m a dense      *)
(* matrix {r, c, d} of integers holding the mathematical content, a/b kind parameters:   *)
(*   "vec"    m = n x 1                      "poly"   m = len x 1 (coefficients)         *)
(*   "mat"    m = the matrix                 "sparse" m = the dense r x c twin           *)
(*   "band"   m = n x n, zero off the band, a = m1, b = m2                               *)
(*   "tri"    m = n x n, zero off the three diagonals                                    *)
(*   "mesh1"  m = nnodes x nvars             "mesh2"  m = (nx*ny) x nvars, a = nx, b = ny *)
(* Create / Clone / Convert add an object, Mutate(id, o) changes objs[id] ONLY, Observe  *)
(* (any &self / by-reference call, whatever its outcome) changes nothing, Drop removes.  *)
EXTENDS Dense

Val(k, m, a, b) == [k |-> k, m |-> m, a |-> a, b |-> b]
SameVal(x, y) == x.k = y.k /\ x.a = y.a /\ x.b = y.b /\ SameMat(x.m, y.m)
EmptyWs == <<>>
Put(w, id, v) == [x \in (DOMAIN w) \cup {id} |-> IF x = id THEN v ELSE w[x]]
Del(w, id) == [x \in (DOMAIN w) \ {id} |-> w[x]]

InBand(v, i, j) == j <= i + v.b /\ i <= j + v.a
BandMask(v, F(_, _)) == Mk(v.m.r, v.m.c, LAMBDA i, j : IF InBand(v, i, j) THEN F(i, j) ELSE 0)
TriMask(m, F(_, _)) == Mk(m.r, m.c, LAMBDA i, j : IF i - j \in {-1, 0, 1} THEN F(i, j) ELSE 0)

\* Polynomial::trim keeps the coefficients up to the last nonzero one (at least one)
TrimLen(m) == LET nz == {k \in 1..m.r : m.d[k] # 0} IN IF nz = {} THEN 1 ELSE CHOOSE k \in nz : \A j \in nz : j <= k

(* ---- Mutate: the new content of value v under operation record o (w: the workspace, for  ---- *)
(* ---- operations that borrow another live object o.src); arguments are always in range    ---- *)
MutM(v, o, w) ==
  CASE v.k = "mat" -> IF o.op = "add_obj" THEN Add(v.m, w[o.src].m) ELSE ApplyOp(v.m, o)
    [] v.k \in {"vec", "poly"} ->
         (CASE o.op = "set" -> SetElem(v.m, o.i, 0, o.x)
           [] o.op = "push" -> SetElem(Resize(v.m, v.m.r + 1, 1), v.m.r, 0, o.x)
           [] o.op = "pop" -> Resize(v.m, v.m.r - 1, 1)
           [] o.op = "swap" -> SwapRows(v.m, o.i, o.i2)
           [] o.op = "scale" -> Scale(v.m, o.s)
           [] o.op = "shift" -> Shift(v.m, o.s)
           [] o.op = "add_obj" -> Add(v.m, w[o.src].m)
           [] o.op = "clear" -> Resize(v.m, 0, 1)
           [] o.op = "resize" -> Resize(v.m, o.nr, 1)                                             \* Vector::resize
           [] o.op = "insert" -> Mk(v.m.r + 1, 1, LAMBDA k, j : IF k < o.i THEN At(v.m, k, 0)
                                                              ELSE IF k = o.i THEN o.x ELSE At(v.m, k - 1, 0))
           [] o.op = "trim" -> Resize(v.m, TrimLen(v.m), 1))                                      \* Polynomial::trim (len >= 1)
    [] v.k = "band" ->
         (CASE o.op = "set" -> SetElem(v.m, o.i, o.j, o.x)
           [] o.op = "fill" -> BandMask(v, LAMBDA i, j : o.x)
           [] o.op = "fill_band" -> FillBand(v.m, o.off, o.x)
           [] o.op = "scale" -> Scale(v.m, o.s)
           [] o.op = "add_obj" -> Add(v.m, w[o.src].m))
    [] v.k = "tri" ->
         (CASE o.op = "set" -> SetElem(v.m, o.i, o.j, o.x)
           [] o.op = "transpose_in_place" -> Transpose(v.m)
           [] o.op = "scale" -> Scale(v.m, o.s)
           [] o.op = "shift" -> TriMask(v.m, LAMBDA i, j : At(v.m, i, j) + o.s)
           [] o.op = "resize" -> New(o.nr, o.nr, 0))                                              \* Tridiagonal::resize zeroes
    [] v.k = "sparse" ->
         (CASE o.op = "set" -> SetElem(v.m, o.i, o.j, o.x)
           [] o.op = "scale" -> Scale(v.m, o.s))
    [] v.k = "mesh1" ->
         (CASE o.op = "set_row" -> SetRow(v.m, o.i, o.v)
           [] o.op = "set" -> SetElem(v.m, o.i, o.j, o.x)
           [] o.op = "read" -> o.b)                                                               \* Mesh1D::read: the file's nodes
    [] v.k = "mesh2" ->
         (CASE o.op = "set_row" -> SetRow(v.m, o.i * v.b + o.j, o.v)              \* set_nodes_vars(i, j, v)
           [] o.op = "fill" -> Fill(v.m, o.x)                                   )  \* assign(x)
\* Banded::resize(n, m1, m2) followed by fill(x): the band shape changes with the content
Mut(v, o, w) == IF v.k = "band" /\ o.op = "resize_fill"
                  THEN LET nv == Val("band", New(o.nr, o.nr, 0), o.i, o.j) IN [nv EXCEPT !.m = BandMask(nv, LAMBDA i, j : o.x)]
                  ELSE [v EXCEPT !.m = MutM(v, o, w)]

(* ---- Convert: the value of the NEW object produced from v by a &self conversion ---- *)
Conv(v, o) ==
  CASE o.op = "clone" -> v
    [] o.op = "tri.convert" -> Val("mat", v.m, 0, 0)
    [] o.op = "sparse.to_dense" -> Val("mat", v.m, 0, 0)
    [] o.op = "sparse.transpose" -> Val("sparse", Transpose(v.m), 0, 0)
    [] o.op = "mat.transpose" -> Val("mat", Transpose(v.m), 0, 0)
    [] o.op = "mat.get_row" -> Val("vec", Mk(v.m.c, 1, LAMBDA i, j : At(v.m, o.i, i)), 0, 0)
    [] o.op = "mesh1.get_nodes_vars" -> Val("vec", Mk(v.m.c, 1, LAMBDA i, j : At(v.m, o.i, i)), 0, 0)
    [] o.op = "mesh2.cross_section_xnode" -> Val("mesh1", Mk(v.b, v.m.c, LAMBDA i, j : At(v.m, o.i * v.b + i, j)), 0, 0)
    [] o.op = "mesh2.cross_section_ynode" -> Val("mesh1", Mk(v.a, v.m.c, LAMBDA i, j : At(v.m, i * v.b + o.j, j)), 0, 0)
    [] o.op = "mesh2.var_as_matrix" -> Val("mat", Mk(v.a, v.b, LAMBDA i, j : At(v.m, i * v.b + j, o.i)), 0, 0)
    [] o.op = "poly.derivative" -> Val("poly", Mk(v.m.r - 1, 1, LAMBDA i, j : (i + 1) * At(v.m, i + 1, 0)), 0, 0)
    [] o.op = "tri.transpose" -> Val("tri", Transpose(v.m), 0, 0)

(* ---- one recorded session step e applied to workspace w ---- *)
Ids(w) == DOMAIN w
StepDefined(w, e) ==
  CASE e.act = "create" -> e.oid \notin Ids(w)
    [] e.act \in {"clone", "convert"} -> e.oid \notin Ids(w) /\ e.src \in Ids(w)
    [] e.act = "mutate" -> e.oid \in Ids(w) /\ (e.o.op = "add_obj" => e.o.src \in Ids(w))
    [] e.act = "drop" -> e.oid \in Ids(w)
    [] e.act = "observe" -> TRUE
    [] OTHER -> FALSE
SessStep(w, e) ==
  IF ~StepDefined(w, e) THEN w
  ELSE CASE e.act = "create" -> Put(w, e.oid, e.init)
         [] e.act = "clone" -> Put(w, e.oid, w[e.src])
         [] e.act = "convert" -> Put(w, e.oid, Conv(w[e.src], e.o))
         [] e.act = "mutate" -> [w EXCEPT ![e.oid] = Mut(w[e.oid], e.o, w)]
         [] e.act = "drop" -> Del(w, e.oid)
         [] e.act = "observe" -> w
Logged(e) == [id \in {e.objs[k].oid : k \in 1..Len(e.objs)} |->
                 (e.objs[CHOOSE k \in 1..Len(e.objs) : e.objs[k].oid = id]).val]
(* the step is explained: it is defined, only an Observe may panic, and every live object of the *)
(* implementation holds exactly the model's value (nothing but the mutated object changed)      *)
SessOK(w0, w1, e) ==
  /\ StepDefined(w0, e)
  /\ (e.act # "observe") => ~e.panic
  /\ {e.objs[k].oid : k \in 1..Len(e.objs)} = Ids(w1) /\ Len(e.objs) = Cardinality(Ids(w1))
  /\ \A k \in 1..Len(e.objs) : SameVal(e.objs[k].val, w1[e.objs[k].oid])
=============================================================================
