SPECIFICATION Spec
CONSTANTS
  Coords <- MCCoords
  Vals <- MCVals
  Coefs <- MCCoefs
  MaxN = 4
  NVs = {1}
  LinNV = {1}
  Shapes1 <- Nodes24
  Shapes2 <- ShapesAll4
  LawShapes2 <- ShapesAll4
  Depth = 3
  IScale = 4
  MaxData2 = 4
  Modes = {"store1", "store2"}
  Emit = FALSE
  Positional = FALSE
VIEW View
INVARIANTS Shape Fresh QuadSum Interp LinExact
CHECK_DEADLOCK FALSE
