SPECIFICATION Spec
CONSTANTS Mode = "det"  Scope = "tiny"  Skip = FALSE  Emit = FALSE
INVARIANTS Inv_Det
CHECK_DEADLOCK TRUE
