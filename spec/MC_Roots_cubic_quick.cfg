SPECIFICATION Spec
CONSTANTS Mode = "cubic"  MaxDeg = 0  NRoots = 0  MaxRoots = 0  NLead = 0  QZeroGuard = TRUE  StopOnNonFinite = TRUE  MaxIt = 4
CONSTANTS Comp <- Comp1  CompA <- Comp1
INVARIANTS CubicOK

CHECK_DEADLOCK FALSE
