SPECIFICATION Spec
CONSTANTS Mode = "gen"  MaxDeg = 0  NRoots = 7  MaxRoots = 4  NLead = 2  QZeroGuard = TRUE  StopOnNonFinite = TRUE  MaxIt = 4
CONSTANTS Comp <- Comp1  CompA <- Comp1
INVARIANTS GenOK EmitCase

CHECK_DEADLOCK FALSE
