------------------------- MODULE Trace_ComplexField -------------------------
(* Trace validation for ohsl::Complex<T> arithmetic (C13).  Stateless: every event is  *)
(* one public call (or one group of identity calls) on logged operands.                *)
(*  ty = "rat":  Complex<Rat>; operands z, w (v) and results are exact Gaussian        *)
(*               rationals {re:[n,d], im:[n,d]}; every result must EQUAL the operator  *)
(*               of ComplexField.tla.                                                  *)
(*  ty = "f64":  Complex<f64>.  exact = TRUE: the operands are small dyadic rationals  *)
(*               (exact in f64) and are logged like the rational ones; a result        *)
(*               component whose exact value is dyadic must be reproduced exactly      *)
(*               (correct rounding returns representable values unchanged).            *)
(*               exact = FALSE: components of magnitude 1e-100..1e100; the harness     *)
(*               logs the normwise error against the double-double value as            *)
(*               units = ceil(|got - exact| / (eps * |exact|)); the guard lives here.  *)
(*               Compound assignment: the bit patterns of the assignment form (ba)     *)
(*               and of the binary form (bb) are logged as hex strings.                *)
EXTENDS TraceBase, ComplexField
VARIABLES l
vars == <<l>>

UnitsGuard == 8

RSame(p, q) == p[1] = q[1] /\ p[2] = q[2]
CSame(a, b) == RSame(a.re, b.re) /\ RSame(a.im, b.im)
RECURSIVE Pow2(_)
Pow2(d) == d = 1 \/ (d > 1 /\ d % 2 = 0 /\ Pow2(d \div 2))
Dyadic(p) == Pow2(p[2])
IsF(e) == e.ty = "f64"
\* exact types must match; an f64 component must match when its exact value is representable and the
\* operation involves no division (sums and products of small dyadic operands are exact in any evaluation
\* order; a quotient is only held to the units guard, the property promises "a few ulps" there)
NoDivision(op) == op \notin {"div", "div_r", "div_assign", "div_assign_r"}
RMatch(e, got, want) == IF IsF(e) THEN ((NoDivision(e.op) /\ Dyadic(want)) => RSame(got, want)) ELSE RSame(got, want)
CMatch(e, got, want) == RMatch(e, got.re, want.re) /\ RMatch(e, got.im, want.im)
\* componentwise: each component of an f64 sum / product / quotient against its exactly rounded value in units of
\* eps * S, S the magnitude sum of the textbook formula (|ac|+|bd| resp. |ad|+|bc|, over |w|^2 for quotients; the
\* exact component for single-rounding operations).  A-priori bounds: 1 unit (product), 2.5 units (quotient); factor > 8.
CompGuard == 24
CompOK(e) == e.cu_re <= CompGuard /\ e.cu_im <= CompGuard
UnitsOK(e) == IsF(e) => (e.units <= UnitsGuard /\ (e.op \notin {"neg", "conj", "abs_sqr"} => CompOK(e)))
HasOperands(e) == ~IsF(e) \/ e.exact

SoakN == 1048576 + 64
SoakOps == {"add", "sub", "mul", "div", "neg", "conj", "abs_sqr", "add_r", "sub_r", "mul_r", "div_r", "r_mul"} \cup AsgKinds
           \cup {"eq", "ne", "lt", "le", "gt", "ge", "partial_cmp", "zero", "one"}
BinOps == {"add", "sub", "mul", "div"}
RealOps == {"add_r", "sub_r", "mul_r", "div_r", "r_mul"}
BinVal(op, z, w) == CASE op = "add" -> CAdd(z, w) [] op = "sub" -> CSub(z, w)
                      [] op = "mul" -> CMul(z, w) [] op = "div" -> CDiv(z, w)
RealVal(op, z, s) == CASE op = "add_r" -> CAddR(z, s) [] op = "sub_r" -> CSubR(z, s)
                       [] op \in {"mul_r", "r_mul"} -> CMulR(z, s) [] op = "div_r" -> CDivR(z, s)

ZeroBits == "00000000000000000000000000000000"
OneBits == "3ff00000000000000000000000000000"
AllSame(sq, x) == \A i \in 1..Len(sq) : sq[i] = x
CmpOf(z, w) == CCmp(z, w)

Explained(e) ==
  CASE e.op \in BinOps ->
         IF HasOperands(e)
           THEN IF e.op = "div" /\ ~Acc_Div(e.w) THEN TRUE        \* division by zero: outside the stated domain
                ELSE ~e.panic /\ CMatch(e, e.r, BinVal(e.op, e.z, e.w)) /\ UnitsOK(e)
           ELSE IF e.op = "div" /\ e.wz THEN TRUE ELSE ~e.panic /\ UnitsOK(e)
    [] e.op \in RealOps ->
         IF HasOperands(e)
           THEN IF e.op = "div_r" /\ ~Acc_DivR(e.w.re) THEN TRUE
                ELSE ~e.panic /\ CMatch(e, e.r, RealVal(e.op, e.z, e.w.re)) /\ UnitsOK(e)
           ELSE IF e.op = "div_r" /\ e.sz THEN TRUE ELSE ~e.panic /\ UnitsOK(e)
    [] e.op = "neg" -> IF HasOperands(e) THEN ~e.panic /\ CMatch(e, e.r, CNeg(e.z)) /\ UnitsOK(e) ELSE ~e.panic /\ UnitsOK(e)
    [] e.op = "conj" -> IF HasOperands(e) THEN ~e.panic /\ CMatch(e, e.r, CConj(e.z)) /\ UnitsOK(e) ELSE ~e.panic /\ UnitsOK(e)
    [] e.op = "abs_sqr" -> IF HasOperands(e) THEN ~e.panic /\ RMatch(e, e.rs, AbsSqr(e.z)) /\ UnitsOK(e) ELSE ~e.panic /\ UnitsOK(e)
    \* compound assignment: the statement machine's final state, equal to the binary form (bitwise on f64)
    [] e.op \in AsgKinds ->
         IF (IF HasOperands(e) THEN ~Acc_Asg(e.op, e.w) ELSE ((e.op = "div_assign" /\ e.wz) \/ (e.op = "div_assign_r" /\ e.sz))) THEN TRUE
         ELSE /\ ~e.panic
              /\ HasOperands(e) => (CMatch(e, e.r, AsgRun(e.op, e.z, e.w)) /\ CMatch(e, e.rb, Binary(e.op, e.z, e.w)))
              /\ ~IsF(e) => CSame(e.r, e.rb)
              /\ IsF(e) => (e.ba = e.bb /\ e.units <= UnitsGuard /\ CompOK(e))
    \* zero() and one() and their identity laws: z+0, 0+z, z-0, z*1, 1*z, z/1 all return z
    [] e.op = "ident" ->
         /\ ~e.panic
         /\ IF IsF(e) THEN e.bzero = ZeroBits /\ e.bone = OneBits /\ AllSame(e.same, e.bz)
            ELSE CSame(e.zero, CZero) /\ CSame(e.one, COne) /\ \A i \in 1..Len(e.same) : CSame(e.same[i], e.z)
    \* equality and lexicographic order on a NaN-free triple (operands always logged; for f64 they are
    \* ranks under a strictly increasing embedding of the integers into the f64 values 0, +-1e-100..+-1e100)
    [] e.op = "cmp3" ->
         /\ ~e.panic
         /\ e.c_zw = CmpOf(e.z, e.w) /\ e.c_wz = CmpOf(e.w, e.z) /\ e.c_wv = CmpOf(e.w, e.v) /\ e.c_zv = CmpOf(e.z, e.v)
         /\ e.lt = (CmpOf(e.z, e.w) = "lt") /\ e.gt = (CmpOf(e.z, e.w) = "gt") /\ e.eq = CSame(e.z, e.w)
         /\ e.le = (CmpOf(e.z, e.w) # "gt") /\ e.ge = (CmpOf(e.z, e.w) # "lt") /\ e.ne = ~CSame(e.z, e.w)
         \* stated directly as well: exactly one of <, =, > and transitivity on this triple
         /\ (IF e.lt THEN 1 ELSE 0) + (IF e.eq THEN 1 ELSE 0) + (IF e.gt THEN 1 ELSE 0) = 1
         /\ (e.c_zw = "lt" /\ e.c_wv = "lt") => e.c_zv = "lt"
    \* call-count dependence: SoakN consecutive guarded calls on fixed inexact operands, every result bit-identical to
    \* the first call's on the same operands, no panic (summary event per operation; soak_end lists what was soaked)
    [] e.op = "soak" -> e.name \in SoakOps /\ e.n >= SoakN /\ e.panics = 0 /\ e.diffs = 0
    [] e.op = "soak_end" -> {e.names[i] : i \in 1..Len(e.names)} = SoakOps
    [] OTHER -> FALSE

Init == l = 1 /\ TLCSet(1, 0)
Step == /\ l <= NRec
        /\ LET e == Rec[l] IN IF Explained(e) THEN TRUE ELSE Mismatch(l, e, e.op)
        /\ l' = l + 1
Spec == Init /\ [][Step]_vars
=============================================================================
