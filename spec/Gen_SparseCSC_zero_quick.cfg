SPECIFICATION Spec
CONSTANTS MaxR = 2  MaxC = 2  MaxEnt = 2  Depth = 2  Emit = TRUE  WithZero = TRUE
INVARIANTS EmitCase
CHECK_DEADLOCK FALSE
