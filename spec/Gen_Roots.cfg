SPECIFICATION Spec
CONSTANTS Mode = "gen"  MaxDeg = 0  NRoots = 9  MaxRoots = 5  NLead = 3  QZeroGuard = TRUE  StopOnNonFinite = TRUE  MaxIt = 4
CONSTANTS Comp <- Comp1  CompA <- Comp1
INVARIANTS GenOK EmitCase

CHECK_DEADLOCK FALSE
