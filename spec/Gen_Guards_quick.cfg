SPECIFICATION Spec
CONSTANTS MaxSize = 4  MaxSmall = 2  AgedMax = 3  Emit = TRUE
INVARIANTS EmitCase
CHECK_DEADLOCK FALSE
