SPECIFICATION Spec
CONSTANTS MaxN = 3  MaxLimit = 4  Emit = TRUE  MutatesGuess = FALSE
VIEW View
INVARIANTS EmitCase
CONSTRAINT GenStop
CHECK_DEADLOCK FALSE
