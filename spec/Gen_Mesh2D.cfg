SPECIFICATION Spec
CONSTANTS
  Shapes <- ShapesGen
  NVs = {1, 3}
  Types = {FALSE, TRUE}
  Vals <- MCVals
  Depth = 2
  Emit = TRUE
  Positional = TRUE
INVARIANTS EmitCase
CHECK_DEADLOCK FALSE
