SPECIFICATION Spec
CONSTANTS N = 1  Halves = FALSE  SavedOld = FALSE  Emit = FALSE
INVARIANTS TypeOK AsgEqualsBinary
CHECK_DEADLOCK FALSE
