------------------------------- MODULE ParDot -------------------------------
(* The threaded dot product Vector<f64>::dot_f64 (src/vector/vec_f64.rs:73-108) as a   *)
(* concurrent machine.  The main thread spawns nt workers in order, worker i owning    *)
(* the index slice [Start(i), End(i)); every worker adds one product per step, the     *)
(* steps of different workers interleave arbitrarily; the main thread joins the        *)
(* workers IN SPAWN ORDER and adds their partial sums to the result.  Because floating *)
(* point addition is not associative, sums are kept as TERMS: a worker's partial sum   *)
(* is the sequence of indices in the order they were added, the result is the sequence *)
(* of partial sums in the order they were added.                                       *)
(*   Rule      = "code"          chunk = len \div nt, the last worker takes the rest   *)
(*               "no_remainder"  (deviation) the last chunk is not extended to len     *)
(*               "ceil"          (deviation) chunk = ceiling(len / nt)                 *)
(*   JoinOrder = "spawn"         join in spawn order (the code)                        *)
(*               "completion"    (deviation) add partial sums in completion order      *)
(* The deviations are not the implementation's behaviour; they exist so that TLC       *)
(* exhibits the counterexample each invariant is there to exclude.                     *)
EXTENDS Integers, Sequences, FiniteSets
CONSTANTS MaxLen, MaxThreads, Rule, JoinOrder
VARIABLES len, nt, spawned, wpc, pos, acc, joined, result, mpc
vars == <<len, nt, spawned, wpc, pos, acc, joined, result, mpc>>

(* ---------------- the chunking rule: static functions of (length l, worker count n) ---------------- *)
CS(l, n) == IF Rule = "ceil" THEN (l + n - 1) \div n ELSE l \div n
Start(i, l, n) == i * CS(l, n)
End(i, l, n) == IF i = n - 1 /\ Rule # "no_remainder" THEN l ELSE (i + 1) * CS(l, n)

\* partition lemma: the slices are well-formed and every index 0..l-1 lies in exactly one of them
Covers(l, n) == /\ \A i \in 0..(n - 1) : 0 <= Start(i, l, n) /\ Start(i, l, n) <= End(i, l, n) /\ End(i, l, n) <= l
                /\ \A j \in 0..(l - 1) : Cardinality({i \in 0..(n - 1) : Start(i, l, n) <= j /\ j < End(i, l, n)}) = 1
\* ... and they are consecutive: worker i+1 starts where worker i ends (in-order partition)
InOrder(l, n) == /\ Start(0, l, n) = 0 /\ End(n - 1, l, n) = l
                 /\ \A i \in 0..(n - 2) : End(i, l, n) = Start(i + 1, l, n)

\* the schedule-independent term: partial sums in worker order, each the ascending index run of its slice
Run(a, b) == [k \in 1..(b - a) |-> a + k - 1]
ExpectedTerm(l, n) == [i \in 1..n |-> Run(Start(i - 1, l, n), End(i - 1, l, n))]
RECURSIVE Flatten(_)
Flatten(t) == IF t = <<>> THEN <<>> ELSE Head(t) \o Flatten(Tail(t))
\* value of a term on integer data (integer addition is associative: this is where exactness is used)
RECURSIVE EvalRun(_, _, _)
EvalRun(s, x, y) == IF s = <<>> THEN 0 ELSE x[Head(s) + 1] * y[Head(s) + 1] + EvalRun(Tail(s), x, y)
RECURSIVE EvalTerm(_, _, _)
EvalTerm(t, x, y) == IF t = <<>> THEN 0 ELSE EvalRun(Head(t), x, y) + EvalTerm(Tail(t), x, y)

(* ---------------- the machine ---------------- *)
Workers == 0..(nt - 1)
Init == /\ len \in 0..MaxLen /\ nt \in 1..MaxThreads
        /\ spawned = 0 /\ wpc = [i \in 0..(MaxThreads - 1) |-> "idle"]
        /\ acc = [i \in 0..(MaxThreads - 1) |-> <<>>] /\ pos = [i \in 0..(MaxThreads - 1) |-> 0]
        /\ joined = <<>> /\ result = <<>> /\ mpc = "spawn"

\* main: take the slice [Start, End) for worker `spawned` and start it
Spawn == /\ mpc = "spawn" /\ spawned < nt
         /\ wpc' = [wpc EXCEPT ![spawned] = "run"]
         /\ pos' = [pos EXCEPT ![spawned] = Start(spawned, len, nt)]
         /\ spawned' = spawned + 1
         /\ UNCHANGED <<len, nt, acc, joined, result, mpc>>
SpawnDone == /\ mpc = "spawn" /\ spawned = nt /\ mpc' = "join"
             /\ UNCHANGED <<len, nt, spawned, wpc, acc, pos, joined, result>>
\* worker i: add one product, or finish
Work(i) == /\ wpc[i] = "run"
           /\ IF pos[i] < End(i, len, nt)
                THEN /\ acc' = [acc EXCEPT ![i] = Append(acc[i], pos[i])]
                     /\ pos' = [pos EXCEPT ![i] = pos[i] + 1] /\ UNCHANGED wpc
                ELSE /\ wpc' = [wpc EXCEPT ![i] = "done"] /\ UNCHANGED <<acc, pos>>
           /\ UNCHANGED <<len, nt, spawned, joined, result, mpc>>
\* main: result := result (+) partial sum of worker i
IsJoined(i) == \E k \in 1..Len(joined) : joined[k] = i
Join(i) == /\ mpc = "join" /\ ~IsJoined(i) /\ wpc[i] = "done"
           /\ (JoinOrder = "spawn" => i = Len(joined))
           /\ result' = Append(result, acc[i])
           /\ joined' = Append(joined, i)
           /\ UNCHANGED <<len, nt, spawned, wpc, acc, pos, mpc>>
Finish == /\ mpc = "join" /\ Len(joined) = nt /\ mpc' = "done"
          /\ UNCHANGED <<len, nt, spawned, wpc, acc, pos, joined, result>>
Next == Spawn \/ SpawnDone \/ (\E i \in Workers : Work(i)) \/ (\E i \in Workers : Join(i)) \/ Finish
        \/ (mpc = "done" /\ UNCHANGED vars)
Spec == Init /\ [][Next]_vars /\ WF_vars(Next)

(* ---------------- properties ---------------- *)
TypeOK == /\ len \in 0..MaxLen /\ nt \in 1..MaxThreads /\ spawned \in 0..nt /\ mpc \in {"spawn", "join", "done"}
          /\ \A i \in 0..(MaxThreads - 1) : wpc[i] \in {"idle", "run", "done"}
          /\ Len(joined) <= nt /\ Len(result) = Len(joined)
\* the final term does not depend on the schedule: repeated runs are bit-identical
Deterministic == mpc = "done" => result = ExpectedTerm(len, nt)
\* flattening the final term gives 0 .. len-1, each exactly once, in order: the result is the sequential
\* sum up to reassociation, and bit-identical to it whenever the partial sums are exact
EachIndexOnce == mpc = "done" => Flatten(result) = [k \in 1..len |-> k - 1]
\* no slice leaves the vector (the Rust slice expression would panic)
InBounds == /\ \A i \in 0..(spawned - 1) : 0 <= Start(i, len, nt) /\ Start(i, len, nt) <= End(i, len, nt) /\ End(i, len, nt) <= len
            /\ \A i \in Workers : pos[i] <= len
\* no two workers ever add the same index, and nobody adds an index twice
Disjoint == \A i \in Workers, j \in Workers : \A a \in 1..Len(acc[i]), b \in 1..Len(acc[j]) : (i # j \/ a # b) => acc[i][a] # acc[j][b]
Terminates == <>(mpc = "done")
=============================================================================
