SPECIFICATION Spec
CONSTANTS Mode = "proto"  MaxBudget = 2  BiCGInitialCheck = FALSE  DiagLo = 2  DiagHi = 2  MaxOff = 0  MaxB = 0  Emit = FALSE
INVARIANTS ExactStartInv
CHECK_DEADLOCK FALSE
