SPECIFICATION Spec
CONSTANTS
  Coords <- MCCoords
  Vals <- MCVals
  Coefs <- MCCoefs
  MaxN = 4
  NVs = {2}
  LinNV = {2}
  Shapes1 <- Nodes24
  Shapes2 <- ShapesAll4
  LawShapes2 <- ShapesNonSq4
  Depth = 2
  IScale = 4
  MaxData2 = 4
  Modes = {"store1", "store2", "data1", "lin1", "lin2"}
  Emit = TRUE
  Positional = TRUE
INVARIANTS EmitCase
CHECK_DEADLOCK FALSE
