----------------------------- MODULE TraceBase -----------------------------
(* Shared skeleton of every trace specification.  The recorded events are read from   *)
(* the ndjson file named by the environment variable TRACE.  Trace specs are TOTAL:   *)
(* an event that the specification does not explain is printed and counted in TLC     *)
(* register 1, and the cursor still advances, so one deviation never hides the rest.  *)
EXTENDS Integers, Sequences, TLC, TLCExt, Json, IOUtils
Rec == ndJsonDeserialize(IOEnv.TRACE)
NRec == Len(Rec)
Has(e, f) == f \in DOMAIN e
\* report a mismatch: printed line is parsed by bin/check
Mismatch(l, e, why) == PrintT(<<"MISMATCH", l, e.id, why>>) /\ TLCSet(1, TLCGet(1) + 1)
Accepted == /\ (TLCGet("stats").diameter - 1 = NRec
                  \/ Print(<<"NOT-CONSUMED", TLCGet("stats").diameter - 1, NRec>>, FALSE))
            /\ (TLCGet(1) = 0 \/ Print(<<"MISMATCHES", TLCGet(1)>>, FALSE))
=============================================================================
