----------------------------- MODULE ComplexFun -----------------------------
(* Catalogue of the 38 public functions of ohsl::Complex<f64> (C14).  Not a machine:   *)
(* TLC cannot evaluate a transcendental function.  What the specification fixes is     *)
(*   - for every function its DEFINING RELATIONS, chosen definitionally (series,       *)
(*     quotient/reciprocal, right inverse, z^w = exp(w ln z), ...), never the formula  *)
(*     the implementation happens to use;                                              *)
(*   - the inverse / reciprocal pairings, the stated range predicates (principal       *)
(*     branches), singular points, branch cuts;                                        *)
(*   - a region lattice of the plane (all quadrants and half-axes, seven modulus       *)
(*     classes, both sides of every axis at distance 1e-9, neighbourhoods of +-1, +-i) *)
(*   - the OBLIGATION MATRIX relation x region and, behind it, exact expectations for  *)
(*     sqrt(w^2) and z^k on Gaussian integers (computed with ComplexField.tla).        *)
(* The numeric agreement itself is measured by the harness (err_units); the trace      *)
(* specification checks that every obligation is discharged, in the matrix order.      *)
EXTENDS ComplexField, FiniteSets

Funs == {"new", "conj", "abs_sqr", "abs", "arg", "zero", "one",
         "sqrt", "pow", "powf", "exp", "ln", "log", "polar",
         "sin", "cos", "tan", "sec", "csc", "cot", "asin", "acos", "atan", "asec", "acsc", "acot",
         "sinh", "cosh", "tanh", "sech", "csch", "coth", "asinh", "acosh", "atanh", "asech", "acsch", "acoth"}

(* ---------------- relations ---------------- *)
(* kind       meaning (z ranges over the region; f is the function under obligation)    *)
(* series     f(z) = its power series (double-double reference)                        *)
(* axis       f(x + 0i) = the real function f(x) + 0i   (dom restricts x)              *)
(* quot       f(z) = g(z) / h(z)            recip   f(z) = 1 / g(z)                    *)
(* rinv       g(f(z)) = z   (f inverse function, g its forward function)               *)
(* pyth_plus  g(z)^2 + h(z)^2 = 1          pyth_minus  g(z)^2 - h(z)^2 = 1             *)
(* sqrt_sq    sqrt(z)^2 = z                                                            *)
(* pow_def    pow(z, w) = exp(w ln z)      powf_def  powf(z, x) = exp(x ln z)          *)
(* powf_near / pow_near: the same two definitions for exponents k + d, d = +-(1 ulp, 1e-15, 1e-12, 1e-9, 4e-9,   *)
(*            1e-8, 1e-7, 1e-6) around every integer k in -3..3 and around +-0.5, +-1.5 (pow: also with an       *)
(*            imaginary part +-1e-9), on bases with |ln z| of order 1: z^w is smooth in w, no exponent may be   *)
(*            replaced by a neighbour                                                                          *)
(* log_def    log(z, b) = ln z / ln b                                                  *)
(* polar_def  polar(r, t) = r cos t + i r sin t   (real cos, sin)                      *)
(* polar_rt   polar(abs z, arg z) = z                                                  *)
(* abs_def    abs z = real sqrt(abs_sqr z)    abs_sqr_def  abs_sqr z = re^2 + im^2     *)
(* conj_def   conj z = new(re, -im)           new_def  new(a, b) has parts a, b        *)
(* zero_def   zero() = new(0, 0)              one_def  one() = new(1, 0)               *)
(* cond = the relation's amplification bound (calibrated on the unchanged tree, >= 100 *)
(* times the worst observation): the error unit is 64 * eps * scale * cond * amp(z).   *)
\* amp: point-dependent amplification known a priori for the relation (the error unit is multiplied by it):
\*   inv_sqrt_1mz2  max(1, 1/sqrt|1 - z^2|): asin, acos next to their branch points +-1
\*   abs_sq         max(1, |z|^2): sqrt(1 - z^2) + iz and sqrt(z^2 + 1) + z cancel in half of the plane for large |z|
\*   inv_abs        max(1, 1/|z|): the same cancellation for the functions defined through 1/z, for small |z|
AmpOf(id) == CASE id \in {"asin_axis", "acos_axis"} -> "inv_sqrt_1mz2"
               [] id \in {"asin_rinv", "acos_rinv", "asinh_rinv", "asinh_axis"} -> "abs_sq"
               [] id \in {"asec_rinv", "acsc_rinv", "acsch_rinv"} -> "inv_abs"
               [] OTHER -> "none"
Amps == {"none", "inv_sqrt_1mz2", "abs_sq", "inv_abs"}
Rel(id, kind, f, g, h, dom, cond) == [id |-> id, kind |-> kind, f |-> f, g |-> g, h |-> h, dom |-> dom, cond |-> cond, amp |-> AmpOf(id)]
Rels == <<
  Rel("exp_series", "series", "exp", "-", "-", "all", 4),
  Rel("sin_series", "series", "sin", "-", "-", "all", 4),
  Rel("cos_series", "series", "cos", "-", "-", "all", 4),
  Rel("sinh_series", "series", "sinh", "-", "-", "all", 4),
  Rel("cosh_series", "series", "cosh", "-", "-", "all", 4),
  Rel("exp_axis", "axis", "exp", "-", "-", "real", 2),
  Rel("ln_axis", "axis", "ln", "-", "-", "realpos", 2),
  Rel("sqrt_axis", "axis", "sqrt", "-", "-", "realpos", 2),
  Rel("sin_axis", "axis", "sin", "-", "-", "real", 2),
  Rel("cos_axis", "axis", "cos", "-", "-", "real", 2),
  Rel("tan_axis", "axis", "tan", "-", "-", "real", 4),
  Rel("sinh_axis", "axis", "sinh", "-", "-", "real", 2),
  Rel("cosh_axis", "axis", "cosh", "-", "-", "real", 2),
  Rel("tanh_axis", "axis", "tanh", "-", "-", "real", 8),
  Rel("asin_axis", "axis", "asin", "-", "-", "real_lt1", 2),
  Rel("acos_axis", "axis", "acos", "-", "-", "real_lt1", 2),
  Rel("atan_axis", "axis", "atan", "-", "-", "real", 2),
  Rel("asinh_axis", "axis", "asinh", "-", "-", "real", 8),
  Rel("acosh_axis", "axis", "acosh", "-", "-", "real_gt1", 2),
  Rel("atanh_axis", "axis", "atanh", "-", "-", "real_lt1", 4),
  Rel("tan_def", "quot", "tan", "sin", "cos", "all", 8),
  Rel("sec_def", "recip", "sec", "cos", "-", "all", 4),
  Rel("csc_def", "recip", "csc", "sin", "-", "all", 4),
  Rel("cot_def", "recip", "cot", "tan", "-", "all", 4),
  Rel("cot_quot", "quot", "cot", "cos", "sin", "all", 8),
  Rel("tanh_def", "quot", "tanh", "sinh", "cosh", "all", 4),
  Rel("sech_def", "recip", "sech", "cosh", "-", "all", 4),
  Rel("csch_def", "recip", "csch", "sinh", "-", "all", 4),
  Rel("coth_def", "recip", "coth", "tanh", "-", "all", 4),
  Rel("coth_quot", "quot", "coth", "cosh", "sinh", "all", 8),
  Rel("ln_rinv", "rinv", "ln", "exp", "-", "all", 8),
  Rel("asin_rinv", "rinv", "asin", "sin", "-", "all", 16),
  Rel("acos_rinv", "rinv", "acos", "cos", "-", "all", 16),
  Rel("atan_rinv", "rinv", "atan", "tan", "-", "all", 32),
  Rel("asec_rinv", "rinv", "asec", "sec", "-", "all", 64),
  Rel("acsc_rinv", "rinv", "acsc", "csc", "-", "all", 64),
  Rel("acot_rinv", "rinv", "acot", "cot", "-", "all", 32),
  Rel("asinh_rinv", "rinv", "asinh", "sinh", "-", "all", 16),
  Rel("acosh_rinv", "rinv", "acosh", "cosh", "-", "all", 8),
  Rel("atanh_rinv", "rinv", "atanh", "tanh", "-", "all", 64),
  Rel("asech_rinv", "rinv", "asech", "sech", "-", "all", 128),
  Rel("acsch_rinv", "rinv", "acsch", "csch", "-", "all", 64),
  Rel("acoth_rinv", "rinv", "acoth", "coth", "-", "all", 32),
  Rel("sqrt_sq", "sqrt_sq", "sqrt", "-", "-", "all", 8),
  Rel("pow_def", "pow_def", "pow", "exp", "ln", "all", 64),
  Rel("powf_def", "powf_def", "powf", "exp", "ln", "all", 16),
  Rel("powf_near", "powf_near", "powf", "exp", "ln", "pownear", 16),
  Rel("pow_near", "pow_near", "pow", "exp", "ln", "pownear", 32),
  Rel("log_def", "log_def", "log", "ln", "-", "all", 8),
  Rel("polar_def", "polar_def", "polar", "-", "-", "all", 2),
  Rel("polar_rt", "polar_rt", "arg", "polar", "abs", "all", 4),
  Rel("sincos_pyth", "pyth_plus", "sin", "sin", "cos", "all", 16),
  Rel("coshsinh_pyth", "pyth_minus", "cosh", "cosh", "sinh", "all", 16),
  Rel("abs_def", "abs_def", "abs", "abs_sqr", "-", "all", 2),
  Rel("abs_sqr_def", "abs_sqr_def", "abs_sqr", "-", "-", "all", 2),
  Rel("conj_def", "conj_def", "conj", "-", "-", "all", 1),
  Rel("new_def", "new_def", "new", "-", "-", "all", 1),
  Rel("zero_def", "zero_def", "zero", "new", "-", "all", 1),
  Rel("one_def", "one_def", "one", "new", "-", "all", 1) >>
NRel == Len(Rels)
RelSet == {Rels[i] : i \in 1..NRel}
Kinds == {"series", "axis", "quot", "recip", "rinv", "pyth_plus", "pyth_minus", "sqrt_sq", "pow_def", "powf_def", "powf_near", "pow_near",
          "log_def", "polar_def", "polar_rt", "abs_def", "abs_sqr_def", "conj_def", "new_def", "zero_def", "one_def"}
Doms == {"all", "real", "realpos", "real_lt1", "real_gt1", "pownear"}
\* the functions of the crate a relation relies on besides f (its definition is in terms of them)
Uses(r) == {r.g, r.h} \ {"-", r.f}
\* a relation DEFINES f when it pins f down given its Uses (the axis reductions and Pythagorean identities do not)
Defining(r) == r.kind \notin {"axis", "pyth_plus", "pyth_minus", "powf_near", "pow_near"}

\* functions that decompose their argument into modulus and phase (directly, or through sqrt / ln of it or of its
\* reciprocal): the harness evaluates all functions of the catalogue back to back on the same z and must make every
\* ordered pair of these adjacent (and each of them twice in a row) at least once per pass over the obligations
Decomp == {"sqrt", "ln", "log", "pow", "powf", "arg", "abs", "polar", "asin", "acos", "atan", "asinh", "acosh", "atanh",
           "asec", "acsc", "acot", "asech", "acsch", "acoth"}

(* ---------------- pairings ---------------- *)
Inverse == {"ln", "asin", "acos", "atan", "asec", "acsc", "acot", "asinh", "acosh", "atanh", "asech", "acsch", "acoth"}
ForwardOf(f) == LET r == CHOOSE r \in RelSet : r.kind = "rinv" /\ r.f = f IN r.g
RecipPairs == {<<"sec", "cos">>, <<"csc", "sin">>, <<"cot", "tan">>, <<"sech", "cosh">>, <<"csch", "sinh">>, <<"coth", "tanh">>}

(* ---------------- range predicates stated by the property (units of pi/2) ---------------- *)
(* part: "re" / "im" of the function value, or "val" for the real-valued arg; hi = 99: unbounded *)
Range(f, part, lo, loClosed, hi, hiClosed) == [f |-> f, part |-> part, lo |-> lo, loClosed |-> loClosed, hi |-> hi, hiClosed |-> hiClosed]
NoRange == Range("-", "-", 0, TRUE, 0, TRUE)
Ranges == {Range("sqrt", "re", 0, TRUE, 99, TRUE),       \* Re sqrt z >= 0
           Range("ln", "im", -2, FALSE, 2, TRUE),        \* Im ln z in (-pi, pi]
           Range("asin", "re", -1, TRUE, 1, TRUE),       \* Re asin z in [-pi/2, pi/2]
           Range("acos", "re", 0, TRUE, 2, TRUE),        \* Re acos z in [0, pi]
           Range("arg", "val", -2, FALSE, 2, TRUE)}      \* arg z in (-pi, pi]
HasRange(f) == \E g \in Ranges : g.f = f
RangeOf(f) == IF HasRange(f) THEN CHOOSE g \in Ranges : g.f = f ELSE NoRange

(* ---------------- singular points and branch cuts (Appendix C of DESIGN.md) ---------------- *)
Points == {"1", "-1", "i", "-i"}
\* points of the lattice where the function is infinite: never evaluated
Sing(f) == CASE f \in {"atan", "acot"} -> {"i", "-i"}
             [] f \in {"atanh", "acoth"} -> {"1", "-1"}
             [] OTHER -> {}
\* segments of the axes: axis "re" / "im", s in {"lo" (coordinate < -1), "ml" (-1..0), "mh" (0..1), "hi" (> 1)}
Cut(fs, axis, segs) == [fs |-> fs, axis |-> axis, segs |-> segs]
Cuts == {Cut({"sqrt", "ln", "log", "pow", "powf", "arg"}, "re", {"lo", "ml"}),
         Cut({"asin", "acos", "atanh"}, "re", {"lo", "hi"}),
         Cut({"atan", "asinh"}, "im", {"lo", "hi"}),
         Cut({"acosh"}, "re", {"lo", "ml", "mh"}),
         Cut({"asec", "acsc", "acoth"}, "re", {"ml", "mh"}),
         Cut({"acot", "acsch"}, "im", {"ml", "mh"}),
         Cut({"asech"}, "re", {"lo", "ml", "hi"})}

(* ---------------- region lattice ---------------- *)
(* dir 0..7: 0 = positive real axis, 1 = first quadrant, 2 = positive imaginary axis, ... 7 = fourth quadrant *)
(* m 0..6 : modulus class  1e-3 | < 1 | just below 1 | = 1 | just above 1 | > 1 | 10                     *)
(* sector: the axis ray (exactly, other part +0.0) or the open quadrant;                                   *)
(* side  : the axis ray dir displaced by side * 1e-9 perpendicular to it (counter-clockwise positive);     *)
(* near  : c + rho * e^(i dir pi/4), rho in [1e-6, 1e-2], c in Points.                                     *)
Reg(kind, dir, m, side, c) == [kind |-> kind, dir |-> dir, m |-> m, side |-> side, c |-> c]
Dirs == 0..7
AxisDirs == {0, 2, 4, 6}
Mods == 0..6
SectorSeq == [k \in 1..56 |-> Reg("sector", (k - 1) \div 7, (k - 1) % 7, 0, "none")]
SideSeq == [k \in 1..56 |-> Reg("side", 2 * ((k - 1) \div 14), (k - 1) % 7, IF ((k - 1) \div 7) % 2 = 0 THEN 1 ELSE -1, "none")]
PointSeq == <<"1", "-1", "i", "-i">>
NearSeq == [k \in 1..32 |-> Reg("near", (k - 1) % 8, 3, 0, PointSeq[((k - 1) \div 8) + 1])]
(* pole  : neighbourhoods of the poles / zeros of the quotient functions: centre side * pi/2 on the real axis    *)
(*         (c = "pole_re": tan, sec odd side; cot, csc even side) or on the imaginary axis (c = "pole_im": the    *)
(*         hyperbolic analogues), |centre| <= 10, i.e. side in +-1..+-6; distance 10^-(3+m), m in 0..3, in        *)
(*         direction dir * pi/4 (along the axis on both sides, perpendicular to it, and diagonally off-axis).     *)
(* exact : special exact arguments.  c = "negzero": the axis ray dir at modulus class m with the OTHER part       *)
(*         -0.0 (the +0.0 twins are the sector regions; m = 3 gives +-1, +-i); c = "zero": the point 0 + 0i.      *)
PoleSides == <<-6, -5, -4, -3, -2, -1, 1, 2, 3, 4, 5, 6>>
PoleDists == 0..3
PoleSeq == [k \in 1..768 |-> Reg("pole", (k - 1) % 8, ((k - 1) \div 8) % 4, PoleSides[(((k - 1) \div 32) % 12) + 1],
                                 IF (k - 1) \div 384 = 0 THEN "pole_re" ELSE "pole_im")]
NegZeroSeq == [k \in 1..28 |-> Reg("exact", 2 * ((k - 1) \div 7), (k - 1) % 7, -1, "negzero")]
ExactSeq == NegZeroSeq \o <<Reg("exact", 0, 0, 0, "zero")>>
Regs == SectorSeq \o SideSeq \o NearSeq \o PoleSeq \o ExactSeq
NReg == Len(Regs)
RegSet == {Regs[i] : i \in 1..NReg}
IsPoleReg(g) == g.kind = "pole"
IsZeroReg(g) == g.kind = "exact" /\ g.c = "zero"
IsNegZero(g) == g.kind = "exact" /\ g.c = "negzero"
AxisRay(g) == g.kind = "sector" \/ IsNegZero(g)          \* a ray region (axis or quadrant); on an axis when dir is even

\* the lattice point that is exactly one of +-1, +-i
ExactPoint(g) == IF AxisRay(g) /\ g.m = 3 /\ g.dir \in AxisDirs
                 THEN (CASE g.dir = 0 -> "1" [] g.dir = 2 -> "i" [] g.dir = 4 -> "-1" [] g.dir = 6 -> "-i") ELSE "none"
\* regions lying exactly on the real axis, and the sign / size of x there
OnReal(g) == \/ (AxisRay(g) /\ g.dir \in {0, 4}) \/ (g.kind = "near" /\ g.c \in {"1", "-1"} /\ g.dir \in {0, 4})
             \/ IsZeroReg(g) \/ (IsPoleReg(g) /\ g.c = "pole_re" /\ g.dir \in {0, 4})
XPos(g) == (AxisRay(g) /\ g.dir = 0) \/ (g.kind = "near" /\ g.c = "1")
XAbsLt1(g) == \/ (AxisRay(g) /\ g.m \in {0, 1, 2}) \/ IsZeroReg(g)
              \/ (g.kind = "near" /\ ((g.c = "1" /\ g.dir = 4) \/ (g.c = "-1" /\ g.dir = 0)))
XGt1(g) == (AxisRay(g) /\ g.dir = 0 /\ g.m \in {4, 5, 6}) \/ (g.kind = "near" /\ g.c = "1" /\ g.dir = 0)
InDom(dom, g) == CASE dom = "all" -> TRUE
                   [] dom = "real" -> OnReal(g)
                   [] dom = "realpos" -> OnReal(g) /\ XPos(g)
                   [] dom = "real_lt1" -> OnReal(g) /\ XAbsLt1(g)
                   [] dom = "real_gt1" -> OnReal(g) /\ XGt1(g)
                   [] dom = "pownear" -> g.kind = "sector" /\ g.m \in {1, 5}      \* moduli 0.05..0.95 and 1.2..9: |ln z| of order 1
\* next to the poles only the quotient / reciprocal definitions of the family that has its poles and zeros on that
\* axis are obligations (every one of them: a pole of tan is a zero of cot), and on the real axis the reductions
\* of tan, sin, cos to the real functions
Trig == {"tan", "sec", "csc", "cot"}
Hyp == {"tanh", "sech", "csch", "coth"}
AtPole(r, g) == \/ (r.kind \in {"quot", "recip"} /\ ((g.c = "pole_re" /\ r.f \in Trig) \/ (g.c = "pole_im" /\ r.f \in Hyp)))
                \/ (r.kind = "axis" /\ r.f \in {"tan", "sin", "cos"} /\ OnReal(g))
\* at the point 0 (outside 1e-3 <= |z|, but inside the non-overflowing domain) the relations all of whose members are finite there
ZeroRels == {"exp_series", "sin_series", "cos_series", "sinh_series", "cosh_series", "exp_axis", "sin_axis", "cos_axis", "tan_axis",
             "sinh_axis", "cosh_axis", "tanh_axis", "asin_axis", "acos_axis", "atan_axis", "asinh_axis", "atanh_axis",
             "tan_def", "sec_def", "tanh_def", "sech_def", "asin_rinv", "acos_rinv", "atan_rinv", "asinh_rinv", "atanh_rinv",
             "sqrt_sq", "polar_def", "polar_rt", "sincos_pyth", "coshsinh_pyth", "abs_def", "abs_sqr_def", "conj_def", "new_def",
             "zero_def", "one_def"}
\* the obligation matrix
Applies(r, g) == IF IsPoleReg(g) THEN AtPole(r, g)
                 ELSE IF IsZeroReg(g) THEN r.id \in ZeroRels
                 ELSE InDom(r.dom, g) /\ ExactPoint(g) \notin Sing(r.f)
\* on an argument with a -0.0 part the value may be either limit of a cut: open ends of a range are closed there
\* (the -0.0 regions and the point 0, which are evaluated together with their signed-zero twins)
RangeAt(f, g) == LET q == RangeOf(f) IN IF IsNegZero(g) \/ IsZeroReg(g) THEN [q EXCEPT !.loClosed = TRUE, !.hiClosed = TRUE] ELSE q
\* evaluations demanded per obligation (single exact points have one)
MinPointsAt(g) == IF IsZeroReg(g) THEN 1 ELSE 2

\* segment of an axis a region of kind sector (axis direction) / side lies on
SegOf(g) == LET neg == g.dir \in {4, 6}
            IN IF g.m <= 2 THEN (IF neg THEN "ml" ELSE "mh") ELSE IF g.m >= 4 THEN (IF neg THEN "lo" ELSE "hi") ELSE "bp"
AxisOf(g) == IF g.dir \in {0, 4} THEN "re" ELSE "im"
OnSeg(g, axis, seg, side) == /\ g.dir \in AxisDirs /\ AxisOf(g) = axis /\ SegOf(g) = seg
                             /\ IF side = 0 THEN g.kind = "sector" ELSE (g.kind = "side" /\ g.side = side)

(* ---------------- obligations, in canonical order ---------------- *)
(* kind "rel":  relation ri on region gi;  "sqrt_exact": sqrt(w^2) for a Gaussian integer w;                *)
(* "powk": z^k for a Gaussian integer z and an integer k (pow and powf).                                   *)
AllPairs == [k \in 1..(NRel * NReg) |-> <<((k - 1) \div NReg) + 1, ((k - 1) % NReg) + 1>>]
Matrix == SelectSeq(AllPairs, LAMBDA p : Applies(Rels[p[1]], Regs[p[2]]))
NMatrix == Len(Matrix)

GI(a, b) == Cx(R(a), R(b))
\* principal square root of w^2: w or -w, whichever has Re > 0, or Re = 0 and Im >= 0
PrincipalOfSquare(w) == IF w.re[1] > 0 \/ (w.re[1] = 0 /\ w.im[1] >= 0) THEN w ELSE CNeg(w)
SqrtW == 3
SqrtCases == LET n == 2 * SqrtW + 1
                 all == [k \in 1..(n * n) |-> GI(((k - 1) \div n) - SqrtW, ((k - 1) % n) - SqrtW)]
             IN SelectSeq(all, LAMBDA w : ~IsZero(w))
RECURSIVE CPow(_, _)
CPow(z, k) == IF k = 0 THEN COne ELSE IF k > 0 THEN CMul(z, CPow(z, k - 1)) ELSE CInv(CPow(z, -k))
PowZ == 2
PowK == 3
PowCases == LET n == 2 * PowZ + 1
                nk == 2 * PowK + 1
                all == [j \in 1..(n * n * nk) |-> [z |-> GI((((j - 1) \div nk) \div n) - PowZ, (((j - 1) \div nk) % n) - PowZ), k |-> ((j - 1) % nk) - PowK]]
            IN SelectSeq(all, LAMBDA c : ~IsZero(c.z))

\* amplification bounds of the exact cases (calibrated like Rel.cond)
SqrtCond == 2
PowCond == 16
\* soak obligations (call-count dependence): SoakN consecutive guarded calls of each of the 38 functions on fixed inexact
\* arguments, every result bit-identical to the first call's on the same argument, no panic
FunSeq == <<"new", "conj", "abs_sqr", "abs", "arg", "zero", "one", "sqrt", "pow", "powf", "exp", "ln", "log", "polar",
            "sin", "cos", "tan", "sec", "csc", "cot", "asin", "acos", "atan", "asec", "acsc", "acot",
            "sinh", "cosh", "tanh", "sech", "csch", "coth", "asinh", "acosh", "atanh", "asech", "acsch", "acoth">>
SoakN == 65536 + 64
NExact == NMatrix + Len(SqrtCases) + Len(PowCases)
NOblig == NExact + Len(FunSeq)
\* the pos-th obligation as a record (uniform fields; unused ones hold defaults)
Oblig(pos) ==
  IF pos <= NMatrix
    THEN LET p == Matrix[pos]
             r == Rels[p[1]]
         IN [kind |-> "rel", pos |-> pos, ri |-> p[1], gi |-> p[2], rel |-> r, reg |-> Regs[p[2]], range |-> RangeAt(r.f, Regs[p[2]]), cond |-> r.cond, minpts |-> MinPointsAt(Regs[p[2]]),
             z |-> CZero, k |-> 0, expect |-> CZero, fn |-> "-"]
  ELSE IF pos <= NMatrix + Len(SqrtCases)
    THEN LET w == SqrtCases[pos - NMatrix]
         IN [kind |-> "sqrt_exact", pos |-> pos, ri |-> 0, gi |-> 0, rel |-> Rels[1], reg |-> Regs[1], range |-> RangeOf("sqrt"), cond |-> SqrtCond, minpts |-> 1,
             z |-> CMul(w, w), k |-> 0, expect |-> PrincipalOfSquare(w), fn |-> "-"]
  ELSE IF pos <= NExact THEN
       LET c == PowCases[pos - NMatrix - Len(SqrtCases)]
       IN [kind |-> "powk", pos |-> pos, ri |-> 0, gi |-> 0, rel |-> Rels[1], reg |-> Regs[1], range |-> NoRange, cond |-> PowCond, minpts |-> 1,
           z |-> c.z, k |-> c.k, expect |-> CPow(c.z, c.k), fn |-> "-"]
  ELSE [kind |-> "soak", pos |-> pos, ri |-> 0, gi |-> 0, rel |-> Rels[1], reg |-> Regs[1], range |-> NoRange, cond |-> 1, minpts |-> SoakN,
        z |-> CZero, k |-> 0, expect |-> CZero, fn |-> FunSeq[pos - NExact]]

=============================================================================
