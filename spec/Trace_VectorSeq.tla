-------------------------- MODULE Trace_VectorSeq --------------------------
(* Trace validation for ohsl::Vector (C15).  The model state (cur, curi) is the vector *)
(* value (real parts, imaginary parts) that the SPECIFICATION computes by putting the  *)
(* recorded operations through the operators of VectorSeq.tla; the post-state and the  *)
(* return value logged after every call must equal it.  An event with a `pre` field    *)
(* starts a new history (or is a stand-alone call); one without continues from cur.    *)
(* Element types: "i64", "rat", "f64" (imaginary parts absent) and "cx" (Complex<f64>).*)
(* Outside an operation's domain (index out of range, size mismatch, reduction of the  *)
(* empty vector) the property defines no result: only "the vector is not modified" is  *)
(* demanded there, and nothing at all for the documented-undefined reductions.         *)
EXTENDS TraceBase, VectorSeq
VARIABLES l, cur, curi
vars == <<l, cur, curi>>

Cx(e) == e.ty = "cx"
PreRe(e) == IF Has(e, "pre") THEN e.pre ELSE cur
PreIm(e) == IF Has(e, "prei") THEN e.prei ELSE curi
\* imaginary twins of the arguments
Xi(e) == IF Has(e, "xi") THEN e.xi ELSE 0
Vi(e) == IF Has(e, "vi") THEN e.vi ELSE Zeros(Len(e.v))
ImOp(e) == [op |-> e.op, x |-> Xi(e), v |-> IF Has(e, "v") THEN Vi(e) ELSE <<>>,
            i |-> IF Has(e, "i") THEN e.i ELSE 0, j |-> IF Has(e, "j") THEN e.j ELSE 0, n |-> IF Has(e, "n") THEN e.n ELSE 0]

\* ---- outcome predicates (X, Y = real and imaginary parts of the operand before the call) ----
Unchanged(e, X, Y) == SameSeq(e.post, X) /\ (Cx(e) => SameSeq(e.posti, Y))
GoodMut(e, PX, PY) == ~e.panic /\ SameSeq(e.post, PX) /\ (Cx(e) => SameSeq(e.posti, PY))
\* `adopt`: the caller keeps the returned vector as the new value of its variable (x = x - y; x = Vector::zeros(n); ...):
\* the operand itself is consumed or dropped, the logged post-state is the returned vector
Adopt(e) == Has(e, "adopt") /\ e.adopt
Kept(e, X, Y) == IF Adopt(e) THEN SameSeq(e.post, e.rv) /\ (Cx(e) => SameSeq(e.posti, e.rvi)) ELSE Unchanged(e, X, Y)
GoodV(e, X, Y, rx, ry) == ~e.panic /\ Kept(e, X, Y) /\ SameSeq(e.rv, rx) /\ (Cx(e) => SameSeq(e.rvi, ry))
GoodS(e, X, Y, sx, sy) == ~e.panic /\ Unchanged(e, X, Y) /\ e.ri = sx /\ (Cx(e) => e.rii = sy)
\* a zero returned by a reduction that accumulates from T::zero() is +0.0 (floating-point element types; logged as `negz`)
PlusZero(e) == Has(e, "negz") => ~e.negz
\* Vec64: the threaded dot_f64 on the same operands (default affinity) returns the same exact value, with the same sign of zero
Threaded(e, val) == Has(e, "rf") => (~e.pf /\ e.rf = val /\ ~e.rfnegz)
GoodI(e, X, Y, n) == ~e.panic /\ Unchanged(e, X, Y) /\ e.ri = n
OutOfDomain(e, X, Y) == Unchanged(e, X, Y)             \* no result is defined; the operand must not be written
Undefined(e, X, Y) == TRUE                             \* documented-undefined reduction of the empty vector: nothing demanded

\* first index k (0-based) with (X[k], Y[k]) = (a, b), else the last index
CHits(X, Y, a, b) == {k \in 1..Len(X) : X[k] = a /\ Y[k] = b}
CFind(X, Y, a, b) == IF CHits(X, Y, a, b) = {} THEN Len(X) - 1 ELSE (CHOOSE k \in CHits(X, Y, a, b) : \A m \in CHits(X, Y, a, b) : k <= m) - 1

\* TLC's integers are 32-bit.  The generators keep every entry below 100 000 and every length below 65, so that no
\* operator can overflow on a state the model itself produced; a state is only taken over from the trace (start of a
\* history, re-synchronisation after a mismatch) if it is Sane, and products are evaluated only if ProdSafe.
Sane(x) == Len(x) <= 128 /\ Small(x, 250000)
Evaluable(e, X, Y) == Sane(X) /\ (Cx(e) => Sane(Y) /\ Len(Y) = Len(X))
PSafe(e, X, Y, a, b) == ProdSafe(X, IF Cx(e) THEN Y ELSE Zeros(Len(X)), a, b)

\* coefficient of scale s in the sum of the entries a..b (of the products with ys when withY)
RECURSIVE Coef(_, _, _, _, _, _)
Coef(xs, ys, withY, a, b, s) == IF a > b THEN 0
                                ELSE (IF xs[a + 1][2] = s THEN xs[a + 1][1] * (IF withY THEN ys[a + 1] ELSE 1) ELSE 0) + Coef(xs, ys, withY, a + 1, b, s)

\* results of the model for the mutators that act on the two parts independently
LinPostRe(e, X) == ApplyOp(X, e)
LinPostIm(e, Y) == ApplyOp(Y, ImOp(e))

Explained(e, X, Y) ==
  CASE e.op \in {"push", "push_front", "assign", "clear", "add_scalar_assign", "sub_scalar_assign"} -> GoodMut(e, LinPostRe(e, X), LinPostIm(e, Y))
    [] e.op = "insert" -> IF Dom_Insert(X, e.i) THEN GoodMut(e, LinPostRe(e, X), LinPostIm(e, Y)) ELSE OutOfDomain(e, X, Y)
    [] e.op = "set" -> IF Dom_Set(X, e.i) THEN GoodMut(e, LinPostRe(e, X), LinPostIm(e, Y)) ELSE OutOfDomain(e, X, Y)
    [] e.op = "swap" -> IF Dom_Swap(X, e.i, e.j) THEN GoodMut(e, LinPostRe(e, X), LinPostIm(e, Y)) ELSE OutOfDomain(e, X, Y)
    [] e.op = "pop" -> IF Dom_Pop(X) THEN GoodMut(e, Pop(X), Pop(Y)) /\ e.ri = PopValue(X) /\ (Cx(e) => e.rii = PopValue(Y))
                       ELSE OutOfDomain(e, X, Y)
    [] e.op \in {"resize", "sort", "sort_desc"} -> GoodMut(e, LinPostRe(e, X), Y)                   \* real element types only
    [] e.op \in {"add_assign", "sub_assign"} -> IF SameSize(X, e.v) THEN GoodMut(e, LinPostRe(e, X), LinPostIm(e, Y)) ELSE OutOfDomain(e, X, Y)
    [] e.op = "clone_from" -> GoodMut(e, e.v, IF Cx(e) THEN Vi(e) ELSE Y)
    [] e.op = "mul_assign" -> IF Cx(e) THEN GoodMut(e, CScaleRe(X, Y, e.x, Xi(e)), CScaleIm(X, Y, e.x, Xi(e))) ELSE GoodMut(e, Scale(X, e.x), Y)
    [] e.op = "div_assign" -> /\ ~e.panic /\ Len(e.post) = Len(X)
                              /\ IF Cx(e) THEN Len(e.posti) = Len(X) /\ CIsQuot(e.post, e.posti, X, Y, e.x, Xi(e)) ELSE IsQuot(e.post, X, e.x)
    \* ---- observers: the operand must be unchanged and the result must be the definition ----
    \* == and != (ri = 1 for true): equal length and equal elements; operands sharing a prefix but differing in length are unequal
    [] e.op = "eq" -> GoodI(e, X, Y, IF Equal(X, e.v) /\ (Cx(e) => Equal(Y, Vi(e))) THEN 1 ELSE 0)
    [] e.op = "ne" -> GoodI(e, X, Y, IF Equal(X, e.v) /\ (Cx(e) => Equal(Y, Vi(e))) THEN 0 ELSE 1)
    [] e.op = "size" -> GoodI(e, X, Y, Len(X))
    [] e.op = "get" -> IF InRange(X, e.i) THEN GoodS(e, X, Y, El(X, e.i), IF Cx(e) THEN El(Y, e.i) ELSE 0) ELSE OutOfDomain(e, X, Y)
    [] e.op = "clone" -> GoodV(e, X, Y, X, Y)
    [] e.op = "find" -> IF Dom_Find(X) THEN GoodI(e, X, Y, IF Cx(e) THEN CFind(X, Y, e.x, Xi(e)) ELSE Find(X, e.x)) ELSE Undefined(e, X, Y)
    [] e.op = "add" -> IF SameSize(X, e.v) THEN GoodV(e, X, Y, Add(X, e.v), IF Cx(e) THEN Add(Y, Vi(e)) ELSE Y) ELSE OutOfDomain(e, X, Y)
    [] e.op = "sub" -> IF SameSize(X, e.v) THEN GoodV(e, X, Y, Sub(X, e.v), IF Cx(e) THEN Sub(Y, Vi(e)) ELSE Y) ELSE OutOfDomain(e, X, Y)
    [] e.op = "neg" -> GoodV(e, X, Y, Neg(X), IF Cx(e) THEN Neg(Y) ELSE Y)
    [] e.op = "mul_scalar" -> IF Cx(e) THEN GoodV(e, X, Y, CScaleRe(X, Y, e.x, Xi(e)), CScaleIm(X, Y, e.x, Xi(e))) ELSE GoodV(e, X, Y, Scale(X, e.x), Y)
    [] e.op = "div_scalar" -> /\ ~e.panic /\ Kept(e, X, Y) /\ Len(e.rv) = Len(X)
                              /\ IF Cx(e) THEN Len(e.rvi) = Len(X) /\ CIsQuot(e.rv, e.rvi, X, Y, e.x, Xi(e)) ELSE IsQuot(e.rv, X, e.x)
    [] e.op = "dot" -> IF SameSize(X, e.v)
                         THEN (IF Cx(e) THEN GoodS(e, X, Y, CDotRe(X, Y, e.v, Vi(e)), CDotIm(X, Y, e.v, Vi(e))) ELSE GoodS(e, X, Y, Dot(X, e.v), 0) /\ Threaded(e, Dot(X, e.v))) /\ PlusZero(e)
                         ELSE OutOfDomain(e, X, Y)
    [] e.op = "sum" -> IF Dom_Total(X) THEN GoodS(e, X, Y, Sum(X), IF Cx(e) THEN Sum(Y) ELSE 0) /\ PlusZero(e) ELSE Undefined(e, X, Y)
    [] e.op = "product" -> IF Dom_Total(X)
                             THEN PSafe(e, X, Y, 0, Len(X) - 1) /\ (IF Cx(e) THEN LET p == CProductSlice(X, Y, 0, Len(X) - 1) IN GoodS(e, X, Y, p[1], p[2]) ELSE GoodS(e, X, Y, Product(X), 0))
                             ELSE Undefined(e, X, Y)
    [] e.op = "sum_slice" -> IF Dom_Slice(X, e.a, e.b) THEN GoodS(e, X, Y, SumSlice(X, e.a, e.b), IF Cx(e) THEN SumSlice(Y, e.a, e.b) ELSE 0) /\ PlusZero(e) ELSE OutOfDomain(e, X, Y)
    [] e.op = "product_slice" -> IF Dom_Slice(X, e.a, e.b)
                                   THEN PSafe(e, X, Y, e.a, e.b) /\ (IF Cx(e) THEN LET p == CProductSlice(X, Y, e.a, e.b) IN GoodS(e, X, Y, p[1], p[2]) ELSE GoodS(e, X, Y, ProductSlice(X, e.a, e.b), 0))
                                   ELSE OutOfDomain(e, X, Y)
    \* every range a..b, b = a .. size-1, in one event: rs[k] is the result of the call with bounds (a, a + k - 1)
    [] e.op = "sum_from" -> /\ ~e.panic /\ Unchanged(e, X, Y) /\ InRange(X, e.a) /\ Len(e.rs) = Len(X) - e.a /\ PlusZero(e)
                            /\ \A k \in 1..Len(e.rs) : e.rs[k] = SumSlice(X, e.a, e.a + k - 1)
                            /\ Cx(e) => (Len(e.rsi) = Len(e.rs) /\ \A k \in 1..Len(e.rs) : e.rsi[k] = SumSlice(Y, e.a, e.a + k - 1))
    [] e.op = "product_from" -> /\ ~e.panic /\ Unchanged(e, X, Y) /\ InRange(X, e.a) /\ Len(e.rs) = Len(X) - e.a /\ PSafe(e, X, Y, e.a, Len(X) - 1)
                                /\ IF Cx(e) THEN Len(e.rsi) = Len(e.rs) /\ \A k \in 1..Len(e.rs) : <<e.rs[k], e.rsi[k]>> = CProductSlice(X, Y, e.a, e.a + k - 1)
                                            ELSE \A k \in 1..Len(e.rs) : e.rs[k] = ProductSlice(X, e.a, e.a + k - 1)
    \* absolute value and the exact norms; complex moduli are certified by m >= 0 /\ m^2 = re^2 + im^2 (e.mods)
    [] e.op = "abs" -> IF Cx(e) THEN ~e.panic /\ Kept(e, X, Y) /\ IsModulusVec(e.rv, X, Y) /\ SameSeq(e.rvi, Zeros(Len(X)))
                                ELSE GoodV(e, X, Y, Abs(X), Y)
    [] e.op = "norm_1" -> PlusZero(e) /\ IF Cx(e) THEN IsModulusVec(e.mods, X, Y) /\ GoodS(e, X, Y, IF Len(X) = 0 THEN 0 ELSE Sum(e.mods), 0)
                                                  ELSE GoodS(e, X, Y, Norm1(X), 0)
    [] e.op = "norm_inf" -> IF Dom_NormInf(X)
                              THEN (IF Cx(e) THEN IsModulusVec(e.mods, X, Y) /\ GoodI(e, X, Y, MaxFrom(e.mods, 1)) ELSE GoodI(e, X, Y, NormInf(X)))
                              ELSE Undefined(e, X, Y)
    [] e.op = "conj" -> GoodV(e, X, Y, X, Conj(Y))
    [] e.op = "real" -> ~e.panic /\ Unchanged(e, X, Y) /\ SameSeq(e.rv, X)
    [] e.op = "new" -> ~e.panic /\ SameSeq(e.rv, New(e.n, e.x)) /\ (Cx(e) => SameSeq(e.rvi, New(e.n, Xi(e)))) /\ (Adopt(e) => Kept(e, X, Y))
    [] e.op = "zeros" -> ~e.panic /\ SameSeq(e.rv, New(e.n, 0)) /\ (Cx(e) => SameSeq(e.rvi, New(e.n, 0))) /\ (Adopt(e) => Kept(e, X, Y))
    [] e.op = "ones" -> ~e.panic /\ SameSeq(e.rv, New(e.n, 1)) /\ (Cx(e) => SameSeq(e.rvi, New(e.n, 0))) /\ (Adopt(e) => Kept(e, X, Y))
    \* ---- float clauses: the harness measures, the guard is here ----
    \* norm_2 / norm_p of the current vector (integer-valued f64 data), complex norm_1 / norm_inf / abs on general data:
    \* error against an independent evaluation in units of 4 * max(n,1) * eps * |reference|; for norm_p the unit is
    \* 4 * (max(n,1) + |log2 reference|) * eps * |reference|  (s^(1/p) is evaluated with the rounded exponent fl(1/p),
    \* which costs |ln reference| further half-units)
    \* (a-priori rounding bounds are about (n + 2) half-units of eps, i.e. well below one unit; the guard is 2 units)
    [] e.op = "norm_units" -> ~e.panic /\ Unchanged(e, X, Y) /\ e.units <= 2
    \* general f64 data (stand-alone): norm_2, norm_p (p in [1, 8]) against a double-double reference (units as above);
    \* inf <= 2 <= 1 and the triangle inequality up to rounding (units of 4 n eps); non-negativity;
    \* homogeneity under scaling by a power of two: exact (bit-identical) for the 1- and inf-norms, units for norm_2 / norm_p
    \* (pow(x, 2.0) and pow(s, 1/p) are library calls whose last bit need not commute with the scaling)
    [] e.op = "fnorms" -> /\ ~e.panic /\ e.u2 <= 2 /\ e.up <= 2 /\ e.chain <= 2 /\ e.tri <= 2 /\ e.homp <= 2
                          /\ e.nonneg /\ e.hom1 /\ e.homi
    \* linspace / powspace (n >= 2): n elements, the first bit-equal to a, the last within 4 units of eps * max(|a|,|b|) of b,
    \* monotone in the direction of b - a: non-decreasing when b > a, non-increasing when b < a, either one when a = b;
    \* strictly so when the harness certifies that the spacing is far above rounding.  (a = b and end points 1..8 units in
    \* the last place apart, where the step is below the rounding error, are generated systematically.)
    [] e.op \in {"linspace", "powspace"} -> /\ ~e.panic /\ e.n >= 2 /\ e.len = e.n /\ e.first_eq /\ e.last_units <= 4
                                            /\ e.mono /\ (e.sep => e.strict)
    \* magnitude sweep: the integer vector b scaled by 2^sk (second operand c scaled by 2^sj), for every sk for which the
    \* DEFINITION's own intermediates (sum of squares, products) neither overflow nor lose bits to underflow; every result is
    \* logged as its exact integer multiple of the scale (1073741823 if it is not one) and must be the operator applied to b:
    \* the norms, reductions and abs are homogeneous, so no magnitude on the exponent axis is special.  zr + i zi: complex
    \* entries with integer moduli, scaled alike.
    [] e.op = "sweep" -> /\ ~e.panic /\ Len(e.b) >= 1 /\ Len(e.c) = Len(e.b)
                         /\ e.n1 = Norm1(e.b) /\ e.ni = NormInf(e.b) /\ e.s = Sum(e.b) /\ SameSeq(e.ab, Abs(e.b))
                         /\ e.ss = SumSlice(e.b, e.sa, e.sb)
                         /\ (e.has2 = 1 => e.r2 >= 0 /\ e.r2 <= 46000 /\ e.r2 * e.r2 = SumSq(e.b))
                         /\ (e.hasd = 1 => e.d = Dot(e.b, e.c)) /\ (e.hasdf = 1 => e.df = Dot(e.b, e.c))
                         /\ (e.haspp = 1 => e.pp = ProductSlice(e.b, e.pa, e.pb))
                         /\ (e.hascx = 1 => /\ IsModulusVec(e.cab, e.zr, e.zi) /\ e.cn1 = Sum(e.cab) /\ e.cni = MaxFrom(e.cab, 1)
                                            /\ e.csr = Sum(e.zr) /\ e.csi = Sum(e.zi)
                                            /\ (e.hasd = 1 => e.cdr = CDotRe(e.zr, e.zi, e.cw, e.ci) /\ e.cdi = CDotIm(e.zr, e.zi, e.cw, e.ci)))
    \* cancellation family: entries xs[i] = <<m, si>> meaning m * 2^S[si], S = (-1, 0, 52, 53, 60).  The exact value of a range sum is
    \* given by its coefficient per scale, recomputed HERE; the harness certifies per range whether every left-to-right partial
    \* sum is exactly representable (dem) and whether the returned f64 equals the exact value (ok).  Exactness is demanded only
    \* where the definition's own left-to-right evaluation is exact.
    [] e.op = "csum" -> /\ ~e.panic /\ Len(e.rs) = Len(e.xs) - e.a /\ Len(e.ok) = Len(e.rs) /\ Len(e.dem) = Len(e.rs)
                        /\ \A k \in 1..Len(e.rs) : (\A s \in 1..5 : e.rs[k][s] = Coef(e.xs, e.ys, FALSE, e.a, e.a + k - 1, s - 1)) /\ (e.dem[k] => e.ok[k])
                        /\ (Has(e, "sok") => (e.dem[Len(e.dem)] => e.sok)
                                             /\ (\A s \in 1..5 : e.dcoef[s] = Coef(e.xs, e.ys, TRUE, 0, Len(e.xs) - 1, s - 1)) /\ (e.ddem => e.dok))
    [] OTHER -> FALSE

\* the model state after an accepted event
NextRe(e, X) == IF Adopt(e) /\ ~e.panic THEN e.rv ELSE IF e.op = "div_assign" THEN e.post ELSE IF e.op = "mul_assign" /\ Cx(e) THEN e.post ELSE IF IsMutator(e) THEN ApplyOp(X, e) ELSE X
NextIm(e, Y) == IF ~Cx(e) THEN <<>>
                ELSE IF Adopt(e) /\ ~e.panic THEN e.rvi
                ELSE IF e.op \in {"div_assign", "mul_assign"} THEN e.posti
                ELSE IF IsMutator(e) THEN ApplyOp(Y, ImOp(e)) ELSE Y

Init == l = 1 /\ cur = <<>> /\ curi = <<>> /\ TLCSet(1, 0)
Step == /\ l <= NRec
        /\ LET e == Rec[l]
               X == PreRe(e)
               Y == PreIm(e)
               resync == Has(e, "post") /\ Sane(e.post) /\ (Cx(e) => Has(e, "posti") /\ Sane(e.posti) /\ Len(e.posti) = Len(e.post))
           IN IF Evaluable(e, X, Y) /\ Explained(e, X, Y)
                THEN cur' = NextRe(e, X) /\ curi' = NextIm(e, Y)
                ELSE /\ Mismatch(l, e, IF Evaluable(e, X, Y) THEN e.op ELSE "desync")
                     /\ cur' = (IF resync THEN e.post ELSE IF Evaluable(e, X, Y) THEN X ELSE <<>>)    \* re-synchronise on the logged state if it is usable
                     /\ curi' = (IF ~Cx(e) THEN <<>> ELSE IF resync THEN e.posti ELSE IF Evaluable(e, X, Y) THEN Y ELSE <<>>)
        /\ l' = l + 1
Spec == Init /\ [][Step]_vars
=============================================================================
