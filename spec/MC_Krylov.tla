------------------------------ MODULE MC_Krylov ------------------------------
(* Design check and case generator for Krylov.tla (C08, C09).                           *)
(*  Mode = "proto": the protocol machine m for every kind and budget 0..MaxBudget runs  *)
(*    against every environment (residual classes, breakdowns); a second copy s with    *)
(*    every smaller-or-equal budget is fed the same environment (prefix closure).       *)
(*  Mode = "cg": exact-rational CG on every 2x2 symmetric strictly diagonally dominant  *)
(*    integer system with diagonal DiagLo..DiagHi, off-diagonal -MaxOff..MaxOff and     *)
(*    right-hand sides -MaxB..MaxB; with Emit = TRUE every finished run is printed as   *)
(*    one JSON case (system, exact iterates) that the harness replays on the real code.  *)
EXTENDS Krylov, TLC, Json
CONSTANTS Mode, MaxBudget, DiagLo, DiagHi, MaxOff, MaxB, Emit
VARIABLES m, s, A, b, g, xs
vars == <<m, s, A, b, g, xs>>

NoMach == M0("cg", 0)
NoCG == CG0(<<1, 0, 0, 1>>, <<0, 0>>)

Systems == {a \in [1..4 -> (-MaxOff)..DiagHi] :
              /\ a[1] \in DiagLo..DiagHi /\ a[4] \in DiagLo..DiagHi
              /\ a[2] \in (-MaxOff)..MaxOff /\ a[3] = a[2]
              /\ Abs(a[2]) < a[1] /\ Abs(a[2]) < a[4]}
Rhs == {<<p, q>> : p \in (-MaxB)..MaxB, q \in (-MaxB)..MaxB}

InitProto == /\ \E kind \in Kinds, bud \in 0..MaxBudget : \E j \in 0..bud : m = M0(kind, bud) /\ s = M0(kind, j)
             /\ A = <<1, 0, 0, 1>> /\ b = <<0, 0>> /\ g = NoCG /\ xs = <<>>
InitCG == /\ m = NoMach /\ s = NoMach
          /\ \E a \in Systems, rhs \in Rhs : A = <<a[1], a[2], a[3], a[4]>> /\ b = rhs /\ g = CG0(a, rhs)
          /\ xs = <<>>
Init == IF Mode = "proto" THEN InitProto ELSE InitCG

NextProto == /\ ~Terminal(m)
             /\ \E c \in Choices : m' = Step(m, c) /\ s' = Step(s, c)
             /\ UNCHANGED <<A, b, g, xs>>
NextCG == /\ ~g.done /\ g.it < 3
          /\ g' = CGStep(A, g) /\ xs' = Append(xs, CGStep(A, g).x)
          /\ UNCHANGED <<m, s, A, b>>
Next == IF Mode = "proto" THEN NextProto ELSE NextCG
Spec == Init /\ [][Next]_vars /\ WF_vars(Next)

(* ---------------- protocol properties ---------------- *)
OkMeansPassedInv == OkMeansPassed(m) /\ OkMeansPassed(s)
BudgetZeroUntouchedInv == BudgetZeroUntouched(m) /\ BudgetZeroUntouched(s)
ExactStartInv == ExactStart(m) /\ ExactStart(s)
BoundedInv == Bounded(m) /\ Bounded(s)
PrefixClosed == PrefixRel(s, m) /\ (Terminal(m) => Terminal(s))
\* the budget ladder read off the two copies: if the run with budget B answers Ok(k), the run with budget j answers Ok(k) with the
\* same x when j >= k and Err when j < k
BudgetLadder == (Terminal(m) /\ m.phase = "ok") =>
                  /\ (s.budget >= m.ret => s.phase = "ok" /\ s.ret = m.ret /\ s.xv = m.xv)
                  /\ (s.budget < m.ret => s.phase = "err" /\ s.why = "exhaust")
Variant == [][Measure(m') < Measure(m) /\ (m'.it = m.it \/ m'.it = m.it + 1)]_vars
Termination == IF Mode = "proto" THEN <>Terminal(m) ELSE <>(g.done)
\* every named outcome is reachable (vacuity guard, checked by expecting these "invariants" to fail is not needed:
\* TLC coverage shows each branch of Step; the three below are cheap sanity bounds instead)
TypeOK == m.kind \in Kinds /\ m.phase \in {"start", "init", "loop", "half", "tested", "ok", "err"} /\ m.rc \in Classes \cup {"none"}

(* ---------------- exact CG properties ---------------- *)
RatOK(v) == IsRat(v[1]) /\ IsRat(v[2])
ResidualIsTrue == RatOK(g.x) /\ RatOK(g.r) /\ SameVec(g.r, TrueResidual(A, b, g.x))
FiniteTermination == g.it <= 2 /\ (g.it = 2 => g.done)
SolvesSystem == g.done => SameVec(g.x, Cramer(A, b))
\* the exact relative residual of a non-final iterate is not small: |r|^2 * 10^4 >= |b|^2 (so a tolerance
\* below 1e-2 cannot accept it and the real solver must take as many iterations as the exact one)
NoEarlyAccept == (Mode = "cg" /\ ~g.done) => RLe(R(b[1] * b[1] + b[2] * b[2]), RMul(R(10000), VDot(g.r, g.r)))
EmitCase == (Emit /\ Mode = "cg" /\ g.done) =>
              PrintT(<<"CASE", ToJson([A |-> [r |-> 2, c |-> 2, d |-> A], b |-> b, k |-> g.it, iters |-> xs])>>)
=============================================================================
