------------------------------- MODULE Text -------------------------------
(* X02 - the textual output of the crate: everything in /repo/src that turns values into   *)
(* text (impl Display / Debug, the `output` file writers) and the numeric constants.       *)
(*                                                                                         *)
(* A TEXT is a sequence of LINES, a line a sequence of TOKENS.  The content of an object   *)
(* is integer valued: an ELEMENT is a sequence of indices into the case's alphabet of      *)
(* numbers (one index for a real element type, <<re, im>> for a complex one), so the       *)
(* layout functions below say WHICH value stands WHERE, how many lines there are and which *)
(* positions hold a placeholder; how a single number is typeset is judged token by token   *)
(* in the trace specification (Trace_Text.tla).  Blanks, tabs, brackets, commas and blank  *)
(* lines at the END of a text are typesetting and carry no meaning here.                   *)
(*                                                                                         *)
(* expected tokens:  Num(el)  the number / complex pair with that element                  *)
(*                   Star     the placeholder of an entry outside the band ("*")           *)
(*                   Word     a label                                                      *)
(*                   Lit(n)   the integer n itself (a size)                                *)
(*                   Term(el, k)  the monomial el * x^k of a polynomial                    *)
EXTENDS Integers, Sequences

Num(el) == [t |-> IF Len(el) = 2 THEN "c" ELSE "n", el |-> el, e |-> -1]
Star == [t |-> "s", el |-> <<>>, e |-> -1]
Word == [t |-> "w", el |-> <<>>, e |-> -1]
Lit(n) == [t |-> "i", el |-> <<n>>, e |-> -1]
Term(el, k) == [t |-> "t", el |-> el, e |-> k]

Row(v) == [k \in 1..Len(v) |-> Num(v[k])]

(* ---- Complex<T>: "( re, im )" : one line, one pair ---- *)
CxText(z) == << <<Num(z)>> >>

(* ---- Vector<T>: Display = Debug = the list on ONE line; output(file): one element per line ---- *)
VecText(v) == <<Row(v)>>
VecFile(v) == [k \in 1..Len(v) |-> <<Num(v[k])>>]

(* ---- Matrix<T> A = [r, c, d (row-major)]: Display = Debug = output(file): one line per row ---- *)
MatAt(A, i, j) == A.d[(i - 1) * A.c + j]
MatText(A) == [i \in 1..A.r |-> [j \in 1..A.c |-> Num(MatAt(A, i, j))]]

(* ---- Polynomial<T> co = <<c_0, ..., c_deg>>: Display: the monomials on one line; Debug: the coefficient list ---- *)
PolyText(co) == << [k \in 1..Len(co) |-> Term(co[Len(co) - k + 1], Len(co) - k)] >>
PolyDbg(co) == VecText(co)

(* ---- Tridiagonal<T> T = [n, sub, main, sup]: Display: the n x n array, "*" off the three diagonals ---- *)
TriAt(T, i, j) == IF j = i THEN Num(T.main[i]) ELSE IF j = i + 1 THEN Num(T.sup[i]) ELSE IF j = i - 1 THEN Num(T.sub[j]) ELSE Star
TriText(T) == [i \in 1..T.n |-> [j \in 1..T.n |-> TriAt(T, i, j)]]
TriDbg(T) == << <<Word, Lit(T.n)>>, <<Word>> \o Row(T.sub), <<Word>> \o Row(T.main), <<Word>> \o Row(T.sup) >>

(* ---- Banded<T> B = [n, m1, m2, fill, d (dense n x n, row-major; only the band is meaningful)] ---- *)
InBand(B, i, j) == ~(j > i + B.m2 \/ i > j + B.m1)
BandAt(B, i, j) == B.d[(i - 1) * B.n + j]
BandText(B) == [i \in 1..B.n |-> [j \in 1..B.n |-> IF InBand(B, i, j) THEN Num(BandAt(B, i, j)) ELSE Star]]
\* Debug shows the compact storage: row i, slot k (1..m1+m2+1) holds entry (i, i + k - 1 - m1) if that column exists, else the fill value
CompactAt(B, i, k) == LET j == i + k - 1 - B.m1 IN IF j >= 1 /\ j <= B.n THEN BandAt(B, i, j) ELSE B.fill
BandDbg(B) == << <<Word, Lit(B.n)>>, <<Word, Lit(B.m1)>>, <<Word, Lit(B.m2)>>, <<Word>> >>
              \o [i \in 1..B.n |-> [k \in 1..(B.m1 + B.m2 + 1) |-> Num(CompactAt(B, i, k))]]

(* ---- Mesh1D M = [nodes, vars (per node the sequence of variables)]: one line per node: coordinate, variables ---- *)
M1Text(M) == [i \in 1..Len(M.nodes) |-> <<Num(M.nodes[i])>> \o Row(M.vars[i])]

(* ---- Mesh2D M = [xn, yn, vars[i][j]]: y outer, x inner, "x y variables" per node, a blank line after every y-block ---- *)
M2Line(M, n, sel(_)) == LET nx == Len(M.xn)
                         j == ((n - 1) \div (nx + 1)) + 1
                         i == ((n - 1) % (nx + 1)) + 1
                     IN IF i = nx + 1 THEN <<>> ELSE <<Num(M.xn[i]), Num(M.yn[j])>> \o Row(sel(M.vars[i][j]))
M2Text(M) == [n \in 1..(Len(M.yn) * (Len(M.xn) + 1)) |-> M2Line(M, n, LAMBDA v : v)]
M2VarText(M, var) == [n \in 1..(Len(M.yn) * (Len(M.xn) + 1)) |-> M2Line(M, n, LAMBDA v : <<v[var + 1]>>)]

(* ---- helpers over texts ---- *)
RECURSIVE StripBlank(_)
StripBlank(L) == IF L = <<>> THEN L ELSE IF L[Len(L)] = <<>> THEN StripBlank(SubSeq(L, 1, Len(L) - 1)) ELSE L
RECURSIVE TokCount(_)
TokCount(L) == IF L = <<>> THEN 0 ELSE Len(Head(L)) + TokCount(Tail(L))

(* ---- src/constant.rs: reference values, truncated (not rounded) to 40 decimals: digit 1 is the integer part ---- *)
Ref_PI == <<3, 1, 4, 1, 5, 9, 2, 6, 5, 3, 5, 8, 9, 7, 9, 3, 2, 3, 8, 4, 6, 2, 6, 4, 3, 3, 8, 3, 2, 7, 9, 5, 0, 2, 8, 8, 4, 1, 9, 7, 1>>
Ref_PI_2 == <<1, 5, 7, 0, 7, 9, 6, 3, 2, 6, 7, 9, 4, 8, 9, 6, 6, 1, 9, 2, 3, 1, 3, 2, 1, 6, 9, 1, 6, 3, 9, 7, 5, 1, 4, 4, 2, 0, 9, 8, 5>>
Ref_PI_4 == <<0, 7, 8, 5, 3, 9, 8, 1, 6, 3, 3, 9, 7, 4, 4, 8, 3, 0, 9, 6, 1, 5, 6, 6, 0, 8, 4, 5, 8, 1, 9, 8, 7, 5, 7, 2, 1, 0, 4, 9, 2>>
Ref_FRAC_1_PI == <<0, 3, 1, 8, 3, 0, 9, 8, 8, 6, 1, 8, 3, 7, 9, 0, 6, 7, 1, 5, 3, 7, 7, 6, 7, 5, 2, 6, 7, 4, 5, 0, 2, 8, 7, 2, 4, 0, 6, 8, 9>>
Ref_FRAC_2_PI == <<0, 6, 3, 6, 6, 1, 9, 7, 7, 2, 3, 6, 7, 5, 8, 1, 3, 4, 3, 0, 7, 5, 5, 3, 5, 0, 5, 3, 4, 9, 0, 0, 5, 7, 4, 4, 8, 1, 3, 7, 8>>
Ref_TAU == <<6, 2, 8, 3, 1, 8, 5, 3, 0, 7, 1, 7, 9, 5, 8, 6, 4, 7, 6, 9, 2, 5, 2, 8, 6, 7, 6, 6, 5, 5, 9, 0, 0, 5, 7, 6, 8, 3, 9, 4, 3>>
Ref_SQRTPI == <<1, 7, 7, 2, 4, 5, 3, 8, 5, 0, 9, 0, 5, 5, 1, 6, 0, 2, 7, 2, 9, 8, 1, 6, 7, 4, 8, 3, 3, 4, 1, 1, 4, 5, 1, 8, 2, 7, 9, 7, 5>>
Ref_SQRT2 == <<1, 4, 1, 4, 2, 1, 3, 5, 6, 2, 3, 7, 3, 0, 9, 5, 0, 4, 8, 8, 0, 1, 6, 8, 8, 7, 2, 4, 2, 0, 9, 6, 9, 8, 0, 7, 8, 5, 6, 9, 6>>
Ref_SQRT1_2 == <<0, 7, 0, 7, 1, 0, 6, 7, 8, 1, 1, 8, 6, 5, 4, 7, 5, 2, 4, 4, 0, 0, 8, 4, 4, 3, 6, 2, 1, 0, 4, 8, 4, 9, 0, 3, 9, 2, 8, 4, 8>>
Ref_E == <<2, 7, 1, 8, 2, 8, 1, 8, 2, 8, 4, 5, 9, 0, 4, 5, 2, 3, 5, 3, 6, 0, 2, 8, 7, 4, 7, 1, 3, 5, 2, 6, 6, 2, 4, 9, 7, 7, 5, 7, 2>>
Ref_EULER == <<0, 5, 7, 7, 2, 1, 5, 6, 6, 4, 9, 0, 1, 5, 3, 2, 8, 6, 0, 6, 0, 6, 5, 1, 2, 0, 9, 0, 0, 8, 2, 4, 0, 2, 4, 3, 1, 0, 4, 2, 1>>
RefNames == {"PI", "PI_2", "PI_4", "FRAC_1_PI", "FRAC_2_PI", "TAU", "SQRTPI", "SQRT2", "SQRT1_2", "E", "EULER"}
Ref(name) == CASE name = "PI" -> Ref_PI
               [] name = "PI_2" -> Ref_PI_2
               [] name = "PI_4" -> Ref_PI_4
               [] name = "FRAC_1_PI" -> Ref_FRAC_1_PI
               [] name = "FRAC_2_PI" -> Ref_FRAC_2_PI
               [] name = "TAU" -> Ref_TAU
               [] name = "SQRTPI" -> Ref_SQRTPI
               [] name = "SQRT2" -> Ref_SQRT2
               [] name = "SQRT1_2" -> Ref_SQRT1_2
               [] name = "E" -> Ref_E
               [] name = "EULER" -> Ref_EULER

\* the reference plus one unit of the last digit (the true value lies in [Ref, RefUp) )
RECURSIVE IncAt(_, _)
IncAt(s, i) == IF i = 0 THEN s ELSE IF s[i] < 9 THEN [s EXCEPT ![i] = s[i] + 1] ELSE IncAt([s EXCEPT ![i] = 0], i - 1)
RefUp(name) == IncAt(Ref(name), 41)
Pad(s, n) == [k \in 1..n |-> IF k <= Len(s) THEN s[k] ELSE 0]
RECURSIVE LexLess(_, _, _)
LexLess(a, b, i) == IF i > Len(a) THEN FALSE ELSE IF a[i] < b[i] THEN TRUE ELSE IF a[i] > b[i] THEN FALSE ELSE LexLess(a, b, i + 1)
\* digit sequences of equal length: a < b, a <= b
DLess(a, b) == Len(a) = Len(b) /\ LexLess(a, b, 1)
DLeq(a, b) == Len(a) = Len(b) /\ (a = b \/ LexLess(a, b, 1))
\* the f64 whose rounding interval (lo, hi) -- the midpoints to its two neighbours, as exact decimals -- contains the true value
\* IS the correctly rounded constant: this fixes its bit pattern.
NearestOK(name, lo, hi) == /\ Len(lo) = 61 /\ Len(hi) = 61 /\ \A k \in 1..61 : lo[k] \in 0..9 /\ hi[k] \in 0..9
                           /\ DLess(lo, Pad(Ref(name), 61)) /\ DLeq(Pad(RefUp(name), 61), hi)
=============================================================================
