---------------------------- MODULE Trace_Roots ----------------------------
(* Trace validation for Polynomial<f64>::roots / Polynomial<Cmplx>::roots (C10).        *)
(* One event per call.  The harness measures (reference arithmetic: double-double)     *)
(*   count     number of returned values,   finite   all parts finite,                 *)
(*   be_units  ceil( max_z |p(z)| / (max|a_k| * max(1,|z|)^n) / 1e-6 ), be_e15 the same in *)
(*             units of 1e-15 (saturating); the per-path guard table is Roots!BeOK,       *)
(*   match_units  ceil( bottleneck distance between returned and true roots / (1e-6 *  *)
(*             max(1, max|r_i|)) ) when the nearest-root assignment is one-to-one,     *)
(*             saturated otherwise (only meaningful for well-separated roots, `sep`),  *)
(*   zr, zi    the returned values rounded to the nearest Gaussian integers (cases     *)
(*             whose true roots rre, rim are Gaussian integers, `exact`).              *)
(* Events with a `step` field belong to a sequence of calls on ONE object (observe,     *)
(* mutate through IndexMut / coeffs() / trim, observe again): every measurement is      *)
(* taken against the CURRENT coefficients, so a value remembered from before a mutation *)
(* is rejected by the same guards.                                                      *)
(* chk says which clauses an event carries ("all"; or "shape" / "be" / "match" when one    *)
(* call is reported as three events).  The guards live here: what the call must deliver is the outcome of the control      *)
(* skeleton of Roots.tla (degree 0 rejected, otherwise `degree` values, all finite),   *)
(* backward error within the per-path guard of Roots.tla, and for separated roots a one-to-one match within  *)
(* 1e-6*scale - decided on integers as set equality when the true roots are integers.  *)
EXTENDS TraceBase, Poly
VARIABLES l
vars == <<l>>
K == INSTANCE Roots WITH QZeroGuard <- TRUE, StopOnNonFinite <- TRUE, MaxIt <- 80

MatchGuard == 1
PairSet(a, b) == {<<a[i], b[i]>> : i \in 1..Len(a)}

Explained(e) ==
  IF e.op # "roots" THEN FALSE
  ELSE IF e.deg < 0 THEN e.panic \/ e.count = 0                    \* the empty coefficient list: no value may be returned
  ELSE LET f == K!SkRun(e.deg, e.refine) IN
       IF f.pc = "panic" THEN e.panic                                 \* degree 0 is rejected
       ELSE IF ~e.lead_nz THEN TRUE                                   \* outside the property
       ELSE /\ (e.chk \in {"all", "shape"} => (~e.panic /\ e.count = K!Produced(f) /\ (K!AllFinite(f) => e.finite)))
            \* sequences on one object: the object's coefficients must be the current ones (mutators took effect, observers changed nothing)
            /\ (Has(e, "synced") => e.synced)
            /\ (e.chk \in {"all", "be"} => K!BeOK(e.deg, e.refine, IF Has(e, "amp_e") THEN e.amp_e ELSE 99, e.be_e15, e.be_units))
            /\ (e.chk \in {"all", "match"} =>
                   /\ (e.sep => e.match_units <= MatchGuard)
                   /\ ((e.sep /\ e.exact) => (Len(e.zr) = Len(e.rre) /\ Len(e.zi) = Len(e.rre) /\ PairSet(e.zr, e.zi) = PairSet(e.rre, e.rim))))

Init == l = 1 /\ TLCSet(1, 0)
Step == /\ l <= NRec
        /\ LET e == Rec[l] IN IF Explained(e) THEN TRUE ELSE Mismatch(l, e, e.op)
        /\ l' = l + 1
Spec == Init /\ [][Step]_vars
=============================================================================
