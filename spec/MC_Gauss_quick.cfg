SPECIFICATION Spec
CONSTANTS Mode = "solve"  Scope = "quick"  Skip = TRUE  Emit = FALSE
INVARIANTS Inv_Preserved Inv_NonzeroPivot Inv_MultipliersBounded Inv_Solved Inv_Agree Inv_LU Inv_Bareiss Inv_SolvesPredicate Inv_Counts
CHECK_DEADLOCK TRUE
