INIT InitH
NEXT NextH
CONSTANTS MaxLen = 3  Depth = 1  Emit = TRUE  Vals = {0, 1, 2}  LawLen = 0  BilinLen = 0  Ent <- MCEnt
INVARIANTS EmitCase
CHECK_DEADLOCK FALSE
