SPECIFICATION Spec
CONSTANTS Mode = "det"  Scope = "thorough"  Skip = TRUE  Emit = TRUE
INVARIANTS EmitCase
CHECK_DEADLOCK FALSE
