SPECIFICATION Spec
CONSTANTS N = 1  Halves = FALSE  SavedOld = TRUE  Emit = TRUE
INVARIANTS EmitCase
CHECK_DEADLOCK FALSE
