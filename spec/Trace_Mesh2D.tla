---------------------------- MODULE Trace_Mesh2D ----------------------------
(* Trace validation for ohsl::Mesh2D (X01).  One case = one object: the event "new" creates *)
(* the model state `cur` (a mesh value of Mesh2D.tla) and the denominators `sc`; every later *)
(* event is one call on that object.  The SPECIFICATION computes the state by putting the   *)
(* recorded operations through the operators of Mesh2D.tla; every returned value must equal *)
(* the model operator applied to the model state, and `post` (the store read back node by   *)
(* node through get_nodes_vars after the call) must equal the model's post-state.           *)
(* Numbers: coordinate numerators over sc.dx / sc.dy, value numerators (complex: pairs)    *)
(* over sc.dv.  A call with in-range arguments must not panic.  Out-of-range arguments are  *)
(* not generated (their rejection is C20); if one occurs the store must be unchanged.       *)
EXTENDS TraceBase, Mesh2D
VARIABLES l, cur, sc
vars == <<l, cur, sc>>

\* ---- outcome predicates ----
Wrote(e, X) == ~e.panic /\ e.post = X.vars
Unchanged(e, M) == e.post = M.vars
Read(e, M) == ~e.panic /\ e.post = M.vars

\* ---- float guard (single source of truth) ----
\* quadrature on grids / data that are not dyadic: |q K - integer| <= QuadGuard units of the a-priori rounding bound
\* (cells + 16) u sum_cells (|x_i|+|x_i+1|)(|y_j|+|y_j+1|)/4 sum|v|; the harness logs 0 iff q K IS the integer.
QuadGuard == 8
IsPow2(n) == n \in {1, 2, 4, 8, 16, 32, 64}
Dyadic(s) == IsPow2(s.dx) /\ IsPow2(s.dy) /\ IsPow2(s.dv)
QuadOK(e, s, T) == e.ri = T /\ e.un >= 0 /\ e.un <= QuadGuard /\ (Dyadic(s) => e.un = 0)

\* ---- printed numbers ----
\* a token <<m, d>> is the decimal m / 10^d as printed; the value is V / den; the call asked for precision p.
\* Demanded: exactly p digits after the point where the element type prints through f64 (`fixed`; Complex's Display
\* chooses its own digits); the printed number EQUALS the value whenever the value has a p-digit decimal expansion,
\* and is within one unit of 10^-p of it otherwise.
P10(k) == 10 ^ k
MaxP == 5
TokOK(t, V, den, p, fixed) ==
  /\ Len(t) = 2 /\ t[2] >= 0 /\ t[2] <= MaxP /\ IAbs(t[1]) <= 1000000000 \div den /\ IAbs(V) <= 4000      \* magnitudes: all products below stay inside 32 bits
  /\ (fixed => t[2] = p)
  /\ LET dlt == t[1] * den - V * P10(t[2])
     IN IF (V * P10(p)) % den = 0 THEN dlt = 0 ELSE IAbs(dlt) <= (den * P10(t[2])) \div P10(p)
Den(s, k) == IF k = 1 THEN s.dx ELSE IF k = 2 THEN s.dy ELSE s.dv
\* The lines must be the model's lines: the data lines in the model's order, one blank line between consecutive y-blocks.
\* The blank line after the LAST block (the model's final line) may be missing: nothing distinguishes the two files for a reader.
FileOK(L, ML, M, s, p) ==
  /\ p >= 0 /\ p <= MaxP
  /\ (Len(L) = Len(ML) \/ (Len(ML) > 0 /\ Len(L) = Len(ML) - 1))
  /\ \A n \in 1..Len(L) : /\ Len(L[n]) = Len(ML[n])
                          /\ \A k \in 1..Len(ML[n]) : TokOK(L[n][k], ML[n][k], Den(s, k), p, k <= 2 \/ ~M.cx)

\* ---- a 1-D cross-section through every accessor of Mesh1D ----
SectOK(e, S) == /\ e.rnn = Len(S.xn) /\ e.rnv = S.nv /\ e.rn = S.xn /\ e.rcoord = S.xn
                /\ e.rvars = S.vars /\ e.rivars = S.vars

\* the store after event e according to the model (observers and rejected writes: unchanged)
ModelPost(e, M) ==
  CASE e.op \in {"set", "isetv"} -> IF MAccSet(M, e.i, e.j, e.v) THEN MSet(M, e.i, e.j, e.v) ELSE M
    [] e.op = "iset" -> IF MInNode(M, e.i, e.j) /\ MInVar(M, e.var) THEN MSetEntry(M, e.i, e.j, e.var, e.x) ELSE M
    [] e.op = "assign" -> MAssign(M, e.x)
    [] e.op = "apply" -> IF MInVar(M, e.var) THEN MApply(M, LAMBDA X, Y : MFunVal(M.cx, e.co, e.coi, X, Y), e.var) ELSE M
    [] OTHER -> M

Explained(e, M, s) ==
  CASE e.op \in {"set", "isetv"} -> IF MAccSet(M, e.i, e.j, e.v) THEN Wrote(e, ModelPost(e, M)) ELSE Unchanged(e, M)
    [] e.op = "iset" -> IF MInNode(M, e.i, e.j) /\ MInVar(M, e.var) THEN Wrote(e, ModelPost(e, M)) ELSE Unchanged(e, M)
    [] e.op = "assign" -> Wrote(e, ModelPost(e, M))
    [] e.op = "apply" -> IF MInVar(M, e.var) THEN Wrote(e, ModelPost(e, M)) ELSE Unchanged(e, M)
    [] e.op = "nvars" -> Read(e, M) /\ e.ri = MNVars(M)
    [] e.op = "nnodes" -> Read(e, M) /\ e.rv = MNNodes(M)
    [] e.op = "xnodes" -> Read(e, M) /\ e.rv = MXNodes(M)
    [] e.op = "ynodes" -> Read(e, M) /\ e.rv = MYNodes(M)
    [] e.op = "coord" -> IF MInNode(M, e.i, e.j) THEN Read(e, M) /\ e.rv = MCoord(M, e.i, e.j) ELSE Unchanged(e, M)
    [] e.op = "coord_all" -> Read(e, M) /\ e.rc = [i \in 1..MNX(M) |-> [j \in 1..MNY(M) |-> MCoord(M, i - 1, j - 1)]]
    [] e.op = "get" -> IF MInNode(M, e.i, e.j) THEN Read(e, M) /\ e.rv = MGet(M, e.i, e.j) ELSE Unchanged(e, M)
    [] e.op = "index" -> IF MInNode(M, e.i, e.j) THEN Read(e, M) /\ e.rv = MIndex(M, e.i, e.j) ELSE Unchanged(e, M)
    [] e.op = "index_all" -> Read(e, M) /\ e.rvars = [i \in 1..MNX(M) |-> [j \in 1..MNY(M) |-> MIndex(M, i - 1, j - 1)]]
    [] e.op = "xsec_x" -> IF MInX(M, e.i) THEN Read(e, M) /\ SectOK(e, MXsecX(M, e.i)) ELSE Unchanged(e, M)
    [] e.op = "xsec_y" -> IF MInY(M, e.j) THEN Read(e, M) /\ SectOK(e, MXsecY(M, e.j)) ELSE Unchanged(e, M)
    [] e.op = "vam" -> IF MInVar(M, e.var)
                         THEN LET A == MVarMatrix(M, e.var) IN Read(e, M) /\ e.rm.r = A.r /\ e.rm.c = A.c /\ e.rm.d = A.d
                         ELSE Unchanged(e, M)
    \* quadratures: f64 meshes with at least one node in each direction (the code defines nothing for an empty direction)
    [] e.op = "trap" -> IF MInVar(M, e.var) /\ ~M.cx /\ MHasCells(M) THEN Read(e, M) /\ QuadOK(e, s, MTrap4(M, e.var)) ELSE Unchanged(e, M)
    [] e.op = "sq_trap" -> IF MInVar(M, e.var) /\ ~M.cx /\ MHasCells(M) THEN Read(e, M) /\ QuadOK(e, s, MSqTrap4(M, e.var)) ELSE Unchanged(e, M)
    [] e.op = "output" -> Read(e, M) /\ FileOK(e.lines, MOutput(M), M, s, e.p)
    [] e.op = "output_var" -> IF MInVar(M, e.var) THEN Read(e, M) /\ FileOK(e.lines, MOutputVar(M, e.var), M, s, e.p) ELSE Unchanged(e, M)
    [] OTHER -> FALSE

\* a logged store is adopted after a mismatch only if it is a plausible store: the model's shape, values of the element
\* type's form and of bounded size (so that later quadratures stay inside TLC's integers)
ValOK(cx, x) == IF cx THEN Len(x) = 2 /\ IAbs(x[1]) <= 4000 /\ IAbs(x[2]) <= 4000 ELSE IAbs(x) <= 4000
Plausible(e, M) == /\ MShapeOK(M, e.post)
                   /\ \A i \in 1..Len(e.post) : \A j \in 1..Len(e.post[i]) : \A v \in 1..Len(e.post[i][j]) : ValOK(M.cx, e.post[i][j][v])

NewOK(e, M0) == ~e.panic /\ e.post = M0.vars /\ e.rnn = MNNodes(M0) /\ e.rnv = MNVars(M0)

Init == l = 1 /\ cur = MNew(FALSE, <<>>, <<>>, 1) /\ sc = [dx |-> 1, dy |-> 1, dv |-> 1] /\ TLCSet(1, 0)
Step == /\ l <= NRec
        /\ LET e == Rec[l]
           IN IF e.op = "new"
                THEN LET M0 == MNew(e.cx, e.xn, e.yn, e.nv)
                     IN /\ (IF NewOK(e, M0) THEN TRUE ELSE Mismatch(l, e, e.op))
                        /\ cur' = M0 /\ sc' = [dx |-> e.dx, dy |-> e.dy, dv |-> e.dv]
                ELSE /\ sc' = sc
                     /\ IF Explained(e, cur, sc)
                          THEN cur' = [cur EXCEPT !.vars = e.post]          \* = the model's post-state (checked by Explained)
                          ELSE /\ Mismatch(l, e, e.op)
                               /\ cur' = IF Plausible(e, cur) THEN [cur EXCEPT !.vars = e.post] ELSE ModelPost(e, cur)
        /\ l' = l + 1
Spec == Init /\ [][Step]_vars
=============================================================================
