------------------------------ MODULE MC_Dense ------------------------------
(* Design check and case generator for Dense.tla (C03).                                *)
(*  - machine: one matrix, every editing operation with every in-range argument (and a *)
(*    few out-of-range ones), shapes 0..MaxDim; invariants are checked in every state; *)
(*  - the algebraic laws are evaluated on every reachable matrix against every small   *)
(*    second operand;                                                                  *)
(*  - with Emit = TRUE every behaviour of length Depth is printed as one JSON case     *)
(*    that the harness replays on the real ohsl::Matrix (spec -> implementation).      *)
EXTENDS Dense, TLC, Json
CONSTANTS MaxDim, Depth, Emit, FullInit
VARIABLES m, m0, hist
vars == <<m, m0, hist>>

Dims == 0..MaxDim
\* initial matrices have pairwise distinct entries so that any misplaced element is visible
Distinct(r, c) == Mk(r, c, LAMBDA a, b : 1 + a * c + b)
Fresh(r, c) == Mk(r, c, LAMBDA a, b : 20 + a * c + b)           \* operand for += / -=
FreshVec(n) == [k \in 1..n |-> 30 + k]

Op(name) == [op |-> name, i |-> 0, j |-> 0, i2 |-> 0, j2 |-> 0, x |-> 0, nr |-> 0, nc |-> 0, off |-> 0,
             lo |-> 0, di |-> 0, up |-> 0, s |-> 0, v |-> <<>>, b |-> Empty, form |-> "ref"]

\* arguments: every in-range index plus one out-of-range index per axis
RowIx(M) == 0..M.r
ColIx(M) == 0..M.c
Ops(M) ==
     {[Op("set_row") EXCEPT !.i = i, !.v = FreshVec(M.c)] : i \in RowIx(M)}
  \cup {[Op("set_row") EXCEPT !.i = 0, !.v = FreshVec(M.c + 1)]}
  \cup {[Op("set_col") EXCEPT !.j = j, !.v = FreshVec(M.r)] : j \in ColIx(M)}
  \cup {[Op("set_col") EXCEPT !.j = 0, !.v = FreshVec(M.r + 1)]}
  \cup {[Op("delete_row") EXCEPT !.i = i] : i \in RowIx(M)}
  \cup {[Op("swap_rows") EXCEPT !.i = a, !.i2 = b] : a \in RowIx(M), b \in RowIx(M)}
  \cup {[Op("swap_elem") EXCEPT !.i = a, !.j = b, !.i2 = M.r - 1 - a, !.j2 = M.c - 1 - b] : a \in 0..(M.r - 1), b \in 0..(M.c - 1)}
  \cup {[Op("set") EXCEPT !.i = a, !.j = b, !.x = 9] : a \in 0..(M.r - 1), b \in 0..(M.c - 1)}
  \cup {[Op("resize") EXCEPT !.nr = a, !.nc = b] : a \in Dims, b \in Dims}
  \cup {Op("transpose_in_place"), Op("clear")}
  \cup {[Op("fill") EXCEPT !.x = 7], [Op("fill_diag") EXCEPT !.x = 7]}
  \cup {[Op("fill_band") EXCEPT !.off = k, !.x = 8] : k \in (-MaxDim)..MaxDim}
  \cup {[Op("fill_tridiag") EXCEPT !.lo = 11, !.di = 12, !.up = 13]}
  \cup {[Op("fill_row") EXCEPT !.i = i, !.x = 14] : i \in RowIx(M)}
  \cup {[Op("fill_col") EXCEPT !.j = j, !.x = 15] : j \in ColIx(M)}
  \cup {[Op("add_assign") EXCEPT !.b = Fresh(M.r, M.c)], [Op("sub_assign") EXCEPT !.b = Fresh(M.r, M.c), !.form = "own"]}
  \cup {[Op("add_assign") EXCEPT !.b = Fresh(M.r + 1, M.c)], [Op("sub_assign") EXCEPT !.b = Fresh(M.r, M.c + 1)]}
  \cup {[Op("mul_assign") EXCEPT !.s = -2], [Op("div_assign") EXCEPT !.s = -1]}
  \cup {[Op("add_scalar_assign") EXCEPT !.s = 3], [Op("sub_scalar_assign") EXCEPT !.s = 5]}
  \* the object itself consumed by a by-value operator, the result taking its place
  \cup {[Op("add_assign") EXCEPT !.b = Fresh(M.r, M.c), !.form = "into"], [Op("mul_assign") EXCEPT !.s = 3, !.form = "into"], Op("neg_assign")}
  \cup {[Op("matmul_assign") EXCEPT !.b = Fresh(M.c, k)] : k \in Dims}
  \cup {[Op("matmul_assign") EXCEPT !.b = Fresh(M.c + 1, 1)]}

Init == /\ \E r \in Dims, c \in Dims : m0 = Distinct(r, c) /\ (FullInit \/ (r = MaxDim /\ c = MaxDim))
        /\ m = m0 /\ hist = <<>>
Next == /\ Len(hist) < Depth
        /\ \E o \in Ops(m) : m' = ApplyOp(m, o) /\ hist' = Append(hist, o)
        /\ m0' = m0
Spec == Init /\ [][Next]_vars
View == <<m, Len(hist)>>

(* ---------------- invariants ---------------- *)
Shape == WellShaped(m) /\ m.r \in 0..(MaxDim + 1) /\ m.c \in 0..(MaxDim + 1)
\* second operands for the laws: every shape-compatible matrix of a small family
Others(r, c) == {Distinct(r, c), Fresh(r, c)} \cup (IF r = c THEN {Eye(r)} ELSE {})
Laws == /\ SameMat(Transpose(Transpose(m)), m)
        /\ SameMat(MatMul(m, Eye(m.c)), m) /\ SameMat(MatMul(Eye(m.r), m), m)
        /\ Norm1(m) = NormInf(Transpose(m)) /\ NormMax(m) = NormMax(Transpose(m))
        /\ SameMat(Neg(Neg(m)), m) /\ SameMat(Sub(m, m), New(m.r, m.c, 0))
        /\ SameMat(Add(m, m), Scale(m, 2))
        /\ \A k \in Dims : \A B \in Others(m.c, k) :
              /\ SameMat(Transpose(MatMul(m, B)), MatMul(Transpose(B), Transpose(m)))          \* (AB)^T = B^T A^T
              /\ \A A2 \in Others(m.r, m.c) : SameMat(MatMul(Add(m, A2), B), Add(MatMul(m, B), MatMul(A2, B)))   \* (A+A2)B = AB + A2 B
              /\ (k > 0 => SameSeq(MatVec(m, GetCol(B, 0)), GetCol(MatMul(m, B), 0)))
        /\ \A i \in 0..(m.r - 1) : SameSeq(GetRow(m, i), GetCol(Transpose(m), i))
        /\ \A i \in 0..(m.r - 1) : DeleteRow(m, i).r = m.r - 1 /\ WellShaped(DeleteRow(m, i))
        /\ SameMat(Resize(Resize(m, m.r + 1, m.c + 1), m.r, m.c), m)
\* spec -> implementation: print each complete behaviour once
EmitCase == (Emit /\ Len(hist) = Depth) =>
              PrintT(<<"CASE", ToJson([init |-> m0, ops |-> hist])>>)
=============================================================================
