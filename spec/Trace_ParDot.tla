---------------------------- MODULE Trace_ParDot ----------------------------
(* Trace validation for Vector<f64>::dot_f64 (C16).  One event = one run of the real   *)
(* code under a given CPU affinity: the length, the worker count observed through      *)
(* num_cpus::get() in the same process (`nt`; `want` CPUs were allowed, `avail` exist),*)
(* the bit patterns of three repetitions (r1, r2, r3), of the sequential dot (d), and  *)
(* their integer projections (ri, di; 1073741823 if the value is not an integer).      *)
(* What ParDot.tla proves about every schedule (Deterministic, EachIndexOnce) is what   *)
(* is demanded of each run:                                                            *)
(*   pardot   (integer data, all products non-zero, partial sums exact)                *)
(*            r1 = r2 = r3 = d bit for bit; the value is the exact integer dot product *)
(*            - computed HERE from the logged operands (Dot), and equal to the value   *)
(*            of the model's final term ExpectedTerm(len, nt) on these operands;       *)
(*            for long vectors the operands are not logged and the harness's exact     *)
(*            integer (`exact`) is used;                                               *)
(*            `prev` (a run of the same data under a wider affinity / without load)    *)
(*            must be bit-identical too;                                               *)
(*            phase "alias": the SAME object was passed on both sides, x.dot_f64(&x)   *)
(*            (logged as y = x): same demands, and `two`, the two-object call          *)
(*            x.dot_f64(&x.clone()), must be bit-identical (also for general data);    *)
(*   pardot_f (general data) r1 = r2 = r3 bit for bit (same configuration), equal to   *)
(*            the sequential product and to a double-double reference up to            *)
(*            reassociation: at most 8 units of n * eps * sum|x_i y_i|.                *)
(*   pardot_inf (strictly positive finite data whose exact sum overflows) every call  *)
(*            returns +inf: up to reassociation nothing else is possible.              *)
(*   pardot_z (exact data whose products are signed zeros) the value is +0.0 bit for  *)
(*            bit: the definition accumulates from +0.0.                               *)
(* The chunk formula itself is not demanded (any in-order partition gives these        *)
(* values).  The observed worker count is a fact about the environment, not an output  *)
(* of the code: whether the affinity produced the requested count is accounted for by  *)
(* the driver (coverage), not judged here.                                             *)
EXTENDS TraceBase
VARIABLES l
vars == <<l>>

\* the static part of ParDot.tla (chunk rule, expected term); the machine's variables are not used here
P == INSTANCE ParDot WITH MaxLen <- 0, MaxThreads <- 1, Rule <- "code", JoinOrder <- "spawn",
                          len <- 0, nt <- 1, spawned <- 0, wpc <- <<>>, pos <- <<>>, acc <- <<>>, joined <- <<>>, result <- <<>>, mpc <- "done"

RECURSIVE DotFrom(_, _, _)
DotFrom(x, y, k) == IF k > Len(x) THEN 0 ELSE x[k] * y[k] + DotFrom(x, y, k + 1)
Dot(x, y) == DotFrom(x, y, 1)

\* (aliased calls on exact data are run once: their repetition is the two-object call `two`)
PlusInf == "7ff0000000000000"
PlusZeroBits == "0000000000000000"
Repeatable(e) == Has(e, "r2") => (e.r1 = e.r2 /\ e.r2 = e.r3)
WellFormed(e) == e.nt >= 1 /\ e.len >= 0
ExactValue(e) == IF Has(e, "x")
                   THEN /\ Len(e.x) = e.len /\ Len(e.y) = e.len
                        /\ \A k \in 1..e.len : e.x[k] * e.y[k] # 0
                        /\ e.ri = Dot(e.x, e.y)
                        /\ e.ri = P!EvalTerm(P!ExpectedTerm(e.len, e.nt), e.x, e.y)
                   ELSE e.ri = e.exact
Explained(e) ==
  CASE e.op = "pardot" -> /\ ~e.panic /\ Repeatable(e) /\ e.r1 = e.d /\ e.ri = e.di /\ ExactValue(e) /\ WellFormed(e)
                          /\ (Has(e, "prev") => e.prev = e.r1) /\ (Has(e, "two") => e.two = e.r1)
    [] e.op = "pardot_f" -> ~e.panic /\ Repeatable(e) /\ e.units <= 8 /\ e.uref <= 8 /\ WellFormed(e) /\ (Has(e, "two") => e.two = e.r1)
    \* strictly positive finite data, every single product finite, at least two products of about 1e308: the exact sum overflows,
    \* and so does every reassociation of it (partial sums of non-negative finite terms are non-negative or +inf, never NaN):
    \* the three repetitions, the sequential dot and the aliased calls are all +inf, bit for bit
    [] e.op = "pardot_inf" -> /\ ~e.panic /\ WellFormed(e) /\ e.allpos /\ e.prodfinite /\ e.nbig >= 2
                              /\ e.r1 = PlusInf /\ e.r2 = PlusInf /\ e.r3 = PlusInf /\ e.d = PlusInf
                              /\ (Has(e, "a1") => e.a1 = PlusInf /\ e.ad = PlusInf)
    \* exact data whose products are signed zeros (npos of them +0.0, nneg of them -0.0) and at most one non-zero product `val`:
    \* the sequential definition accumulates from +0.0 and +0.0 + (-0.0) = +0.0, so the value is +0.0 - or exactly val -
    \* as a BIT PATTERN, for the three repetitions and the sequential dot; the aliased call x.dot_f64(&x) (squares of signed
    \* zeros and small integers: exact) is bit-identical to x.dot(&x)
    [] e.op = "pardot_z" -> /\ ~e.panic /\ WellFormed(e) /\ e.npos + e.nneg + e.nnon = e.len /\ e.nnon <= 1
                            /\ e.r1 = e.r2 /\ e.r2 = e.r3 /\ e.r1 = e.d
                            /\ e.a1 = e.ad
                            /\ IF e.nnon = 0 THEN e.r1 = PlusZeroBits ELSE e.ri = e.val /\ e.val # 0
    \* thread shortage (the address space of a child process limited so that worker threads cannot be created): the call may
    \* fail (panic: no value) - but a value that IS returned equals the sequential product bit for bit (exact integer data)
    [] e.op = "pardot_s" -> ~e.returned \/ e.equal_bits
    \* a long vector of general data, `reps` calls under one configuration: ONE bit pattern (the partition and the order of the
    \* additions may not depend on the schedule), equal to the sequential product up to reassociation
    [] e.op = "pardot_r" -> ~e.panic /\ WellFormed(e) /\ e.reps >= 2 /\ e.distinct = 1 /\ e.units <= 8 /\ e.uref <= 8
    [] OTHER -> FALSE

Init == l = 1 /\ TLCSet(1, 0)
Step == /\ l <= NRec
        /\ LET e == Rec[l] IN IF Explained(e) THEN TRUE ELSE Mismatch(l, e, e.op)
        /\ l' = l + 1
Spec == Init /\ [][Step]_vars
=============================================================================
