SPECIFICATION Spec
CONSTANTS N = 2  Halves = FALSE  SavedOld = TRUE  Emit = TRUE
INVARIANTS EmitCase
CHECK_DEADLOCK FALSE
