SPECIFICATION Spec
CONSTANTS Mode = "det"  Scope = "quick"  Skip = TRUE  Emit = FALSE
INVARIANTS Inv_Det Inv_Inverse Inv_LU Inv_MultipliersBounded Inv_NonzeroPivot Inv_Bareiss Inv_Counts
CHECK_DEADLOCK TRUE
