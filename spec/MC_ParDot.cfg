SPECIFICATION Spec
CONSTANTS MaxLen = 12  MaxThreads = 6  Rule = "code"  JoinOrder = "spawn"  LemmaLen = 0  LemmaThreads = 1
INVARIANTS TypeOK Deterministic EachIndexOnce InBounds Disjoint
PROPERTY Terminates
CHECK_DEADLOCK FALSE
