INIT InitLemma
NEXT NextLemma
CONSTANTS MaxLen = 0  MaxThreads = 1  Rule = "code"  JoinOrder = "spawn"  LemmaLen = 200  LemmaThreads = 16
INVARIANTS Lemma
CHECK_DEADLOCK FALSE
