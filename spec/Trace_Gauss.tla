---------------------------- MODULE Trace_Gauss ----------------------------
(* Trace validation for Matrix::solve_basic / solve_lu (C01) and Matrix::determinant /  *)
(* inverse (C02).  Every event is one call of the real code.  There is no history: the  *)
(* only state is the cursor.  Events of a SEQUENCE on one Matrix object (queries         *)
(* interleaved with mutators, field k = step) carry the entries the object held at the  *)
(* moment of the call and are judged against those, like any other call.                *)
(*                                                                                      *)
(* Exact element type (ty = "rat"): the event carries the integer matrix, the integer   *)
(* right-hand side and the returned rationals as reduced pairs [n, d]; TLC decides      *)
(*   solve    : len = n and A*x = b exactly (cross-multiplied, Gauss!Solves); if the     *)
(*              case came from the model (field want) x is also the model's solution;   *)
(*   agree    : the two solvers returned the same vector;                               *)
(*   det      : the value is the fraction-free determinant recomputed here from the     *)
(*              logged matrix (and the model's Leibniz determinant, field wdet), and the *)
(*              matrix projected after the &self call equals the one before;            *)
(*   inverse  : A*X = I and X*A = I exactly, matrix unchanged.                          *)
(* Floating types (ty = "f64" / "cx"): the harness measures, in double-double           *)
(* arithmetic, the quantities below and logs them as integers; the BOUND is here:       *)
(*   solve    : units   = ceil(||b - A x||_inf / (eps (||A||_inf ||x||_inf + ||b||_inf)))  *)
(*              accepted iff units <= GeppGuard(n, complex);                            *)
(*   agree    : units   = ceil(||A (x1 - x2)||_inf / (eps (||A||_inf max||x_i||_inf + ||b||_inf))) *)
(*              accepted iff units <= 2 GeppGuard (triangle inequality on the residuals) *)
(*   det      : units   = ceil(|det^ - det| / (n eps ||A||_F^n)) <= GeppGuard            *)
(*              (|det(A+E) - det A| <= n ||E|| max(||A||, ||A+E||)^(n-1), E the LU backward  *)
(*              error); matrix bit patterns before = after;                             *)
(*   inverse  : runits  = ceil(max|A X - I| / (eps ||A||_inf max|X|)) <= GeppGuard         *)
(*              lunits  = ceil(max|X A - I| / (eps n ||A||_inf ||A||_1 max|X|^2)) <= GeppGuard *)
(*              (the left residual is (X - A^-1) A: it carries one condition number);   *)
(*              matrix bit patterns before = after.                                     *)
EXTENDS TraceBase, Gauss
VARIABLES l
vars == <<l>>

IsCx(e) == e.ty = "cx"
Guard(e) == GeppGuard(e.n, IsCx(e))
UnitsOk(u, g) == u >= 0 /\ u <= g

SolveOk(e) ==
  IF e.panic THEN FALSE
  ELSE IF e.ty = "rat"
    THEN /\ e.len = e.n                    \* checked BEFORE any x[k] is touched (the log holds at most n entries)
         /\ Len(e.x) = e.n
         /\ ExactSolution(e.a, e.x, e.b, e.n)
         /\ (Has(e, "want") => SameSeqs(e.x, e.want))
    ELSE /\ e.len = e.n
         /\ (Has(e, "units") \/ Has(e, "cunits"))
         /\ (Has(e, "units") => UnitsOk(e.units, Guard(e)))
         /\ (Has(e, "sunits") => UnitsOk(e.sunits, SharpGuard(e.n, IsCx(e))))
         \* componentwise: max_i |r_i| / (eps (|L||U||x|)_i); invariant under row / column scalings
         /\ (Has(e, "cunits") => UnitsOk(e.cunits, SharpGuard(e.n, IsCx(e))))
AgreeOk(e) ==
  IF e.panic THEN FALSE
  ELSE IF e.ty = "rat" THEN e.len1 = e.n /\ e.len2 = e.n /\ Len(e.x1) = e.n /\ SameSeqs(e.x1, e.x2)
  ELSE /\ (Has(e, "units") \/ Has(e, "cunits"))
       /\ (Has(e, "units") => UnitsOk(e.units, IF e.n > 8 THEN Guard(e) ELSE 2 * Guard(e)))
       /\ (Has(e, "sunits") => UnitsOk(e.sunits, 2 * SharpGuard(e.n, IsCx(e))))
       /\ (Has(e, "cunits") => UnitsOk(e.cunits, 2 * SharpGuard(e.n, IsCx(e))))
DetOkEv(e) ==
  IF e.panic THEN FALSE
  ELSE IF e.ty = "rat"
    THEN /\ ExactDeterminant(e.a, e.det, e.n)
         /\ (Has(e, "wdet") => e.det = <<e.wdet, 1>>)
         /\ SameIntMat(e.post, e.a)
    ELSE /\ (Has(e, "units") \/ Has(e, "sdunits"))
         /\ (Has(e, "units") => UnitsOk(e.units, Guard(e)))
         \* |det^ - det| in units of eps |det| tr(|A^-1| |L||U|): first-order perturbation bound, invariant under scalings
         /\ (Has(e, "sdunits") => UnitsOk(e.sdunits, SharpGuard(e.n, IsCx(e))))
         /\ SameSeqs(e.pre, e.post) /\ (IF e.n > 16 THEN Len(e.pre) = 1 ELSE Len(e.pre) = e.n * e.n)
         \* integer matrices: the exact reference determinant the harness measured against is recomputed here
         /\ (Has(e, "dex") => e.dex = Bareiss(RowsOf(e.a), e.n))
InverseOkEv(e) ==
  IF e.panic THEN FALSE
  ELSE IF e.ty = "rat"
    THEN ExactInverse(e.a, e.inv, e.n) /\ SameIntMat(e.post, e.a)
    ELSE /\ e.rows = e.n /\ e.cols = e.n
         /\ (Has(e, "runits") \/ Has(e, "crunits"))
         /\ (Has(e, "runits") => UnitsOk(e.runits, Guard(e)))
         /\ (Has(e, "srunits") => UnitsOk(e.srunits, SharpGuard(e.n, IsCx(e))))
         /\ (Has(e, "crunits") => UnitsOk(e.crunits, SharpGuard(e.n, IsCx(e))))
         \* the left residual is only logged when kappa_inf(A) <= 1e8 (it carries a condition number)
         /\ (Has(e, "lunits") => UnitsOk(e.lunits, Guard(e)))
         /\ SameSeqs(e.pre, e.post) /\ (IF e.n > 16 THEN Len(e.pre) = 1 ELSE Len(e.pre) = e.n * e.n)

Explained(e) ==
  CASE e.op = "solve" -> SolveOk(e)
    [] e.op = "agree" -> AgreeOk(e)
    [] e.op = "det" -> DetOkEv(e)
    [] e.op = "inverse" -> InverseOkEv(e)
    [] OTHER -> FALSE

Init == l = 1 /\ TLCSet(1, 0)
Step == /\ l <= NRec
        /\ LET e == Rec[l]
           IN IF Explained(e) THEN TRUE ELSE Mismatch(l, e, e.op)
        /\ l' = l + 1
Spec == Init /\ [][Step]_vars
=============================================================================
