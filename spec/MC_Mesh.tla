------------------------------ MODULE MC_Mesh ------------------------------
(* Design check and case generator for Mesh.tla (C19).  One TLC run covers several       *)
(* "modes" (a mode is chosen in Init, CONSTANT Modes selects which are explored):        *)
(*  store1/store2  a 1-D / 2-D mesh of every shape in Shapes1 / Shapes2, nv in NVs       *)
(*                 variables, under every history of <= Depth writes (set_nodes_vars with *)
(*                 every value vector over Vals incl. out-of-range / wrong-length ones,   *)
(*                 single-variable index writes, assign).  Every transition is checked    *)
(*                 against the read-after-write law through EVERY access path (RAW, an     *)
(*                 assertion in Next); every state against the quadrature laws (QuadSum), *)
(*                 the fresh mesh against Fresh (zeros through every path).               *)
(*  data1          every 1-D grid from Coords x every nodal data over Vals: interpolation *)
(*                 laws (nodal values at nodes, the linear interpolant between neighbours,*)
(*                 both cells agree at a shared node) at every point of the IScale-fold   *)
(*                 refined grid; trapezium = nodal-weight form (independent definition).  *)
(*  lin1 / lin2    every grid x every linear a+bx / bilinear a+bx+cy+dxy integrand with   *)
(*                 coefficients in Coefs: trapezium rule = closed-form integral.          *)
(*  data2          every 2-D grid with <= MaxData2 nodes x every data over Vals: cell sum *)
(*                 = tensor nodal-weight form; square_trapezium = trapezium of squares.   *)
(*  fine1 / fine2  grids with a fine part (nearly uniform grids): the split sums H + L/2^F of   *)
(*                 Mesh.tla equal the unsplit integer sums on the grid scaled by 2^K.     *)
(* With Emit = TRUE every final state prints one JSON case (spec -> implementation).     *)
EXTENDS Mesh, TLC, Json
CONSTANTS Coords, MaxN, NVs, LinNV, Shapes1, Shapes2, LawShapes2, Vals, Coefs, Depth, IScale, MaxData2, Modes, Emit, Positional
VARIABLES t, m, d, hist
vars == <<t, m, d, hist>>

MCCoords == {0, 1, 2, 4, 5}
MCVals == {0, 1, 3}
MCCoefs == {-1, 0, 2}
MCCoefsSmall == {-1, 2}
MCCoefsBig == {-2, 0, 1, 3}
\* shape sets for the configurations (tuples cannot be written in .cfg files)
AllShapes(n) == {<<a, b>> : a \in 2..n, b \in 2..n}
NonSquare(n) == {p \in AllShapes(n) : p[1] # p[2]}
ShapesAll4 == AllShapes(4)
ShapesAll3 == AllShapes(3)
ShapesNonSq4 == NonSquare(4)
ShapesNonSq3 == NonSquare(3)
Nodes24 == 2..4
Nodes23 == 2..3

(* ---------------------------------------------------------------- helpers *)
RECURSIVE SumSeq(_)
SumSeq(s) == IF s = <<>> THEN 0 ELSE Head(s) + SumSeq(Tail(s))
Grids(n) == {s \in [1..n -> Coords] : \A k \in 1..(n - 1) : s[k] < s[k + 1]}
AllGrids == UNION {Grids(n) : n \in 2..MaxN}
\* non-uniform canonical grids for the store modes (only the shape matters there)
CanonX(n) == SubSeq(<<0, 1, 4, 5>>, 1, n)
CanonY(n) == SubSeq(<<1, 2, 4, 5>>, 1, n)
Is2(M) == "yn" \in DOMAIN M

Op(name) == [op |-> name, i |-> 0, j |-> 0, var |-> 0, x |-> 0, v |-> <<>>]
\* value vectors written at step number s (1-based): all of Vals^nv, or one position-dependent vector
ValVecs(nv, s) == IF Positional THEN {[v \in 1..nv |-> IF (v + s) % 2 = 0 THEN 1 ELSE 3]} ELSE [1..nv -> Vals]
OneVal(s) == IF s % 2 = 0 THEN 1 ELSE 3
Bad(nv) == [v \in 1..(nv + 1) |-> 1]          \* wrong length

Ops2(M, s) ==
       {[Op("set") EXCEPT !.i = i, !.j = j, !.v = v] : i \in 0..(NX(M) - 1), j \in 0..(NY(M) - 1), v \in ValVecs(M.nv, s)}
  \cup {[Op("set") EXCEPT !.i = 0, !.j = NY(M), !.v = [v \in 1..M.nv |-> 1]]}         \* out of range in y (aliases (1,0) row-major)
  \cup (IF Positional THEN {} ELSE
        {[Op("set") EXCEPT !.i = NX(M), !.j = 0, !.v = [v \in 1..M.nv |-> 1]],         \* out of range in x
         [Op("set") EXCEPT !.i = 0, !.j = 0, !.v = Bad(M.nv)]})                       \* wrong length
  \cup UNION {{[Op("iset") EXCEPT !.i = p[1], !.j = p[2], !.var = k, !.x = OneVal(s)] :
                   k \in IF Positional THEN {(p[1] + p[2] + s) % M.nv} ELSE 0..(M.nv - 1)} :
               p \in (0..(NX(M) - 1)) \X (0..(NY(M) - 1))}
  \cup (IF Positional THEN {[Op("assign") EXCEPT !.x = OneVal(s + 1)]} ELSE {[Op("assign") EXCEPT !.x = x] : x \in Vals})
Ops1(M, s) ==
       {[Op("set") EXCEPT !.i = i, !.v = v] : i \in 0..(N1(M) - 1), v \in ValVecs(M.nv, s)}
  \cup {[Op("set") EXCEPT !.i = N1(M), !.v = [v \in 1..M.nv |-> 1]]}
  \cup (IF Positional THEN {} ELSE {[Op("set") EXCEPT !.i = 0, !.v = Bad(M.nv)]})
  \cup UNION {{[Op("iset") EXCEPT !.i = i, !.var = k, !.x = OneVal(s)] :
                   k \in IF Positional THEN {(i + s) % M.nv} ELSE 0..(M.nv - 1)} : i \in 0..(N1(M) - 1)}

\* the transition function of the model (rejected writes leave the mesh unchanged)
Write2(M, o) == CASE o.op = "set" -> IF Acc_Set2(M, o.i, o.j, o.v) THEN Set2(M, o.i, o.j, o.v) ELSE M
                  [] o.op = "iset" -> SetVar2(M, o.i, o.j, o.var, o.x)
                  [] o.op = "assign" -> Assign2(M, o.x)
Write1(M, o) == CASE o.op = "set" -> IF Acc_Set1(M, o.i, o.v) THEN Set1(M, o.i, o.v) ELSE M
                  [] o.op = "iset" -> SetVar1(M, o.i, o.var, o.x)

(* ---------------------------------------------------------------- read-after-write through every access path *)
\* what a read of node (a, b) must return after operation o on M -- stated without the model's write operators
Expect2(M, o, a, b) ==
  CASE o.op = "set" -> IF o.i \in 0..(NX(M) - 1) /\ o.j \in 0..(NY(M) - 1) /\ Len(o.v) = M.nv /\ a = o.i /\ b = o.j
                         THEN o.v ELSE Get2(M, a, b)
    [] o.op = "iset" -> [v \in 1..M.nv |-> IF a = o.i /\ b = o.j /\ v = o.var + 1 THEN o.x ELSE Get2(M, a, b)[v]]
    [] o.op = "assign" -> [v \in 1..M.nv |-> o.x]
Expect1(M, o, a) ==
  CASE o.op = "set" -> IF o.i \in 0..(N1(M) - 1) /\ Len(o.v) = M.nv /\ a = o.i THEN o.v ELSE Get1(M, a)
    [] o.op = "iset" -> [v \in 1..M.nv |-> IF a = o.i /\ v = o.var + 1 THEN o.x ELSE Get1(M, a)[v]]
\* every access path, compared with the expectation: direct reads and index node by node, the cross-sections
\* and the variable matrices as wholes (cost linear in the size of the store)
RAW2(M, o, M2) ==
  /\ WellFormed2(M2) /\ M2.xn = M.xn /\ M2.yn = M.yn /\ M2.nv = M.nv
  /\ \A a \in 0..(NX(M) - 1), b \in 0..(NY(M) - 1) : Get2(M2, a, b) = Expect2(M, o, a, b) /\ Index2(M2, a, b) = Expect2(M, o, a, b)
  /\ \A a \in 0..(NX(M) - 1) : LET S == XsecX(M2, a)
                               IN /\ S.xn = M.yn /\ S.nv = M.nv /\ WellFormed1(S)
                                  /\ \A b \in 0..(NY(M) - 1) : Get1(S, b) = Expect2(M, o, a, b) /\ Index1(S, b) = Expect2(M, o, a, b)
  /\ \A b \in 0..(NY(M) - 1) : LET S == XsecY(M2, b)
                               IN /\ S.xn = M.xn /\ S.nv = M.nv /\ WellFormed1(S)
                                  /\ \A a \in 0..(NX(M) - 1) : Get1(S, a) = Expect2(M, o, a, b) /\ Index1(S, a) = Expect2(M, o, a, b)
  /\ \A v \in 0..(M.nv - 1) : LET A == VarAsMatrix(M2, v)
                              IN /\ A.r = NX(M) /\ A.c = NY(M) /\ Len(A.d) = NX(M) * NY(M)
                                 /\ \A a \in 0..(NX(M) - 1), b \in 0..(NY(M) - 1) : A.d[a * NY(M) + b + 1] = Expect2(M, o, a, b)[v + 1]
RAW1(M, o, M2) == /\ WellFormed1(M2) /\ M2.xn = M.xn /\ M2.nv = M.nv
                  /\ \A a \in 0..(N1(M) - 1) : Get1(M2, a) = Expect1(M, o, a) /\ Index1(M2, a) = Expect1(M, o, a)
\* a fresh mesh returns zeros through every path (a write that does nothing is a special case of RAW)
NoOp == [Op("set") EXCEPT !.i = -1]

(* ---------------------------------------------------------------- quadrature: independent definitions *)
\* nodal weights (doubled): w_k = x_{k+1} - x_{k-1}, one-sided at the ends
W(xn, k) == (IF k < Len(xn) THEN xn[k + 1] ELSE xn[k]) - (IF k > 1 THEN xn[k - 1] ELSE xn[k])
Trap1W(M, var) == SumSeq([k \in 1..N1(M) |-> W(M.xn, k) * M.vars[k][var + 1]])
Trap2W(M, var) == SumSeq([n \in 1..(NX(M) * NY(M)) |->
                     LET i == ((n - 1) \div NY(M)) + 1
                         j == ((n - 1) % NY(M)) + 1
                     IN W(M.xn, i) * W(M.yn, j) * M.vars[i][j][var + 1]])
\* closed forms: 2 * int (a + b x) dx  and  4 * int int (a + b x + c y + e x y) dx dy
Len1(xn) == xn[Len(xn)] - xn[1]
Sq1(xn) == xn[Len(xn)] * xn[Len(xn)] - xn[1] * xn[1]
LinInt1x2(xn, a, b) == 2 * a * Len1(xn) + b * Sq1(xn)
BilInt2x4(xn, yn, a, b, c, e) == 4 * a * Len1(xn) * Len1(yn) + 2 * b * Sq1(xn) * Len1(yn)
                                 + 2 * c * Len1(xn) * Sq1(yn) + e * Sq1(xn) * Sq1(yn)
QuadLaws1(M) == \A k \in 0..(M.nv - 1) : Trap1x2(M, k) = Trap1W(M, k)
QuadLaws2(M) == \A k \in 0..(M.nv - 1) :
                   /\ Trap2x4(M, k) = Trap2W(M, k)
                   /\ SqTrap2x4(M, k) = Trap2W(Squared2(M), k)
                   /\ SqTrap2x4(M, k) >= 0
                   \* iterated form: the 2-D rule is the 1-D rule applied to the 1-D rules of the cross-sections
                   /\ Trap2x4(M, k) = Trap1x2([xn |-> M.xn, nv |-> 1,
                                          vars |-> [i \in 1..NX(M) |-> <<Trap1x2(XsecX(M, i - 1), k)>>]], 0)

(* ---------------------------------------------------------------- interpolation laws *)
ILog == CHOOSE r \in 0..10 : 2 ^ r = IScale
InterpLaws(M0) ==
  LET M == Refine1(M0, IScale)
  IN \A P \in (M.xn[1])..(M.xn[N1(M)]) :
       /\ Cells(M.xn, P) # {}
       /\ \A k \in Cells(M.xn, P) : \A v \in 1..M.nv :
            LET r == InterpCell(M, k, P)[v]
                xl == M.xn[k + 1]
                xr == M.xn[k + 2]
                vl == M.vars[k + 1][v]
                vr == M.vars[k + 2][v]
            IN /\ IsRat(r)
               /\ r[1] * (xr - xl) = (vl * (xr - P) + vr * (P - xl)) * r[2]       \* the linear interpolant, cross-multiplied
               /\ (P = xl => r = <<vl, 1>>) /\ (P = xr => r = <<vr, 1>>)           \* nodal values at the nodes
               /\ r = Interp1(M, P)[v]                                             \* whichever cell the search takes
       \* the node-relative form (InterpOff on the UNREFINED mesh) gives the same value
       /\ \A k \in 0..(N1(M0) - 1) :
            LET s == P - M.xn[k + 1]
                c == OffCell(M0, k, s)
            IN (M.xn[c + 1] <= P /\ P <= M.xn[c + 2]) => InterpOff(M0, k, s, ILog) = Interp1(M, P)
       /\ (\E k \in 1..N1(M) : P = M.xn[k]) =>
             \A k \in 1..N1(M) : P = M.xn[k] => Interp1(M, P) = [v \in 1..M.nv |-> <<M.vars[k][v], 1>>]

(* ---------------------------------------------------------------- the machine *)
T(mode, co, stage) == [mode |-> mode, co |-> co, stage |-> stage]
Zero4 == <<0, 0, 0, 0>>
Perm(x) == IF x = 0 THEN 3 ELSE IF x = 1 THEN 0 ELSE 1      \* second variable of the data modes
Bil(co, X, Y) == co[1] + co[2] * X + co[3] * Y + co[4] * X * Y
CoTuples == IF Positional THEN {<<0, 0, 0, 1>>, <<2, -1, 3, -2>>}
            ELSE {<<a, b, c, e>> : a \in Coefs, b \in Coefs, c \in Coefs, e \in Coefs}
\* nodal data of the data1 mode: everything over Vals, or (case generation) two patterns per grid
Cyc(k) == IF k % 3 = 1 THEN 1 ELSE IF k % 3 = 2 THEN 3 ELSE 0
DataFns(n) == IF Positional THEN {[k \in 1..n |-> Cyc(k)], [k \in 1..n |-> Cyc(n + 2 - k)]} ELSE [1..n -> Vals]
CoPairs == IF Positional THEN {<<1, 0, 0, 0>>, <<-3, 2, 0, 0>>}
           ELSE {<<a, b, 0, 0>> : a \in Coefs, b \in Coefs}

\* The law modes enumerate their cases in stages (x-grid in Init, then y-grid, then data), so that
\* TLC's workers share the enumeration; stage 2 states are the cases.  Store modes are always at stage 2.
Init ==
  /\ hist = <<>>
  /\ \/ /\ "store2" \in Modes /\ d = 0 /\ t = T("store2", Zero4, 2)
        /\ \E sh \in Shapes2, nv \in NVs : m = New2(CanonX(sh[1]), CanonY(sh[2]), nv)
     \/ /\ "store1" \in Modes /\ d = 0 /\ t = T("store1", Zero4, 2)
        /\ \E nx \in Shapes1, nv \in NVs : m = New1(CanonX(nx), nv)
     \/ /\ d = Depth
        /\ \E mode \in Modes \cap {"data1", "lin1", "data2", "lin2", "fine1", "fine2"} : t = T(mode, Zero4, 0)
        /\ \E xn \in AllGrids : m = New1(xn, 1)

NextStore == /\ d < Depth /\ t.stage = 2
             /\ \/ /\ t.mode = "store2"
                   /\ \E o \in Ops2(m, d + 1) :
                         /\ m' = Write2(m, o)
                         /\ Assert(RAW2(m, o, m'), <<"read-after-write law broken", m, o>>)
                         /\ hist' = Append(hist, o)
                \/ /\ t.mode = "store1"
                   /\ \E o \in Ops1(m, d + 1) :
                         /\ m' = Write1(m, o)
                         /\ Assert(RAW1(m, o, m'), <<"read-after-write law broken", m, o>>)
                         /\ hist' = Append(hist, o)
             /\ d' = d + 1 /\ t' = t
NextLaw == /\ t.stage < 2 /\ UNCHANGED <<d, hist>>
           /\ \/ /\ t.mode = "data1" /\ t.stage = 0 /\ t' = [t EXCEPT !.stage = 2]
                 /\ \E nv \in NVs : \E f \in DataFns(N1(m)) :
                       m' = [xn |-> m.xn, nv |-> nv, vars |-> [k \in 1..N1(m) |-> [v \in 1..nv |-> IF v = 1 THEN f[k] ELSE Perm(f[k])]]]
              \/ /\ t.mode = "lin1" /\ t.stage = 0
                 /\ \E nv \in NVs, co \in CoPairs :
                       /\ t' = [t EXCEPT !.stage = 2, !.co = co]
                       /\ m' = [xn |-> m.xn, nv |-> nv, vars |-> [k \in 1..N1(m) |-> [v \in 1..nv |-> IF v = nv THEN co[1] + co[2] * m.xn[k] ELSE 0]]]
              \/ /\ t.mode \in {"data2", "lin2"} /\ t.stage = 0 /\ t' = [t EXCEPT !.stage = 1]
                 /\ \E yn \in AllGrids : /\ <<Len(m.xn), Len(yn)>> \in LawShapes2
                                         /\ (t.mode = "data2" => Len(m.xn) * Len(yn) <= MaxData2)
                                         /\ m' = New2(m.xn, yn, 1)
              \/ /\ t.mode = "data2" /\ t.stage = 1 /\ t' = [t EXCEPT !.stage = 2]
                 /\ \E f \in [1..NX(m) -> [1..NY(m) -> Vals]] :
                       m' = [m EXCEPT !.vars = [i \in 1..NX(m) |-> [j \in 1..NY(m) |-> <<f[i][j]>>]]]
              \/ /\ t.mode = "lin2" /\ t.stage = 1
                 /\ \E nv \in LinNV, co \in CoTuples :
                       /\ t' = [t EXCEPT !.stage = 2, !.co = co]
                       /\ m' = Apply2(New2(m.xn, m.yn, nv), LAMBDA X, Y : Bil(co, X, Y), nv - 1)
\* grids with a fine part (Mesh.tla, Split): fine numerators from a few patterns, K in 0..3, data with both signs
FinePats(n) == {[k \in 1..n |-> 0], [k \in 1..n |-> k % 2], [k \in 1..n |-> (3 * k) % 4]}
FineKs == 0..3
NextFine == /\ t.stage < 2 /\ UNCHANGED <<d, hist>>
            /\ \/ /\ t.mode = "fine1" /\ t.stage = 0 /\ t' = [t EXCEPT !.stage = 2]
                  /\ \E k \in FineKs, f \in FinePats(N1(m)) :
                        m' = [xn |-> m.xn, xf |-> f, kx |-> k, nv |-> 2,
                              vars |-> [i \in 1..N1(m) |-> <<Cyc(i), Cyc(i) - 2>>]]
               \/ /\ t.mode = "fine2" /\ t.stage = 0 /\ t' = [t EXCEPT !.stage = 1]
                  /\ \E yn \in AllGrids : /\ Len(m.xn) * Len(yn) <= MaxData2
                                          /\ m' = New2(m.xn, yn, 1)
               \/ /\ t.mode = "fine2" /\ t.stage = 1 /\ t' = [t EXCEPT !.stage = 2]
                  /\ \E k1 \in FineKs, k2 \in FineKs, f \in FinePats(NX(m)), g \in FinePats(NY(m)) :
                        m' = [xn |-> m.xn, yn |-> m.yn, xf |-> f, yf |-> g, kx |-> k1, ky |-> k2, nv |-> 2,
                              vars |-> [i \in 1..NX(m) |-> [j \in 1..NY(m) |-> <<Cyc(i + j), i + 2 * j - 4>>]]]
Next == NextStore \/ NextLaw \/ NextFine
Spec == Init /\ [][Next]_vars
View == <<t, m, d>>

(* ---------------------------------------------------------------- invariants *)
IsStore == t.mode \in {"store1", "store2"}
Shape == IsStore => IF Is2(m) THEN WellFormed2(m) ELSE WellFormed1(m)
\* a fresh mesh returns zeros through every access path (afterwards: RAW on every transition)
Fresh == (IsStore /\ d = 0) => IF Is2(m) THEN RAW2(m, NoOp, m) /\ m = New2(m.xn, m.yn, m.nv)
                                        ELSE RAW1(m, NoOp, m) /\ m = New1(m.xn, m.nv)
QuadSum == IF Is2(m) THEN QuadLaws2(m) ELSE QuadLaws1(m)
Interp == (t.mode = "data1" /\ t.stage = 2) => InterpLaws(m)
\* the model-level theorem: the trapezium rule is exact for linear / bilinear integrands
LinExact == /\ (t.mode = "lin1" /\ t.stage = 2) => /\ Trap1x2(m, m.nv - 1) = LinInt1x2(m.xn, t.co[1], t.co[2])
                                    /\ \A k \in 0..(m.nv - 2) : Trap1x2(m, k) = 0
            /\ (t.mode = "lin2" /\ t.stage = 2) => /\ Trap2x4(m, m.nv - 1) = BilInt2x4(m.xn, m.yn, t.co[1], t.co[2], t.co[3], t.co[4])
                                    /\ \A k \in 0..(m.nv - 2) : Trap2x4(m, k) = 0
                                    /\ \A a \in 0..(NX(m) - 1), b \in 0..(NY(m) - 1) :
                                          Get2(m, a, b)[m.nv] = Bil(t.co, m.xn[a + 1], m.yn[b + 1])
\* the split result H + L / 2^F of the fine-grid sums equals the unsplit sum on the grid scaled by 2^K
Unsplit(xn, xf, k) == [i \in 1..Len(xn) |-> xn[i] * (2 ^ k) + xf[i]]
FineLaws ==
  /\ (t.mode = "fine1" /\ t.stage = 2) =>
        \A v \in 0..(m.nv - 1) : LET HL == Trap1x2F(m, v)
                                  IN /\ 0 <= HL[2] /\ HL[2] < 2 ^ m.kx
                                     /\ Trap1x2([m EXCEPT !.xn = Unsplit(m.xn, m.xf, m.kx)], v) = HL[1] * (2 ^ m.kx) + HL[2]
  /\ (t.mode = "fine2" /\ t.stage = 2) =>
        LET U == [m EXCEPT !.xn = Unsplit(m.xn, m.xf, m.kx), !.yn = Unsplit(m.yn, m.yf, m.ky)]
            F == 2 ^ (m.kx + m.ky)
        IN \A v \in 0..(m.nv - 1) :
              LET HL == Trap2x4F(m, v)
                  SQ == SqTrap2x4F(m, v)
              IN /\ 0 <= HL[2] /\ HL[2] < F /\ Trap2x4(U, v) = HL[1] * F + HL[2]
                 /\ 0 <= SQ[2] /\ SQ[2] < F /\ SqTrap2x4(U, v) = SQ[1] * F + SQ[2]
\* spec -> implementation: one case per final state
EmitCase == (Emit /\ d = Depth /\ t.stage = 2) =>
              PrintT(<<"CASE", ToJson([mode |-> t.mode, co |-> t.co, xn |-> m.xn, yn |-> IF Is2(m) THEN m.yn ELSE <<>>,
                                       nv |-> m.nv, vars |-> m.vars, ops |-> hist])>>)
=============================================================================
