SPECIFICATION Spec
CONSTANTS
  NA = 2
  MaxVec = 4
  MaxMat = 3
  MaxTri = 3
  MaxBandN = 3
  MaxBandM = 2
  MaxPoly = 4
  MaxM1 = 2
  MaxM2 = 2
  Emit = FALSE
  Pairwise = FALSE
INVARIANTS Count Inverse Views
CHECK_DEADLOCK FALSE
