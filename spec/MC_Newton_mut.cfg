SPECIFICATION Spec
CONSTANTS MaxN = 2  MaxLimit = 3  Emit = FALSE  MutatesGuess = TRUE
VIEW View
INVARIANTS TypeOK IterBound Idempotent
CHECK_DEADLOCK FALSE
