--------------------------- MODULE Trace_PolyDiv ---------------------------
(* Trace validation for Polynomial::polydiv (C12).                                      *)
(*  kind "exact" (Polynomial<Rat>, and f64 inputs whose whole computation is exact):   *)
(*     u, v, q, r are lists of reduced rationals [n, d]; TLC checks u = q*v + r and    *)
(*     the degree condition exactly, and that (q, r) equal the result of the division  *)
(*     machine of PolyDiv.tla (repaired code, exact arithmetic) as polynomials.        *)
(*  kind "gexact" (Complex<f64> on Gaussian integers, leading coefficient of v a unit  *)
(*     1, -1, i, -i): u, v, q, r as real / imaginary integer lists; the same identity  *)
(*     and degree condition over Gaussian integers (Poly.tla C... operators).          *)
(*  kind "float" (general f64, Complex<f64>): the harness measures, in double-double,  *)
(*     id_units = ||u - (q*v + r)||inf / (eps * (||u||inf + ||q||1 * ||v||inf));       *)
(*     the guard 16 * (deg u + 1) is stated here.                                      *)
(* Empty or all-zero divisor: Err, no panic.  A divisor whose leading coefficient is   *)
(* zero without being the zero polynomial is outside the property: anything accepted.  *)
EXTENDS TraceBase, Poly
VARIABLES l
vars == <<l>>
D == INSTANCE PolyDiv WITH Rounding <- FALSE, DropLeadingTerm <- TRUE, Cap <- 1000

IdGuard(degu) == 16 * (degu + 1)

ExactOK(e) ==
  IF D!ZeroDivisor(e.v) THEN ~e.panic /\ ~e.ok
  ELSE IF ~D!LeadNonzero(e.v) THEN TRUE
  ELSE /\ ~e.panic /\ e.ok /\ e.fits
       /\ (Has(e, "synced") => e.synced)         \* sequences on one object: its coefficients are the current ones
       /\ D!Identity(e.u, e.v, e.q, e.r)
       /\ D!RemainderOK(e.v, e.r)
       /\ LET f == D!DivRun(e.u, e.v) IN f.pc = "ok" /\ QSame(f.q, e.q) /\ QSame(f.r, e.r) /\ f.count <= D!StepLimit(e.u, e.v)

FloatOK(e) ==
  IF e.zerodiv THEN ~e.panic /\ ~e.ok
  ELSE IF ~e.lead_nz THEN TRUE
  ELSE /\ ~e.panic /\ e.ok
       /\ (e.rzero \/ e.degr < e.degv)
       /\ e.id_units <= IdGuard(e.degu)

\* Complex<f64> on Gaussian-integer data with a unit leading coefficient of v: exact, checked over Gaussian integers
GExactOK(e) ==
  LET gU == CP(e.u, e.ui)  gV == CP(e.v, e.vi)  gQ == CP(e.q, e.qi)  gR == CP(e.r, e.ri) IN
  IF CLen(gV) = 0 \/ CIsZero(gV) THEN ~e.panic /\ ~e.ok
  ELSE IF CAt(gV, CLen(gV)) = GZ THEN TRUE
  ELSE /\ ~e.panic /\ e.ok /\ e.fits /\ CWell(gQ) /\ CWell(gR)
       /\ CSame(gU, CAdd(CMul(gQ, gV), gR))
       /\ (CLen(gR) = 0 \/ CIsZero(gR) \/ CTrimLen(gR) < CTrimLen(gV))

Explained(e) == CASE e.op = "polydiv" /\ e.kind = "exact" -> ExactOK(e)
                  [] e.op = "polydiv" /\ e.kind = "gexact" -> GExactOK(e)
                  [] e.op = "polydiv" /\ e.kind = "float" -> FloatOK(e)
                  \* is_zero() of the object inside a sequence (the zero-ness of a divisor decides between Err and Ok)
                  [] e.op = "is_zero" -> ~e.panic /\ e.b = QIsZero(e.u)
                  [] OTHER -> FALSE

Init == l = 1 /\ TLCSet(1, 0)
Step == /\ l <= NRec
        /\ LET e == Rec[l] IN IF Explained(e) THEN TRUE ELSE Mismatch(l, e, e.kind)
        /\ l' = l + 1
Spec == Init /\ [][Step]_vars
=============================================================================
