SPECIFICATION Spec
CONSTANTS MaxN = 6  MaxLimit = 12  Emit = FALSE  MutatesGuess = FALSE
VIEW View
INVARIANTS TypeOK IterBound EvalsBound OkOnlyAfterMet ErrOnlyExhausted ErrCarriesLast ZeroLimit CfgUnchanged Idempotent OutcomeLaw ProjectionLemma PrefixClosure
CHECK_DEADLOCK FALSE
