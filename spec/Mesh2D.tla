------------------------------- MODULE Mesh2D -------------------------------
(* ohsl::Mesh2D<T> as a mathematical value (X01), written from the documentation of    *)
(* src/mesh2d.rs and the textbook definitions - the whole public surface of the type.  *)
(*                                                                                     *)
(*   mesh  = [cx, xn, yn, nv, vars]                                                    *)
(*     cx    element type: FALSE = f64 (a value is an integer), TRUE = Complex<f64>    *)
(*           (a value is a pair <<re, im>> of integers).  Apart from the zero of `new` *)
(*           and the quadratures (f64 only) no operation looks inside a value.         *)
(*     xn,yn the node vectors (integers: numerators over the case's denominators);     *)
(*           ANY two vectors are accepted by the constructor, also empty ones          *)
(*     nv    number of variables per node                                              *)
(*     vars  the store: the function (i, j, v) |-> value as vars[i+1][j+1][v+1]        *)
(*                                                                                     *)
(* Node / variable indices are 0-based like the implementation.  A quadrature is       *)
(* stated times 4 (so that it is an integer): MTrap4 = 4 * trapezium.                  *)
(* A 1-D mesh (cross-sections) is [cx, xn, nv, vars] with vars[k+1][v+1].              *)
(* A matrix (var_as_matrix) is the framework's [r, c, d row-major] of Dense.tla.       *)
(* A file (output, output_var) is the sequence of its lines, a line the sequence of    *)
(* the numbers printed on it (a blank line is <<>>); how a number or a complex pair is *)
(* typeset is not modelled here (Trace_Mesh2D states what is demanded of the digits).  *)
EXTENDS Dense

(* ---------------------------------------------------------------- construction *)
MZero(cx) == IF cx THEN <<0, 0>> ELSE 0
MNX(M) == Len(M.xn)
MNY(M) == Len(M.yn)
\* new( x_nodes, y_nodes, nvars ): every variable at every node is zero
MNew(cx, xn, yn, nv) ==
  [cx |-> cx, xn |-> xn, yn |-> yn, nv |-> nv,
   vars |-> [i \in 1..Len(xn) |-> [j \in 1..Len(yn) |-> [v \in 1..nv |-> MZero(cx)]]]]
MIsVal(cx, x) == IF cx THEN Len(x) = 2 ELSE TRUE
MWellFormed(M) == /\ M.nv >= 0 /\ Len(M.vars) = MNX(M)
                  /\ \A i \in 1..Len(M.vars) :
                       /\ Len(M.vars[i]) = MNY(M)
                       /\ \A j \in 1..Len(M.vars[i]) :
                            /\ Len(M.vars[i][j]) = M.nv
                            /\ \A v \in 1..M.nv : MIsVal(M.cx, M.vars[i][j][v])
\* the shape of a store (what a logged store must have before it is compared entry by entry)
MShapeOK(M, V) == /\ Len(V) = MNX(M)
                  /\ \A i \in 1..Len(V) : /\ Len(V[i]) = MNY(M)
                                          /\ \A j \in 1..Len(V[i]) : Len(V[i][j]) = M.nv

(* ---------------------------------------------------------------- sizes and coordinates *)
MNVars(M) == M.nv                                     \* nvars()
MNNodes(M) == <<MNX(M), MNY(M)>>                      \* nnodes()
MInNode(M, i, j) == 0 <= i /\ i < MNX(M) /\ 0 <= j /\ j < MNY(M)
MInX(M, i) == 0 <= i /\ i < MNX(M)
MInY(M, j) == 0 <= j /\ j < MNY(M)
MInVar(M, var) == 0 <= var /\ var < M.nv
MCoord(M, i, j) == <<M.xn[i + 1], M.yn[j + 1]>>       \* coord( nodex, nodey )
MXNodes(M) == M.xn                                    \* xnodes()
MYNodes(M) == M.yn                                    \* ynodes()

(* ---------------------------------------------------------------- the store *)
\* set_nodes_vars( nodex, nodey, vec ): documented to reject a node out of range and a vector of the wrong length
MAccSet(M, i, j, vec) == MInNode(M, i, j) /\ Len(vec) = M.nv
MSet(M, i, j, vec) == [M EXCEPT !.vars[i + 1][j + 1] = vec]
MGet(M, i, j) == M.vars[i + 1][j + 1]                 \* get_nodes_vars( nodex, nodey )
MIndex(M, i, j) == M.vars[i + 1][j + 1]               \* mesh[(i, j)]
MSetEntry(M, i, j, var, x) == [M EXCEPT !.vars[i + 1][j + 1][var + 1] = x]      \* mesh[(i, j)][var] = x
\* assign( element ): every variable at every node
MAssign(M, x) == [M EXCEPT !.vars = [i \in 1..MNX(M) |-> [j \in 1..MNY(M) |-> [v \in 1..M.nv |-> x]]]]
\* apply( func, var ): variable `var` at node (i, j) becomes func( x_i, y_j ); every other variable keeps its value
MApply(M, F(_, _), var) ==
  [M EXCEPT !.vars = [i \in 1..MNX(M) |-> [j \in 1..MNY(M) |->
                        [v \in 1..M.nv |-> IF v = var + 1 THEN F(M.xn[i], M.yn[j]) ELSE M.vars[i][j][v]]]]]

\* the functions applied by the model checker and the harness: polynomials co[1] + co[2] x + co[3] y + co[4] xy + co[5] x^2 + co[6] y^2
\* with integer coefficients (a complex function is a pair of them)
MPoly(co, X, Y) == co[1] + co[2] * X + co[3] * Y + co[4] * X * Y + co[5] * X * X + co[6] * Y * Y
MFunVal(cx, co, coi, X, Y) == IF cx THEN <<MPoly(co, X, Y), MPoly(coi, X, Y)>> ELSE MPoly(co, X, Y)

(* ---------------------------------------------------------------- views *)
\* cross_section_xnode( nodex ): the 1-D mesh over the y-nodes holding the variables of the nodes (nodex, .)
MXsecX(M, i) == [cx |-> M.cx, xn |-> M.yn, nv |-> M.nv, vars |-> [j \in 1..MNY(M) |-> MGet(M, i, j - 1)]]
\* cross_section_ynode( nodey ): the 1-D mesh over the x-nodes holding the variables of the nodes (., nodey)
MXsecY(M, j) == [cx |-> M.cx, xn |-> M.xn, nv |-> M.nv, vars |-> [i \in 1..MNX(M) |-> MGet(M, i - 1, j)]]
\* var_as_matrix( var ): the nx x ny matrix whose (i, j) entry is variable var at node (i, j)
MVarMatrix(M, var) == Mk(MNX(M), MNY(M), LAMBDA i, j : MGet(M, i, j)[var + 1])

(* ---------------------------------------------------------------- storage layout *)
(* The implementation keeps the node vectors in ONE array, node (i, j) in slot i * ny + j.  The layout is not     *)
(* visible through in-range calls; what IS required of any layout is that it is a bijection between the nodes     *)
(* and the slots 0 .. nx*ny - 1 (no two nodes share a slot: a write to one node never shows at another).  MC_Mesh2D *)
(* checks that for this addressing scheme and that the flat store refines the function (i, j) |-> vars.           *)
MSlot(M, i, j) == i * MNY(M) + j
MNodeOfSlot(M, s) == <<s \div MNY(M), s % MNY(M)>>             \* needs ny > 0
MScalarSlot(M, i, j, v) == MSlot(M, i, j) * M.nv + v           \* position of (i, j, v) in the array of scalars
MFlat(M) == [s \in 1..(MNX(M) * MNY(M)) |-> MGet(M, (s - 1) \div MNY(M), (s - 1) % MNY(M))]
MUnflat(M, flat) == [M EXCEPT !.vars = [i \in 1..MNX(M) |-> [j \in 1..MNY(M) |-> flat[MSlot(M, i - 1, j - 1) + 1]]]]

(* ---------------------------------------------------------------- quadrature (f64 meshes) *)
(* The composite trapezium rule on the partition x_0 .. x_{n-1} with samples g_0 .. g_{n-1}:                      *)
(*     T(g) = sum_{k=0}^{n-2} (x_{k+1} - x_k) * (g_k + g_{k+1}) / 2                                               *)
(* (the empty sum, 0, for fewer than two nodes).  Over the product grid the integral is the iterated integral:   *)
(* the x-rule applied to the y-rules of the cross-sections.  Trap1x2 = 2 T, MTrap4 = 4 * (2-D rule).              *)
Trap1x2(xn, g) ==
  LET RECURSIVE Go(_)
      Go(k) == IF k >= Len(xn) THEN 0 ELSE (xn[k + 1] - xn[k]) * (g[k] + g[k + 1]) + Go(k + 1)
  IN Go(1)
MTrap4Of(M, val(_, _)) == Trap1x2(M.xn, [i \in 1..MNX(M) |-> Trap1x2(M.yn, [j \in 1..MNY(M) |-> val(i, j)])])
\* trapezium( var ): the rule applied to variable var
MTrap4(M, var) == MTrap4Of(M, LAMBDA i, j : M.vars[i][j][var + 1])
\* square_trapezium( var ): the rule applied to the square of variable var
MSqTrap4(M, var) == MTrap4Of(M, LAMBDA i, j : M.vars[i][j][var + 1] * M.vars[i][j][var + 1])
\* number of cells (terms of the double sum), area of the grid rectangle
MCells(M) == (IF MNX(M) > 0 THEN MNX(M) - 1 ELSE 0) * (IF MNY(M) > 0 THEN MNY(M) - 1 ELSE 0)
MHasCells(M) == MNX(M) >= 1 /\ MNY(M) >= 1            \* both loops of the implementation are defined (0 cells allowed)

(* ---------------------------------------------------------------- files *)
(* output( filename, precision ): for every y-node (outer loop) and every x-node (inner loop) one line             *)
(*     x_i  y_j  var_0 .. var_{nv-1}                                                                              *)
(* and one blank line after every y-node.  output_var( filename, var, precision ): the same with the single      *)
(* column var.  A complex value contributes its two parts in the order (re, im).                                  *)
MNums(cx, x) == IF cx THEN x ELSE <<x>>
RECURSIVE MCat(_)
MCat(ss) == IF ss = <<>> THEN <<>> ELSE Head(ss) \o MCat(Tail(ss))
MLine(M, i, j) == <<M.xn[i + 1], M.yn[j + 1]>> \o MCat([v \in 1..M.nv |-> MNums(M.cx, MGet(M, i, j)[v])])
MLineVar(M, i, j, var) == <<M.xn[i + 1], M.yn[j + 1]>> \o MNums(M.cx, MGet(M, i, j)[var + 1])
MBlocks(M, line(_, _)) == MCat([j \in 1..MNY(M) |-> [i \in 1..MNX(M) |-> line(i - 1, j - 1)] \o << <<>> >>])
MOutput(M) == MBlocks(M, LAMBDA i, j : MLine(M, i, j))
MOutputVar(M, var) == MBlocks(M, LAMBDA i, j : MLineVar(M, i, j, var))
=============================================================================
