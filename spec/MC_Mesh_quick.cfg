SPECIFICATION Spec
CONSTANTS
  Coords <- MCCoords
  Vals <- MCVals
  Coefs <- MCCoefsSmall
  MaxN = 4
  NVs = {2}
  LinNV = {2}
  Shapes1 <- Nodes24
  Shapes2 <- ShapesAll4
  LawShapes2 <- ShapesAll4
  Depth = 2
  IScale = 4
  MaxData2 = 4
  Modes = {"store1", "store2", "data1", "lin1", "data2", "lin2", "fine1", "fine2"}
  Emit = FALSE
  Positional = FALSE
VIEW View
INVARIANTS Shape Fresh QuadSum Interp LinExact FineLaws
CHECK_DEADLOCK FALSE
