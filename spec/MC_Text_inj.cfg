SPECIFICATION Spec
CONSTANTS
  NA = 2
  MaxVec = 3
  MaxMat = 2
  MaxTri = 2
  MaxBandN = 0
  MaxBandM = 0
  MaxPoly = 3
  MaxM1 = 1
  MaxM2 = 0
  Emit = FALSE
  Pairwise = TRUE
INVARIANTS Distinct
CHECK_DEADLOCK FALSE
