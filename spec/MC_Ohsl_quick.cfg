SPECIFICATION Spec
CONSTANTS Depth = 3  Deep = TRUE  Emit = FALSE
INVARIANTS Independent Shape ArgsOK
PROPERTY OnlyTarget
CHECK_DEADLOCK FALSE
