------------------------------- MODULE Roots -------------------------------
(* The root finder poly_solve (polynomial/mod.rs:190-349).                              *)
(*  (1) Exact parts.  For a quadratic a(x - r1)(x - r2) with Gaussian-integer a, r1, r2 *)
(*      the discriminant is the square (a(r1 - r2))^2, so the numerically stable        *)
(*      formula  sgn = sign Re(conj(b) * s),  q = -(b + sgn*s)/2,  roots q/a and c/q    *)
(*      is computable over Gaussian integers for either branch s of the square root.    *)
(*      QZeroGuard is the named switch of defect D4: TRUE = q = 0 returns the double    *)
(*      root 0 (the repair); FALSE = c/q is evaluated as 0/0 (not a number).            *)
(*      The triple-root test d0 = d1 = 0 of the cubic is modelled likewise.            *)
(*  (2) The control skeleton: dispatch on the degree; for degree >= 4 the deflation     *)
(*      loop j = degree-1 .. 0 with one bounded Laguerre run per root; optional         *)
(*      polishing of every root.  A Laguerre iteration is abstracted to its outcome     *)
(*      (chosen by the environment): "converged", "moved", "stalled", or "nonfinite"    *)
(*      (the step dx is not a finite number - happens for a root exactly at zero).      *)
(*      StopOnNonFinite is the named switch of defect D8: TRUE = the run returns and    *)
(*      leaves the iterate unchanged (the repair); FALSE = the iterate becomes NaN.     *)
EXTENDS Poly, FiniteSets
CONSTANTS QZeroGuard, StopOnNonFinite, MaxIt

(* ---------------------------- exact quadratic branch ---------------------------- *)
GEven(x) == x[1] % 2 = 0 /\ x[2] % 2 = 0
GHalf(x) == <<x[1] \div 2, x[2] \div 2>>                       \* exact on even components (floor division)
GDivides(y, x) == y # GZ /\ LET n == GMul(x, GConj(y)) d == GNorm2(y) IN n[1] % d = 0 /\ n[2] % d = 0
GQuot(x, y) == LET n == GMul(x, GConj(y)) d == GNorm2(y) IN <<n[1] \div d, n[2] \div d>>
QuadCoeffs(a, r1, r2) == [a |-> a, b |-> GNeg(GMul(a, GAdd(r1, r2))), c |-> GMul(a, GMul(r1, r2))]
Disc(k) == GSub(GMul(k.b, k.b), GScale(GMul(k.a, k.c), 4))
\* s is a square root of the discriminant (either one)
QuadQ(k, s) == LET t == GMul(GConj(k.b), s)
                   sgn == IF t[1] >= 0 THEN 1 ELSE -1
               IN GNeg(GHalf(GAdd(k.b, GScale(s, sgn))))
QuadWellDefined(k, s) == LET t == GMul(GConj(k.b), s)
                             sgn == IF t[1] >= 0 THEN 1 ELSE -1
                             q == QuadQ(k, s)
                         IN /\ GMul(s, s) = Disc(k) /\ GEven(GAdd(k.b, GScale(s, sgn)))
                            /\ GDivides(k.a, q) /\ (q # GZ => GDivides(q, k.c))
\* is the second value c/q a number?  (without the guard q = 0 gives 0/0)
QuadIsNumber(k, s) == QuadQ(k, s) # GZ \/ QZeroGuard
QuadRoots(k, s) == LET q == QuadQ(k, s)
                   IN <<GQuot(q, k.a), IF q = GZ THEN GZ ELSE GQuot(k.c, q)>>          \* meaningful when QuadIsNumber

(* ---------------------------- triple-root test of the cubic ---------------------------- *)
CubicCoeffs(a, r1, r2, r3) ==
  LET e1 == GAdd(r1, GAdd(r2, r3))
      e2 == GAdd(GMul(r1, r2), GAdd(GMul(r1, r3), GMul(r2, r3)))
      e3 == GMul(r1, GMul(r2, r3))
  IN [a |-> a, b |-> GNeg(GMul(a, e1)), c |-> GMul(a, e2), d |-> GNeg(GMul(a, e3))]
D0(k) == GSub(GMul(k.b, k.b), GScale(GMul(k.a, k.c), 3))
D1(k) == GAdd(GSub(GScale(GMul(k.b, GMul(k.b, k.b)), 2), GScale(GMul(k.a, GMul(k.b, k.c)), 9)), GScale(GMul(GMul(k.a, k.a), k.d), 27))
TripleBranch(k) == D0(k) = GZ /\ D1(k) = GZ
TripleRoot(k) == GQuot(GNeg(k.b), GScale(k.a, 3))

(* ---------------------------- control skeleton ---------------------------- *)
\* st: deg, refine, pc, j (root index of the current run), it (iterations of the current run),
\*     work (Laguerre iterations in total), fin (finiteness of each root written so far, index 1..deg, "unset" before)
Outcomes == {"converged", "moved", "stalled", "nonfinite"}
SkInit(deg, refine) == [deg |-> deg, refine |-> refine, pc |-> "dispatch", j |-> 0, it |-> 0, work |-> 0, cur |-> TRUE,
                        fin |-> [i \in 1..deg |-> "unset"]]
AllSet(s, val) == [i \in 1..s.deg |-> val]
AfterSolve(s) == IF s.refine THEN [s EXCEPT !.pc = "polish", !.j = 0, !.it = 0, !.cur = (s.fin[1] = "finite")] ELSE [s EXCEPT !.pc = "done"]
\* closedFinite: do the closed formulae (degree <= 3) deliver finite values?  (FALSE models the 0/0 of D4)
SkDispatch(s, closedFinite) ==
  IF s.deg = 0 THEN [s EXCEPT !.pc = "panic"]
  ELSE IF s.deg <= 3 THEN AfterSolve([s EXCEPT !.fin = AllSet(s, IF closedFinite THEN "finite" ELSE "nan")])
  ELSE [s EXCEPT !.pc = "deflate", !.j = s.deg - 1, !.it = 0, !.cur = TRUE]            \* x = 0 is the starting iterate
\* end of a Laguerre run: record the root (deflation phase) or the polished value, move to the next index
EndRun(s) ==
  LET f == [s.fin EXCEPT ![s.j + 1] = IF s.cur THEN "finite" ELSE "nan"]
  IN IF s.pc = "deflate"
       THEN IF s.j > 0 THEN [s EXCEPT !.fin = f, !.j = s.j - 1, !.it = 0, !.cur = TRUE]
            ELSE AfterSolve([s EXCEPT !.fin = f])
       ELSE IF s.j < s.deg - 1 THEN [s EXCEPT !.fin = f, !.j = s.j + 1, !.it = 0, !.cur = (s.fin[s.j + 2] = "finite")]
            ELSE [s EXCEPT !.fin = f, !.pc = "done"]
\* one iteration of laguer (for iter in 1..MAXIT-1)
SkIter(s, outcome) ==
  IF s.it >= MaxIt - 1 THEN EndRun(s)                                       \* loop exhausted
  ELSE LET t == [s EXCEPT !.it = s.it + 1, !.work = s.work + 1]
       IN IF ~s.cur THEN t                                                  \* a NaN iterate never passes a stopping test
          ELSE CASE outcome \in {"converged", "stalled"} -> EndRun(t)
                 [] outcome = "moved" -> t
                 [] outcome = "nonfinite" -> IF StopOnNonFinite THEN EndRun(t) ELSE [t EXCEPT !.cur = FALSE]
SkFinal(s) == s.pc \in {"done", "panic"}
Produced(s) == Cardinality({i \in 1..s.deg : s.fin[i] # "unset"})
AllFinite(s) == \A i \in 1..s.deg : s.fin[i] = "finite"
WorkBound(deg, refine) == ((IF deg >= 4 THEN deg ELSE 0) + (IF refine THEN deg ELSE 0)) * (MaxIt - 1)
\* the skeleton run with a fixed environment (every iteration converges): what the call delivers
RECURSIVE SkRunFrom(_)
SkRunFrom(s) == IF SkFinal(s) THEN s ELSE IF s.pc = "dispatch" THEN SkRunFrom(SkDispatch(s, TRUE)) ELSE SkRunFrom(SkIter(s, "converged"))
SkRun(deg, refine) == SkRunFrom(SkInit(deg, refine))

(* ---------------------------- backward-error guards, per path ---------------------------- *)
(* The path a call takes is determined by (degree, refine).  For each path the worst normwise backward error of  *)
(* the unchanged crate was calibrated over 22 seeds / 1.75e6 calls (classes of the known findings excluded) and  *)
(* the guard frozen at >= 100x that value.  Two integer scales are logged: be_e15 = ceil(be / 1e-15) (saturating *)
(* at 2^30, i.e. ~1e-6) and be_units = ceil(be / 1e-6).                                                          *)
(*   path                 worst conforming      guard                                                           *)
(*   degree 1             <= 1e-15              1e-13                                                            *)
(*   degree 2             2e-15                 2e-13                                                            *)
(*   degree 3, refined    2e-15                 2e-13                                                            *)
(*   degree 3, unrefined  by conditioning of the discriminant, see below: 1e-8 / 1e-6 / 1e-4                      *)
(*   degree >= 4, refined 5e-15                 5e-13                                                            *)
(*   degree >= 4, unref.  6.3e-11 (deflation)   1e-8                                                             *)
(* The unrefined cubic is split by the conditioning of Cardano's discriminant: amp = sum|terms of dis| / |dis| (logged as its  *)
(* decimal exponent amp_e, 99 when the computed discriminant is exactly 0), calibrated over 22 seeds / 217 000 unrefined cubics: *)
(*   amp_e <= 11      worst 7.5e-11   guard 1e-8                                                                              *)
(*   amp_e 12..14     worst 1.3e-9    guard 1e-6                                                                              *)
(*   amp_e >= 15, 99  worst 1.3e-7    guard 1e-4   (near-multiple roots: the discriminant cancels completely)                 *)
Sat30 == 1073741824
CubicGuardE15(amp) == IF amp <= 11 THEN 10000000 ELSE IF amp <= 14 THEN 1000000000 ELSE Sat30
CubicGuardE6(amp) == IF amp <= 14 THEN 1 ELSE 100
BeGuardE15(deg, refine, amp) == CASE deg = 1 -> 100
                                  [] deg = 2 -> 200
                                  [] deg = 3 /\ refine -> 200
                                  [] deg = 3 /\ ~refine -> CubicGuardE15(amp)
                                  [] deg >= 4 /\ refine -> 500
                                  [] OTHER -> 10000000
BeGuardE6(deg, refine, amp) == IF deg = 3 /\ ~refine THEN CubicGuardE6(amp) ELSE 1
BeOK(deg, refine, amp, e15, e6) == e15 <= BeGuardE15(deg, refine, amp) /\ e6 <= BeGuardE6(deg, refine, amp)
=============================================================================
