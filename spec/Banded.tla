------------------------------- MODULE Banded -------------------------------
(* Banded matrices (ohsl::Banded) as values [n, m1, m2, c]: an n x n matrix with m1    *)
(* sub-diagonals and m2 super-diagonals whose entry (i,j) lives in slot                 *)
(* (i, m1 + j - i) of the compact n x (m1+m2+1) storage c (a Dense value).  Every       *)
(* other slot is PADDING: an explicit, unconstrained value.  The meaning of a banded    *)
(* matrix is its dense twin ToDense(B) (zeros off the band) - that operator never       *)
(* reads a padding slot, so every expectation derived from it is padding-independent.   *)
(*                                                                                      *)
(* Part 1: values, index map, the operations as in-band definitions (integers).         *)
(* Part 2: independent dense oracles usable at n <= 10 (fraction-free determinant,      *)
(*         cross-multiplied residual).                                                  *)
(* Part 3: the compact LU of banded.rs:91-200 transcribed step by step over Rat; the    *)
(*         pivot rule is a parameter ("magnitude" = required, "signed" = defect D2).    *)
EXTENDS Dense, Rat, TLC

(* ------------------------------ Part 1: values ------------------------------ *)
MMof(B) == B.m1 + B.m2 + 1
WellFormedB(B) == /\ B.n >= 0 /\ B.m1 >= 0 /\ B.m2 >= 0
                  /\ WellShaped(B.c) /\ B.c.r = B.n /\ B.c.c = MMof(B)
InBandK(m1, m2, i, j) == j <= i + m2 /\ i <= j + m1
InRangeB(B, i, j) == 0 <= i /\ i < B.n /\ 0 <= j /\ j < B.n
InBand(B, i, j) == InRangeB(B, i, j) /\ InBandK(B.m1, B.m2, i, j)
SlotCol(B, i, j) == B.m1 + j - i
BGet(B, i, j) == At(B.c, i, SlotCol(B, i, j))
\* slot (i, c) holds entry (i, i + c - m1) when that column exists; otherwise it is padding
SlotIsEntry(B, i, c) == LET j == i + c - B.m1 IN 0 <= j /\ j < B.n
BandPosK(n, m1, m2) == {p \in (0..(n - 1)) \X (0..(n - 1)) : InBandK(m1, m2, p[1], p[2])}
BandPos(B) == BandPosK(B.n, B.m1, B.m2)
EntrySlots(B) == {s \in (0..(B.n - 1)) \X (0..(MMof(B) - 1)) : SlotIsEntry(B, s[1], s[2])}
\* the index map is a bijection between in-band positions and non-padding slots
IndexBijection(B) ==
    /\ \A p \in BandPos(B) : <<p[1], SlotCol(B, p[1], p[2])>> \in EntrySlots(B)
    /\ \A s \in EntrySlots(B) : /\ <<s[1], s[1] + s[2] - B.m1>> \in BandPos(B)
                                /\ SlotCol(B, s[1], s[1] + s[2] - B.m1) = s[2]
    /\ \A p, q \in BandPos(B) : (p[1] = q[1] /\ SlotCol(B, p[1], p[2]) = SlotCol(B, q[1], q[2])) => p = q

\* build a banded value: F gives the in-band entries, P the padding slots
MkB(n, m1, m2, F(_, _), P(_, _)) ==
    [n |-> n, m1 |-> m1, m2 |-> m2,
     c |-> Mk(n, m1 + m2 + 1, LAMBDA i, c : LET j == i + c - m1 IN IF 0 <= j /\ j < n THEN F(i, j) ELSE P(i, c))]
ToDense(B) == Mk(B.n, B.n, LAMBDA i, j : IF InBand(B, i, j) THEN BGet(B, i, j) ELSE 0)
FromDense(D, m1, m2) == MkB(D.r, m1, m2, LAMBDA i, j : At(D, i, j), LAMBDA i, c : 0)
SameKind(X, Y) == X.n = Y.n /\ X.m1 = Y.m1 /\ X.m2 = Y.m2
\* equality of banded matrices: IN BAND ONLY (padding contents are a representation choice)
SameBand(X, Y) == /\ WellFormedB(X) /\ WellFormedB(Y) /\ SameKind(X, Y)
                  /\ \A p \in BandPos(X) : BGet(X, p[1], p[2]) = BGet(Y, p[1], p[2])

\* entry (i, j) of the dense twin: zero outside the band
DGet(B, i, j) == IF InBand(B, i, j) THEN BGet(B, i, j) ELSE 0
\* Z is, AS A DENSE MATRIX, X + sg * Y: operands of equal size whatever their bandwidths (the only reading of a sum or
\* difference of banded operands whose geometries differ - their storages agree at most in aggregates)
DenseLin(Z, X, Y, sg) == /\ WellFormedB(Z) /\ WellFormedB(X) /\ WellFormedB(Y) /\ Z.n = X.n /\ Y.n = X.n
                         /\ \A i, j \in 0..(X.n - 1) : DGet(Z, i, j) = DGet(X, i, j) + sg * DGet(Y, i, j)
\* identical objects: geometry and the whole storage; dense twins that differ somewhere
EqAll(X, Y) == SameKind(X, Y) /\ X.c = Y.c
DenseDiff(X, Y) == X.n # Y.n \/ \E i, j \in 0..(X.n - 1) : DGet(X, i, j) # DGet(Y, i, j)
\* operations; model results carry zero padding (never compared)
Z2(i, c) == 0
BNew(n, m1, m2, x) == MkB(n, m1, m2, LAMBDA i, j : x, Z2)
BSet(B, i, j, x) == MkB(B.n, B.m1, B.m2, LAMBDA a, b : IF a = i /\ b = j THEN x ELSE BGet(B, a, b), Z2)
BFill(B, x) == BNew(B.n, B.m1, B.m2, x)
Acc_FillBand(B, k) == -B.m1 <= k /\ k <= B.m2
BFillBand(B, k, x) == MkB(B.n, B.m1, B.m2, LAMBDA a, b : IF b - a = k THEN x ELSE BGet(B, a, b), Z2)
BNeg(B) == MkB(B.n, B.m1, B.m2, LAMBDA a, b : -BGet(B, a, b), Z2)
BAdd(X, Y) == MkB(X.n, X.m1, X.m2, LAMBDA a, b : BGet(X, a, b) + BGet(Y, a, b), Z2)
BSub(X, Y) == MkB(X.n, X.m1, X.m2, LAMBDA a, b : BGet(X, a, b) - BGet(Y, a, b), Z2)
BScale(B, s) == MkB(B.n, B.m1, B.m2, LAMBDA a, b : BGet(B, a, b) * s, Z2)
BDivS(B, s) == MkB(B.n, B.m1, B.m2, LAMBDA a, b : QuotExact(BGet(B, a, b), s), Z2)
BShift(B, s) == MkB(B.n, B.m1, B.m2, LAMBDA a, b : BGet(B, a, b) + s, Z2)
\* complex scalar multiple, parts: (A + iB)(s + it) = (As - Bt) + i(At + Bs)
BLin(X, s, Y, t) == MkB(X.n, X.m1, X.m2, LAMBDA a, b : BGet(X, a, b) * s + BGet(Y, a, b) * t, Z2)

\* matrix-vector product: the definition (dense twin) ...
Acc_BMatVec(B, v) == Len(v) = B.n
BMatVec(B, v) == MatVec(ToDense(B), v)
\* ... and the band-limited row loop of banded.rs:477-484 (reads compact slots directly)
RECURSIVE BandRowSum(_, _, _, _, _, _)
BandRowSum(B, v, i, k, j, hi) == IF j >= hi THEN 0 ELSE At(B.c, i, j) * v[j + k + 1] + BandRowSum(B, v, i, k, j + 1, hi)
BMatVecLoop(B, v) == [i1 \in 1..B.n |-> LET i == i1 - 1
                                            k == i - B.m1
                                        IN BandRowSum(B, v, i, k, IMax(0, -k), IMin(MMof(B), B.n - k))]

(* ------------------- Part 2: dense oracles usable up to n = 10 ------------------- *)
\* fraction-free (Bareiss) determinant of a square Dense matrix; a zero pivot is exchanged with the first
\* nonzero entry below it, a zero column means determinant 0.  Every division is exact.
RowFn(D) == [i \in 0..(D.r - 1) |-> TLCEval([j \in 0..(D.c - 1) |-> At(D, i, j)])]
RECURSIVE BareissFrom(_, _, _, _, _)
BareissFrom(M, n, k, prev, sgn) ==
    IF k >= n - 1 THEN sgn * M[n - 1][n - 1]
    ELSE LET cand == {r \in k..(n - 1) : M[r][k] # 0} IN
         IF cand = {} THEN 0
         ELSE LET p == CHOOSE r \in cand : \A s \in cand : r <= s
                  S == [M EXCEPT ![k] = M[p], ![p] = M[k]]
                  M2 == TLCEval([i \in 0..(n - 1) |-> IF i <= k THEN S[i]
                                   ELSE TLCEval([j \in 0..(n - 1) |-> IF j <= k THEN 0
                                            ELSE QuotExact(S[i][j] * S[k][k] - S[i][k] * S[k][j], prev)])])
              IN BareissFrom(M2, n, k + 1, S[k][k], IF p # k THEN -sgn ELSE sgn)
DetFF(D) == IF D.r = 0 THEN 1 ELSE BareissFrom(TLCEval(RowFn(D)), D.r, 0, 1, 1)

\* cross-multiplied residual: the rational vector xs/L solves D x = b  (integers only; L > 0)
ResidualZero(D, xs, L, b) == /\ L > 0 /\ Len(xs) = D.c /\ Len(b) = D.r
                             /\ \A i \in 0..(D.r - 1) : Dot(GetRow(D, i), xs) = L * b[i + 1]
\* magnitudes for which the products above cannot overflow TLC's 32-bit integers
Lim == 16777216
Checkable(xs, L) == L >= 1 /\ L <= Lim /\ \A k \in 1..Len(xs) : -Lim <= xs[k] /\ xs[k] <= Lim

(* ------------- Part 2b: the same oracles over Gaussian integers / Gaussian rationals ------------- *)
\* a complex matrix is a pair of Dense matrices (real parts, imaginary parts); a complex number a pair <<re, im>>
CMulP(a, b) == <<a[1] * b[1] - a[2] * b[2], a[1] * b[2] + a[2] * b[1]>>
CSubP(a, b) == <<a[1] - b[1], a[2] - b[2]>>
CNegP(a) == <<-a[1], -a[2]>>
\* exact quotient of Gaussian integers (the divisions are exact wherever the fraction-free elimination uses them)
CQuotP(a, b) == LET nn == b[1] * b[1] + b[2] * b[2]
                IN <<QuotExact(a[1] * b[1] + a[2] * b[2], nn), QuotExact(a[2] * b[1] - a[1] * b[2], nn)>>
CZeroP == <<0, 0>>
CRowFn(D, Di) == [i \in 0..(D.r - 1) |-> TLCEval([j \in 0..(D.c - 1) |-> <<At(D, i, j), At(Di, i, j)>>])]
RECURSIVE CBareissFrom(_, _, _, _, _)
CBareissFrom(M, n, k, prev, sgn) ==
    IF k >= n - 1 THEN (IF sgn = 1 THEN M[n - 1][n - 1] ELSE CNegP(M[n - 1][n - 1]))
    ELSE LET cand == {r \in k..(n - 1) : M[r][k] # CZeroP} IN
         IF cand = {} THEN CZeroP
         ELSE LET p == CHOOSE r \in cand : \A s \in cand : r <= s
                  S == [M EXCEPT ![k] = M[p], ![p] = M[k]]
                  M2 == TLCEval([i \in 0..(n - 1) |-> IF i <= k THEN S[i]
                                   ELSE TLCEval([j \in 0..(n - 1) |-> IF j <= k THEN CZeroP
                                            ELSE CQuotP(CSubP(CMulP(S[i][j], S[k][k]), CMulP(S[i][k], S[k][j])), prev)])])
              IN CBareissFrom(M2, n, k + 1, S[k][k], IF p # k THEN -sgn ELSE sgn)
\* determinant of D + i Di as a pair <<re, im>>
CDetFF(D, Di) == IF D.r = 0 THEN <<1, 0>> ELSE CBareissFrom(TLCEval(CRowFn(D, Di)), D.r, 0, <<1, 0>>, 1)
\* (xs + i xsi) / L solves (D + i Di) x = b + i bi   (integers only; L > 0)
ResidualZeroCx(D, Di, xs, xsi, L, b, bi) ==
    /\ L > 0 /\ Len(xs) = D.c /\ Len(xsi) = D.c /\ Len(b) = D.r /\ Len(bi) = D.r
    /\ \A i \in 0..(D.r - 1) : /\ Dot(GetRow(D, i), xs) - Dot(GetRow(Di, i), xsi) = L * b[i + 1]
                                /\ Dot(GetRow(D, i), xsi) + Dot(GetRow(Di, i), xs) = L * bi[i + 1]

(* ------------- Part 3: the compact LU of banded.rs, step by step, over Rat ------------- *)
\* state of the factorisation: au (n x mm), al (n x m1) as functions of 0-based indices, exchange
\* indices idx (1-based like the code), sign d, loop counter k and window end l
Compact0(B) == [i \in 0..(B.n - 1) |-> [c \in 0..(MMof(B) - 1) |-> R(At(B.c, i, c))]]
\* banded.rs:93-104 : left-shift the first m1 rows, zero-fill on the right (this is where the
\* top-left padding is discarded; the bottom-right padding is never reached because l stops at n)
ShiftRows(B) == LET mm == MMof(B)
                    au == Compact0(B)
                IN [i \in 0..(B.n - 1) |-> IF i < B.m1
                      THEN LET li == B.m1 - i IN [c \in 0..(mm - 1) |-> IF c + li <= mm - 1 THEN au[i][c + li] ELSE RZero]
                      ELSE au[i]]
LUInit(B) == [au |-> ShiftRows(B), al |-> [i \in 0..(B.n - 1) |-> [c \in 0..(B.m1 - 1) |-> RZero]],
              idx |-> [i \in 0..(B.n - 1) |-> 0], d |-> 1, k |-> 0, l |-> B.m1]
Bigger(mode, a, b) == IF mode = "magnitude" THEN RLt(RAbs(b), RAbs(a)) ELSE RLt(b, a)
\* first row in k+1..lim-1 that beats all earlier ones (the code keeps the first maximum)
RECURSIVE PickFrom(_, _, _, _, _)
PickFrom(mode, j, lim, best, M) == IF j >= lim THEN best
                                   ELSE IF Bigger(mode, M[j][0], M[best][0]) THEN PickFrom(mode, j + 1, lim, j, M)
                                   ELSE PickFrom(mode, j + 1, lim, best, M)
\* banded.rs:107-143 : one value of k.  skipZero = TRUE is the required behaviour (a zero pivot column
\* is skipped, never divided by); FALSE is defect D9 and is only meaningful where no zero pivot occurs.
FactStep(mode, B, st) ==
    LET n == B.n
        mm == MMof(B)
        k == st.k
        l1 == IF st.l < n THEN st.l + 1 ELSE st.l
        piv == PickFrom(mode, k + 1, l1, k, st.au)
        sw == TLCEval([st.au EXCEPT ![k] = st.au[piv], ![piv] = st.au[k]])
        elim == sw[k][0] # RZero
        mult == TLCEval([i \in 0..(n - 1) |-> IF elim /\ i > k /\ i < l1 THEN RDiv(sw[i][0], sw[k][0]) ELSE RZero])
    IN [au |-> IF elim
                 THEN [i \in 0..(n - 1) |-> IF i > k /\ i < l1
                          THEN TLCEval([c \in 0..(mm - 1) |-> IF c < mm - 1 THEN RSub(sw[i][c + 1], RMul(mult[i], sw[k][c + 1])) ELSE RZero])
                          ELSE sw[i]]
                 ELSE sw,
        al |-> IF elim THEN [st.al EXCEPT ![k] = TLCEval([c \in 0..(B.m1 - 1) |-> IF k + 1 + c < l1 THEN mult[k + 1 + c] ELSE st.al[k][c]])]
                       ELSE st.al,
        idx |-> [st.idx EXCEPT ![k] = piv + 1],
        d |-> IF piv # k THEN -st.d ELSE st.d,
        k |-> k + 1, l |-> l1]
RECURSIVE FactorFrom(_, _, _)
FactorFrom(mode, B, st) == IF st.k >= B.n THEN st ELSE FactorFrom(mode, B, TLCEval(FactStep(mode, B, st)))
Factor(mode, B) == FactorFrom(mode, B, LUInit(B))
\* banded.rs:147-160 : determinant = sign * product of the pivots
RECURSIVE DiagProd(_, _, _)
DiagProd(au, n, i) == IF i >= n THEN ROne ELSE RMul(au[i][0], DiagProd(au, n, i + 1))
LUDet(B, st) == RMul(R(st.d), DiagProd(st.au, B.n, 0))
\* banded.rs:177-189 : forward substitution with the recorded exchanges (v: function 0..n-1 -> Rat)
RECURSIVE FwdFrom(_, _, _, _, _)
FwdFrom(B, st, kk, ll, v) == IF kk >= B.n THEN v ELSE
    LET j == st.idx[kk] - 1
        v1 == IF j # kk THEN [v EXCEPT ![kk] = v[j], ![j] = v[kk]] ELSE v
        l1 == IF ll < B.n THEN ll + 1 ELSE ll
        v2 == [i \in 0..(B.n - 1) |-> IF i > kk /\ i < l1 THEN RSub(v1[i], RMul(st.al[kk][i - kk - 1], v1[kk])) ELSE v1[i]]
    IN FwdFrom(B, st, kk + 1, l1, TLCEval(v2))
\* banded.rs:190-200 : back substitution
RECURSIVE SumK(_, _, _, _, _)
SumK(au, i, kk, lim, v) == IF kk >= lim THEN RZero ELSE RAdd(RMul(au[i][kk], v[kk + i]), SumK(au, i, kk + 1, lim, v))
RECURSIVE BackFrom(_, _, _, _, _)
BackFrom(B, st, i, ll, v) == IF i < 0 THEN v ELSE
    LET num == RSub(v[i], SumK(st.au, i, 1, ll, v))
        v1 == [v EXCEPT ![i] = RDiv(num, st.au[i][0])]
    IN BackFrom(B, st, i - 1, IF ll < MMof(B) THEN ll + 1 ELSE ll, TLCEval(v1))
PivotsNonzero(B, st) == \A i \in 0..(B.n - 1) : st.au[i][0] # RZero
RhsFn(b) == [i \in 0..(Len(b) - 1) |-> R(b[i + 1])]
LUSolve(B, st, b) == BackFrom(B, st, B.n - 1, 1, FwdFrom(B, st, 0, B.m1, RhsFn(b)))
=============================================================================
