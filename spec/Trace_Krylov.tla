--------------------------- MODULE Trace_Krylov ---------------------------
(* Trace validation for solve_cg / solve_bicg / solve_bicgstab / solve_qmr (C08, C09). *)
(* Every event is one call of a real solver, projected to integers by the harness       *)
(* (suite krylov).  The guards below are the observable consequences of the protocol    *)
(* of Krylov.tla (OkMeansPassed, BudgetZeroUntouched, PrefixClosed, ExactStart) plus    *)
(* the numerical bounds of DESIGN.md section 4; the bounds live here, the harness only  *)
(* measures.  `cur` remembers the last "solve" event so that the "prefix" event (the    *)
(* re-runs with budgets 1..k) is bound to the call it explains.                         *)
EXTENDS TraceBase
VARIABLES l, cur
vars == <<l, cur>>

KindOK(e) == e.kind \in {"cg", "bicg", "bicgstab", "qmr"} /\ e.itol \in {1, 2}
SameSeq(x, y) == Len(x) = Len(y) /\ \A i \in 1..Len(x) : x[i] = y[i]
AllZeroBits(x) == \A i \in 1..Len(x) : x[i] = "0000000000000000"
\* iteration guard, calibrated on the unchanged tree with the >= 2x rule: 4n+40 (worst observation 0.464 x); on the strongly
\* non-normal upwind family "upw" 10n+100 (worst observation 1.054 x (4n+40) = 0.43 x (10n+100), a single BiCG near-breakdown)
IterBound(e) == IF e.fam = "upw" THEN 10 * e.n + 100 ELSE 4 * e.n + 40

\* ---- C08 ----
\* Ok(k) => k <= budget, x finite, true relative residual within tol + drift (res_units counts drifts).
\* Nothing is demanded of Err (or of a panic, which reports no success) except: budget 0 leaves x untouched.
\* The drift unit is the residual-gap theorem for updates of the form x += a p, r -= a A p (CG, BiCG, BiCGSTAB; constant factor 8):
\* guard 1.  QMR updates x and r through coupled recurrences (d, s) whose near-breakdown amplification no usable theorem
\* bounds, so its guard is calibrated on the unchanged tree (24 seeds, thorough size): worst 1 unit on the generic families,
\* 14 units on the structured breakdown-prone family "struct"; frozen at >= 100 x the worst value.
ResGuard(e) == IF e.kind = "qmr" THEN (IF e.fam = "struct" THEN 2000 ELSE 100) ELSE 1
Solve(e) == /\ KindOK(e)
            /\ (e.ok => ~e.panic /\ e.k >= 0 /\ e.k <= e.budget /\ e.x_finite /\ e.res_units <= ResGuard(e))
            /\ (e.budget = 0 => Len(e.xb_pre) = e.n /\ SameSeq(e.xb_pre, e.xb_post))
\* Prefix closure of the re-runs with budgets 1..k of a call that returned Ok(k): budget j < k is Err,
\* budget k is Ok(k) and leaves the same x as the original call (whose budget is >= k).
Prefix(e) == /\ cur.cid = e.cid /\ cur.ok /\ cur.k = e.k /\ cur.xh = e.xh
             /\ Len(e.oks) = e.k /\ Len(e.ks) = e.k /\ e.k >= 1
             /\ \A j \in 1..(e.k - 1) : ~e.oks[j]
             /\ e.oks[e.k] /\ e.ks[e.k] = e.k /\ e.xh_k = e.xh

\* ---- C09 ----
\* well-posed system (provable condition bound): success, O(n) iterations, agreement with the dense solution
Conv(e) == /\ KindOK(e) /\ e.claimed
           /\ ~e.panic /\ e.ok /\ e.x_finite
           /\ e.k <= e.budget /\ e.k <= IterBound(e)
           /\ (e.kind = "cg" => e.k <= e.cgb)
           /\ e.agree_units <= 1
\* exact initial guess (true residual exactly zero): Ok(0) and x bit-identical
Exact(e) == KindOK(e) /\ (e.res0_zero => ~e.panic /\ e.ok /\ e.k = 0 /\ Len(e.xb_pre) = e.n /\ SameSeq(e.xb_pre, e.xb_post))
\* zero right-hand side with zero guess: Ok(0), x finite and still zero
Zero(e) == KindOK(e) /\ ~e.panic /\ e.ok /\ e.k = 0 /\ e.x_finite /\ Len(e.xb_post) = e.n /\ AllZeroBits(e.xb_post)
\* budget ladder (Krylov.tla: PrefixRel / BudgetLadder): the generous run returned Ok(k), hence outcome(budget) = Ok(k) with the
\* same x iff budget >= k; the event carries the outcomes for budgets k, k+1 and k-1
Ladder(e) == /\ KindOK(e) /\ e.k >= 0
             /\ e.ok_k /\ e.k_k = e.k /\ e.xh_k = e.xh
             /\ e.ok_k1 /\ e.k_k1 = e.k /\ e.xh_k1 = e.xh
             /\ ~e.ok_km1
\* exact iterates of the rational CG model against the real iterates: conformance note, the property does not fix iterates
Iter(e) == KindOK(e) /\ e.j >= 1 /\ e.j <= e.kx /\ e.iter_units >= 0

Explained(e) ==
  CASE e.op = "solve"  -> Solve(e)
    [] e.op = "prefix" -> Prefix(e)
    [] e.op = "conv"   -> Conv(e)
    [] e.op = "exact"  -> Exact(e)
    [] e.op = "zero"   -> Zero(e)
    [] e.op = "iter"   -> Iter(e)
    [] e.op = "ladder" -> Ladder(e)
    [] OTHER -> FALSE

NoCall == [cid |-> 0, ok |-> FALSE, k |-> 0, xh |-> ""]
Init == l = 1 /\ cur = NoCall /\ TLCSet(1, 0)
Step == /\ l <= NRec
        /\ LET e == Rec[l]
           IN /\ (IF Explained(e) THEN TRUE ELSE Mismatch(l, e, e.op))
              /\ cur' = IF e.op = "solve" THEN [cid |-> e.cid, ok |-> e.ok, k |-> e.k, xh |-> e.xh] ELSE cur
        /\ l' = l + 1
Spec == Init /\ [][Step]_vars
=============================================================================
