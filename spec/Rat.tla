------------------------------- MODULE Rat -------------------------------
(* Exact rationals as reduced pairs <<n, d>>, d > 0.  Operands are assumed reduced;   *)
(* every operator returns a reduced pair.  Products cancel first so that intermediate *)
(* values stay inside TLC's 32-bit integers as long as the results do.                *)
EXTENDS Integers
Abs(x) == IF x < 0 THEN -x ELSE x
RECURSIVE Gcd(_, _)
Gcd(a, b) == IF b = 0 THEN a ELSE Gcd(b, a % b)
Norm(n, d) == LET s == IF d < 0 THEN -1 ELSE 1
                  g == Gcd(Abs(n), Abs(d))
              IN <<(s * n) \div g, (s * d) \div g>>
R(n) == <<n, 1>>
RZero == <<0, 1>>
ROne == <<1, 1>>
IsRat(p) == p[2] > 0 /\ Gcd(Abs(p[1]), p[2]) = 1
RAdd(p, q) == LET g == Gcd(p[2], q[2])
              IN Norm(p[1] * (q[2] \div g) + q[1] * (p[2] \div g), (p[2] \div g) * q[2])
RNeg(p) == <<-p[1], p[2]>>
RSub(p, q) == RAdd(p, RNeg(q))
RMul(p, q) == LET g1 == Gcd(Abs(p[1]), q[2])
                  g2 == Gcd(Abs(q[1]), p[2])
                  a == IF g1 = 0 THEN 1 ELSE g1
                  b == IF g2 = 0 THEN 1 ELSE g2
              IN <<(p[1] \div a) * (q[1] \div b), (p[2] \div b) * (q[2] \div a)>>
RInv(q) == IF q[1] < 0 THEN <<-q[2], -q[1]>> ELSE <<q[2], q[1]>>     \* q # 0 required
RDiv(p, q) == RMul(p, RInv(q))
RAbs(p) == <<Abs(p[1]), p[2]>>
RLt(p, q) == p[1] * q[2] < q[1] * p[2]
RLe(p, q) == p[1] * q[2] <= q[1] * p[2]
RSgn(p) == IF p[1] > 0 THEN 1 ELSE IF p[1] < 0 THEN -1 ELSE 0
=============================================================================
