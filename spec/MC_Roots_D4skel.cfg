SPECIFICATION Spec
CONSTANTS Mode = "skel"  MaxDeg = 2  NRoots = 0  MaxRoots = 0  NLead = 0  QZeroGuard = FALSE  StopOnNonFinite = TRUE  MaxIt = 4
CONSTANTS Comp <- Comp1  CompA <- Comp1
INVARIANTS SkelFinite

CHECK_DEADLOCK FALSE
