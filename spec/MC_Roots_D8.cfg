SPECIFICATION Spec
CONSTANTS Mode = "skel"  MaxDeg = 4  NRoots = 0  MaxRoots = 0  NLead = 0  QZeroGuard = TRUE  StopOnNonFinite = FALSE  MaxIt = 4
CONSTANTS Comp <- Comp1  CompA <- Comp1
INVARIANTS SkelFinite

CHECK_DEADLOCK FALSE
