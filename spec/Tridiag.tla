------------------------------ MODULE Tridiag ------------------------------
(* Tridiagonal matrices (ohsl::Tridiagonal) as values [n, sub, main, sup]: three       *)
(* sequences of lengths n-1, n, n-1 (n >= 1).  The meaning is the dense twin TDense(T). *)
(* Part 1: values and operations on the three diagonals (integers).                     *)
(* Part 2: determinant by the three-term recurrence; leading principal minors.          *)
(* Part 3: the Thomas algorithm of tridiagonal.rs:169-191 step by step over Rat, with   *)
(*         its two refusals ("zero on leading diagonal", "zero pivot") as outcomes.     *)
(* The dense oracles (fraction-free determinant, cross-multiplied residual) come from   *)
(* Banded.tla.                                                                          *)
EXTENDS Banded

(* ------------------------------ Part 1 ------------------------------ *)
TWellFormed(T) == T.n >= 1 /\ Len(T.main) = T.n /\ Len(T.sub) = T.n - 1 /\ Len(T.sup) = T.n - 1
TInRange(T, i, j) == 0 <= i /\ i < T.n /\ 0 <= j /\ j < T.n
TInBand(T, i, j) == TInRange(T, i, j) /\ i <= j + 1 /\ j <= i + 1
\* entry (i, j), 0-based; zero off the three diagonals
TGet(T, i, j) == IF i = j THEN T.main[i + 1] ELSE IF i = j + 1 THEN T.sub[j + 1] ELSE IF i + 1 = j THEN T.sup[i + 1] ELSE 0
TDense(T) == Mk(T.n, T.n, LAMBDA i, j : TGet(T, i, j))
MkT(n, F(_, _)) == [n |-> n, sub |-> [k \in 1..(n - 1) |-> F(k, k - 1)], main |-> [k \in 1..n |-> F(k - 1, k - 1)],
                    sup |-> [k \in 1..(n - 1) |-> F(k - 1, k)]]
FromDenseT(D) == MkT(D.r, LAMBDA i, j : At(D, i, j))
SameTri(X, Y) == /\ TWellFormed(X) /\ TWellFormed(Y) /\ X.n = Y.n
                 /\ SameSeq(X.sub, Y.sub) /\ SameSeq(X.main, Y.main) /\ SameSeq(X.sup, Y.sup)
TNew(n) == MkT(n, LAMBDA i, j : 0)
TWithElements(lo, di, up, n) == MkT(n, LAMBDA i, j : IF i = j THEN di ELSE IF i > j THEN lo ELSE up)
TSet(T, i, j, x) == MkT(T.n, LAMBDA a, b : IF a = i /\ b = j THEN x ELSE TGet(T, a, b))
TTranspose(T) == [n |-> T.n, sub |-> T.sup, main |-> T.main, sup |-> T.sub]
TNeg(T) == MkT(T.n, LAMBDA a, b : -TGet(T, a, b))
TAdd(X, Y) == MkT(X.n, LAMBDA a, b : TGet(X, a, b) + TGet(Y, a, b))
TSub(X, Y) == MkT(X.n, LAMBDA a, b : TGet(X, a, b) - TGet(Y, a, b))
TScale(T, s) == MkT(T.n, LAMBDA a, b : TGet(T, a, b) * s)
TDivS(T, s) == MkT(T.n, LAMBDA a, b : QuotExact(TGet(T, a, b), s))
\* the scalar shifts act on the stored elements (the three diagonals) only
TShift(T, s) == MkT(T.n, LAMBDA a, b : TGet(T, a, b) + s)
TLin(X, s, Y, t) == MkT(X.n, LAMBDA a, b : TGet(X, a, b) * s + TGet(Y, a, b) * t)

Acc_TMatVec(T, v) == Len(v) = T.n
TMatVec(T, v) == MatVec(TDense(T), v)
\* tridiagonal.rs:414-431 : n = 1, first row, middle rows, last row
TMatVecLoop(T, v) ==
    IF T.n = 1 THEN <<T.main[1] * v[1]>>
    ELSE [k \in 1..T.n |-> IF k = 1 THEN T.main[1] * v[1] + T.sup[1] * v[2]
                           ELSE IF k = T.n THEN T.sub[T.n - 1] * v[T.n - 1] + T.main[T.n] * v[T.n]
                           ELSE T.sub[k - 1] * v[k - 1] + T.main[k] * v[k] + T.sup[k] * v[k + 1]]

(* ------------------------------ Part 2 ------------------------------ *)
\* f[0] = 1, f[1] = main_0, f[j] = main_{j-1} f[j-1] - sub_{j-2} sup_{j-2} f[j-2]  (tridiagonal.rs:127-136);
\* f[j] is the leading principal minor of order j
RECURSIVE MinorsFrom(_, _, _)
MinorsFrom(T, j, f) == IF j > T.n THEN f
                       ELSE MinorsFrom(T, j + 1, Append(f, T.main[j] * f[j] - T.sub[j - 1] * T.sup[j - 1] * f[j - 1]))
\* Minors(T)[j + 1] = f[j], j = 0..n
Minors(T) == MinorsFrom(T, 2, <<1, T.main[1]>>)
TDet(T) == Minors(T)[T.n + 1]
\* the k-th pivot of elimination without pivoting is f[k] / f[k-1]: some pivot vanishes iff some leading minor does
SomePivotZero(T) == \E j \in 1..T.n : Minors(T)[j + 1] = 0

\* the same recurrence over Gaussian integers: T + i Ti, minors as pairs <<re, im>>
RECURSIVE CMinorsFrom(_, _, _, _)
CMinorsFrom(T, Ti, j, f) == IF j > T.n THEN f
    ELSE CMinorsFrom(T, Ti, j + 1, Append(f, CSubP(CMulP(<<T.main[j], Ti.main[j]>>, f[j]),
                                                   CMulP(CMulP(<<T.sub[j - 1], Ti.sub[j - 1]>>, <<T.sup[j - 1], Ti.sup[j - 1]>>), f[j - 1]))))
CMinors(T, Ti) == CMinorsFrom(T, Ti, 2, <<<<1, 0>>, <<T.main[1], Ti.main[1]>>>>)
CTDet(T, Ti) == CMinors(T, Ti)[T.n + 1]
CSomePivotZero(T, Ti) == \E j \in 1..T.n : CMinors(T, Ti)[j + 1] = CZeroP

(* --------- Part 2c: data that are polynomials in a tiny dyadic eps (a pivot lost to rounding against its diagonal) --------- *)
\* A number is a polynomial in eps = 2^-t with Gaussian-integer coefficients, given as the sequence of its coefficients
\* <<re, im>> by degree (index 1 = degree 0).  With coefficients below 2^(t-1) in modulus such a polynomial vanishes at
\* eps = 2^-t iff all its coefficients vanish, so identities between the logged dyadic numbers are decided exactly here
\* although 2^-53 is far outside TLC's integers.
PCoef(p, k) == IF k >= 1 /\ k <= Len(p) THEN <<p[k][1], p[k][2]>> ELSE CZeroP
PAdd(p, q) == [k \in 1..IMax(Len(p), Len(q)) |-> <<PCoef(p, k)[1] + PCoef(q, k)[1], PCoef(p, k)[2] + PCoef(q, k)[2]>>]
PSub(p, q) == [k \in 1..IMax(Len(p), Len(q)) |-> <<PCoef(p, k)[1] - PCoef(q, k)[1], PCoef(p, k)[2] - PCoef(q, k)[2]>>]
RECURSIVE ConvSum(_, _, _, _)
ConvSum(p, q, k, a) == IF a > Len(p) THEN CZeroP
                       ELSE LET t == IF k + 1 - a >= 1 /\ k + 1 - a <= Len(q) THEN CMulP(PCoef(p, a), PCoef(q, k + 1 - a)) ELSE CZeroP
                                r == ConvSum(p, q, k, a + 1)
                            IN <<t[1] + r[1], t[2] + r[2]>>
PMul(p, q) == IF Len(p) = 0 \/ Len(q) = 0 THEN <<>> ELSE TLCEval([k \in 1..(Len(p) + Len(q) - 1) |-> ConvSum(p, q, k, 1)])
PIsZero(p) == \A k \in 1..Len(p) : PCoef(p, k) = CZeroP
PSmall(p, bound) == \A k \in 1..Len(p) : IAbs(p[k][1]) <= bound /\ IAbs(p[k][2]) <= bound
\* leading principal minors of a tridiagonal matrix with polynomial entries (same recurrence)
RECURSIVE PMinorsFrom(_, _, _)
PMinorsFrom(T, j, f) == IF j > T.n THEN f
    ELSE PMinorsFrom(T, j + 1, Append(f, TLCEval(PSub(PMul(T.main[j], f[j]), PMul(PMul(T.sub[j - 1], T.sup[j - 1]), f[j - 1])))))
PMinors(T) == PMinorsFrom(T, 2, << <<<<1, 0>>>>, T.main[1] >>)
PSomePivotZero(T) == \E j \in 1..T.n : PIsZero(PMinors(T)[j + 1])
\* row i (1-based) of T times the vector xs of polynomials
PRowDot(T, xs, i) == LET d == PMul(T.main[i], xs[i])
                         lo == IF i > 1 THEN PMul(T.sub[i - 1], xs[i - 1]) ELSE <<>>
                         up == IF i < T.n THEN PMul(T.sup[i], xs[i + 1]) ELSE <<>>
                     IN PAdd(d, PAdd(lo, up))
\* T (xs / (L eps^K)) = r, cross-multiplied: T xs = L eps^K r
PResidualZero(T, xs, L, K, r) ==
    LET scale == [k \in 1..(K + 1) |-> IF k = K + 1 THEN <<L, 0>> ELSE <<0, 0>>]
    IN \A i \in 1..T.n : PIsZero(PSub(PRowDot(T, xs, i), PMul(scale, r[i])))

(* ------------------------------ Part 3 ------------------------------ *)
\* state of the Thomas algorithm: pc in {"run", "back", "ok", "refused"}, loop index j (0-based like the code),
\* beta, gamma and u as functions 0..n-1 -> Rat, why = the refusal message
ThomasInit(T, r) ==
    LET z == [i \in 0..(T.n - 1) |-> RZero] IN
    IF T.main[1] = 0
      THEN [pc |-> "refused", why |-> "zero on leading diagonal", j |-> 0, beta |-> RZero, gamma |-> z, u |-> z]
      ELSE [pc |-> IF T.n = 1 THEN "back" ELSE "run", why |-> "", j |-> 1, beta |-> R(T.main[1]), gamma |-> z,
            u |-> [z EXCEPT ![0] = RDiv(R(r[1]), R(T.main[1]))]]
\* one iteration of the forward loop (j = 1..n-1)
ThomasStep(T, r, th) ==
    LET j == th.j
        g == RDiv(R(T.sup[j]), th.beta)                         \* c_temp[j-1] / beta
        b == RSub(R(T.main[j + 1]), RMul(R(T.sub[j]), g))        \* main[j] - a_temp[j] * gamma[j]
    IN IF b = RZero
         THEN [th EXCEPT !.pc = "refused", !.why = "zero pivot", !.beta = b, !.gamma[j] = g]
         ELSE [th EXCEPT !.pc = IF j + 1 = T.n THEN "back" ELSE "run", !.j = j + 1, !.beta = b, !.gamma[j] = g,
                         !.u[j] = RDiv(RSub(R(r[j + 1]), RMul(R(T.sub[j]), th.u[j - 1])), b)]
\* the back sweep: for j = n-2 downto 0: u[j] -= gamma[j+1] * u[j+1]
RECURSIVE SweepFrom(_, _, _)
SweepFrom(gamma, u, j) == IF j < 0 THEN u ELSE SweepFrom(gamma, [u EXCEPT ![j] = RSub(u[j], RMul(gamma[j + 1], u[j + 1]))], j - 1)
ThomasBack(T, th) == [th EXCEPT !.pc = "ok", !.u = SweepFrom(th.gamma, th.u, T.n - 2)]
RECURSIVE ThomasRun(_, _, _)
ThomasRun(T, r, th) == IF th.pc = "run" THEN ThomasRun(T, r, ThomasStep(T, r, th))
                       ELSE IF th.pc = "back" THEN ThomasBack(T, th) ELSE th
Thomas(T, r) == ThomasRun(T, r, ThomasInit(T, r))
\* exact residual over Rat: T u = r
RECURSIVE RDotFrom(_, _, _, _)
RDotFrom(T, i, u, j) == IF j >= T.n THEN RZero ELSE RAdd(RMul(R(TGet(T, i, j)), u[j]), RDotFrom(T, i, u, j + 1))
SolvesExactly(T, u, r) == \A i \in 0..(T.n - 1) : RDotFrom(T, i, u, 0) = R(r[i + 1])
=============================================================================
