----------------------------- MODULE MC_Newton -----------------------------
(* Design check and case generator for Newton.tla (C17).                                 *)
(*  - every problem: variant x dimension (1 for scalars, 1..MaxN for systems) x limit     *)
(*    0..MaxLimit x oracle R in 0..MaxLimit+2 (0 = never) x evaluations per step E;       *)
(*    two consecutive solves per behaviour;                                               *)
(*  - invariants: Iterations <= maxIter, Evals <= maxIter*EvalBound, success only after a *)
(*    met criterion, failure only after exactly maxIter unmet steps and carrying the last *)
(*    iterate, maxIter = 0 => no Eval and Err(guess), configuration unchanged, Idempotent, *)
(*    the outcome law (independent closed form) and the projection lemma used by the      *)
(*    hook-free trace specification; termination;                                         *)
(*  - MutatesGuess = TRUE must violate Idempotent (expected counterexample);              *)
(*  - with Emit = TRUE each problem with R in {0, 1, 2} is printed as a case: the harness *)
(*    realises the oracle with a linear function (exact guess: R = 1; other guess: R = 2)  *)
(*    or a root-free one (R = 0) and the real solver must report what the model reports.  *)
EXTENDS Newton, TLC, Json
CONSTANTS MaxN, MaxLimit, Emit
VARIABLES p, s
vars == <<p, s>>

Dim(v) == IF IsScalar(v) THEN {1} ELSE 1..MaxN
\* evaluations per step an implementation may spend: at least one, at most the bound
EChoices(v, n) == {1, n + 2, EvalBound(v, n)}
Init == /\ \E v \in Variants, m \in 0..MaxLimit, R \in 0..(MaxLimit + 2) : \E n \in Dim(v) : \E E \in EChoices(v, n) :
              p = [v |-> v, n |-> n, maxIter |-> m, R |-> R, E |-> E]
        /\ s = NInit(p)
Next == s' \in NNext(p, s) /\ p' = p
Spec == Init /\ [][Next]_vars /\ WF_vars(Next)
View == <<p, [s EXCEPT !.hist = Len(s.hist), !.hist1 = Len(s.hist1)]>>

Running(st) == st.phase \in {"between", "step", "ok", "err"}
TypeOK == /\ s.phase \in {"idle", "between", "step", "ok", "err"} /\ s.call \in {1, 2}
          /\ s.k \in 0..MaxLimit /\ s.stepEvals \in 0..p.E
IterBound == s.k <= s.cfg.maxIter
EvalsBound == WithinWork(p.v, p.n, p.maxIter, s.evals)
OkOnlyAfterMet == s.phase = "ok" => s.lastMet /\ s.k >= 1 /\ s.hist[Len(s.hist) - 1] = Ev("iterend", 1)
ErrOnlyExhausted == s.phase = "err" => s.k = s.cfg.maxIter /\ ~s.everMet
ErrCarriesLast == s.phase = "err" => s.res.point = s.start + s.cfg.maxIter /\ ~s.res.ok
ZeroLimit == (p.maxIter = 0 /\ Finished(s)) => s.phase = "err" /\ s.evals = 0 /\ s.res.point = s.start
                                                /\ s.hist = <<Ev("begin", s.start), Ev("err", s.start)>>
CfgUnchanged == s.cfg = [maxIter |-> p.maxIter, guess |-> 0]
Idempotent == (s.call = 2 /\ Finished(s)) => s.hist = s.hist1 /\ s.res = s.res1
\* independent closed form of the outcome
OutcomeLaw == Finished(s) => /\ s.res.ok = ExpectOk(s.start, p.R, p.maxIter)
                             /\ s.res.point = ExpectPoint(s.start, p.R, p.maxIter)
\* every machine behaviour projects to an event sequence the hook-free trace specification accepts
ProjectionLemma == /\ (Running(s) => s.evals = Cardinality({i \in 1..Len(s.hist) : s.hist[i].op = "eval"}))
                   /\ (Finished(s) => EndAllowed(p.v, p.n, p.maxIter, s.evals, s.res.ok))
                   /\ (s.phase = "step" /\ s.stepEvals < p.E => EvalAllowed(p.v, p.n, p.maxIter, s.evals))
\* prefix closure: the events of a solve under limit m are a prefix of those under any larger limit until it returns;
\* stated on the closed form: a failed solve under limit m carries the point at which step m + 1 would start
PrefixClosure == \A m \in 0..MaxLimit : ~ExpectOk(0, p.R, m) =>
                     /\ ExpectPoint(0, p.R, m) = m
                     /\ (ExpectOk(0, p.R, m + 1) => ExpectPoint(0, p.R, m + 1) = m + 1)
Termination == <>(s.call = 2 /\ Finished(s))

GenStop == s.phase = "idle" /\ s.call = 1
EmitCase == (Emit /\ s.phase = "idle" /\ s.call = 1 /\ p.R \in {0, 1, 2} /\ p.E = 1) =>
              PrintT(<<"CASE", ToJson([variant |-> p.v, n |-> p.n, limit |-> p.maxIter, R |-> p.R,
                                        ok |-> ExpectOk(0, p.R, p.maxIter), steps |-> ExpectPoint(0, p.R, p.maxIter)])>>)
=============================================================================
