--------------------------- MODULE Trace_ComplexFun ---------------------------
(* Trace validation for the complex functions (C14).  An event discharges ONE           *)
(* obligation of ComplexFun.tla (position e.pos of the canonical obligation sequence).   *)
(* It is accepted iff                                                                    *)
(*   - it names the obligation the specification has at that position and echoes the     *)
(*     parameters the specification fixed (relation id, cond, range predicate, exact     *)
(*     expectation) - so the harness cannot evaluate something else;                     *)
(*   - err_units <= 1 (units of 64 eps scale cond, measured by the harness), the range   *)
(*     flag is TRUE and at least MinPoints evaluations were made;                        *)
(*   - in a complete pass (between the markers "start" and "end") the obligations arrive *)
(*     in the specification's own order without a gap, and at "end" none is left:        *)
(*     coverage completeness is decided against the spec's enumeration.  All values of   *)
(*     an evaluation come from one pass that calls ALL catalogue functions back to back  *)
(*     on the same z (each twice, orders varied); at "end" every ordered pair of         *)
(*     decomposition-based functions must have been adjacent at least once.              *)
(* Outside a complete pass (replay of a single case) only the event itself is judged.    *)
EXTENDS TraceBase, ComplexFun
VARIABLES l, pos, strict
vars == <<l, pos, strict>>

RSame(p, q) == p[1] = q[1] /\ p[2] = q[2]
CSame(a, b) == RSame(a.re, b.re) /\ RSame(a.im, b.im)

InRange(e) == e.pos \in 1..NOblig
\* the interleaved evaluation made every ordered pair of decomposition-based functions (incl. each with itself) adjacent
PairsCovered(e) == /\ {e.decomp[i] : i \in 1..Len(e.decomp)} = Decomp
                   /\ e.pairs = Cardinality(Decomp) * Cardinality(Decomp)
Valid(e, o) ==
  /\ e.op = o.kind /\ e.cond = o.cond
  /\ e.err_units <= 1 /\ e.range = TRUE
  /\ e.repeat = TRUE                 \* every function called twice in a row on the same z returned identical bits
  /\ IF o.kind = "rel"
       THEN /\ e.rel = o.rel.id /\ e.ri = o.ri /\ e.gi = o.gi /\ e.relkind = o.rel.kind
            /\ e.rangef = o.range.f /\ e.rangeclosed = (o.range.loClosed /\ o.range.hiClosed) /\ e.amp = o.rel.amp /\ e.npts >= o.minpts
       ELSE IF o.kind = "soak"
       THEN e.fn = o.fn /\ e.npts >= o.minpts /\ e.panics = 0 /\ e.diffs = 0        \* SoakN calls, none panicked, none differed
       ELSE /\ CSame(e.z, o.z) /\ e.k = o.k /\ CSame(e.expect, o.expect) /\ e.npts >= o.minpts

Init == l = 1 /\ pos = 1 /\ strict = FALSE /\ TLCSet(1, 0)
Step == /\ l <= NRec
        /\ LET e == Rec[l]
           IN CASE e.op = "start" -> pos' = 1 /\ strict' = TRUE
                [] e.op = "end" -> /\ IF strict /\ pos # NOblig + 1 THEN Mismatch(l, e, "coverage incomplete: next " \o ToString(pos))
                                      ELSE IF strict /\ ~PairsCovered(e) THEN Mismatch(l, e, "adjacent pairs not covered") ELSE TRUE
                                   /\ pos' = 1 /\ strict' = FALSE
                [] e.op \in {"rel", "sqrt_exact", "powk", "soak"} ->
                     /\ IF ~InRange(e) THEN Mismatch(l, e, "not an obligation of the matrix")
                        ELSE IF strict /\ e.pos # pos THEN Mismatch(l, e, "coverage gap: expected " \o ToString(pos))
                        ELSE IF ~Valid(e, Oblig(e.pos)) THEN Mismatch(l, e, IF e.repeat THEN e.op ELSE "repeated call differs") ELSE TRUE
                     /\ pos' = IF InRange(e) THEN e.pos + 1 ELSE pos
                     /\ UNCHANGED strict
                [] OTHER -> Mismatch(l, e, "unknown event") /\ UNCHANGED <<pos, strict>>
        /\ l' = l + 1
Spec == Init /\ [][Step]_vars
=============================================================================
