SPECIFICATION Spec
CONSTANTS MaxR = 2  MaxC = 3  MaxEnt = 3  Depth = 2  Emit = TRUE  WithZero = FALSE
INVARIANTS EmitCase
CHECK_DEADLOCK FALSE
