SPECIFICATION Spec
CONSTANTS MaxR = 2  MaxC = 3  MaxEnt = 3  Depth = 2  Emit = TRUE
INVARIANTS EmitCase
CHECK_DEADLOCK FALSE
