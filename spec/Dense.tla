------------------------------- MODULE Dense -------------------------------
(* Dense matrices as mathematical values: [r, c, d] with d the row-major sequence of  *)
(* the r*c entries (integers).  Indices are 0-based like the implementation.  Every   *)
(* public operation of ohsl::Matrix is one operator, written from its textbook         *)
(* definition, plus its acceptance predicate named Acc_X: outside it the call must panic   *)
(* and leave the matrix unchanged.                                                     *)
EXTENDS Integers, Sequences, FiniteSets

IAbs(x) == IF x < 0 THEN -x ELSE x
IMax(a, b) == IF a > b THEN a ELSE b
IMin(a, b) == IF a < b THEN a ELSE b

Mk(r, c, F(_, _)) == [r |-> r, c |-> c, d |-> [n \in 1..(r * c) |-> F((n - 1) \div c, (n - 1) % c)]]
At(M, i, j) == M.d[i * M.c + j + 1]
WellShaped(M) == M.r >= 0 /\ M.c >= 0 /\ Len(M.d) = M.r * M.c
IsMat(M, V) == WellShaped(M) /\ \A n \in 1..Len(M.d) : M.d[n] \in V
SameMat(X, Y) == X.r = Y.r /\ X.c = Y.c /\ Len(X.d) = Len(Y.d) /\ \A n \in 1..Len(X.d) : X.d[n] = Y.d[n]
SameSeq(x, y) == Len(x) = Len(y) /\ \A n \in 1..Len(x) : x[n] = y[n]

(* ---------------- constructors ---------------- *)
New(r, c, x) == Mk(r, c, LAMBDA i, j : x)
Eye(n) == Mk(n, n, LAMBDA i, j : IF i = j THEN 1 ELSE 0)
Empty == [r |-> 0, c |-> 0, d |-> <<>>]

(* ---------------- row / column access ---------------- *)
Acc_GetRow(M, i) == 0 <= i /\ i < M.r
GetRow(M, i) == [k \in 1..M.c |-> At(M, i, k - 1)]
Acc_GetCol(M, j) == 0 <= j /\ j < M.c
GetCol(M, j) == [k \in 1..M.r |-> At(M, k - 1, j)]
Acc_SetRow(M, i, v) == Len(v) = M.c /\ 0 <= i /\ i < M.r
SetRow(M, i, v) == Mk(M.r, M.c, LAMBDA a, b : IF a = i THEN v[b + 1] ELSE At(M, a, b))
Acc_SetCol(M, j, v) == Len(v) = M.r /\ 0 <= j /\ j < M.c
SetCol(M, j, v) == Mk(M.r, M.c, LAMBDA a, b : IF b = j THEN v[a + 1] ELSE At(M, a, b))
Acc_DeleteRow(M, i) == 0 <= i /\ i < M.r
DeleteRow(M, i) == Mk(M.r - 1, M.c, LAMBDA a, b : IF a < i THEN At(M, a, b) ELSE At(M, a + 1, b))
Acc_SwapRows(M, i1, i2) == 0 <= i1 /\ i1 < M.r /\ 0 <= i2 /\ i2 < M.r
SwapRows(M, i1, i2) == Mk(M.r, M.c, LAMBDA a, b : IF a = i1 THEN At(M, i2, b) ELSE IF a = i2 THEN At(M, i1, b) ELSE At(M, a, b))
\* swap_elem and the raw (i,j) index state no per-axis check; they are used in range only
InRange(M, i, j) == 0 <= i /\ i < M.r /\ 0 <= j /\ j < M.c
SwapElem(M, i1, j1, i2, j2) ==
    Mk(M.r, M.c, LAMBDA a, b : IF a = i1 /\ b = j1 THEN At(M, i2, j2)
                               ELSE IF a = i2 /\ b = j2 THEN At(M, i1, j1) ELSE At(M, a, b))
SetElem(M, i, j, x) == Mk(M.r, M.c, LAMBDA a, b : IF a = i /\ b = j THEN x ELSE At(M, a, b))

(* ---------------- shape changing ---------------- *)
Resize(M, r, c) == Mk(r, c, LAMBDA a, b : IF a < M.r /\ b < M.c THEN At(M, a, b) ELSE 0)
Transpose(M) == Mk(M.c, M.r, LAMBDA a, b : At(M, b, a))
Clear(M) == Empty

(* ---------------- fills ---------------- *)
Fill(M, x) == Mk(M.r, M.c, LAMBDA a, b : x)
FillDiag(M, x) == Mk(M.r, M.c, LAMBDA a, b : IF a = b THEN x ELSE At(M, a, b))
FillBand(M, off, x) == Mk(M.r, M.c, LAMBDA a, b : IF b = a + off THEN x ELSE At(M, a, b))
FillTridiag(M, lo, di, up) == FillBand(FillDiag(FillBand(M, -1, lo), di), 1, up)
Acc_FillRow(M, i) == 0 <= i /\ i < M.r
FillRow(M, i, x) == Mk(M.r, M.c, LAMBDA a, b : IF a = i THEN x ELSE At(M, a, b))
Acc_FillCol(M, j) == 0 <= j /\ j < M.c
FillCol(M, j, x) == Mk(M.r, M.c, LAMBDA a, b : IF b = j THEN x ELSE At(M, a, b))

(* ---------------- arithmetic ---------------- *)
SameShape(A, B) == A.r = B.r /\ A.c = B.c
Add(A, B) == Mk(A.r, A.c, LAMBDA a, b : At(A, a, b) + At(B, a, b))
Sub(A, B) == Mk(A.r, A.c, LAMBDA a, b : At(A, a, b) - At(B, a, b))
Neg(A) == Mk(A.r, A.c, LAMBDA a, b : -At(A, a, b))
Scale(A, s) == Mk(A.r, A.c, LAMBDA a, b : At(A, a, b) * s)
\* scalar division is exercised on entries that are multiples of s (exact in every element type)
Divisible(A, s) == s # 0 /\ \A n \in 1..Len(A.d) : A.d[n] % IAbs(s) = 0
QuotExact(x, s) == IF s > 0 THEN (IF x >= 0 THEN x \div s ELSE -((-x) \div s))
                   ELSE (IF x >= 0 THEN -(x \div (-s)) ELSE ((-x) \div (-s)))
DivS(A, s) == Mk(A.r, A.c, LAMBDA a, b : QuotExact(At(A, a, b), s))
Shift(A, s) == Mk(A.r, A.c, LAMBDA a, b : At(A, a, b) + s)

RECURSIVE DotFrom(_, _, _)
DotFrom(x, y, k) == IF k > Len(x) THEN 0 ELSE x[k] * y[k] + DotFrom(x, y, k + 1)
Dot(x, y) == DotFrom(x, y, 1)
Acc_MatMul(A, B) == A.c = B.r
MatMul(A, B) == Mk(A.r, B.c, LAMBDA a, b : Dot(GetRow(A, a), GetCol(B, b)))
Acc_MatVec(A, v) == Len(v) = A.c
MatVec(A, v) == [k \in 1..A.r |-> Dot(GetRow(A, k - 1), v)]

(* ---------------- norms (exact on integer data) ---------------- *)
RECURSIVE SumAbs(_, _)
SumAbs(x, k) == IF k > Len(x) THEN 0 ELSE IAbs(x[k]) + SumAbs(x, k + 1)
Norm1(M) == LET RECURSIVE Go(_)
                Go(j) == IF j >= M.c THEN 0 ELSE IMax(SumAbs(GetCol(M, j), 1), Go(j + 1))
            IN Go(0)
NormInf(M) == LET RECURSIVE Go(_)
                  Go(i) == IF i >= M.r THEN 0 ELSE IMax(SumAbs(GetRow(M, i), 1), Go(i + 1))
              IN Go(0)
NormMax(M) == LET RECURSIVE Go(_)
                  Go(n) == IF n > Len(M.d) THEN 0 ELSE IMax(IAbs(M.d[n]), Go(n + 1))
              IN Go(1)

(* ---------------- the editing operations as one transition function ---------------- *)
(* e is an operation record (field op + arguments); out-of-range targets and size      *)
(* mismatches leave the matrix unchanged (the call must panic).                        *)
IsMutator(e) == e.op \in {"set_row", "set_col", "delete_row", "swap_rows", "swap_elem", "set", "resize",
                          "transpose_in_place", "clear", "fill", "fill_diag", "fill_band", "fill_tridiag",
                          "fill_row", "fill_col", "add_assign", "sub_assign", "mul_assign", "div_assign",
                          "add_scalar_assign", "sub_scalar_assign", "neg_assign", "matmul_assign", "clone_from"}
ApplyOp(M, e) ==
  CASE e.op = "set_row" -> IF Acc_SetRow(M, e.i, e.v) THEN SetRow(M, e.i, e.v) ELSE M
    [] e.op = "set_col" -> IF Acc_SetCol(M, e.j, e.v) THEN SetCol(M, e.j, e.v) ELSE M
    [] e.op = "delete_row" -> IF Acc_DeleteRow(M, e.i) THEN DeleteRow(M, e.i) ELSE M
    [] e.op = "swap_rows" -> IF Acc_SwapRows(M, e.i, e.i2) THEN SwapRows(M, e.i, e.i2) ELSE M
    [] e.op = "swap_elem" -> SwapElem(M, e.i, e.j, e.i2, e.j2)
    [] e.op = "set" -> SetElem(M, e.i, e.j, e.x)
    [] e.op = "resize" -> Resize(M, e.nr, e.nc)
    [] e.op = "transpose_in_place" -> Transpose(M)
    [] e.op = "clear" -> Clear(M)
    [] e.op = "fill" -> Fill(M, e.x)
    [] e.op = "fill_diag" -> FillDiag(M, e.x)
    [] e.op = "fill_band" -> FillBand(M, e.off, e.x)
    [] e.op = "fill_tridiag" -> FillTridiag(M, e.lo, e.di, e.up)
    [] e.op = "fill_row" -> IF Acc_FillRow(M, e.i) THEN FillRow(M, e.i, e.x) ELSE M
    [] e.op = "fill_col" -> IF Acc_FillCol(M, e.j) THEN FillCol(M, e.j, e.x) ELSE M
    [] e.op = "add_assign" -> IF SameShape(M, e.b) THEN Add(M, e.b) ELSE M
    [] e.op = "sub_assign" -> IF SameShape(M, e.b) THEN Sub(M, e.b) ELSE M
    [] e.op = "mul_assign" -> Scale(M, e.s)
    [] e.op = "div_assign" -> DivS(M, e.s)
    [] e.op = "add_scalar_assign" -> Shift(M, e.s)
    [] e.op = "sub_scalar_assign" -> Shift(M, -e.s)
    \* the object is consumed by the by-value operator and the result takes its place (m = -m, m = m * B)
    [] e.op = "clone_from" -> e.b                        \* Clone::clone_from: the object becomes a copy of the source, shape included
    [] e.op = "neg_assign" -> Neg(M)
    [] e.op = "matmul_assign" -> IF Acc_MatMul(M, e.b) THEN MatMul(M, e.b) ELSE M
    [] OTHER -> M
=============================================================================
