------------------------------- MODULE Poly -------------------------------
(* Polynomials as coefficient sequences, lowest power first; <<>> is the empty        *)
(* polynomial (acts as zero).  Three coefficient rings, all written from the textbook  *)
(* definitions (termwise sums, convolution, k*a_k, Horner):                            *)
(*   P...  integer coefficients                                                        *)
(*   Q...  rational coefficients (reduced pairs <<n, d>> of Rat.tla)                   *)
(*   C...  Gaussian-integer coefficients, a polynomial is [re |-> seq, im |-> seq]     *)
(*         with Len(re) = Len(im); scalars are pairs <<re, im>>                        *)
(* Lengths follow the textbook: max length for + and -, La + Lb - 1 for the product.   *)
EXTENDS Integers, Sequences, Rat

PMax(a, b) == IF a > b THEN a ELSE b
PDeg(p) == Len(p) - 1                                   \* degree() of a non-empty coefficient list

(* ------------------------------ integers ------------------------------ *)
Coef(p, i) == IF i >= 1 /\ i <= Len(p) THEN p[i] ELSE 0
SamePoly(a, b) == \A i \in 1..PMax(Len(a), Len(b)) : Coef(a, i) = Coef(b, i)     \* equal as polynomials
PIsZero(p) == \A i \in 1..Len(p) : p[i] = 0
PAdd(a, b) == [i \in 1..PMax(Len(a), Len(b)) |-> Coef(a, i) + Coef(b, i)]
PSub(a, b) == [i \in 1..PMax(Len(a), Len(b)) |-> Coef(a, i) - Coef(b, i)]
PNeg(a) == [i \in 1..Len(a) |-> -a[i]]
PScale(a, s) == [i \in 1..Len(a) |-> a[i] * s]
RECURSIVE ConvSum(_, _, _, _)
ConvSum(a, b, k, i) == IF i > Len(a) THEN 0 ELSE a[i] * Coef(b, k - i + 1) + ConvSum(a, b, k, i + 1)
PMul(a, b) == IF Len(a) = 0 \/ Len(b) = 0 THEN <<>> ELSE [k \in 1..(Len(a) + Len(b) - 1) |-> ConvSum(a, b, k, 1)]
RECURSIVE HornerFrom(_, _, _)
HornerFrom(p, x, i) == IF i > Len(p) THEN 0 ELSE p[i] + x * HornerFrom(p, x, i + 1)
PEval(p, x) == HornerFrom(p, x, 1)                      \* value of the empty polynomial: 0
RECURSIVE IPow(_, _)
IPow(x, n) == IF n = 0 THEN 1 ELSE x * IPow(x, n - 1)
RECURSIVE PowSumFrom(_, _, _)
PowSumFrom(p, x, i) == IF i > Len(p) THEN 0 ELSE p[i] * IPow(x, i - 1) + PowSumFrom(p, x, i + 1)
PEvalPow(p, x) == PowSumFrom(p, x, 1)                   \* independent definition: sum a_k x^k
PDeriv(p) == [k \in 1..PMax(Len(p) - 1, 0) |-> k * p[k + 1]]
RECURSIVE PDerivN(_, _)
PDerivN(p, n) == IF n = 0 THEN p ELSE PDerivN(PDeriv(p), n - 1)
RECURSIVE PTrim(_)
PTrim(p) == IF Len(p) > 1 /\ p[Len(p)] = 0 THEN PTrim(SubSeq(p, 1, Len(p) - 1)) ELSE p    \* keeps one coefficient
Trimmed(p) == Len(p) <= 1 \/ p[Len(p)] # 0

(* ------------------------------ rationals ------------------------------ *)
QCoef(p, i) == IF i >= 1 /\ i <= Len(p) THEN p[i] ELSE RZero
QSame(a, b) == \A i \in 1..PMax(Len(a), Len(b)) : QCoef(a, i) = QCoef(b, i)
QIsZero(p) == \A i \in 1..Len(p) : p[i] = RZero
QEmb(p) == [i \in 1..Len(p) |-> R(p[i])]
QAdd(a, b) == [i \in 1..PMax(Len(a), Len(b)) |-> RAdd(QCoef(a, i), QCoef(b, i))]
QSub(a, b) == [i \in 1..PMax(Len(a), Len(b)) |-> RSub(QCoef(a, i), QCoef(b, i))]
QNeg(a) == [i \in 1..Len(a) |-> RNeg(a[i])]
QScale(a, s) == [i \in 1..Len(a) |-> RMul(a[i], s)]
RECURSIVE QConvSum(_, _, _, _)
QConvSum(a, b, k, i) == IF i > Len(a) THEN RZero ELSE RAdd(RMul(a[i], QCoef(b, k - i + 1)), QConvSum(a, b, k, i + 1))
QMul(a, b) == IF Len(a) = 0 \/ Len(b) = 0 THEN <<>> ELSE [k \in 1..(Len(a) + Len(b) - 1) |-> QConvSum(a, b, k, 1)]
RECURSIVE QHornerFrom(_, _, _)
QHornerFrom(p, x, i) == IF i > Len(p) THEN RZero ELSE RAdd(p[i], RMul(x, QHornerFrom(p, x, i + 1)))
QEval(p, x) == QHornerFrom(p, x, 1)
QDeriv(p) == [k \in 1..PMax(Len(p) - 1, 0) |-> RMul(R(k), p[k + 1])]
RECURSIVE QDerivN(_, _)
QDerivN(p, n) == IF n = 0 THEN p ELSE QDerivN(QDeriv(p), n - 1)
RECURSIVE QTrim(_)
QTrim(p) == IF Len(p) > 1 /\ p[Len(p)] = RZero THEN QTrim(SubSeq(p, 1, Len(p) - 1)) ELSE p
QTrimmed(p) == Len(p) <= 1 \/ p[Len(p)] # RZero
QIsRatPoly(p) == \A i \in 1..Len(p) : IsRat(p[i])

(* --------------------------- Gaussian integers --------------------------- *)
GZ == <<0, 0>>
GAdd(x, y) == <<x[1] + y[1], x[2] + y[2]>>
GSub(x, y) == <<x[1] - y[1], x[2] - y[2]>>
GNeg(x) == <<-x[1], -x[2]>>
GMul(x, y) == <<x[1] * y[1] - x[2] * y[2], x[1] * y[2] + x[2] * y[1]>>
GConj(x) == <<x[1], -x[2]>>
GNorm2(x) == x[1] * x[1] + x[2] * x[2]
GScale(x, k) == <<x[1] * k, x[2] * k>>
CP(re, im) == [re |-> re, im |-> im]
CWell(p) == Len(p.re) = Len(p.im)
CLen(p) == Len(p.re)
CAt(p, i) == <<Coef(p.re, i), Coef(p.im, i)>>
CSame(a, b) == SamePoly(a.re, b.re) /\ SamePoly(a.im, b.im)
CIsZero(p) == PIsZero(p.re) /\ PIsZero(p.im)
CAdd(a, b) == CP(PAdd(a.re, b.re), PAdd(a.im, b.im))
CSub(a, b) == CP(PSub(a.re, b.re), PSub(a.im, b.im))
CNeg(a) == CP(PNeg(a.re), PNeg(a.im))
CMul(a, b) == CP(PSub(PMul(a.re, b.re), PMul(a.im, b.im)), PAdd(PMul(a.re, b.im), PMul(a.im, b.re)))
CScale(a, s) == CP(PSub(PScale(a.re, s[1]), PScale(a.im, s[2])), PAdd(PScale(a.re, s[2]), PScale(a.im, s[1])))
RECURSIVE CHornerFrom(_, _, _)
CHornerFrom(p, x, i) == IF i > CLen(p) THEN GZ ELSE GAdd(CAt(p, i), GMul(x, CHornerFrom(p, x, i + 1)))
CEval(p, x) == CHornerFrom(p, x, 1)
CDeriv(p) == CP(PDeriv(p.re), PDeriv(p.im))
CDerivN(p, n) == CP(PDerivN(p.re, n), PDerivN(p.im, n))
CTrimLen(p) == LET RECURSIVE Go(_)
                   Go(n) == IF n > 1 /\ p.re[n] = 0 /\ p.im[n] = 0 THEN Go(n - 1) ELSE n
               IN Go(CLen(p))
CTrim(p) == CP(SubSeq(p.re, 1, CTrimLen(p)), SubSeq(p.im, 1, CTrimLen(p)))
CTrimmed(p) == CLen(p) <= 1 \/ p.re[CLen(p)] # 0 \/ p.im[CLen(p)] # 0
=============================================================================
