------------------------------ MODULE MC_Poly ------------------------------
(* Design check and case generator for Poly.tla (C11).                                 *)
(*  - every triple (p, q, r) of coefficient sequences of length 0..MaxLen (p, q) and   *)
(*    0..MaxLen3 (r) over Vals is one initial state; the ring and calculus laws are    *)
(*    invariants.  The laws cross-check the operators against independent definitions: *)
(*    Horner against the power sum; the convolution against the evaluation             *)
(*    homomorphism at 2*MaxLen - 1 > deg(p*q) points (which determines the product);   *)
(*    k*a_k against linearity and the product rule; Q... and C... against P...         *)
(*  - Mode = "gen": every pair (p, q) is printed as one case (spec -> implementation); *)
(*    Mode = "gencx": every pair of Gaussian-integer polynomials of length <= CxLen.   *)
EXTENDS Poly, TLC, Json, FiniteSets
CONSTANTS MaxLen, MaxLen3, CxLen, Vals, CxVals, Mode
VARIABLES p, q, r, pi, qi, lvl
vars == <<p, q, r, pi, qi, lvl>>

MCVals == {-1, 0, 1}
MCVals01 == {0, 1}
Pts == -2..2
Polys(n, V) == UNION {[1..len -> V] : len \in 0..n}

\* the operands are chosen one per step (three levels), so that TLC's workers share the evaluation of the laws
Init == /\ lvl = 1 /\ q = <<>> /\ r = <<>> /\ pi = <<>> /\ qi = <<>>
        /\ p \in (IF Mode = "gencx" THEN Polys(CxLen, CxVals) ELSE Polys(MaxLen, Vals))
Next == \/ /\ lvl = 1 /\ lvl' = 2 /\ UNCHANGED <<p, r>>
           /\ IF Mode = "gencx"
                THEN /\ q' \in Polys(CxLen, CxVals) /\ pi' \in [1..Len(p) -> CxVals] /\ qi' \in [1..Len(q') -> CxVals]
                ELSE /\ q' \in Polys(MaxLen, Vals) /\ UNCHANGED <<pi, qi>>
        \/ /\ lvl = 2 /\ Mode = "mc" /\ lvl' = 3 /\ r' \in (Polys(MaxLen3, Vals) \ {<<>>}) /\ UNCHANGED <<p, q, pi, qi>>
Spec == Init /\ [][Next]_vars

Lead(a) == a[Len(a)]
Zeroish(a) == PIsZero(a)             \* the empty polynomial or all-zero coefficients

(* ---------------- ring laws ---------------- *)
Ring2 == /\ SamePoly(PAdd(p, q), PAdd(q, p)) /\ SamePoly(PMul(p, q), PMul(q, p))
         /\ Zeroish(PSub(p, p)) /\ SamePoly(PSub(p, q), PAdd(p, PNeg(q))) /\ SamePoly(PNeg(PNeg(p)), p)
         /\ SamePoly(PScale(p, 2), PAdd(p, p)) /\ SamePoly(PScale(p, -1), PNeg(p))
         /\ SamePoly(PMul(p, <<3>>), PScale(p, 3)) /\ SamePoly(PMul(p, <<1>>), p)
Ring3 == /\ SamePoly(PAdd(PAdd(p, q), r), PAdd(p, PAdd(q, r)))
        /\ SamePoly(PMul(PMul(p, q), r), PMul(p, PMul(q, r)))
        /\ SamePoly(PMul(p, PAdd(q, r)), PAdd(PMul(p, q), PMul(p, r)))
        /\ SamePoly(PMul(PAdd(p, q), r), PAdd(PMul(p, r), PMul(q, r)))
\* the empty polynomial acts as zero on either side of + - *
EmptyIsZero == /\ PAdd(p, <<>>) = p /\ PAdd(<<>>, p) = p /\ PSub(p, <<>>) = p /\ PSub(<<>>, p) = PNeg(p)
               /\ Zeroish(PMul(p, <<>>)) /\ Zeroish(PMul(<<>>, p)) /\ Zeroish(<<>>) /\ PEval(<<>>, 2) = 0
Degrees == /\ Len(PAdd(p, q)) = PMax(Len(p), Len(q)) /\ Len(PSub(p, q)) = PMax(Len(p), Len(q))
           /\ ((Len(p) > 0 /\ Len(q) > 0) => Len(PMul(p, q)) = Len(p) + Len(q) - 1)
           /\ ((Len(p) > 0 /\ Len(q) > 0 /\ Lead(p) # 0 /\ Lead(q) # 0) =>
                   /\ Lead(PMul(p, q)) # 0 /\ PDeg(PMul(p, q)) = PDeg(p) + PDeg(q)
                   /\ Lead(PMul(p, q)) = Lead(p) * Lead(q))
           /\ (Len(p) # Len(q) => (Len(p) > Len(q) /\ Lead(PAdd(p, q)) = Lead(p)) \/ (Len(q) > Len(p) /\ Lead(PAdd(p, q)) = Lead(q)))
           /\ Trimmed(PTrim(p)) /\ SamePoly(PTrim(p), p) /\ (Len(p) > 0 => Len(PTrim(p)) >= 1)
           /\ (PIsZero(p) <=> \A x \in Pts : PEval(p, x) = 0)           \* length <= 3 < 5 points
(* ---------------- evaluation is a ring homomorphism; Horner = power sum ---------------- *)
EvalHom == \A x \in Pts :
             /\ PEval(p, x) = PEvalPow(p, x)
             /\ PEval(PAdd(p, q), x) = PEval(p, x) + PEval(q, x)
             /\ PEval(PSub(p, q), x) = PEval(p, x) - PEval(q, x)
             /\ PEval(PMul(p, q), x) = PEval(p, x) * PEval(q, x)
             /\ PEval(PNeg(p), x) = -PEval(p, x) /\ PEval(PScale(p, 3), x) = 3 * PEval(p, x)
(* ---------------- calculus ---------------- *)
Calculus == /\ SamePoly(PDeriv(PAdd(p, q)), PAdd(PDeriv(p), PDeriv(q)))
            /\ SamePoly(PDeriv(PScale(p, 3)), PScale(PDeriv(p), 3))
            /\ SamePoly(PDeriv(PMul(p, q)), PAdd(PMul(PDeriv(p), q), PMul(p, PDeriv(q))))      \* product rule
            /\ \A k \in 1..(Len(p) - 1) : PDeriv(p)[k] = k * p[k + 1]
            /\ Len(PDeriv(p)) = PMax(Len(p) - 1, 0)
            /\ PDerivN(p, 0) = p /\ Zeroish(PDerivN(p, Len(p))) /\ Len(PDerivN(p, Len(p))) = 0   \* order deg+1
            /\ (Len(p) >= 2 => SamePoly(PDerivN(p, 2), PDeriv(PDeriv(p))))
            \* the difference quotient of a polynomial of degree <= 2: p(x+1) - p(x-1) = 2 p'(x)
            /\ \A x \in Pts : Len(p) <= 3 => PEval(p, x + 1) - PEval(p, x - 1) = 2 * PEval(PDeriv(p), x)
(* ---------------- the rational and Gaussian operators agree with the integer ones ---------------- *)
Half == <<1, 2>>
RatAgree == /\ QSame(QAdd(QEmb(p), QEmb(q)), QEmb(PAdd(p, q))) /\ QSame(QSub(QEmb(p), QEmb(q)), QEmb(PSub(p, q)))
            /\ QSame(QMul(QEmb(p), QEmb(q)), QEmb(PMul(p, q))) /\ QSame(QNeg(QEmb(p)), QEmb(PNeg(p)))
            /\ QSame(QDeriv(QEmb(p)), QEmb(PDeriv(p))) /\ QSame(QTrim(QEmb(p)), QEmb(PTrim(p)))
            /\ QSame(QScale(QScale(QEmb(p), Half), R(2)), QEmb(p)) /\ QIsRatPoly(QScale(QEmb(p), Half))
            /\ QSame(QMul(QScale(QEmb(p), Half), QEmb(q)), QScale(QEmb(PMul(p, q)), Half))
            /\ \A x \in Pts : QEval(QEmb(p), R(x)) = R(PEval(p, x))
            \* p(1/2) * 2^(L-1) = reversed polynomial at 2
            /\ RMul(QEval(QEmb(p), Half), R(IPow(2, PMax(Len(p) - 1, 0)))) = R(PEvalPow([i \in 1..Len(p) |-> p[Len(p) + 1 - i]], 2))
            /\ (QIsZero(QEmb(p)) <=> PIsZero(p))
\* Gaussian: (p + i q) behaves as the formal sum; checked through real and imaginary polynomials
Pad(a, n) == [i \in 1..n |-> Coef(a, i)]
CxAgree == LET n == PMax(Len(p), Len(q))
               m == PMax(Len(r), 1)
               A == CP(Pad(p, n), Pad(q, n))                      \* p + i q
               B == CP(Pad(r, m), Pad(PNeg(r), m))                \* r - i r
               I == CP(<<0>>, <<1>>)                              \* the constant i
           IN /\ CWell(CMul(A, B)) /\ CWell(CAdd(A, B)) /\ CWell(CDeriv(A))
              /\ CSame(CMul(A, B), CMul(B, A))
              /\ CSame(CMul(I, CMul(I, A)), CNeg(A))              \* i*i = -1
              /\ CSame(CMul(A, CP(Pad(r, m), Pad(<<>>, m))), CP(PMul(Pad(p, n), Pad(r, m)), PMul(Pad(q, n), Pad(r, m))))
              /\ CSame(CScale(A, <<0, 1>>), CMul(I, A)) /\ CSame(CScale(A, <<2, 0>>), CAdd(A, A))
              /\ CSame(CSub(A, A), CP(Pad(<<>>, n), Pad(<<>>, n)))
              /\ \A x \in {<<0, 1>>, <<1, -1>>, <<-2, 1>>} :
                    /\ CEval(CMul(A, B), x) = GMul(CEval(A, x), CEval(B, x))
                    /\ CEval(CAdd(A, B), x) = GAdd(CEval(A, x), CEval(B, x))
                    /\ CEval(CDeriv(CMul(A, B)), x) = GAdd(GMul(CEval(CDeriv(A), x), CEval(B, x)), GMul(CEval(A, x), CEval(CDeriv(B), x)))
              /\ CTrimmed(CTrim(A)) /\ CSame(CTrim(A), A)

\* laws in two operands are evaluated once per pair (level 2), laws in three operands on every triple; the
\* Gaussian laws use r as a third independent operand
Laws == /\ (Mode = "mc" /\ lvl = 2) => (Ring2 /\ Ring3 /\ EmptyIsZero /\ Degrees /\ EvalHom /\ Calculus /\ RatAgree /\ CxAgree)
        /\ (Mode = "mc" /\ lvl = 3) => (Ring3 /\ CxAgree)

(* ---------------- spec -> implementation ---------------- *)
EmitCase == lvl = 2 =>
            /\ (Mode = "gen" => PrintT(<<"CASE", ToJson([p |-> p, q |-> q])>>))
            /\ (Mode = "gencx" => PrintT(<<"CASE", ToJson([p |-> p, pi |-> pi, q |-> q, qi |-> qi])>>))
=============================================================================
