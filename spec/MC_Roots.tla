------------------------------ MODULE MC_Roots ------------------------------
(* Design checks and case generator for Roots.tla (C10).  Mode selects the machine:    *)
(*  "quad"  every a # 0, r1, r2 with components in Comp, both branches of the square   *)
(*          root: the quadratic formula is well defined over Gaussian integers, returns *)
(*          {r1, r2}, and q = 0 only for b = c = 0 (the double root at zero);          *)
(*  "cubic" every a # 0 (components in CompA), r1, r2, r3: the triple-root test fires   *)
(*          exactly for r1 = r2 = r3 and -b/(3a) is that root;                          *)
(*  "skel"  the control skeleton for degrees 0..MaxDeg, both refinement settings, every *)
(*          outcome of every Laguerre iteration;                                        *)
(*  "gen"   products a * prod (x - r_i) for every multiset of 1..MaxRoots roots out of   *)
(*          the first NRoots entries of RootSet (expanded with Poly.CMul), emitted as   *)
(*          cases (coefficients, roots, all-distinct?).                                 *)
EXTENDS Roots, TLC, Json
CONSTANTS Mode, Comp, CompA, MaxDeg, NRoots, MaxRoots, NLead
VARIABLES st
vars == <<st>>

Comp2 == -2..2
Comp1 == -1..1
G(S) == {<<x, y>> : x \in S, y \in S}
RootSet == <<<<0, 0>>, <<1, 0>>, <<-1, 0>>, <<0, 1>>, <<0, -1>>, <<2, 0>>, <<1, 1>>, <<1, -1>>, <<-2, 1>>>>
LeadSet == <<<<1, 0>>, <<-2, 0>>, <<0, 1>>>>

(* ---------------- quad / cubic: two levels (a, then the roots) so that the workers share the work ---------------- *)
InitQC == st \in {[lvl |-> 1, a |-> a] : a \in G(CompA) \ {GZ}}
NextQuad == /\ st.lvl = 1
            /\ \E r1 \in G(Comp), r2 \in G(Comp), br \in {1, -1} : st' = [lvl |-> 2, a |-> st.a, r1 |-> r1, r2 |-> r2, br |-> br]
NextCubic == /\ st.lvl = 1
             /\ \E r1 \in G(Comp), r2 \in G(Comp), r3 \in G(Comp) : st' = [lvl |-> 2, a |-> st.a, r1 |-> r1, r2 |-> r2, r3 |-> r3]
QK == QuadCoeffs(st.a, st.r1, st.r2)
QS == GScale(GMul(st.a, GSub(st.r1, st.r2)), st.br)          \* one of the two square roots of the discriminant
QuadOK == (Mode = "quad" /\ st.lvl = 2) =>
            /\ QuadWellDefined(QK, QS)
            /\ (QuadQ(QK, QS) = GZ => (QK.b = GZ /\ QK.c = GZ))
            /\ (QuadQ(QK, QS) # GZ => (QuadRoots(QK, QS) = <<st.r1, st.r2>> \/ QuadRoots(QK, QS) = <<st.r2, st.r1>>))
            /\ ((QK.b = GZ /\ QK.c = GZ) => (st.r1 = GZ /\ st.r2 = GZ))
QuadFinite == (Mode = "quad" /\ st.lvl = 2) =>
                /\ QuadIsNumber(QK, QS)
                /\ (QuadRoots(QK, QS) = <<st.r1, st.r2>> \/ QuadRoots(QK, QS) = <<st.r2, st.r1>>)
CK == CubicCoeffs(st.a, st.r1, st.r2, st.r3)
CubicOK == (Mode = "cubic" /\ st.lvl = 2) =>
             /\ (TripleBranch(CK) <=> (st.r1 = st.r2 /\ st.r2 = st.r3))
             /\ (TripleBranch(CK) => (GDivides(GScale(CK.a, 3), GNeg(CK.b)) /\ TripleRoot(CK) = st.r1))

(* ---------------- skeleton ---------------- *)
InitSkel == st \in {SkInit(d, rf) : d \in 0..MaxDeg, rf \in BOOLEAN}
NextSkel == \/ st.pc = "dispatch" /\ \E cf \in (IF QZeroGuard THEN {TRUE} ELSE BOOLEAN) : st' = SkDispatch(st, cf)
            \/ st.pc \in {"deflate", "polish"} /\ \E o \in Outcomes : st' = SkIter(st, o)
            \/ SkFinal(st) /\ UNCHANGED st
SkelCount == (Mode = "skel" /\ st.pc = "done") => Produced(st) = st.deg
SkelFinite == (Mode = "skel" /\ st.pc = "done") => AllFinite(st)
SkelReject == Mode = "skel" => ((st.pc = "panic" => st.deg = 0) /\ ((st.deg = 0 /\ st.pc # "dispatch") => st.pc = "panic") /\ (st.pc = "panic" => Produced(st) = 0))
SkelWork == Mode = "skel" => (st.work <= WorkBound(st.deg, st.refine) /\ st.it <= MaxIt - 1 /\ st.j \in 0..PMax(st.deg - 1, 0))
SkelRun == (Mode = "skel" /\ st.pc = "dispatch") => (LET f == SkRun(st.deg, st.refine) IN IF st.deg = 0 THEN f.pc = "panic" ELSE (f.pc = "done" /\ Produced(f) = st.deg /\ AllFinite(f)))
Terminates == <>SkFinal(st)

(* ---------------- generator ---------------- *)
XMinus(r) == CP(<<-r[1], 1>>, <<-r[2], 0>>)                                  \* x - r
InitGen == st \in {[idx |-> <<>>, a |-> LeadSet[k], poly |-> CP(<<LeadSet[k][1]>>, <<LeadSet[k][2]>>)] : k \in 1..NLead}
NextGen == /\ Len(st.idx) < MaxRoots
           /\ \E k \in (IF Len(st.idx) = 0 THEN 1 ELSE st.idx[Len(st.idx)])..NRoots :
                 st' = [idx |-> Append(st.idx, k), a |-> st.a, poly |-> CMul(st.poly, XMinus(RootSet[k]))]
GenOK == Mode = "gen" =>
           /\ CWell(st.poly) /\ CLen(st.poly) = Len(st.idx) + 1 /\ CAt(st.poly, CLen(st.poly)) = st.a
           /\ \A i \in 1..Len(st.idx) : CEval(st.poly, RootSet[st.idx[i]]) = GZ
           /\ \A k \in 1..NRoots : (CEval(st.poly, RootSet[k]) = GZ) <=> (\E i \in 1..Len(st.idx) : st.idx[i] = k)
Distinct(s) == \A i \in 1..(Len(s) - 1) : s[i] # s[i + 1]
EmitCase == (Mode = "gen" /\ Len(st.idx) >= 1) =>
              PrintT(<<"CASE", ToJson([re |-> st.poly.re, im |-> st.poly.im,
                                       rre |-> [i \in 1..Len(st.idx) |-> RootSet[st.idx[i]][1]], rim |-> [i \in 1..Len(st.idx) |-> RootSet[st.idx[i]][2]],
                                       distinct |-> Distinct(st.idx)])>>)

Init == CASE Mode \in {"quad", "cubic"} -> InitQC [] Mode = "skel" -> InitSkel [] Mode = "gen" -> InitGen
Next == CASE Mode = "quad" -> NextQuad [] Mode = "cubic" -> NextCubic [] Mode = "skel" -> NextSkel [] Mode = "gen" -> NextGen
Spec == Init /\ [][Next]_vars /\ WF_vars(Next)
=============================================================================
