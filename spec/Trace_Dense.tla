---------------------------- MODULE Trace_Dense ----------------------------
(* Trace validation for ohsl::Matrix (C03, parts of C20).  The model state `cur` is    *)
(* the matrix value the SPECIFICATION computes by putting the recorded operations      *)
(* through the operators of Dense.tla; every event's logged post-state / return value  *)
(* must equal it.  An event with a `pre` field starts a new history (or is a stand-    *)
(* alone call); one without continues the current history from `cur`.                  *)
EXTENDS TraceBase, Dense
VARIABLES l, cur
vars == <<l, cur>>

\* two live objects may be used alternately in one history: events of the second carry obj = 2
Obj(e) == IF Has(e, "obj") THEN e.obj ELSE 1
Pre(e) == IF Has(e, "pre") THEN e.pre ELSE cur[Obj(e)]

\* ---- outcome predicates ----
GoodMut(e, X) == ~e.panic /\ SameMat(e.post, X)
Rejected(e, M) == e.panic /\ SameMat(e.post, M)          \* out-of-range target: panic AND nothing written
RejectedSize(e) == e.panic                                 \* size mismatch: must panic
GoodM(e, M, X) == ~e.panic /\ SameMat(e.post, M) /\ SameMat(e.rm, X)    \* observer returning a matrix
GoodV(e, M, x) == ~e.panic /\ SameMat(e.post, M) /\ SameSeq(e.rv, x)    \* ... a vector
GoodI(e, M, n) == ~e.panic /\ SameMat(e.post, M) /\ e.ri = n            \* ... an integer

ModelPost(e, M) == ApplyOp(M, e)

Explained(e, M) ==
  CASE e.op = "set_row" -> IF Acc_SetRow(M, e.i, e.v) THEN GoodMut(e, SetRow(M, e.i, e.v)) ELSE Rejected(e, M)
    [] e.op = "set_col" -> IF Acc_SetCol(M, e.j, e.v) THEN GoodMut(e, SetCol(M, e.j, e.v)) ELSE Rejected(e, M)
    [] e.op = "delete_row" -> IF Acc_DeleteRow(M, e.i) THEN GoodMut(e, DeleteRow(M, e.i)) ELSE Rejected(e, M)
    [] e.op = "swap_rows" -> IF Acc_SwapRows(M, e.i, e.i2) THEN GoodMut(e, SwapRows(M, e.i, e.i2)) ELSE Rejected(e, M)
    [] e.op = "fill_row" -> IF Acc_FillRow(M, e.i) THEN GoodMut(e, FillRow(M, e.i, e.x)) ELSE Rejected(e, M)
    [] e.op = "fill_col" -> IF Acc_FillCol(M, e.j) THEN GoodMut(e, FillCol(M, e.j, e.x)) ELSE Rejected(e, M)
    [] e.op \in {"add_assign", "sub_assign"} ->
          IF SameShape(M, e.b) THEN GoodMut(e, ModelPost(e, M)) ELSE RejectedSize(e)
    [] e.op \in {"swap_elem", "set", "resize", "transpose_in_place", "clear", "fill", "fill_diag", "fill_band",
                 "fill_tridiag", "mul_assign", "div_assign", "add_scalar_assign", "sub_scalar_assign", "neg_assign", "clone_from"} ->
          GoodMut(e, ModelPost(e, M))
    [] e.op = "matmul_assign" -> IF Acc_MatMul(M, e.b) THEN GoodMut(e, ModelPost(e, M)) ELSE Rejected(e, M)
    \* ---- observers: the operand must be unchanged and the result must be the definition ----
    [] e.op = "get_row" -> IF Acc_GetRow(M, e.i) THEN GoodV(e, M, GetRow(M, e.i)) ELSE Rejected(e, M)
    [] e.op = "get_col" -> IF Acc_GetCol(M, e.j) THEN GoodV(e, M, GetCol(M, e.j)) ELSE Rejected(e, M)
    [] e.op = "get" -> GoodI(e, M, At(M, e.i, e.j))
    [] e.op = "rows" -> GoodI(e, M, M.r)
    [] e.op = "cols" -> GoodI(e, M, M.c)
    [] e.op = "numel" -> GoodI(e, M, M.r * M.c)
    [] e.op = "clone" -> GoodM(e, M, M)
    \* == and != against the same row-major data laid out as nr x nc (equal only if the shape is the same), and against a clone:
    \* ri = [==] + 2*[!=] + 4*[clone equal and not unequal]
    [] e.op = "eq_reshape" -> GoodI(e, M, (IF e.nr = M.r /\ e.nc = M.c THEN 1 ELSE 2) + 4)
    [] e.op = "transpose" -> GoodM(e, M, Transpose(M))
    [] e.op = "neg" -> GoodM(e, M, Neg(M))
    [] e.op = "add" -> IF SameShape(M, e.b) THEN GoodM(e, M, Add(M, e.b)) ELSE RejectedSize(e)
    [] e.op = "sub" -> IF SameShape(M, e.b) THEN GoodM(e, M, Sub(M, e.b)) ELSE RejectedSize(e)
    \* aliasing: the same object on both sides of a by-reference operator
    [] e.op = "add_self" -> GoodM(e, M, Add(M, M))
    [] e.op = "sub_self" -> GoodM(e, M, Sub(M, M))
    [] e.op = "matmul_self" -> IF M.r = M.c THEN GoodM(e, M, MatMul(M, M)) ELSE RejectedSize(e)
    [] e.op \in {"mul_scalar", "lmul_scalar"} -> GoodM(e, M, Scale(M, e.s))     \* matrix * s, and s * matrix (f64)
    [] e.op = "empty" -> ~e.panic /\ SameMat(e.rm, Empty)
    [] e.op = "div_scalar" -> GoodM(e, M, DivS(M, e.s))
    [] e.op = "matmul" -> IF Acc_MatMul(M, e.b) THEN GoodM(e, M, MatMul(M, e.b)) ELSE RejectedSize(e)
    [] e.op = "matvec" -> IF Acc_MatVec(M, e.v) THEN GoodV(e, M, MatVec(M, e.v)) ELSE RejectedSize(e)
    [] e.op = "norm_1" -> GoodI(e, M, Norm1(M))
    [] e.op = "norm_inf" -> GoodI(e, M, NormInf(M))
    [] e.op = "norm_max" -> GoodI(e, M, NormMax(M))
    [] e.op = "eye" -> ~e.panic /\ SameMat(e.rm, Eye(e.n))
    [] e.op = "new" -> ~e.panic /\ SameMat(e.rm, New(e.nr, e.nc, e.x))
    \* complex products, real and imaginary parts as integer matrices: (A+iB)(C+iD) = (AC-BD) + i(AD+BC)
    [] e.op = "matmul_cx" -> IF Acc_MatMul(e.a, e.c)
                               THEN /\ ~e.panic
                                    /\ SameMat(e.rre, Sub(MatMul(e.a, e.c), MatMul(e.b, e.d)))
                                    /\ SameMat(e.rim, Add(MatMul(e.a, e.d), MatMul(e.b, e.c)))
                               ELSE RejectedSize(e)
    \* float-only norms: the harness logs the error of norm_p / norm_frob in units of (16*(r*c+1) + 2|ln norm|)*eps
    [] e.op = "norm_units" -> ~e.panic /\ e.units <= 1
    \* entrywise operators of Matrix<f64> on general values: every entry is ONE rounded operation of the
    \* definition (bit patterns logged next to those of the primitive operation), shape kept, operand kept
    \* call-count independence: n calls of one operation on fixed operands, each compared with the first
    [] e.op = "soak" -> e.panics = 0 /\ e.diffs = 0 /\ e.n > 0
    [] e.op = "ew_bits" -> /\ ~e.panic /\ e.keep /\ e.gr = e.r /\ e.gc = e.c
                            /\ Len(e.got) = e.r * e.c /\ e.got = e.want
    [] OTHER -> FALSE

Init == l = 1 /\ cur = [o \in 1..2 |-> Empty] /\ TLCSet(1, 0)
Step == /\ l <= NRec
        /\ LET e == Rec[l]
               M == Pre(e)
           IN IF Explained(e, M)
                THEN cur' = [cur EXCEPT ![Obj(e)] = IF IsMutator(e) THEN ModelPost(e, M) ELSE M]
                ELSE /\ Mismatch(l, e, e.op)
                     /\ cur' = [cur EXCEPT ![Obj(e)] = IF Has(e, "post") THEN e.post ELSE M]     \* re-synchronise on the logged state
        /\ l' = l + 1
Spec == Init /\ [][Step]_vars
=============================================================================
