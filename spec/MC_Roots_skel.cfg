SPECIFICATION Spec
CONSTANTS Mode = "skel"  MaxDeg = 6  NRoots = 0  MaxRoots = 0  NLead = 0  QZeroGuard = TRUE  StopOnNonFinite = TRUE  MaxIt = 4
CONSTANTS Comp <- Comp1  CompA <- Comp1
INVARIANTS SkelCount SkelFinite SkelReject SkelWork SkelRun
PROPERTY Terminates
CHECK_DEADLOCK FALSE
