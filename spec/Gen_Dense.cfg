SPECIFICATION Spec
CONSTANTS MaxDim = 2  Depth = 3  FullInit = FALSE  Emit = TRUE
INVARIANTS EmitCase
CHECK_DEADLOCK FALSE
