---------------------------- MODULE ComplexField ----------------------------
(* Complex numbers over exact rationals (C13): a value is [re, im] with re, im reduced *)
(* Rat pairs.  Every operator of ohsl::Complex<T> is written from the field definition *)
(* (division = multiplication by conj(w)/|w|^2, NOT the code's formula); the eight     *)
(* compound-assignment forms are STATEMENT-LEVEL machines transcribed from             *)
(* complex/mod.rs (one machine step per Rust statement), because there the control     *)
(* structure is the property: `*=` and `/=` overwrite the real part before the         *)
(* imaginary part is computed and must therefore read a saved copy of it.              *)
EXTENDS Rat, Sequences

Cx(re, im) == [re |-> re, im |-> im]
CZero == Cx(RZero, RZero)
COne == Cx(ROne, RZero)
OfReal(s) == Cx(s, RZero)
IsCx(z) == IsRat(z.re) /\ IsRat(z.im)
\* components are reduced pairs, so equality of values is equality of pairs
CEq(z, w) == z.re = w.re /\ z.im = w.im
IsZero(z) == z.re[1] = 0 /\ z.im[1] = 0

(* ---------------- field operations (definitions) ---------------- *)
CNeg(z) == Cx(RNeg(z.re), RNeg(z.im))
CConj(z) == Cx(z.re, RNeg(z.im))
CAdd(z, w) == Cx(RAdd(z.re, w.re), RAdd(z.im, w.im))
CSub(z, w) == Cx(RSub(z.re, w.re), RSub(z.im, w.im))
CMul(z, w) == Cx(RSub(RMul(z.re, w.re), RMul(z.im, w.im)), RAdd(RMul(z.re, w.im), RMul(z.im, w.re)))
AbsSqr(z) == RAdd(RMul(z.re, z.re), RMul(z.im, z.im))
\* multiplicative inverse: conj(w) / |w|^2  (w # 0)
CInv(w) == LET n == AbsSqr(w) IN Cx(RDiv(w.re, n), RDiv(RNeg(w.im), n))
Acc_Div(w) == ~IsZero(w)
CDiv(z, w) == CMul(z, CInv(w))

(* ---------------- mixed complex / real forms ---------------- *)
CAddR(z, s) == Cx(RAdd(z.re, s), z.im)
CSubR(z, s) == Cx(RSub(z.re, s), z.im)
CMulR(z, s) == Cx(RMul(z.re, s), RMul(z.im, s))
Acc_DivR(s) == s[1] # 0
CDivR(z, s) == Cx(RDiv(z.re, s), RDiv(z.im, s))

(* ---------------- equality and the lexicographic order ---------------- *)
CCmp(z, w) == IF RLt(z.re, w.re) THEN "lt"
              ELSE IF RLt(w.re, z.re) THEN "gt"
              ELSE IF RLt(z.im, w.im) THEN "lt"
              ELSE IF RLt(w.im, z.im) THEN "gt" ELSE "eq"

(* ---------------- compound assignment: statement-level machines ---------------- *)
(* state: the object's two fields, the locals `a` (saved real part) and `den`, and a   *)
(* program counter.  savedOld = TRUE is the required behaviour (the imaginary update   *)
(* reads the saved real part); FALSE is the classic read-after-overwrite error, kept   *)
(* as a named switch so that TLC can exhibit it as a reachable-state difference.       *)
AsgKinds == {"add_assign", "sub_assign", "mul_assign", "div_assign",
             "add_assign_r", "sub_assign_r", "mul_assign_r", "div_assign_r"}
AsgInit(z) == [re |-> z.re, im |-> z.im, a |-> RZero, den |-> ROne, pc |-> 0]
AsgLen(kind) == CASE kind = "mul_assign" -> 5
                  [] kind = "div_assign" -> 8
                  [] kind \in {"add_assign", "sub_assign", "mul_assign_r", "div_assign_r"} -> 2
                  [] OTHER -> 1
\* the binary form each machine must agree with (w.re is the real scalar of the _r kinds)
Binary(kind, z, w) ==
  CASE kind = "add_assign" -> CAdd(z, w)
    [] kind = "sub_assign" -> CSub(z, w)
    [] kind = "mul_assign" -> CMul(z, w)
    [] kind = "div_assign" -> CDiv(z, w)
    [] kind = "add_assign_r" -> CAddR(z, w.re)
    [] kind = "sub_assign_r" -> CSubR(z, w.re)
    [] kind = "mul_assign_r" -> CMulR(z, w.re)
    [] kind = "div_assign_r" -> CDivR(z, w.re)
Acc_Asg(kind, w) == CASE kind = "div_assign" -> Acc_Div(w)
                      [] kind = "div_assign_r" -> Acc_DivR(w.re)
                      [] OTHER -> TRUE
AsgStep(kind, s, w, savedOld) ==
  LET old == IF savedOld THEN s.a ELSE s.re
      t == [s EXCEPT !.pc = s.pc + 1]
  IN CASE kind = "mul_assign" ->
            (CASE s.pc = 0 -> [t EXCEPT !.a = s.re]                                   \* let a = self.real.clone();
               [] s.pc = 1 -> [t EXCEPT !.re = RMul(s.re, w.re)]                      \* self.real *= rhs.real;
               [] s.pc = 2 -> [t EXCEPT !.re = RSub(s.re, RMul(s.im, w.im))]          \* self.real -= self.imag * rhs.imag;
               [] s.pc = 3 -> [t EXCEPT !.im = RMul(s.im, w.re)]                      \* self.imag *= rhs.real;
               [] s.pc = 4 -> [t EXCEPT !.im = RAdd(s.im, RMul(old, w.im))])          \* self.imag += a * rhs.imag;
       [] kind = "div_assign" ->
            (CASE s.pc = 0 -> [t EXCEPT !.a = s.re]                                   \* let a = self.real.clone();
               [] s.pc = 1 -> [t EXCEPT !.den = RAdd(RMul(w.re, w.re), RMul(w.im, w.im))]
               [] s.pc = 2 -> [t EXCEPT !.re = RMul(s.re, w.re)]                      \* self.real *= rhs.real;
               [] s.pc = 3 -> [t EXCEPT !.re = RAdd(s.re, RMul(s.im, w.im))]          \* self.real += self.imag * rhs.imag;
               [] s.pc = 4 -> [t EXCEPT !.re = RDiv(s.re, s.den)]                     \* self.real /= denominator;
               [] s.pc = 5 -> [t EXCEPT !.im = RMul(s.im, w.re)]                      \* self.imag *= rhs.real;
               [] s.pc = 6 -> [t EXCEPT !.im = RSub(s.im, RMul(old, w.im))]           \* self.imag -= a * rhs.imag;
               [] s.pc = 7 -> [t EXCEPT !.im = RDiv(s.im, s.den)])                    \* self.imag /= denominator;
       [] kind = "add_assign" ->
            (CASE s.pc = 0 -> [t EXCEPT !.re = RAdd(s.re, w.re)]
               [] s.pc = 1 -> [t EXCEPT !.im = RAdd(s.im, w.im)])
       [] kind = "sub_assign" ->
            (CASE s.pc = 0 -> [t EXCEPT !.re = RSub(s.re, w.re)]
               [] s.pc = 1 -> [t EXCEPT !.im = RSub(s.im, w.im)])
       [] kind = "add_assign_r" -> [t EXCEPT !.re = RAdd(s.re, w.re)]
       [] kind = "sub_assign_r" -> [t EXCEPT !.re = RSub(s.re, w.re)]
       [] kind = "mul_assign_r" ->
            (CASE s.pc = 0 -> [t EXCEPT !.re = RMul(s.re, w.re)]
               [] s.pc = 1 -> [t EXCEPT !.im = RMul(s.im, w.re)])
       [] kind = "div_assign_r" ->
            (CASE s.pc = 0 -> [t EXCEPT !.re = RDiv(s.re, w.re)]
               [] s.pc = 1 -> [t EXCEPT !.im = RDiv(s.im, w.re)])
RECURSIVE AsgGo(_, _, _)
AsgGo(kind, s, w) == IF s.pc >= AsgLen(kind) THEN s ELSE AsgGo(kind, AsgStep(kind, s, w, TRUE), w)
\* value left in the object after the whole statement sequence
AsgRun(kind, z, w) == LET f == AsgGo(kind, AsgInit(z), w) IN Cx(f.re, f.im)
=============================================================================
