SPECIFICATION Spec
CONSTANTS Mode = "solve"  Scope = "thorough"  Skip = TRUE  Emit = TRUE
INVARIANTS EmitCase
CHECK_DEADLOCK FALSE
