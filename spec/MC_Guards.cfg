SPECIFICATION Spec
CONSTANTS MaxSize = 6  MaxSmall = 6  Emit = FALSE
INVARIANTS Consistent
CHECK_DEADLOCK FALSE
