SPECIFICATION Spec
CONSTANTS MaxSize = 6  MaxSmall = 6  AgedMax = 4  Emit = FALSE
INVARIANTS Consistent
CHECK_DEADLOCK FALSE
