---------------------------- MODULE Trace_Banded ----------------------------
(* Trace validation for ohsl::Banded (C04).  Every event carries the operand `pre`      *)
(* (n, m1, m2 and the WHOLE compact storage as returned by compact(), padding included)  *)
(* and the logged outcome.  The expectation is computed by the operators of Banded.tla   *)
(* from the in-band entries only (dense twin); banded results are compared IN BAND ONLY. *)
(* Padding therefore may hold anything before and after every call, but can never        *)
(* influence an accepted result.                                                         *)
(* Exact types: det must equal the fraction-free determinant of the dense twin (0 for a  *)
(* singular matrix), solve must satisfy A x = b exactly (cross-multiplied, x = xs / L).  *)
(* Floats: the harness logs backward-error units; the bound lives here.                  *)
EXTENDS TraceBase, Banded
VARIABLES l
vars == <<l>>

\* a-priori bound for Gaussian elimination with partial pivoting (growth 2^(n-1)), constant factor 8;
\* complex arithmetic: one more factor 8
Guard(n) == 8 * n * n * n * (2 ^ (n - 1))
UnitsOK(e) == e.units >= 0 /\ e.units <= (IF e.cxf THEN 8 ELSE 1) * Guard(e.n)

GoodB(e, X) == ~e.panic /\ SameBand(e.post, X)                               \* mutator
GoodRB(e, X) == ~e.panic /\ SameBand(e.post, e.pre) /\ SameBand(e.rb, X)     \* observer returning a banded matrix

Explained(e) ==
  CASE e.op = "dense" -> ~e.panic /\ SameMat(e.rm, ToDense(e.pre))
    \* the operand of a case as built through new / resize / in-band assignment: every in-band entry must sit in its slot
    [] e.op = "built" -> ~e.panic /\ SameBand(e.post, e.want)
    [] e.op = "get" -> IF InBand(e.pre, e.i, e.j) THEN ~e.panic /\ e.ri = BGet(e.pre, e.i, e.j)
                       ELSE e.panic \/ e.ri = 0            \* off the band: refuse, or the dense twin's zero
    [] e.op = "dims" -> ~e.panic /\ e.rn = e.pre.n /\ e.rm1 = e.pre.m1 /\ e.rm2 = e.pre.m2
    [] e.op = "new" -> ~e.panic /\ SameBand(e.post, BNew(e.n, e.m1, e.m2, e.x))
    [] e.op = "clone" -> GoodRB(e, e.pre)
    [] e.op = "set" -> IF InBand(e.pre, e.i, e.j) THEN GoodB(e, BSet(e.pre, e.i, e.j, e.x)) ELSE e.panic
    [] e.op = "fill" -> GoodB(e, BFill(e.pre, e.x))
    [] e.op = "fill_band" -> IF Acc_FillBand(e.pre, e.kb) THEN GoodB(e, BFillBand(e.pre, e.kb, e.x)) ELSE e.panic
    [] e.op = "neg" -> GoodRB(e, BNeg(e.pre))
    [] e.op = "add" -> IF SameKind(e.pre, e.b) THEN GoodRB(e, BAdd(e.pre, e.b)) ELSE e.panic
    [] e.op = "sub" -> IF SameKind(e.pre, e.b) THEN GoodRB(e, BSub(e.pre, e.b)) ELSE e.panic
    [] e.op = "mul_scalar" -> GoodRB(e, BScale(e.pre, e.s))
    [] e.op = "div_scalar" -> GoodRB(e, BDivS(e.pre, e.s))
    [] e.op = "add_assign" -> IF SameKind(e.pre, e.b) THEN GoodB(e, BAdd(e.pre, e.b)) ELSE e.panic
    [] e.op = "sub_assign" -> IF SameKind(e.pre, e.b) THEN GoodB(e, BSub(e.pre, e.b)) ELSE e.panic
    [] e.op = "mul_assign" -> GoodB(e, BScale(e.pre, e.s))
    [] e.op = "div_assign" -> GoodB(e, BDivS(e.pre, e.s))
    \* the scalar shifts legitimately touch padding; in band they add the constant
    [] e.op = "add_scalar_assign" -> GoodB(e, BShift(e.pre, e.s))
    [] e.op = "sub_scalar_assign" -> GoodB(e, BShift(e.pre, -e.s))
    [] e.op = "matvec" -> IF Acc_BMatVec(e.pre, e.v) THEN ~e.panic /\ SameSeq(e.rv, BMatVec(e.pre, e.v)) ELSE e.panic
    \* complex operands as real and imaginary parts: (A+iB)(v+iw) = (Av - Bw) + i(Aw + Bv)
    [] e.op = "matvec_cx" -> /\ ~e.panic
                             /\ LET A == ToDense(e.pre)
                                    Bi == ToDense(e.prei)
                                    av == MatVec(A, e.v)
                                    bw == MatVec(Bi, e.vi)
                                    aw == MatVec(A, e.vi)
                                    bv == MatVec(Bi, e.v)
                                IN /\ SameSeq(e.rre, [k \in 1..e.pre.n |-> av[k] - bw[k]])
                                   /\ SameSeq(e.rim, [k \in 1..e.pre.n |-> aw[k] + bv[k]])
    \* (A+iB)(s+it) = (As - Bt) + i(At + Bs)
    [] e.op = "scale_cx" -> /\ ~e.panic
                            /\ SameBand(e.rb, BLin(e.pre, e.s, e.prei, -e.si))
                            /\ SameBand(e.rbi, BLin(e.pre, e.si, e.prei, e.s))
    \* ---- exact determinant / solve (element type Rat, or floats on data where the arithmetic is exact) ----
    [] e.op = "det" -> ~e.panic /\ e.rq[2] = 1 /\ e.rq[1] = DetFF(ToDense(e.pre))
    \* an exact solution is accepted as such; otherwise the system must be singular (the property promises nothing there)
    [] e.op = "solve" -> LET D == ToDense(e.pre) IN
                         IF ~e.panic /\ Checkable(e.xs, e.L) /\ ResidualZero(D, e.xs, e.L, e.b) THEN TRUE
                         ELSE DetFF(D) = 0
    \* ---- floats: integer error units measured by the harness against double-double references ----
    [] e.op = "det_units" -> ~e.panic /\ UnitsOK(e)
    [] e.op = "solve_units" -> ~e.panic /\ UnitsOK(e)
    [] OTHER -> FALSE

Init == l = 1 /\ TLCSet(1, 0)
Step == /\ l <= NRec
        /\ LET e == Rec[l] IN IF Explained(e) THEN TRUE ELSE Mismatch(l, e, e.op)
        /\ l' = l + 1
Spec == Init /\ [][Step]_vars
=============================================================================
