---------------------------- MODULE Trace_Banded ----------------------------
(* Trace validation for ohsl::Banded (C04).  Every event carries the operand `pre`      *)
(* (n, m1, m2 and the WHOLE compact storage as returned by compact(), padding included)  *)
(* and the logged outcome.  The expectation is computed by the operators of Banded.tla   *)
(* from the in-band entries only (dense twin); banded results are compared IN BAND ONLY. *)
(* Padding therefore may hold anything before and after every call, but can never        *)
(* influence an accepted result.                                                         *)
(* Exact types: det must equal the fraction-free determinant of the dense twin (0 for a  *)
(* singular matrix), solve must satisfy A x = b exactly (cross-multiplied, x = xs / L).  *)
(* Floats: the harness logs backward-error units; the bound lives here.                  *)
EXTENDS TraceBase, Banded
VARIABLES l, cur, curi, bad
vars == <<l, cur, curi, bad>>
\* cur / curi: the MODEL's current value (real / imaginary part) of the object a sequence works on - computed by the
\* operators of Banded.tla from the operations seen so far; every event of a sequence must start from it.
\* bad: the case in which an event was not explained (its later exact det / solve events are reported unjudged,
\* because magnitudes are only guaranteed along the model's own path)

\* a-priori bound for Gaussian elimination with partial pivoting (growth 2^(n-1)), constant factor 8;
\* complex arithmetic: one more factor 8
Guard(n) == 8 * n * n * n * (2 ^ (n - 1))
UnitsOK(e) == e.units >= 0 /\ e.units <= (IF e.cxf THEN 8 ELSE 1) * Guard(e.n)

GoodB(e, X) == ~e.panic /\ SameBand(e.post, X)                               \* mutator
GoodRB(e, X) == ~e.panic /\ SameBand(e.post, e.pre) /\ SameBand(e.rb, X)     \* observer returning a banded matrix

Explained(e) ==
  CASE e.op = "dense" -> ~e.panic /\ SameMat(e.rm, ToDense(e.pre))
    \* the operand of a case as built through new / resize / in-band assignment: every in-band entry must sit in its slot
    [] e.op = "built" -> ~e.panic /\ SameBand(e.post, e.want)
    [] e.op = "get" -> IF InBand(e.pre, e.i, e.j) THEN ~e.panic /\ e.ri = BGet(e.pre, e.i, e.j)
                       ELSE e.panic \/ e.ri = 0            \* off the band: refuse, or the dense twin's zero
    [] e.op = "dims" -> ~e.panic /\ e.rn = e.pre.n /\ e.rm1 = e.pre.m1 /\ e.rm2 = e.pre.m2
    [] e.op = "new" -> ~e.panic /\ SameBand(e.post, BNew(e.n, e.m1, e.m2, e.x))
    [] e.op = "clone" -> GoodRB(e, e.pre)
    \* ---- the std-trait forms.  t.clone_from(&s): the target becomes a copy of the source, GEOMETRY INCLUDED, whatever it was
    \* before (same storage shape with another split, same number of slots, larger, smaller); the source is untouched
    [] e.op = "clone_from" -> ~e.panic /\ SameBand(e.post, e.b) /\ SameBand(e.bpost, e.b)
    [] e.op = "clone_into" -> GoodRB(e, e.pre)                        \* the second object .clone_from(this one)
    \* the second object still holds what it held when it was last written (independence of the two objects)
    [] e.op = "aux_same" -> ~e.panic /\ SameBand(e.post, e.pre) /\ SameBand(e.rb, e.want)
    [] e.op = "reclone" -> GoodB(e, e.pre)                            \* replaced by its own clone, the original dropped
    \* == and !=: identical geometry and storage -> equal; dense twins that differ -> not equal (equal dense twins in
    \* different geometries or with different padding: either answer); != is the negation
    [] e.op = "eq" -> /\ ~e.panic /\ e.rne = ~e.r
                      /\ LET same == EqAll(e.pre, e.b) /\ (Has(e, "prei") => EqAll(e.prei, e.bi))
                             diff == DenseDiff(e.pre, e.b) \/ (Has(e, "prei") /\ DenseDiff(e.prei, e.bi))
                         IN (same => e.r) /\ (diff => ~e.r)
    [] e.op = "set" -> IF InBand(e.pre, e.i, e.j) THEN GoodB(e, BSet(e.pre, e.i, e.j, e.x)) ELSE e.panic
    \* resize re-interprets the storage (the property is silent on what it keeps): only the new geometry is demanded;
    \* whatever the object then holds is the operand of the following events
    [] e.op = "resize" -> ~e.panic /\ WellFormedB(e.post) /\ e.post.n = e.n2 /\ e.post.m1 = e.m1 /\ e.post.m2 = e.m2
    [] e.op = "empty" -> ~e.panic /\ e.post.n = 0
    \* every in-band entry assigned through the index operator: the matrix is then the band of the given dense values
    [] e.op = "set_all" -> GoodB(e, FromDense(e.vals, e.pre.m1, e.pre.m2))
    [] e.op = "fill" -> GoodB(e, BFill(e.pre, e.x))
    [] e.op = "fill_band" -> IF Acc_FillBand(e.pre, e.kb) THEN GoodB(e, BFillBand(e.pre, e.kb, e.x)) ELSE e.panic
    [] e.op = "neg" -> GoodRB(e, BNeg(e.pre))
    \* operands of different geometry (equal n and m1 + m2 but another split, equal slot count but another n, ...): the
    \* call refuses, or it delivers the sum / difference of the dense twins - never a slot-by-slot combination
    [] e.op = "add" -> IF SameKind(e.pre, e.b) THEN GoodRB(e, BAdd(e.pre, e.b)) ELSE e.panic \/ (SameBand(e.post, e.pre) /\ DenseLin(e.rb, e.pre, e.b, 1))
    [] e.op = "sub" -> IF SameKind(e.pre, e.b) THEN GoodRB(e, BSub(e.pre, e.b)) ELSE e.panic \/ (SameBand(e.post, e.pre) /\ DenseLin(e.rb, e.pre, e.b, -1))
    [] e.op = "mul_scalar" -> GoodRB(e, BScale(e.pre, e.s))
    [] e.op = "div_scalar" -> GoodRB(e, BDivS(e.pre, e.s))
    [] e.op = "add_assign" -> IF SameKind(e.pre, e.b) THEN GoodB(e, BAdd(e.pre, e.b)) ELSE e.panic \/ DenseLin(e.post, e.pre, e.b, 1)
    [] e.op = "sub_assign" -> IF SameKind(e.pre, e.b) THEN GoodB(e, BSub(e.pre, e.b)) ELSE e.panic \/ DenseLin(e.post, e.pre, e.b, -1)
    [] e.op = "mul_assign" -> GoodB(e, BScale(e.pre, e.s))
    [] e.op = "div_assign" -> GoodB(e, BDivS(e.pre, e.s))
    \* the scalar shifts legitimately touch padding; in band they add the constant
    [] e.op = "add_scalar_assign" -> GoodB(e, BShift(e.pre, e.s))
    [] e.op = "sub_scalar_assign" -> GoodB(e, BShift(e.pre, -e.s))
    [] e.op = "matvec" -> IF Acc_BMatVec(e.pre, e.v) THEN ~e.panic /\ SameSeq(e.rv, BMatVec(e.pre, e.v)) ELSE e.panic
    \* complex operands as real and imaginary parts: (A+iB)(v+iw) = (Av - Bw) + i(Aw + Bv)
    [] e.op = "matvec_cx" -> IF Len(e.v) # e.pre.n THEN e.panic ELSE      \* (a vector of another size is refused)
                             /\ ~e.panic
                             /\ LET A == ToDense(e.pre)
                                    Bi == ToDense(e.prei)
                                    av == MatVec(A, e.v)
                                    bw == MatVec(Bi, e.vi)
                                    aw == MatVec(A, e.vi)
                                    bv == MatVec(Bi, e.v)
                                IN /\ SameSeq(e.rre, [k \in 1..e.pre.n |-> av[k] - bw[k]])
                                   /\ SameSeq(e.rim, [k \in 1..e.pre.n |-> aw[k] + bv[k]])
    \* (A+iB)(s+it) = (As - Bt) + i(At + Bs)
    [] e.op = "scale_cx" -> /\ ~e.panic
                            /\ SameBand(e.rb, BLin(e.pre, e.s, e.prei, -e.si))
                            /\ SameBand(e.rbi, BLin(e.pre, e.si, e.prei, e.s))
    \* ---- exact determinant / solve (element type Rat, or floats on data where the arithmetic is exact) ----
    [] e.op = "det" -> ~e.panic /\ e.rq[2] = 1 /\ e.rq[1] = DetFF(ToDense(e.pre))
    \* an exact solution is accepted as such; otherwise the system must be singular (the property promises nothing there)
    [] e.op = "solve" -> LET D == ToDense(e.pre) IN
                         IF Len(e.b) # e.pre.n THEN e.panic          \* a right-hand side of another size is refused
                         ELSE IF ~e.panic /\ Checkable(e.xs, e.L) /\ ResidualZero(D, e.xs, e.L, e.b) THEN TRUE
                         ELSE DetFF(D) = 0
    \* ---- Gaussian-integer data on which the complex float arithmetic is exact: judged like Rat, over Gaussian rationals ----
    [] e.op = "det_cx" -> ~e.panic /\ e.rq[2] = 1 /\ e.rqi[2] = 1 /\ <<e.rq[1], e.rqi[1]>> = CDetFF(ToDense(e.pre), ToDense(e.prei))
    [] e.op = "solve_cx" -> LET D == ToDense(e.pre)
                                Di == ToDense(e.prei) IN
                            IF ~e.panic /\ Checkable(e.xs, e.L) /\ Checkable(e.xsi, e.L) /\ ResidualZeroCx(D, Di, e.xs, e.xsi, e.L, e.b, e.bi) THEN TRUE
                            ELSE CDetFF(D, Di) = CZeroP
    \* division by a complex scalar s + i t (exact for i, -i, -1, 2i on suitable data): result * (s + i t) = operand
    [] e.op = "div_cx" -> /\ ~e.panic /\ (e.s # 0 \/ e.si # 0)
                          /\ SameBand(e.pre, BLin(e.rb, e.s, e.rbi, -e.si))
                          /\ SameBand(e.prei, BLin(e.rb, e.si, e.rbi, e.s))
    \* ---- floats: integer error units measured by the harness against double-double references ----
    [] e.op = "det_units" -> ~e.panic /\ UnitsOK(e)
    [] e.op = "solve_units" -> ~e.panic /\ UnitsOK(e)
    \* growth adversaries: residual componentwise in units of eps (|L||U||x|)_i with the factors of a reference elimination with
    \* partial pivoting in double-double (logged only when none of its pivot choices is tied or nearly tied): Higham Thm 9.4
    \* gives gamma_3n ~ 1.5 n eps WITHOUT the growth factor; the guard is a factor 10 above that (x4 complex)
    [] e.op = "solve_sharp" -> ~e.panic /\ e.cunits >= 0 /\ e.cunits <= (IF e.cxf THEN 4 ELSE 1) * 16 * e.n
    [] OTHER -> FALSE

\* ---- model state ----
IsSeq(e) == Has(e, "seq")
ImPart(e) == Has(e, "part") /\ e.part = "im"
TwoParts(e) == Has(e, "prei")
\* the operand the implementation worked on must be the model's current value (in band)
\* (empty / resize replace or re-interpret the storage: their outcome does not depend on the in-band content before)
PreOK(e) == IF ~IsSeq(e) \/ e.op \in {"built", "empty", "resize"} THEN TRUE
            ELSE IF TwoParts(e) THEN SameBand(e.pre, cur) /\ SameBand(e.prei, curi)
            ELSE IF ImPart(e) THEN SameBand(e.pre, curi) ELSE SameBand(e.pre, cur)
\* the model's next value after a mutating operation (one part)
Mutators == {"clone_from", "set", "set_all", "fill", "fill_band", "add_assign", "sub_assign", "mul_assign", "div_assign", "add_scalar_assign", "sub_scalar_assign"}
After(e) == CASE e.op = "clone_from" -> e.b
              [] e.op = "set" -> BSet(e.pre, e.i, e.j, e.x)
              [] e.op = "set_all" -> FromDense(e.vals, e.pre.m1, e.pre.m2)
              [] e.op = "fill" -> BFill(e.pre, e.x)
              [] e.op = "fill_band" -> BFillBand(e.pre, e.kb, e.x)
              [] e.op = "add_assign" -> BAdd(e.pre, e.b)
              [] e.op = "sub_assign" -> BSub(e.pre, e.b)
              [] e.op = "mul_assign" -> BScale(e.pre, e.s)
              [] e.op = "div_assign" -> BDivS(e.pre, e.s)
              [] e.op = "add_scalar_assign" -> BShift(e.pre, e.s)
              [] e.op = "sub_scalar_assign" -> BShift(e.pre, -e.s)
\* value of one part after event e, given the previous model value v of that part
NextPart(e, v, ok) ==
    IF e.op = "built" THEN (IF e.panic THEN v ELSE e.want)
    ELSE IF ~IsSeq(e) THEN v                                                \* (stand-alone events: another object)
    ELSE IF ~ok THEN (IF Has(e, "post") THEN e.post ELSE v)                 \* re-synchronise on the logged state
    \* a refused call leaves the object as it was (the following events must start from the model's unchanged value).  An
    \* accepted sum with an operand of another geometry has been verified against the dense twins by the event's own check
    ELSE IF e.op \in Mutators /\ e.panic THEN v
    ELSE IF e.op \in {"add_assign", "sub_assign"} /\ ~SameKind(e.pre, e.b) THEN e.post
    ELSE IF e.op \in Mutators THEN After(e)
    ELSE IF e.op \in {"resize", "new", "empty"} THEN e.post
    ELSE v
Unjudged(e) == IsSeq(e) /\ e.cid = bad /\ e.op \in {"det", "solve", "det_cx", "solve_cx"}

Init == l = 1 /\ cur = Empty /\ curi = Empty /\ bad = -1 /\ TLCSet(1, 0)
Step == /\ l <= NRec
        /\ LET e == Rec[l]
               ok == IF Unjudged(e) THEN FALSE ELSE IF PreOK(e) THEN Explained(e) ELSE FALSE
           IN /\ IF ok THEN TRUE
                 ELSE Mismatch(l, e, IF Unjudged(e) THEN "unjudged-after-mismatch" ELSE IF PreOK(e) THEN e.op ELSE "operand-is-not-the-model-state")
              /\ bad' = IF ok THEN bad ELSE e.cid
              /\ IF e.op = "scale_cx"
                   THEN IF e.src = "mul_assign"
                          THEN /\ cur' = (IF ok THEN BLin(e.pre, e.s, e.prei, -e.si) ELSE e.rb)
                               /\ curi' = (IF ok THEN BLin(e.pre, e.si, e.prei, e.s) ELSE e.rbi)
                          ELSE UNCHANGED <<cur, curi>>
                   ELSE IF e.op = "div_cx" /\ e.src = "div_assign"
                   THEN cur' = e.rb /\ curi' = e.rbi              \* (verified against the operand by the event's own check)
                   ELSE IF TwoParts(e) THEN UNCHANGED <<cur, curi>>
                   ELSE IF ImPart(e) THEN cur' = cur /\ curi' = NextPart(e, curi, ok)
                   ELSE cur' = NextPart(e, cur, ok) /\ curi' = curi
        /\ l' = l + 1
Spec == Init /\ [][Step]_vars
=============================================================================
