---------------------------- MODULE MC_Jacobian ----------------------------
(* Design check and case generator for Jacobian.tla (C18).                              *)
(*  - every affine problem with 1 <= m <= MaxM, 1 <= n <= MaxN, M over Vals, delta in   *)
(*    Deltas (scaled integers), one or two base points; every coordinate order;         *)
(*  - invariants: evaluation discipline, every coordinate perturbed exactly once, the   *)
(*    result is m x n and equals M, the forward-quotient law against an independent     *)
(*    evaluation, the machine never panics (StoreCol is enabled for every j < n whatever*)
(*    m) - with SetColRangeAgainst = "rows" (code before fix D1) NoPanic must FAIL;     *)
(*  - with Emit = TRUE every problem is printed once as a JSON case that the harness    *)
(*    runs on the real Mat64::jacobian / Matrix::<Cmplx>::jacobian_cmplx.               *)
EXTENDS Jacobian, TLC, Json
CONSTANTS MaxM, MaxN, Vals, Deltas, Emit, TwoBases
VARIABLES p, s
vars == <<p, s>>

MCVals == {-1, 0, 2}
MCValsSmall == {-1, 2}

Mats(m, n) == {[r |-> m, c |-> n, d |-> dd] : dd \in [1..(m * n) -> Vals]}
\* two base points with pairwise distinct coordinates, one of them with negative entries
BaseA(n) == [k \in 1..n |-> 3 * k - 4]
BaseB(n) == [k \in 1..n |-> 5 - 2 * k]
Offs(m) == [i \in 1..m |-> 2 * i - 3]

Init == /\ \E m \in 1..MaxM, n \in 1..MaxN, d \in Deltas : \E M \in Mats(m, n), x \in (IF TwoBases THEN {BaseA(n), BaseB(n)} ELSE {BaseB(n)}) :
              p = [m |-> m, n |-> n, M |-> M, c |-> Offs(m), x |-> x, d |-> d]
        /\ s = JInit(p)
Next == s' \in JNext(p, s) /\ p' = p
Spec == Init /\ [][Next]_vars /\ WF_vars(Next)
\* the recorded evaluation points are history: hidden from the fingerprint
View == <<p, [s EXCEPT !.pts = Len(s.pts)]>>

(* ---------------- invariants ---------------- *)
TypeOK == /\ s.phase \in {"start", "loop", "done", "panic"}
          /\ s.sub \in {"idle", "perturbed", "evaluated", "restored"}
          /\ s.cur \in -1..(p.n - 1) /\ s.done \subseteq 0..(p.n - 1)
\* every evaluation point differs from the base in at most one coordinate, by exactly delta;
\* between two coordinates the working point IS the base point (restore before next)
Discipline == /\ \A q \in 1..Len(s.pts) : PointOK(s.pts[q], p.x, p.d)
              /\ (s.sub \in {"idle", "restored"} => SameSeq(s.state, p.x))
              /\ (s.sub \in {"perturbed", "evaluated"} => SameSeq(s.state, Bump(p.x, s.cur, p.d)))
PerturbedOnce == /\ \A j \in 0..(p.n - 1) : s.npert[j] <= 1
                 /\ \A j \in s.done : s.npert[j] = 1
                 /\ (s.phase = "done" => \A j \in 0..(p.n - 1) : s.npert[j] = 1)
\* shape m x n from the first evaluation on; finished: exactly M; its evaluation points are a legal sequence
Result == /\ (s.phase \in {"loop", "done"} => s.jac.r = p.m /\ s.jac.c = p.n /\ WellShaped(s.jac))
          /\ (s.phase = "done" => SameMat(s.jac, p.M) /\ PointsExplained(s.pts, p.x, p.d) /\ Len(s.pts) = p.n + 1)
\* independent statement of "entry (i,j) is the forward difference quotient of component i in coordinate j"
QuotientLaw == s.phase \in {"loop", "done"} =>
                 \A j \in s.done : \A i \in 0..(p.m - 1) :
                     At(s.jac, i, j) * p.d = Affine(p.M, p.c, Bump(p.x, j, p.d))[i + 1] - Affine(p.M, p.c, p.x)[i + 1]
\* columns not yet stored are untouched (zero): a store writes its own column only
OwnColumnOnly == s.phase \in {"loop", "done"} =>
                   \A j \in (0..(p.n - 1)) \ s.done : \A i \in 0..(p.m - 1) : At(s.jac, i, j) = 0
\* the closed form used by the trace specification for the maps f_i = s_i x_j^2
QuadLemma == \A x \in -9..9 : \A d \in Deltas : (x + d) * (x + d) - x * x = d * QuadQuot(x, d)
NoPanic == s.phase # "panic"
Termination == <>(s.phase = "done")

\* spec -> implementation: one case per problem (the generator stops at the initial states)
GenStop == s.phase = "start"
EmitCase == (Emit /\ s.phase = "start") =>
              PrintT(<<"CASE", ToJson([m |-> p.m, n |-> p.n, M |-> p.M, c |-> p.c, x |-> p.x, dsc |-> p.d])>>)
=============================================================================
