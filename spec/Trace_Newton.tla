---------------------------- MODULE Trace_Newton ----------------------------
(* Trace validation for the six Newton solvers (C17), hook-free.                         *)
(* The user closures are the observation points.  Per solve the harness logs             *)
(*    begin(mode, call, variant, n, maxit, pb = parameters() before, g = configured      *)
(*          guess, tolb, deltab = configured tolerance / step)                           *)
(*    eval(call, idx, fn, x)          one per closure call, x = bit patterns of the point *)
(*    end(call, ok, r = carried value, pa = parameters() after, cnt, du, basin, expect)  *)
(* A case is a sequence of solves; its mode fixes the ROLE of each solve:                *)
(*  mode "std"    one object: call 1 "ref", call 2 "rep" (same limit m: repeatability),  *)
(*                call 3 "ext" (after iterations(m + 1): prefix closure)                 *)
(*  mode "seq"    call 1 "solo" on object A; then setters tolerance / delta / iterations *)
(*                / guess in some order and combination; call 2 "ref" on A; call 3 "rep" *)
(*                on a FRESH object configured with the final parameters: the            *)
(*                reconfigured object must behave exactly like the fresh one (no stale   *)
(*                configuration), and parameters() must show the final values            *)
(*  mode "ladder" one object, a function whose criterion is never met, limits            *)
(*                1 ("unit"), then 0, 2, 3, 5, 8, 13, 20, 50 ("lad"): the number of      *)
(*                closure calls under limit m is EXACTLY m times that under limit 1      *)
(*                (exactly m steps - the per-step cost is taken from the limit-1 run,    *)
(*                nothing about the implementation is assumed), every run repeats the    *)
(*                longest earlier run on the common prefix, and the value carried by the *)
(*                longest earlier run (limit m') is a point evaluated in step m' + 1.    *)
(* Checked for every solve, one event per step:                                          *)
(*  - begin, eval*, end is the projection of a behaviour of the machine of Newton.tla:   *)
(*    evaluations only inside a running solve, numbered without gaps, never more than    *)
(*    maxit * EvalBound(variant, n); success only if maxit >= 1; maxit = 0 => no         *)
(*    evaluation and Err(guess); no panic, whatever the function;                        *)
(*  - parameters() reflects the configuration (scalar variants; the vector variants      *)
(*    expose no parameters()) and is bit-identical before / after the solve;             *)
(*  - "rep": bit-identical to "ref" - same evaluation points in the same order, same     *)
(*    verdict, same value;                                                               *)
(*  - "ext": repeats "ref" on the common prefix; a success stays the same success; a     *)
(*    failure of "ref" carries a point evaluated by "ext" after the common prefix, i.e.  *)
(*    Err carries the LAST iterate;                                                      *)
(*  - success never carries a non-finite component (fin) where a verdict is required;    *)
(*  - units: ok /\ basin => du <= 1, du = |x - x*| / (8 (tol + delta^2 + eps (|x*| + 1))) *)
(*    measured by the harness against the analytically known root;                       *)
(*  - expect = "ok" (guess inside the provable quadratic basin, limit >= 14) => success; *)
(*    expect = "err" (stopping criterion provably never met) => failure.                 *)
(* Total: a mismatch is reported once per cause (first excess evaluation, first          *)
(* diverging evaluation), the state is re-synchronised on the logged event.              *)
EXTENDS TraceBase
VARIABLES l, st
vars == <<l, st>>
N == INSTANCE Newton WITH MutatesGuess <- FALSE

Idle == [phase |-> "idle", cid |-> 0, call |-> 0, role |-> "ref", v |-> "f64", n |-> 1, maxit |-> 0, cnt |-> 0, seq |-> <<>>, g |-> <<>>, pb |-> <<>>,
         over |-> FALSE, div |-> FALSE, seq1 |-> <<>>, cnt1 |-> 0, ok1 |-> FALSE, r1 |-> <<>>, pb1 |-> <<>>, m1 |-> 0, c1 |-> 0]

Role(e) == CASE e.mode = "std" -> (CASE e.call = 1 -> "ref" [] e.call = 2 -> "rep" [] e.call = 3 -> "ext" [] OTHER -> "bad")
             [] e.mode = "seq" -> (CASE e.call = 1 -> "solo" [] e.call = 2 -> "ref" [] e.call = 3 -> "rep" [] OTHER -> "bad")
             [] e.mode = "ladder" -> (IF e.call = 1 THEN "unit" ELSE IF e.call >= 2 THEN "lad" ELSE "bad")
             [] OTHER -> "bad"
StartsRef(r) == r \in {"ref", "unit"}

\* parameters() = (tol, delta, max_iter, guess) must reflect what was configured (scalar variants)
ParamsReflect(e) == IF N!IsScalar(e.variant)
                      THEN Len(e.pb) = 3 + Len(e.g) /\ e.pb[1] = e.tolb /\ e.pb[2] = e.deltab /\ e.pb[3] = ToString(e.maxit)
                           /\ \A i \in 1..Len(e.g) : e.pb[3 + i] = e.g[i]
                      ELSE TRUE
SamePb3(a, b) == Len(a) = Len(b) /\ \A i \in 1..Len(a) : (i = 3 \/ a[i] = b[i])
SameObj(e) == st.cid = e.cid /\ st.call = e.call - 1 /\ e.variant = st.v /\ e.n = st.n

BeginOK(e) ==
    /\ st.phase # "run" /\ e.variant \in N!Variants /\ e.n >= 1 /\ e.maxit >= 0 /\ ParamsReflect(e)
    /\ LET r == Role(e)
       IN CASE r = "solo" -> TRUE
            [] r = "ref" -> (e.call = 1 \/ SameObj(e))
            [] r = "rep" -> SameObj(e) /\ e.maxit = st.m1 /\ e.pb = st.pb1 /\ e.g = st.g
            [] r = "ext" -> SameObj(e) /\ e.maxit = st.m1 + 1 /\ SamePb3(e.pb, st.pb1) /\ e.g = st.g
            [] r = "unit" -> e.maxit = 1
            [] r = "lad" -> SameObj(e) /\ SamePb3(e.pb, st.pb1) /\ e.g = st.g
            [] OTHER -> FALSE
AfterBegin(e) == LET new == StartsRef(Role(e))
                 IN [st EXCEPT !.phase = "run", !.cid = e.cid, !.call = e.call, !.role = Role(e), !.v = e.variant, !.n = e.n, !.maxit = e.maxit,
                               !.cnt = 0, !.seq = <<>>, !.g = e.g, !.pb = e.pb, !.over = FALSE, !.div = FALSE,
                               !.seq1 = IF new THEN <<>> ELSE st.seq1, !.cnt1 = IF new THEN 0 ELSE st.cnt1,
                               !.ok1 = IF new THEN FALSE ELSE st.ok1, !.r1 = IF new THEN <<>> ELSE st.r1,
                               !.pb1 = IF new THEN e.pb ELSE st.pb1, !.m1 = IF new THEN e.maxit ELSE st.m1,
                               !.c1 = IF new THEN 0 ELSE st.c1]

\* the evaluation repeats the reference run ("rep": always; "ext", "lad": inside the common prefix)
Repeats(e) == CASE st.role \in {"ref", "solo", "unit"} -> TRUE
                [] st.role = "rep" -> e.idx <= st.cnt1 /\ e.x = st.seq1[e.idx]
                [] st.role = "ext" -> IF e.idx <= st.cnt1 THEN e.x = st.seq1[e.idx] ELSE ~st.ok1
                [] st.role = "lad" -> IF e.idx <= st.cnt1 THEN e.x = st.seq1[e.idx] ELSE TRUE
                [] OTHER -> FALSE
EvalWhy(e) == IF st.phase # "run" \/ e.cid # st.cid \/ e.call # st.call THEN "eval outside a running solve"
              ELSE IF e.idx # st.cnt + 1 THEN "eval numbering"
              ELSE IF ~st.over /\ ~N!EvalAllowed(st.v, st.n, st.maxit, st.cnt) THEN "evaluations > maxit*EvalBound"
              ELSE IF ~st.div /\ ~Repeats(e) THEN "evaluation differs from reference"
              ELSE "ok"
AfterEval(e) == [st EXCEPT !.cnt = st.cnt + 1, !.seq = Append(st.seq, e.x),
                           !.over = st.over \/ ~N!EvalAllowed(st.v, st.n, st.maxit, st.cnt),
                           !.div = st.div \/ (st.phase = "run" /\ e.idx = st.cnt + 1 /\ ~Repeats(e))]

InStep(r, from, to) == \E i \in from..to : i <= Len(st.seq) /\ st.seq[i] = r
EndWhy(e) ==
    IF st.phase # "run" \/ e.cid # st.cid \/ e.call # st.call THEN "end outside a running solve"
    ELSE IF e.panic THEN "panic"
    ELSE IF e.cnt # st.cnt THEN "event count"
    ELSE IF ~N!EndAllowed(st.v, st.n, st.maxit, st.cnt, e.ok) THEN "work bound / success without step"
    ELSE IF st.maxit = 0 /\ (e.ok \/ st.cnt # 0 \/ e.r # st.g) THEN "limit 0: Err(guess), no evaluation"
    ELSE IF e.pa # st.pb THEN "parameters() changed by solve"
    ELSE IF e.ok /\ ~e.fin /\ e.expect # "any" THEN "Ok with a non-finite value"
    ELSE IF e.ok /\ e.basin /\ e.du > 1 THEN "Ok far from the root"
    ELSE IF e.expect = "ok" /\ ~e.ok THEN "failure inside the convergence basin"
    ELSE IF e.expect = "err" /\ e.ok THEN "success but criterion cannot be met"
    ELSE IF st.role = "rep" /\ (e.ok # st.ok1 \/ e.r # st.r1 \/ st.cnt # st.cnt1) THEN "differs from the reference solve"
    ELSE IF st.role = "ext" /\ st.ok1 /\ (~e.ok \/ e.r # st.r1 \/ st.cnt # st.cnt1) THEN "larger limit changes a success"
    ELSE IF st.role = "ext" /\ ~st.ok1 /\ ~(st.cnt > st.cnt1 /\ InStep(st.r1, st.cnt1 + 1, st.cnt)) THEN "Err does not carry the last iterate"
    ELSE IF st.role = "unit" /\ (e.ok \/ st.cnt < 1) THEN "limit-1 run must fail after >= 1 call"
    ELSE IF st.role = "lad" /\ (e.ok \/ st.cnt # st.maxit * st.c1) THEN "calls(limit m) # m * calls(limit 1)"
    ELSE IF st.role = "lad" /\ st.maxit > st.m1 /\ ~InStep(st.r1, st.cnt1 + 1, st.cnt1 + st.c1) THEN "Err does not carry the last iterate"
    ELSE "ok"
\* "ref"/"unit" store the reference run; a "lad" run longer than every earlier one becomes the reference
AfterEnd(e) == LET store == StartsRef(st.role) \/ (st.role = "lad" /\ st.maxit > st.m1)
               IN [st EXCEPT !.phase = "done", !.cid = e.cid, !.call = e.call,
                             !.seq1 = IF store THEN st.seq ELSE st.seq1, !.cnt1 = IF store THEN st.cnt ELSE st.cnt1,
                             !.ok1 = IF store THEN e.ok ELSE st.ok1, !.r1 = IF store THEN e.r ELSE st.r1,
                             !.m1 = IF store THEN st.maxit ELSE st.m1,
                             !.c1 = IF st.role = "unit" THEN st.cnt ELSE st.c1]

Init == l = 1 /\ st = Idle /\ TLCSet(1, 0)
Step == /\ l <= NRec
        /\ LET e == Rec[l]
           IN CASE e.op = "begin" -> /\ (IF BeginOK(e) THEN TRUE ELSE Mismatch(l, e, "begin: configuration not as set"))
                                     /\ st' = AfterBegin(e)
                [] e.op = "eval" -> /\ (IF EvalWhy(e) = "ok" THEN TRUE ELSE Mismatch(l, e, EvalWhy(e)))
                                    /\ st' = AfterEval(e)
                [] e.op = "end" -> /\ (IF EndWhy(e) = "ok" THEN TRUE ELSE Mismatch(l, e, EndWhy(e)))
                                   /\ st' = AfterEnd(e)
                [] OTHER -> Mismatch(l, e, "unknown event") /\ st' = st
        /\ l' = l + 1
Spec == Init /\ [][Step]_vars
=============================================================================
