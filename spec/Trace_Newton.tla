---------------------------- MODULE Trace_Newton ----------------------------
(* Trace validation for the six Newton solvers (C17), hook-free.                         *)
(* The user closures are the observation points.  Per case the harness performs three    *)
(* solves on ONE Newton object and logs, per solve,                                      *)
(*    begin(call, variant, n, maxit, pb = parameters() before, g = configured guess)     *)
(*    eval(call, idx, fn, x)          one per closure call, x = bit patterns of the point *)
(*    end(call, ok, r = carried value, pa = parameters() after, cnt, du, basin, expect)  *)
(* call 1, call 2: the case's limit m (repeatability); call 3: after iterations(m + 1).  *)
(* Checked here, one event per step:                                                     *)
(*  - the sequence begin, eval*, end is the projection of a behaviour of the protocol    *)
(*    machine of Newton.tla: evaluations only inside a running solve, numbered without   *)
(*    gaps, never more than maxit * EvalBound(variant, n) (EvalAllowed / EndAllowed),    *)
(*    success only if maxit >= 1, maxit = 0 => no evaluation and Err(guess);             *)
(*  - no panic, whatever the function;                                                   *)
(*  - parameters() bit-identical before / after each solve and reflecting the            *)
(*    configuration (scalar variants; the vector variants expose no parameters());       *)
(*  - call 2 is bit-identical to call 1: same evaluation points in the same order, same  *)
(*    verdict, same value;                                                               *)
(*  - prefix closure: call 3 repeats the evaluations of call 1 bit for bit; if call 1    *)
(*    succeeded so does call 3 with the same value; if call 1 failed, the value it       *)
(*    carries is bit-equal to a point at which call 3 evaluates a closure in its         *)
(*    (m+1)-th step (the evaluations after the common prefix) - i.e. Err carries the     *)
(*    LAST iterate, not the guess and not an earlier or a later point;                   *)
(*  - units: ok /\ basin => du <= 1, du = |x - x*| / (8 (tol + delta^2 + eps (|x*| + 1))) *)
(*    measured by the harness against the analytically known root;                       *)
(*  - expect = "ok" (guess inside the provable quadratic basin, limit >= 14) => success; *)
(*    expect = "err" (stopping criterion provably never met) => failure.                 *)
(* Total: a mismatch is reported once per cause (first excess evaluation, first          *)
(* diverging evaluation), the state is re-synchronised on the logged event.              *)
EXTENDS TraceBase
VARIABLES l, st
vars == <<l, st>>
N == INSTANCE Newton WITH MutatesGuess <- FALSE

Idle == [phase |-> "idle", cid |-> 0, call |-> 0, v |-> "f64", n |-> 1, maxit |-> 0, cnt |-> 0, seq |-> <<>>, g |-> <<>>, pb |-> <<>>,
         over |-> FALSE, div |-> FALSE, seq1 |-> <<>>, cnt1 |-> 0, ok1 |-> FALSE, r1 |-> <<>>, pb1 |-> <<>>, m1 |-> 0]

\* parameters() = (tol, delta, max_iter, guess) must reflect what was configured (scalar variants)
ParamsReflect(e) == IF N!IsScalar(e.variant)
                      THEN Len(e.pb) = 3 + Len(e.g) /\ e.pb[1] = e.tolb /\ e.pb[2] = e.deltab /\ e.pb[3] = ToString(e.maxit)
                           /\ \A i \in 1..Len(e.g) : e.pb[3 + i] = e.g[i]
                      ELSE TRUE
SamePb3(a, b) == Len(a) = Len(b) /\ \A i \in 1..Len(a) : (i = 3 \/ a[i] = b[i])

BeginOK(e) ==
    /\ st.phase # "run" /\ e.variant \in N!Variants /\ e.n >= 1 /\ e.maxit >= 0 /\ ParamsReflect(e)
    /\ CASE e.call = 1 -> TRUE
         [] e.call = 2 -> st.cid = e.cid /\ st.call = 1 /\ e.maxit = st.m1 /\ e.pb = st.pb1 /\ e.g = st.g /\ e.variant = st.v /\ e.n = st.n
         [] e.call = 3 -> st.cid = e.cid /\ st.call = 2 /\ e.maxit = st.m1 + 1 /\ SamePb3(e.pb, st.pb1) /\ e.g = st.g /\ e.variant = st.v /\ e.n = st.n
         [] OTHER -> FALSE
AfterBegin(e) == [st EXCEPT !.phase = "run", !.cid = e.cid, !.call = e.call, !.v = e.variant, !.n = e.n, !.maxit = e.maxit, !.cnt = 0, !.seq = <<>>,
                            !.g = e.g, !.pb = e.pb, !.over = FALSE, !.div = FALSE,
                            !.seq1 = IF e.call = 1 THEN <<>> ELSE st.seq1, !.cnt1 = IF e.call = 1 THEN 0 ELSE st.cnt1,
                            !.ok1 = IF e.call = 1 THEN FALSE ELSE st.ok1, !.r1 = IF e.call = 1 THEN <<>> ELSE st.r1,
                            !.pb1 = IF e.call = 1 THEN e.pb ELSE st.pb1, !.m1 = IF e.call = 1 THEN e.maxit ELSE st.m1]

\* the evaluation repeats call 1 (call 2: always; call 3: inside the common prefix)
Repeats(e) == IF e.call = 1 THEN TRUE
              ELSE IF e.idx <= st.cnt1 THEN e.x = st.seq1[e.idx] ELSE e.call = 3 /\ ~st.ok1
EvalWhy(e) == IF st.phase # "run" \/ e.cid # st.cid \/ e.call # st.call THEN "eval outside a running solve"
              ELSE IF e.idx # st.cnt + 1 THEN "eval numbering"
              ELSE IF ~st.over /\ ~N!EvalAllowed(st.v, st.n, st.maxit, st.cnt) THEN "more evaluations than maxit*EvalBound"
              ELSE IF ~st.div /\ ~Repeats(e) THEN "evaluation differs from call 1"
              ELSE "ok"
AfterEval(e) == [st EXCEPT !.cnt = st.cnt + 1, !.seq = Append(st.seq, e.x),
                           !.over = st.over \/ ~N!EvalAllowed(st.v, st.n, st.maxit, st.cnt),
                           !.div = st.div \/ (st.phase = "run" /\ ~Repeats(e))]

InStep(r, from, to) == \E i \in from..to : i <= Len(st.seq) /\ st.seq[i] = r
EndWhy(e) ==
    IF st.phase # "run" \/ e.cid # st.cid \/ e.call # st.call THEN "end outside a running solve"
    ELSE IF e.panic THEN "panic"
    ELSE IF e.cnt # st.cnt THEN "event count"
    ELSE IF ~N!EndAllowed(st.v, st.n, st.maxit, st.cnt, e.ok) THEN "work bound / success without a step"
    ELSE IF st.maxit = 0 /\ (e.ok \/ st.cnt # 0 \/ e.r # st.g) THEN "limit 0 must give Err(guess) without evaluation"
    ELSE IF e.pa # st.pb THEN "parameters() changed by solve"
    ELSE IF e.ok /\ e.basin /\ e.du > 1 THEN "Ok far from the root"
    ELSE IF e.expect = "ok" /\ ~e.ok THEN "failure inside the convergence basin"
    ELSE IF e.expect = "err" /\ e.ok THEN "success although the criterion cannot be met"
    ELSE IF e.call = 2 /\ (e.ok # st.ok1 \/ e.r # st.r1 \/ st.cnt # st.cnt1) THEN "second call differs"
    ELSE IF e.call = 3 /\ st.ok1 /\ (~e.ok \/ e.r # st.r1 \/ st.cnt # st.cnt1) THEN "larger limit changes a success"
    ELSE IF e.call = 3 /\ ~st.ok1 /\ ~(st.cnt > st.cnt1 /\ InStep(st.r1, st.cnt1 + 1, st.cnt)) THEN "Err does not carry the last iterate"
    ELSE "ok"
AfterEnd(e) == [st EXCEPT !.phase = "done", !.cid = e.cid, !.call = e.call,
                          !.seq1 = IF e.call = 1 THEN st.seq ELSE st.seq1, !.cnt1 = IF e.call = 1 THEN st.cnt ELSE st.cnt1,
                          !.ok1 = IF e.call = 1 THEN e.ok ELSE st.ok1, !.r1 = IF e.call = 1 THEN e.r ELSE st.r1]

Init == l = 1 /\ st = Idle /\ TLCSet(1, 0)
Step == /\ l <= NRec
        /\ LET e == Rec[l]
           IN CASE e.op = "begin" -> /\ (IF BeginOK(e) THEN TRUE ELSE Mismatch(l, e, "begin: configuration not as set / not as in call 1"))
                                     /\ st' = AfterBegin(e)
                [] e.op = "eval" -> /\ (IF EvalWhy(e) = "ok" THEN TRUE ELSE Mismatch(l, e, EvalWhy(e)))
                                    /\ st' = AfterEval(e)
                [] e.op = "end" -> /\ (IF EndWhy(e) = "ok" THEN TRUE ELSE Mismatch(l, e, EndWhy(e)))
                                   /\ st' = AfterEnd(e)
                [] OTHER -> Mismatch(l, e, "unknown event") /\ st' = st
        /\ l' = l + 1
Spec == Init /\ [][Step]_vars
=============================================================================
