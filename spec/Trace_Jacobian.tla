--------------------------- MODULE Trace_Jacobian ---------------------------
(* Trace validation for Mat64::jacobian and Matrix::<Cmplx>::jacobian_cmplx (C18).       *)
(* One event per call.  The user closure is the observation point: it records every      *)
(* point it is called at.                                                                *)
(*                                                                                       *)
(* op = "jac_affine": affine map x |-> M x + c on dyadic data; every float operation is  *)
(*   exact, so points and result are logged as scaled integers (points and delta in      *)
(*   units of 2^-xs, M and the result in units of 2^-ms) and decided exactly here:       *)
(*   no panic; the result is m x n; it equals M (the forward quotient of an affine map); *)
(*   the evaluation points are a legal sequence in the sense of Jacobian.tla             *)
(*   (PointsExplained: each point is the base or the base with ONE coordinate moved by   *)
(*   exactly delta; base and every coordinate visited).  For the complex variant the     *)
(*   imaginary parts are logged separately: the perturbation is real, so every point's   *)
(*   imaginary part equals the base's, and the imaginary part of the result equals Im M. *)
(* op = "jac_smooth": smooth nonlinear map with known derivative, general delta; the     *)
(*   harness measures in integer units (the bounds live HERE):                           *)
(*     units  = max_ij |J_ij - dF_i/dx_j| / (8 (delta M2_ij + eps (F_i + |x_j| M1_ij) / delta))   <= 1     *)
(*     far    = max over points of the number of coordinates further than 8 eps (|x_j| + delta)    *)
(*              from the base                                                    <= 1     *)
(*     dunits = max over perturbed points of | (p_j - x_j) - delta | / (8 eps (|x_j| + delta)) <= 1 *)
(*     cover  = the base and every coordinate were visited; shape (r, c) = (m, n).       *)
EXTENDS TraceBase, Dense
VARIABLES l
\* the operators of Jacobian.tla with the required behaviour of the column store (the shared Trace.cfg assigns no constants)
J == INSTANCE Jacobian WITH SetColRangeAgainst <- "cols"
vars == <<l>>

ShapeOK(e, X) == X.r = e.m /\ X.c = e.n /\ WellShaped(X)

AffineOK(e) ==
    /\ ~e.panic
    /\ ShapeOK(e, e.jac) /\ e.M.r = e.m /\ e.M.c = e.n /\ SameMat(e.jac, e.M)
    /\ Len(e.x) = e.n /\ J!PointsExplained(e.pts, e.x, e.dsc)
    /\ (e.ty = "cx" => /\ ShapeOK(e, e.jaci) /\ SameMat(e.jaci, e.Mi)
                       /\ Len(e.ptsi) = Len(e.pts)
                       /\ \A q \in 1..Len(e.ptsi) : SameSeq(e.ptsi[q], e.xi))

\* op = "jac_quad": f_i = s_i u_i (x_p^2 - x_q^2), s_i = +-1, u_i in {1, i} (u = 1 in the event: coefficient i), q_i = -1: no second term;
\* dyadic data with exact squares: entry (i, j) is EXACTLY s_i u_i ([j = p_i] - [j = q_i]) (2 z_j + delta) - a central stencil gives 2 z_j,
\* another step another number; points and result in units of 2^-xs; complex: z_j = x_j + i y_j, delta real, parts logged separately.
QuadCf(e, i, j) == e.s[i + 1] * ((IF j = e.p[i + 1] THEN 1 ELSE 0) - (IF j = e.q[i + 1] THEN 1 ELSE 0))
QuadOK(e) ==
    /\ ~e.panic
    /\ ShapeOK(e, e.jac) /\ Len(e.x) = e.n /\ Len(e.p) = e.m /\ Len(e.s) = e.m /\ Len(e.q) = e.m /\ Len(e.u) = e.m
    /\ J!PointsExplained(e.pts, e.x, e.dsc)
    /\ IF e.ty = "cx"
         THEN /\ ShapeOK(e, e.jaci) /\ Len(e.ptsi) = Len(e.pts) /\ Len(e.xi) = e.n
              /\ \A q \in 1..Len(e.ptsi) : SameSeq(e.ptsi[q], e.xi)
              /\ \A i \in 0..(e.m - 1) : \A j \in 0..(e.n - 1) :
                     LET re == QuadCf(e, i, j) * J!QuadQuot(e.x[j + 1], e.dsc)
                         im == QuadCf(e, i, j) * 2 * e.xi[j + 1]
                     IN IF e.u[i + 1] = 1 THEN At(e.jac, i, j) = -im /\ At(e.jaci, i, j) = re
                                          ELSE At(e.jac, i, j) = re /\ At(e.jaci, i, j) = im
         ELSE \A i \in 0..(e.m - 1) : \A j \in 0..(e.n - 1) :
                     e.u[i + 1] = 0 /\ At(e.jac, i, j) = QuadCf(e, i, j) * J!QuadQuot(e.x[j + 1], e.dsc)

\* op = "jac_sq": the same maps at general points / steps (delta = 1e-8): units = |J_ij - Q*_ij| / (4 eps |f| / delta) (complex: 12 eps |f| / delta) against the exact
\* forward quotient Q* of the evaluated points computed in double-double (entries of other variables: 8 eps |f| / delta); same discipline fields
SmoothOK(e) == ~e.panic /\ e.r = e.m /\ e.c = e.n /\ e.cover /\ e.far <= 1 /\ e.dunits <= 1 /\ e.units <= 1

\* op = "jac_big": large and extreme-aspect shapes (n up to 65, m up to 130, tall m >= 8n, wide 1 x n and 2 x n) of the affine and quadratic
\* families: the same exact expectations, checked entry by entry and point by point in integer arithmetic by the harness on the scaled integers;
\* logged: number of wrong entries (first one for the replay), number of illegal evaluation points, coverage, the shape.
BigOK(e) == ~e.panic /\ e.r = e.m /\ e.c = e.n /\ e.wrong = 0 /\ e.pbad = 0 /\ e.cover

Explained(e) ==
  CASE e.op = "jac_affine" -> AffineOK(e)
    [] e.op = "jac_quad" -> QuadOK(e)
    [] e.op = "jac_big" -> BigOK(e)
    [] e.op \in {"jac_smooth", "jac_sq"} -> SmoothOK(e)
    [] OTHER -> FALSE

Init == l = 1 /\ TLCSet(1, 0)
Step == /\ l <= NRec
        /\ LET e == Rec[l] IN IF Explained(e) THEN TRUE ELSE Mismatch(l, e, e.op)
        /\ l' = l + 1
Spec == Init /\ [][Step]_vars
=============================================================================
