SPECIFICATION Spec
CONSTANTS MaxN = 3  Vals <- MCVals3  ValsTop <- MCVals3  Emit = TRUE
INVARIANTS EmitCase
CHECK_DEADLOCK FALSE
