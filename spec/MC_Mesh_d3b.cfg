SPECIFICATION Spec
CONSTANTS
  Coords <- MCCoords
  Vals <- MCVals
  Coefs <- MCCoefs
  MaxN = 3
  NVs = {2}
  LinNV = {2}
  Shapes1 <- Nodes23
  Shapes2 <- ShapesAll3
  LawShapes2 <- ShapesAll3
  Depth = 3
  IScale = 4
  MaxData2 = 4
  Modes = {"store1", "store2"}
  Emit = FALSE
  Positional = FALSE
VIEW View
INVARIANTS Shape Fresh QuadSum Interp LinExact
CHECK_DEADLOCK FALSE
