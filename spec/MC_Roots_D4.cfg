SPECIFICATION Spec
CONSTANTS Mode = "quad"  MaxDeg = 0  NRoots = 0  MaxRoots = 0  NLead = 0  QZeroGuard = FALSE  StopOnNonFinite = TRUE  MaxIt = 4
CONSTANTS Comp <- Comp1  CompA <- Comp1
INVARIANTS QuadFinite

CHECK_DEADLOCK FALSE
