----------------------------- MODULE MC_PolyDiv -----------------------------
(* Design check and case generator for PolyDiv.tla (C12): every dividend of degree     *)
(* <= MaxDegU and divisor of degree <= MaxDegV over Vals (empty polynomials, zero      *)
(* divisors, divisors longer than the dividend included; nonzero leading coefficient   *)
(* of v otherwise), every choice of the rounding residue at every step.                *)
EXTENDS PolyDiv, TLC, Json
CONSTANTS MaxDegU, MaxDegV, Vals, Emit
VARIABLES u, v, s
vars == <<u, v, s>>

MCVals2 == -2..2
MCVals1 == -1..1
Polys(maxdeg) == UNION {[1..len -> {R(c) : c \in Vals}] : len \in 0..(maxdeg + 1)}

Init == /\ u \in Polys(MaxDegU) /\ v \in Polys(MaxDegV)
        /\ (IF Len(v) = 0 THEN TRUE ELSE (QIsZero(v) \/ QLead(v) # RZero))
        /\ s = DivInit(u)
Next == /\ UNCHANGED <<u, v>>
        /\ \/ s.pc = "start" /\ s' = DivStart(s, v)
           \/ s.pc = "loop" /\ \E residue \in Residues : s' = DivStep(s, v, residue)
           \/ Final(s) /\ UNCHANGED s
Spec == Init /\ [][Next]_vars /\ WF_vars(Next)

\* loop invariant (exact arithmetic) and the postconditions the property states
IdentityInv == (s.pc \in {"loop", "ok"} /\ ~Rounding) => Identity(u, v, s.q, s.r)
Remainder == (s.pc = "ok" /\ LeadNonzero(v)) => RemainderOK(v, s.r)
ZeroDivisorRejected == ZeroDivisor(v) => s.pc \in {"start", "err_zero_divisor"}
NeverGivesUp == LeadNonzero(v) => s.pc # "err_max_iter"
StepBound == LeadNonzero(v) => s.count <= StepLimit(u, v)
\* the variant: the degree of r strictly decreases with every iteration
Variant == (s.pc = "loop" /\ LeadNonzero(v) /\ s.count > 0 /\ (DropLeadingTerm \/ ~Rounding)) => (QIsZero(s.r) \/ Len(s.r) + s.count <= Len(u))
WellFormed == QIsRatPoly(s.q) /\ QIsRatPoly(s.r) /\ QTrimmed(s.q) /\ (s.count > 0 => QTrimmed(s.r))
\* the functional run used by the trace specification is the machine with residue 0
RunAgrees == (s.pc = "ok" /\ ~Rounding) => (LET f == DivRun(u, v) IN f.pc = "ok" /\ QSame(f.q, s.q) /\ QSame(f.r, s.r))
Terminates == <>Final(s)

EmitCase == (Emit /\ Final(s)) => PrintT(<<"CASE", ToJson([u |-> u, v |-> v])>>)
=============================================================================
