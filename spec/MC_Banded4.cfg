SPECIFICATION Spec
CONSTANTS MinN = 4  MaxN = 4  LawN = 0  BWTop = 2  Vals <- MCVals  Pads = {0, 7}  PivotBy = "magnitude"  Emit = FALSE
INVARIANTS DetOK PivotNonzero SolveOK MultipliersBounded OperatorAgrees LawsValue
CHECK_DEADLOCK FALSE
