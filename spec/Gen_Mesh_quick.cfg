SPECIFICATION Spec
CONSTANTS
  Coords <- MCCoords
  Vals <- MCVals
  Coefs <- MCCoefs
  MaxN = 3
  NVs = {2}
  LinNV = {2}
  Shapes1 <- Nodes23
  Shapes2 <- ShapesNonSq3
  LawShapes2 <- ShapesNonSq3
  Depth = 2
  IScale = 2
  MaxData2 = 4
  Modes = {"store1", "store2", "data1", "lin1", "lin2"}
  Emit = TRUE
  Positional = TRUE
INVARIANTS EmitCase
CHECK_DEADLOCK FALSE
