SPECIFICATION Spec
CONSTANTS MaxSize = 4  MaxSmall = 2  AgedMax = 3  Emit = FALSE
INVARIANTS Consistent
CHECK_DEADLOCK FALSE
