SPECIFICATION Spec
CONSTANTS MaxSize = 4  MaxSmall = 2  Emit = FALSE
INVARIANTS Consistent
CHECK_DEADLOCK FALSE
