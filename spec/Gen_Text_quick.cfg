SPECIFICATION Spec
CONSTANTS
  NA = 2
  MaxVec = 3
  MaxMat = 2
  MaxTri = 2
  MaxBandN = 2
  MaxBandM = 1
  MaxPoly = 3
  MaxM1 = 1
  MaxM2 = 1
  Emit = TRUE
  Pairwise = FALSE
INVARIANTS EmitCase
CHECK_DEADLOCK FALSE
