----------------------------- MODULE SparseCSC -----------------------------
(* ohsl::Sparse<T> (compressed sparse column storage), C06 and C07.                    *)
(*                                                                                     *)
(* Two descriptions of one matrix stand next to each other:                            *)
(*  - the ABSTRACT matrix  [rows, cols, map]  with map a finite function from          *)
(*    positions <<i, j>> (0-based) to stored values -- written from the definition;    *)
(*  - the CONCRETE state   [rows, cols, nz, val, ri, cs]  (the six public fields:      *)
(*    nonzero, val, row_index, col_start) on which the algorithms of src/sparse.rs     *)
(*    are transcribed loop by loop (stable sort by column + counting pass, column-     *)
(*    index expansion, linear-scan lookup, insert = overwrite or rebuild, transpose =  *)
(*    row counts, prefix sums, scatter, product = column scatter / gather).            *)
(* MC_SparseCSC checks that the transcribed algorithms refine the abstract operators   *)
(* on every reachable state; Trace_SparseCSC judges the real code against the abstract *)
(* operators only (content + well-formedness; the order of the row indices inside a    *)
(* column is a representation choice and is never demanded).                           *)
(* Sequences are 1-based and hold the code's 0-based values: cs[k + 1] is col_start[k].*)
(* A triplet is <<row, col, value>>.  Values are integers.                             *)
EXTENDS Integers, Sequences, FiniteSets
D == INSTANCE Dense

(* ======================= abstract matrix (the reference) ======================= *)
Pos(t) == <<t[1], t[2]>>
PosSet(ts) == {Pos(ts[m]) : m \in 1..Len(ts)}
DupFree(ts) == Cardinality(PosSet(ts)) = Len(ts)
InRangeTs(r, c, ts) == \A m \in 1..Len(ts) : ts[m][1] \in 0..(r - 1) /\ ts[m][2] \in 0..(c - 1)
\* constructor domain stated by the property: in-range, duplicate-free entry lists in any order
Acc_Triplets(r, c, ts) == r >= 0 /\ c >= 0 /\ InRangeTs(r, c, ts) /\ DupFree(ts)

MEmpty(r, c) == [rows |-> r, cols |-> c, map |-> <<>>]
MOfTriplets(r, c, ts) ==
    [rows |-> r, cols |-> c,
     map |-> [p \in PosSet(ts) |-> ts[CHOOSE m \in 1..Len(ts) : Pos(ts[m]) = p][3]]]
MHas(M, i, j) == <<i, j>> \in DOMAIN M.map
MInRange(M, i, j) == 0 <= i /\ i < M.rows /\ 0 <= j /\ j < M.cols
MGet(M, i, j) == IF MHas(M, i, j) THEN <<TRUE, M.map[<<i, j>>]>> ELSE <<FALSE, 0>>
MInsert(M, i, j, v) == [M EXCEPT !.map = [p \in (DOMAIN M.map) \cup {<<i, j>>} |-> IF p = <<i, j>> THEN v ELSE M.map[p]]]
MScale(M, a) == [M EXCEPT !.map = [p \in DOMAIN M.map |-> M.map[p] * a]]
MTranspose(M) == [rows |-> M.cols, cols |-> M.rows,
                  map |-> [p \in {<<q[2], q[1]>> : q \in DOMAIN M.map} |-> M.map[<<p[2], p[1]>>]]]
MCount(M) == Cardinality(DOMAIN M.map)
\* the dense matrix an abstract matrix stands for (absent = 0); products are the dense ones of Dense.tla
MDense(M) == D!Mk(M.rows, M.cols, LAMBDA i, j : IF <<i, j>> \in DOMAIN M.map THEN M.map[<<i, j>>] ELSE 0)
MColCount(M, j) == Cardinality({p \in DOMAIN M.map : p[2] = j})

(* ======================= concrete state and algorithms ======================= *)
\* src/sparse.rs:47  sort_by_key is stable: insertion keeps the order of equal keys
StableSortByCol(ts) ==
    LET RECURSIVE Ins(_, _)
        Ins(sorted, t) == IF sorted = <<>> THEN <<t>>
                          ELSE IF t[2] < Head(sorted)[2] THEN <<t>> \o sorted
                          ELSE <<Head(sorted)>> \o Ins(Tail(sorted), t)
        RECURSIVE Go(_, _)
        Go(acc, rest) == IF rest = <<>> THEN acc ELSE Go(Ins(acc, Head(rest)), Tail(rest))
    IN Go(<<>>, ts)
\* src/sparse.rs:112-127  counting pass, then cumulative sum (n = number of entries, c = cols)
ColStartFromIndex(ci, c, n) ==
    LET cnt == [k \in 0..(c - 1) |-> Cardinality({m \in 1..n : ci[m] = k})]
        RECURSIVE Cum(_)
        Cum(k) == IF k = 0 THEN 0 ELSE Cum(k - 1) + cnt[k - 1]
    IN [k \in 1..(c + 1) |-> Cum(k - 1)]
\* src/sparse.rs:45-73
FromTriplets(r, c, ts) ==
    LET s == StableSortByCol(ts)
        n == Len(s)
    IN [rows |-> r, cols |-> c, nz |-> n,
        val |-> [m \in 1..n |-> s[m][3]], ri |-> [m \in 1..n |-> s[m][1]],
        cs |-> ColStartFromIndex([m \in 1..n |-> s[m][2]], c, n)]
\* src/sparse.rs:30-42  (nonzero is read off the last column start)
Acc_Vecs(cs) == Len(cs) >= 1
FromVecs(r, c, val, ri, cs) == [rows |-> r, cols |-> c, nz |-> cs[Len(cs)], val |-> val, ri |-> ri, cs |-> cs]
\* src/sparse.rs:76-90  column-index expansion
ColIndex(S) ==
    IF S.nz = 0 THEN <<>>
    ELSE LET RECURSIVE Exp(_)
             Exp(k) == IF k > Len(S.cs) - 1 THEN <<>>
                       ELSE [m \in 1..(S.cs[k + 1] - S.cs[k]) |-> k - 1] \o Exp(k + 1)
         IN Exp(1)
\* src/sparse.rs:93-108  lookup: first hit of a linear scan
Hits(S, i, j) == LET ci == ColIndex(S) IN {m \in 1..S.nz : S.ri[m] = i /\ ci[m] = j}
First(H) == CHOOSE m \in H : \A m2 \in H : m <= m2
Get(S, i, j) == LET H == Hits(S, i, j) IN IF H = {} THEN <<FALSE, 0>> ELSE <<TRUE, S.val[First(H)]>>
\* src/sparse.rs:260-268  column walk
ToTriplets(S) ==
    LET RECURSIVE Col(_)
        Col(j) == IF j >= S.cols THEN <<>>
                  ELSE [m \in 1..(S.cs[j + 2] - S.cs[j + 1]) |-> <<S.ri[S.cs[j + 1] + m], j, S.val[S.cs[j + 1] + m]>>] \o Col(j + 1)
    IN Col(0)
\* src/sparse.rs:272-289  overwrite the first hit, else rebuild from the triplet list + new triplet
Insert(S, i, j, v) ==
    LET H == Hits(S, i, j)
    IN IF H # {} THEN [S EXCEPT !.val[First(H)] = v]
       ELSE FromTriplets(S.rows, S.cols, Append(ToTriplets(S), <<i, j, v>>))
\* src/sparse.rs:174-178
Scale(S, a) == [S EXCEPT !.val = [m \in 1..Len(S.val) |-> IF m <= S.nz THEN S.val[m] * a ELSE S.val[m]]]
\* src/sparse.rs:211-233  count the rows, prefix sums, scatter in storage order
Transpose(S) ==
    LET cnt == [k \in 0..(S.rows - 1) |-> Cardinality({m \in 1..S.nz : S.ri[m] = k})]
        RECURSIVE Cum(_)
        Cum(k) == IF k = 0 THEN 0 ELSE Cum(k - 1) + cnt[k - 1]
        ci == ColIndex(S)
        \* slot of entry m: start of its row + number of earlier entries of the same row
        Slot(m) == Cum(S.ri[m]) + Cardinality({m2 \in 1..(m - 1) : S.ri[m2] = S.ri[m]}) + 1
        Inv(p) == CHOOSE m \in 1..S.nz : Slot(m) = p
    IN [rows |-> S.cols, cols |-> S.rows, nz |-> S.nz,
        val |-> [p \in 1..S.nz |-> S.val[Inv(p)]], ri |-> [p \in 1..S.nz |-> ci[Inv(p)]],
        cs |-> [k \in 1..(S.rows + 1) |-> Cum(k - 1)]]
\* src/sparse.rs:292-300  column walk writing into a zero matrix (a later duplicate would overwrite)
ToDense(S) ==
    LET RECURSIVE Ent(_, _, _)
        Ent(d, j, k) == IF k >= S.cs[j + 2] THEN d
                        ELSE Ent([d EXCEPT ![S.ri[k + 1] * S.cols + j + 1] = S.val[k + 1]], j, k + 1)
        RECURSIVE Col(_, _)
        Col(d, j) == IF j >= S.cols THEN d ELSE Col(Ent(d, j, S.cs[j + 1]), j + 1)
    IN [r |-> S.rows, c |-> S.cols, d |-> Col([n \in 1..(S.rows * S.cols) |-> 0], 0)]
\* src/sparse.rs:181-193  A x : column-oriented scatter  result[row_index[k]] += val[k] * x[j]
Acc_Mul(S, x) == Len(x) = S.cols
Mul(S, x) ==
    LET RECURSIVE Ent(_, _, _)
        Ent(res, j, k) == IF k >= S.cs[j + 2] THEN res
                          ELSE Ent([res EXCEPT ![S.ri[k + 1] + 1] = @ + S.val[k + 1] * x[j + 1]], j, k + 1)
        RECURSIVE Col(_, _)
        Col(res, j) == IF j >= S.cols THEN res ELSE Col(Ent(res, j, S.cs[j + 1]), j + 1)
    IN Col([i \in 1..S.rows |-> 0], 0)
\* src/sparse.rs:196-208  A^T y : column-oriented gather  result[i] += val[k] * y[row_index[k]]
Acc_TMul(S, y) == Len(y) = S.rows
TMul(S, y) ==
    LET RECURSIVE Ent(_, _, _)
        Ent(acc, i, k) == IF k >= S.cs[i + 2] THEN acc ELSE Ent(acc + S.val[k + 1] * y[S.ri[k + 1] + 1], i, k + 1)
    IN [i \in 1..S.cols |-> Ent(0, i - 1, S.cs[i])]

(* ======================= well-formedness, abstraction, views ======================= *)
\* structural part (what the property states): column starts rise from 0 to the entry count, one row
\* index and one value per entry, row indices in range.  Safe on arbitrary logged fields: every
\* conjunct is evaluated only when the ones before it hold.
Structured(S) == /\ S.rows >= 0 /\ S.cols >= 0 /\ S.nz >= 0
                 /\ Len(S.cs) = S.cols + 1 /\ S.cs[1] = 0 /\ S.cs[S.cols + 1] = S.nz
                 /\ \A k \in 1..S.cols : S.cs[k] <= S.cs[k + 1]
                 /\ Len(S.val) = S.nz /\ Len(S.ri) = S.nz
                 /\ \A m \in 1..S.nz : S.ri[m] \in 0..(S.rows - 1)
Entries(S) == LET ci == ColIndex(S) IN {<<S.ri[m], ci[m]>> : m \in 1..S.nz}
WellFormed(S) == Structured(S) /\ Cardinality(Entries(S)) = S.nz          \* ... and duplicate-free
\* the abstract matrix a (structured) concrete state stands for
AsMap(S) == [p \in Entries(S) |-> Get(S, p[1], p[2])[2]]
Abs(S) == [rows |-> S.rows, cols |-> S.cols, map |-> AsMap(S)]
\* Refinement in linear form (used per event by the trace specification; MC_SparseCSC checks that it
\* is equivalent to WellFormed /\ Abs(S) = M, also on perturbed M).  Requires Structured(S).
RefinesFast(S, M) ==
    LET ci == ColIndex(S)
    IN /\ S.rows = M.rows /\ S.cols = M.cols
       /\ Cardinality(Entries(S)) = S.nz /\ MCount(M) = S.nz
       /\ \A m \in 1..S.nz : <<S.ri[m], ci[m]>> \in DOMAIN M.map /\ M.map[<<S.ri[m], ci[m]>>] = S.val[m]
\* the four views, each as "this output describes the abstract matrix M"
\*   get: gp / gv are r x c matrices (row-major): present flag (1/0) and value (0 when absent)
ViewGet(gp, gv, M) ==
    /\ gp.r = M.rows /\ gp.c = M.cols /\ Len(gp.d) = M.rows * M.cols
    /\ gv.r = M.rows /\ gv.c = M.cols /\ Len(gv.d) = M.rows * M.cols
    /\ \A i \in 0..(M.rows - 1), j \in 0..(M.cols - 1) :
          LET g == MGet(M, i, j) IN D!At(gp, i, j) = (IF g[1] THEN 1 ELSE 0) /\ D!At(gv, i, j) = g[2]
\*   to_triplets: every stored entry exactly once, in any order
ViewTriplets(ts, M) ==
    /\ Len(ts) = MCount(M) /\ DupFree(ts)
    /\ \A m \in 1..Len(ts) : Len(ts[m]) = 3 /\ Pos(ts[m]) \in DOMAIN M.map /\ M.map[Pos(ts[m])] = ts[m][3]
\*   to_dense
ViewDense(dm, M) == D!SameMat(dm, MDense(M))
\*   col_index: the column of each stored entry in storage order; with WellFormed storage it is the
\*   nondecreasing sequence holding column j once per entry of column j (fixed by M alone)
ModelColIndex(M) ==
    LET RECURSIVE Exp(_)
        Exp(j) == IF j >= M.cols THEN <<>> ELSE [m \in 1..MColCount(M, j) |-> j] \o Exp(j + 1)
    IN Exp(0)
ViewColIndex(ci, M) == D!SameSeq(ci, ModelColIndex(M))

(* ======================= comparison BY VALUE (stored zero == absent) ======================= *)
(* The property fixes the VALUE at every position, not whether an explicit zero is kept as an      *)
(* entry: get may answer Some(0) or None there, the triplet list may or may not contain it, the   *)
(* entry count may or may not include it.  These predicates are what the trace specification      *)
(* demands; the storage itself must still be Structured and duplicate-free.                        *)
MVal(M, i, j) == IF <<i, j>> \in DOMAIN M.map THEN M.map[<<i, j>>] ELSE 0
MSameValue(M1, M2) == M1.rows = M2.rows /\ M1.cols = M2.cols /\ D!SameMat(MDense(M1), MDense(M2))
\* linear form of  MSameValue(Abs(S), M)  for Structured, duplicate-free S  (checked in MC_SparseCSC)
RefinesValue(S, M) ==
    LET ci == ColIndex(S)
        E == {<<S.ri[m], ci[m]>> : m \in 1..S.nz}
    IN /\ S.rows = M.rows /\ S.cols = M.cols
       /\ Cardinality(E) = S.nz
       /\ \A m \in 1..S.nz : S.val[m] = MVal(M, S.ri[m], ci[m])
       /\ \A p \in DOMAIN M.map : M.map[p] # 0 => p \in E
ViewGetV(gp, gv, M) ==
    /\ gp.r = M.rows /\ gp.c = M.cols /\ Len(gp.d) = M.rows * M.cols
    /\ gv.r = M.rows /\ gv.c = M.cols /\ Len(gv.d) = M.rows * M.cols
    /\ \A i \in 0..(M.rows - 1), j \in 0..(M.cols - 1) :
          /\ D!At(gv, i, j) = MVal(M, i, j)                       \* Some(v) -> v, None -> 0
          /\ D!At(gp, i, j) \in {0, 1}
          /\ (MVal(M, i, j) # 0 => D!At(gp, i, j) = 1)             \* a non-zero value must be found
ViewTripletsV(ts, M) ==
    /\ DupFree(ts)
    /\ \A m \in 1..Len(ts) : Len(ts[m]) = 3 /\ MInRange(M, ts[m][1], ts[m][2]) /\ ts[m][3] = MVal(M, ts[m][1], ts[m][2])
    /\ \A p \in DOMAIN M.map : M.map[p] # 0 => p \in PosSet(ts)
\* col_index: the column of each stored entry in storage order -- fixed by the (well-formed) fields
ViewColIndexF(ci, S) == D!SameSeq(ci, ColIndex(S))

(* ======================= histories: one transition function each ======================= *)
\* o is an operation record [op, i, j, v, a]
IsMutator(o) == o.op \in {"insert", "scale", "transpose"}
CApply(S, o) == CASE o.op = "insert" -> Insert(S, o.i, o.j, o.v)
                  [] o.op = "scale" -> Scale(S, o.a)
                  [] o.op = "transpose" -> Transpose(S)
                  [] OTHER -> S
MApply(M, o) == CASE o.op = "insert" -> MInsert(M, o.i, o.j, o.v)
                  [] o.op = "scale" -> MScale(M, o.a)
                  [] o.op = "transpose" -> MTranspose(M)
                  [] OTHER -> M

(* ======================= C07: products ======================= *)
MMul(M, x) == D!MatVec(MDense(M), x)                         \* dense A x
MTMul(M, y) == D!MatVec(D!Transpose(MDense(M)), y)            \* dense A^T y
VScale(v, a) == [k \in 1..Len(v) |-> v[k] * a]
VDot(u, v) == D!Dot(u, v)
=============================================================================
