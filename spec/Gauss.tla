------------------------------- MODULE Gauss -------------------------------
(* Dense direct solvers, determinant and inverse of ohsl::Matrix (C01, C02).            *)
(*                                                                                      *)
(* Part 1: exact linear algebra written from the DEFINITIONS (Leibniz determinant,     *)
(*         Cramer's rule, fraction-free determinant, cross-multiplied residuals).       *)
(* Part 2: the two ALGORITHMS of src/matrix/solve.rs as step-wise state machines over   *)
(*         exact rationals, one step per loop iteration: Gaussian elimination with      *)
(*         partial pivoting (solve_basic) and the in-place Doolittle LU with its        *)
(*         permutation matrix and exchange count (lu_decomp_in_place, solve_lu,         *)
(*         determinant, inverse).  The pivot is ANY row of maximal magnitude: the       *)
(*         specification demands no tie-break.  A column that is zero on and below the  *)
(*         diagonal must be skipped (no division; U keeps a zero on its diagonal and    *)
(*         the determinant is exactly 0); SkipZeroColumn = FALSE is the behaviour the   *)
(*         code had before its repair (defect D6) and is kept as a named switch.        *)
(* Part 3: the acceptance predicates used by Trace_Gauss (what a recorded call of the   *)
(*         real code must satisfy), including the a-priori floating-point guard.        *)
(*                                                                                      *)
(* Matrices are sequences of rows, 1-based; machine matrices hold Rat pairs <<n, d>>.   *)
EXTENDS Rat, Sequences, FiniteSets, TLC

(* ===================================================================================== *)
(* Part 1: definitions                                                                   *)
(* ===================================================================================== *)
SwapF(f, i, j) == [f EXCEPT ![i] = f[j], ![j] = f[i]]
ToRat(M) == [i \in DOMAIN M |-> [j \in DOMAIN M[i] |-> R(M[i][j])]]
VecToRat(v) == [i \in DOMAIN v |-> R(v[i])]
IdI(n) == [i \in 1..n |-> [j \in 1..n |-> IF i = j THEN 1 ELSE 0]]
IdR(n) == ToRat(IdI(n))
TransposeM(M, n) == [i \in 1..n |-> [j \in 1..n |-> M[j][i]]]
ReplaceCol(M, c, v, n) == [i \in 1..n |-> [j \in 1..n |-> IF j = c THEN v[i] ELSE M[i][j]]]
UnitVec(j, n) == [i \in 1..n |-> IF i = j THEN 1 ELSE 0]
ColOf(M, j, n) == [i \in 1..n |-> M[i][j]]

RECURSIVE Pow2(_)
Pow2(k) == IF k <= 0 THEN 1 ELSE 2 * Pow2(k - 1)

(* ---- Leibniz determinant of an integer matrix: sum over all permutations ---- *)
Perms(n) == {p \in [1..n -> 1..n] : \A i, j \in 1..n : i < j => p[i] # p[j]}
Inversions(p, n) == Cardinality({ij \in (1..n) \X (1..n) : ij[1] < ij[2] /\ p[ij[1]] > p[ij[2]]})
SignOf(p, n) == IF Inversions(p, n) % 2 = 0 THEN 1 ELSE -1
RECURSIVE SetToSeq(_)
SetToSeq(S) == IF S = {} THEN <<>> ELSE LET e == CHOOSE q \in S : TRUE IN <<e>> \o SetToSeq(S \ {e})
\* the signed permutations of 1..n for n <= 4, evaluated once (TLC caches constant definitions)
SignedPerms == [n \in 0..4 |-> SetToSeq({<<p, SignOf(p, n)>> : p \in Perms(n)})]
RECURSIVE DiagProd(_, _, _, _)
DiagProd(M, p, i, n) == IF i > n THEN 1 ELSE M[i][p[i]] * DiagProd(M, p, i + 1, n)
RECURSIVE LeibnizSum(_, _, _, _)
LeibnizSum(M, sp, m, n) == IF m > Len(sp) THEN 0 ELSE sp[m][2] * DiagProd(M, sp[m][1], 1, n) + LeibnizSum(M, sp, m + 1, n)
LeibnizDet(M, n) == LeibnizSum(M, IF n <= 4 THEN SignedPerms[n] ELSE SetToSeq({<<p, SignOf(p, n)>> : p \in Perms(n)}), 1, n)
(* ---- Cramer's rule (det # 0 required) ---- *)
CramerWith(M, b, n, d) == [j \in 1..n |-> Norm(LeibnizDet(ReplaceCol(M, j, b, n), n), d)]
Cramer(M, b, n) == CramerWith(M, b, n, LeibnizDet(M, n))

(* ---- fraction-free (Bareiss) determinant of an integer matrix: every intermediate   *)
(*      entry is a minor of M, so no number exceeds Hadamard's bound squared ---- *)
ExactDiv(x, s) == IF s > 0 THEN x \div s ELSE (-x) \div (-s)         \* s divides x
\* the matrix is kept as ONE flat function F over 1..n*n, forced with TLCEval at every step: TLC keeps [x \in S |-> e] as an
\* unevaluated lambda, and without forcing every entry of step k would re-evaluate four entries of step k-1 (4^n work)
RECURSIVE BareissFrom(_, _, _, _, _)
BareissFrom(F, k, n, prev, sign) ==
  LET At2(G, i, j) == G[(i - 1) * n + j]
  IN IF k = n THEN sign * At2(F, n, n)
     ELSE LET cand == {r \in k..n : At2(F, r, k) # 0}
          IN IF cand = {} THEN 0
             ELSE LET r == CHOOSE q \in cand : \A q2 \in cand : q <= q2
                      W == TLCEval([m \in 1..(n * n) |->
                              LET i == ((m - 1) \div n) + 1  j == ((m - 1) % n) + 1
                              IN IF i = k THEN At2(F, r, j) ELSE IF i = r THEN At2(F, k, j) ELSE F[m]])
                      piv == At2(W, k, k)
                      Nx == TLCEval([m \in 1..(n * n) |->
                              LET i == ((m - 1) \div n) + 1  j == ((m - 1) % n) + 1
                              IN IF i > k /\ j > k THEN ExactDiv(piv * W[m] - At2(W, i, k) * At2(W, k, j), prev) ELSE W[m]])
                  IN BareissFrom(Nx, k + 1, n, piv, IF r = k THEN sign ELSE -sign)
Bareiss(M, n) == IF n = 0 THEN 1 ELSE BareissFrom(TLCEval([m \in 1..(n * n) |-> M[((m - 1) \div n) + 1][((m - 1) % n) + 1]]), 1, n, 1, 1)

(* ---- exact rational products ---- *)
RECURSIVE RDotRange(_, _, _, _)
RDotRange(u, v, lo, hi) == IF lo > hi THEN RZero ELSE RAdd(RMul(u[lo], v[lo]), RDotRange(u, v, lo + 1, hi))
RMatMul(X, Y, n) == [i \in 1..n |-> [j \in 1..n |-> RDotRange(X[i], ColOf(Y, j, n), 1, n)]]
RMatVec(X, v, n) == [i \in 1..n |-> RDotRange(X[i], v, 1, n)]

(* ---- A*x = b for an integer matrix, integer right-hand side and a vector of reduced *)
(*      rationals, cross-multiplied with the common denominator L: the numbers that     *)
(*      occur are those of Cramer's rule.  Magnitudes are capped BEFORE multiplying, so *)
(*      that a wrong answer with huge entries is rejected instead of overflowing TLC.   *)
EntryCap == 1024
NumCap == 131072
LcmCapped(a, b) == IF a = 0 THEN 0                                  \* 0 = "exceeds NumCap"
                   ELSE LET q == b \div Gcd(a, b) IN IF q > NumCap \div a THEN 0 ELSE a * q
RECURSIVE LcmDens(_, _)
LcmDens(x, j) == IF j > Len(x) THEN 1 ELSE LcmCapped(LcmDens(x, j + 1), x[j][2])
RatSeqOk(x) == \A j \in 1..Len(x) : Len(x[j]) = 2 /\ x[j][2] >= 1 /\ x[j][2] <= NumCap /\ Abs(x[j][1]) <= NumCap
ScaledOk(x, L) == \A j \in 1..Len(x) : Abs(x[j][1]) <= NumCap \div (L \div x[j][2])
RECURSIVE ScaledDot(_, _, _, _)
ScaledDot(row, x, L, j) == IF j > Len(x) THEN 0 ELSE row[j] * (x[j][1] * (L \div x[j][2])) + ScaledDot(row, x, L, j + 1)
IntsOk(v) == \A j \in 1..Len(v) : Abs(v[j]) <= EntryCap
Solves(M, x, b, n) ==
  /\ Len(x) = n /\ RatSeqOk(x) /\ IntsOk(b) /\ \A i \in 1..n : IntsOk(M[i])
  /\ LET L == LcmDens(x, 1)
     IN IF L = 0 THEN FALSE
        ELSE IF ~ScaledOk(x, L) THEN FALSE
        ELSE \A i \in 1..n : ScaledDot(M[i], x, L, 1) = b[i] * L

(* ===================================================================================== *)
(* Part 2: the algorithms as state machines                                              *)
(* ===================================================================================== *)
(* rows r >= k whose entry in column k has maximal magnitude *)
MaxRows(M, k, n) == {r \in k..n : \A s \in k..n : RLe(RAbs(M[s][k]), RAbs(M[r][k]))}
ColumnIsZero(M, k, n) == \A r \in k..n : M[r][k] = RZero

(* ---- row operations shared by both machines ---- *)
(* eliminate column k below the diagonal of the augmented system (M | x): solve.rs:46-54 *)
ElimAug(M, x, k, n) ==
  LET m == [i \in 1..n |-> IF i > k THEN RDiv(M[i][k], M[k][k]) ELSE RZero]
  IN <<[i \in 1..n |-> [j \in 1..n |-> IF i > k /\ j >= k THEN RSub(M[i][j], RMul(m[i], M[k][j])) ELSE M[i][j]]],
       [i \in 1..n |-> IF i > k THEN RSub(x[i], RMul(m[i], x[k])) ELSE x[i]]>>
(* one Doolittle step: multipliers are stored in column k, the trailing block is updated: solve.rs:96-104 *)
ElimLU(M, k, n) ==
  LET m == [i \in 1..n |-> IF i > k THEN RDiv(M[i][k], M[k][k]) ELSE RZero]
  IN [i \in 1..n |-> [j \in 1..n |-> IF i > k /\ j = k THEN m[i]
                                     ELSE IF i > k /\ j > k THEN RSub(M[i][j], RMul(m[i], M[k][j]))
                                     ELSE M[i][j]]]
(* one row of back substitution on the upper triangle of U: solve.rs:22-33 *)
BackRow(U, w, k, n) == [w EXCEPT ![k] = RDiv(RSub(w[k], RDotRange(U[k], w, k + 1, n)), U[k][k])]
(* one row of the unit-lower forward substitution: solve.rs:120-125 *)
FwdRow(LU, w, k) == [w EXCEPT ![k] = RSub(w[k], RDotRange(LU[k], w, 1, k - 1))]
RECURSIVE FwdAll(_, _, _, _)
FwdAll(LU, w, k, n) == IF k > n THEN w ELSE FwdAll(LU, FwdRow(LU, w, k), k + 1, n)
RECURSIVE BackAll(_, _, _, _)
BackAll(U, w, k, n) == IF k < 1 THEN w ELSE BackAll(U, BackRow(U, w, k, n), k - 1, n)

LowerOf(LU, n) == [i \in 1..n |-> [j \in 1..n |-> IF i = j THEN ROne ELSE IF j < i THEN LU[i][j] ELSE RZero]]
UpperOf(LU, n) == [i \in 1..n |-> [j \in 1..n |-> IF j >= i THEN LU[i][j] ELSE RZero]]
RECURSIVE DiagProdR(_, _, _)
DiagProdR(M, i, n) == IF i > n THEN ROne ELSE RMul(M[i][i], DiagProdR(M, i + 1, n))
(* determinant from the factorisation: (-1)^exchanges * prod U_ii  (solve.rs:130-140) *)
Det(LU, piv, n) == IF piv % 2 = 0 THEN DiagProdR(LU, 1, n) ELSE RNeg(DiagProdR(LU, 1, n))
(* column j of the inverse: forward then backward substitution on column j of P (solve.rs:148-163) *)
InverseColumn(LU, inv, j, n) ==
  LET sol == BackAll(LU, FwdAll(LU, ColOf(inv, j, n), 1, n), n, n)
  IN [i \in 1..n |-> [c \in 1..n |-> IF c = j THEN sol[i] ELSE inv[i][c]]]

(* ---- the machine.  One record holds the state of both algorithms; mode "solve" runs     *)
(*      solve_basic then solve_lu on the same system, mode "det" runs the factorisation,   *)
(*      the determinant and (nonsingular input) the inverse. ---- *)
InitState(n, M, b, mode) ==
  LET d == LeibnizDet(M, n)
  IN [n |-> n, A0 |-> M, b0 |-> b, det0 |-> d, mode |-> mode,
      xs |-> IF d # 0 /\ mode = "solve" THEN CramerWith(M, b, n, d) ELSE <<>>,
      pc |-> IF mode = "solve" THEN (IF n > 1 THEN "pivot" ELSE "back") ELSE "lupivot",
      k |-> IF mode = "solve" /\ n = 1 THEN n ELSE 1,
      A |-> ToRat(M), x |-> VecToRat(b), swaps |-> 0, xg |-> <<>>,
      LU |-> ToRat(M), P |-> IdR(n), piv |-> 0, y |-> <<>>,
      det |-> RZero, inv |-> <<>>, nan |-> FALSE]

(* Gaussian elimination with partial pivoting: solve.rs:36-69 *)
GePivot(s) == {[s EXCEPT !.A = SwapF(s.A, s.k, r), !.x = SwapF(s.x, s.k, r),
                         !.swaps = s.swaps + (IF r = s.k THEN 0 ELSE 1), !.pc = "elim"] : r \in MaxRows(s.A, s.k, s.n)}
GeElim(s) == IF s.A[s.k][s.k] = RZero THEN {}                       \* excluded by NonzeroPivot for nonsingular input
             ELSE LET ax == ElimAug(s.A, s.x, s.k, s.n)
                  IN {[s EXCEPT !.A = ax[1], !.x = ax[2], !.k = s.k + 1,
                                !.pc = IF s.k + 1 < s.n THEN "pivot" ELSE "back"]}
GeBack(s) == IF s.A[s.k][s.k] = RZero THEN {}
             ELSE {[s EXCEPT !.x = BackRow(s.A, s.x, s.k, s.n), !.k = IF s.k > 1 THEN s.k - 1 ELSE 1,
                             !.pc = IF s.k > 1 THEN "back" ELSE "gdone"]}
\* the elimination's scratch state is forgotten (only its answer is kept) so that the LU phase does not depend on its pivot choices
GeDone(s) == {[s EXCEPT !.xg = s.x, !.pc = "lupivot", !.k = 1, !.A = ToRat(s.A0), !.x = <<>>, !.swaps = 0]}

(* in-place LU with partial pivoting: solve.rs:74-108 *)
LuPivot(s, skip) ==
  IF ColumnIsZero(s.LU, s.k, s.n) /\ skip
    THEN {[s EXCEPT !.k = IF s.k < s.n THEN s.k + 1 ELSE s.k, !.pc = IF s.k < s.n THEN "lupivot" ELSE "ludone"]}
    ELSE {[s EXCEPT !.LU = SwapF(s.LU, s.k, r), !.P = SwapF(s.P, s.k, r),
                    !.piv = s.piv + (IF r = s.k THEN 0 ELSE 1), !.pc = "luelim"] : r \in MaxRows(s.LU, s.k, s.n)}
LuElim(s) ==
  LET nxt == [s EXCEPT !.k = IF s.k < s.n THEN s.k + 1 ELSE s.k, !.pc = IF s.k < s.n THEN "lupivot" ELSE "ludone"]
  IN IF s.k = s.n THEN {nxt}                                         \* last column: nothing below the diagonal
     ELSE IF s.LU[s.k][s.k] = RZero THEN {[nxt EXCEPT !.nan = TRUE]}   \* division by a zero pivot: result undefined
     ELSE {[nxt EXCEPT !.LU = ElimLU(s.LU, s.k, s.n)]}
LuDone(s) == {[s EXCEPT !.pc = IF s.mode = "solve" THEN "perm" ELSE "det"]}
(* solve_lu: x = P*b, forward, backward: solve.rs:113-128 *)
LuPerm(s) == {[s EXCEPT !.y = RMatVec(s.P, VecToRat(s.b0), s.n), !.pc = "fwd", !.k = 1]}
LuFwd(s) == {[s EXCEPT !.y = FwdRow(s.LU, s.y, s.k), !.k = IF s.k < s.n THEN s.k + 1 ELSE s.n,
                       !.pc = IF s.k < s.n THEN "fwd" ELSE "lback"]}
LuBack(s) == IF s.LU[s.k][s.k] = RZero THEN {}
             ELSE {[s EXCEPT !.y = BackRow(s.LU, s.y, s.k, s.n), !.k = IF s.k > 1 THEN s.k - 1 ELSE 1,
                             !.pc = IF s.k > 1 THEN "lback" ELSE "sdone"]}
(* determinant, then the inverse column by column (only defined for a nonsingular matrix) *)
DetStep(s) == {[s EXCEPT !.det = Det(s.LU, s.piv, s.n), !.inv = s.P, !.k = 1,
                         !.pc = IF s.det0 # 0 /\ ~s.nan THEN "invcol" ELSE "idone"]}
InvCol(s) == {[s EXCEPT !.inv = InverseColumn(s.LU, s.inv, s.k, s.n), !.k = IF s.k < s.n THEN s.k + 1 ELSE s.n,
                        !.pc = IF s.k < s.n THEN "invcol" ELSE "idone"]}

Succ(s, skip) ==
  CASE s.pc = "pivot" -> GePivot(s)
    [] s.pc = "elim" -> GeElim(s)
    [] s.pc = "back" -> GeBack(s)
    [] s.pc = "gdone" -> GeDone(s)
    [] s.pc = "lupivot" -> LuPivot(s, skip)
    [] s.pc = "luelim" -> LuElim(s)
    [] s.pc = "ludone" -> LuDone(s)
    [] s.pc = "perm" -> LuPerm(s)
    [] s.pc = "fwd" -> LuFwd(s)
    [] s.pc = "lback" -> LuBack(s)
    [] s.pc = "det" -> DetStep(s)
    [] s.pc = "invcol" -> InvCol(s)
    [] OTHER -> {}

(* ---- what the machine must satisfy (checked by TLC in MC_Gauss) ---- *)
GePhase(s) == s.pc \in {"pivot", "elim", "back"}
(* the true solution satisfies every intermediate augmented system; rows already back-substituted hold x_k itself *)
Preserved(s) == (GePhase(s) /\ s.det0 # 0) =>
                  \A i \in 1..s.n : IF s.pc = "back" /\ i > s.k THEN s.x[i] = s.xs[i]
                                    ELSE RDotRange(s.A[i], s.xs, 1, s.n) = s.x[i]
(* row exchanges are effective: a nonsingular system never meets a zero pivot, in either algorithm *)
NonzeroPivot(s) == s.det0 # 0 => /\ (s.pc \in {"elim", "back"} => s.A[s.k][s.k] # RZero)
                                 /\ (s.pc \in {"luelim", "lback"} => s.LU[s.k][s.k] # RZero)
                                 /\ ~s.nan
(* |multiplier| <= 1: the exact statement behind the 2^(n-1) growth bound and the float guard below *)
MultipliersBounded(s) == /\ (s.pc = "elim" => \A i \in (s.k + 1)..s.n : RLe(RAbs(s.A[i][s.k]), RAbs(s.A[s.k][s.k])))
                         /\ (s.pc = "luelim" => \A i \in (s.k + 1)..s.n : RLe(RAbs(s.LU[i][s.k]), RAbs(s.LU[s.k][s.k])))
Solved(s) == /\ (s.pc = "gdone" => s.x = s.xs)
             /\ (s.pc = "sdone" => s.y = s.xs)
Agree(s) == s.pc = "sdone" => s.y = s.xg
(* P*A = L*U, P a permutation matrix reached by `piv` exchanges *)
LUFactors(s) == (s.pc = "ludone" /\ ~s.nan) =>
                  RMatMul(s.P, ToRat(s.A0), s.n) = RMatMul(LowerOf(s.LU, s.n), UpperOf(s.LU, s.n), s.n)
(* determinant = Leibniz determinant for EVERY matrix, singular ones included *)
DetOk(s) == s.pc \in {"invcol", "idone"} => (~s.nan /\ s.det = R(s.det0))
InverseOk(s) == (s.pc = "idone" /\ s.det0 # 0) =>
                  /\ RMatMul(ToRat(s.A0), s.inv, s.n) = IdR(s.n)
                  /\ RMatMul(s.inv, ToRat(s.A0), s.n) = IdR(s.n)

(* ===================================================================================== *)
(* Part 3: acceptance of recorded calls of the real code                                 *)
(* ===================================================================================== *)
(* integer matrix {r, c, d} of an event as a sequence of rows *)
RowsOf(M) == [i \in 1..M.r |-> [j \in 1..M.c |-> M.d[(i - 1) * M.c + j]]]
IsSquareOf(M, n) == M.r = n /\ M.c = n /\ Len(M.d) = n * n
SameIntMat(X, Y) == X.r = Y.r /\ X.c = Y.c /\ Len(X.d) = Len(Y.d) /\ \A m \in 1..Len(X.d) : X.d[m] = Y.d[m]
SameSeqs(x, y) == Len(x) = Len(y) /\ \A m \in 1..Len(x) : x[m] = y[m]
(* exact element type: the returned vector solves the system *)
ExactSolution(Mj, x, b, n) == IsSquareOf(Mj, n) /\ Len(b) = n /\ Solves(RowsOf(Mj), x, b, n)
(* exact element type: X (n x n, rationals, row-major) is a two-sided inverse *)
ExactInverse(Mj, X, n) ==
  /\ IsSquareOf(Mj, n) /\ IsSquareOf(X, n)
  /\ LET M == RowsOf(Mj)
         XR == RowsOf(X)
     IN /\ \A j \in 1..n : Solves(M, ColOf(XR, j, n), UnitVec(j, n), n)                         \* A * X = I
        /\ \A i \in 1..n : Solves(TransposeM(M, n), XR[i], UnitVec(i, n), n)                    \* X * A = I
ExactDeterminant(Mj, d, n) == IsSquareOf(Mj, n) /\ (\A i \in 1..n : IntsOk(RowsOf(Mj)[i])) /\ d = <<Bareiss(RowsOf(Mj), n), 1>>

(* floating point: backward error of Gaussian elimination with partial pivoting.  For any   *)
(* correct GEPP  ||b - A x||_inf <= 1.5 n^3 rho eps (||A||_inf ||x||_inf + ||b||_inf) with    *)
(* growth rho <= 2^(n-1) (Higham, Accuracy and Stability, Thm 9.5); the guard adds a factor *)
(* > 5 and a further factor 8 for complex arithmetic.  The harness measures the residual in *)
(* double-double arithmetic and logs it in integer units of eps*(||A|| ||x|| + ||b||).      *)
UnitsCap == 1073741823       \* logged units saturate at 2^30: a guard at the cap only rejects non-finite / saturated errors
GeppGuard(n, cx) == IF n > 8 THEN UnitsCap ELSE (IF cx THEN 8 ELSE 1) * 8 * n * n * n * Pow2(n - 1)
(* The same theorem without the worst-case growth: whoever pivots on a row of largest magnitude computes (up to      *)
(* rounding) the factors L, U of partial pivoting, and then |b - A x| <= gamma_3n |L||U||x| componentwise (Higham,   *)
(* Thm 9.4), gamma_3n ~ 1.5 n eps.  The harness computes || |L||U| ||_inf by a reference elimination in double-double *)
(* and logs the residual in units of eps || |L||U| || ||x|| - only when no pivot choice of that elimination is tied   *)
(* or nearly tied (so that every correct tie-break obtains the same factors).  Guard: 64 n (x8 complex), i.e. a factor *)
(* > 40 above the theorem.  This is the bound that separates partial pivoting from threshold / no pivoting on matrices *)
(* whose actual growth is small, and the only usable one for n > 8.                                                  *)
SharpGuard(n, cx) == (IF cx THEN 8 ELSE 1) * 64 * n
=============================================================================
