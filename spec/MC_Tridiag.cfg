SPECIFICATION Spec
CONSTANTS MaxN = 4  Vals <- MCVals4  ValsTop <- MCVals3  Emit = FALSE
INVARIANTS CompletesExact RefusesIff RefusalReason OperatorAgrees DetOK Laws
CHECK_DEADLOCK FALSE
