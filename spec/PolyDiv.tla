------------------------------ MODULE PolyDiv ------------------------------
(* Polynomial long division as in polynomial/arithmetic.rs:164-189, one loop iteration *)
(* per step, over exact rationals (Poly.tla, Q... operators).  The machine state is a  *)
(* record [q, r, count, pc]; the transition is an operator so that the same definition *)
(* serves the model checker (MC_PolyDiv) and the trace specification (functional run).  *)
(*                                                                                     *)
(* Two named switches document defect D7:                                              *)
(*   Rounding        the arithmetic is floating point: the leading coefficient of      *)
(*                   r - t*v need not come out exactly zero; the environment may leave *)
(*                   a nonzero residue there (argument `residue` of DivStep);          *)
(*   DropLeadingTerm the code clears the cancelled leading coefficient explicitly      *)
(*                   before trimming (the repair).  FALSE = the code before the fix,   *)
(*                   which relied on exact cancellation.                               *)
EXTENDS Poly
CONSTANTS Rounding, DropLeadingTerm, Cap

QLead(p) == p[Len(p)]
ZeroDivisor(v) == Len(v) = 0 \/ QIsZero(v)
LeadNonzero(v) == Len(v) > 0 /\ QLead(v) # RZero            \* the property's precondition on the divisor
Residues == IF Rounding THEN {RZero, <<1, 1000>>} ELSE {RZero}

DivInit(u) == [q |-> <<>>, r |-> u, count |-> 0, pc |-> "start"]
DivStart(s, v) == [s EXCEPT !.pc = IF ZeroDivisor(v) THEN "err_zero_divisor" ELSE "loop"]
LoopDone(s, v) == Len(s.r) = 0 \/ QIsZero(s.r) \/ PDeg(s.r) < PDeg(v)
\* one iteration: t = lc(r)/lc(v) * x^(deg r - deg v); q += t; r -= t*v; (leading term cleared;) trim
DivStep(s, v, residue) ==
  IF LoopDone(s, v) THEN [s EXCEPT !.pc = "ok"]
  ELSE LET lead == RDiv(QLead(s.r), QLead(v))
           k == PDeg(s.r) - PDeg(v) + 1
           t == [i \in 1..k |-> IF i = k THEN lead ELSE RZero]
           r1 == QSub(s.r, QMul(t, v))
           r2 == IF DropLeadingTerm THEN [r1 EXCEPT ![Len(r1)] = RZero] ELSE [r1 EXCEPT ![Len(r1)] = residue]
       IN [q |-> QTrim(QAdd(s.q, t)), r |-> QTrim(r2), count |-> s.count + 1,
           pc |-> IF s.count + 1 > Cap THEN "err_max_iter" ELSE "loop"]
Final(s) == s.pc \in {"ok", "err_zero_divisor", "err_max_iter"}

\* the whole division in exact arithmetic (used by the trace specification)
RECURSIVE DivLoop(_, _)
DivLoop(s, v) == IF s.pc = "loop" THEN DivLoop(DivStep(s, v, RZero), v) ELSE s
DivRun(u, v) == DivLoop(DivStart(DivInit(u), v), v)

(* ---- what the property states ---- *)
Identity(u, v, q, r) == QSame(u, QAdd(QMul(q, v), r))
RemainderOK(v, r) == Len(r) = 0 \/ QIsZero(r) \/ Len(QTrim(r)) < Len(QTrim(v))
StepLimit(u, v) == PMax(PDeg(u) - PDeg(v) + 1, 0)
=============================================================================
