SPECIFICATION Spec
CONSTANTS MaxSize = 6  MaxSmall = 6  AgedMax = 4  Emit = TRUE
INVARIANTS EmitCase
CHECK_DEADLOCK FALSE
