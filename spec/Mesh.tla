-------------------------------- MODULE Mesh --------------------------------
(* One- and two-dimensional meshes as mathematical values (C19).                        *)
(*  1-D mesh: [xn |-> <<X_0 .. X_{n-1}>>, nv |-> k, vars |-> seq over nodes of seq of k ints]   *)
(*  2-D mesh: [xn, yn, nv, vars |-> seq over i of seq over j of seq of k ints]                  *)
(* The 2-D store is the function (i, j) |-> vars; the row-major position i*ny + j of the *)
(* implementation is an implementation detail and does not occur here.  Node and        *)
(* variable indices are 0-based like the implementation.  Coordinates are INTEGERS: a   *)
(* dyadic grid x_k = X_k / 2^s is modelled by its numerators X_k (scaled), nodal data   *)
(* D / 2^t by the numerators D; all results are stated for the scaled quantities:       *)
(*    Trap1x2  = 2 * (trapezium integral)          in units 2^-s 2^-t                   *)
(*    Trap2x4  = 4 * (2-D trapezium integral)      in units 2^-sx 2^-sy 2^-t            *)
(*    Interp1  = interpolated value as an exact rational <<n, d>> (Rat.tla), units 2^-t *)
EXTENDS Integers, Sequences, FiniteSets, Rat

(* ---------------------------------------------------------------- grids *)
IsGrid(xn) == Len(xn) >= 2 /\ \A k \in 1..(Len(xn) - 1) : xn[k] < xn[k + 1]
ZeroVars(nv) == [v \in 1..nv |-> 0]

(* ================================================================ 1-D *)
N1(M) == Len(M.xn)
New1(xn, nv) == [xn |-> xn, nv |-> nv, vars |-> [k \in 1..Len(xn) |-> ZeroVars(nv)]]
WellFormed1(M) == /\ IsGrid(M.xn) /\ Len(M.vars) = Len(M.xn)
                  /\ \A k \in 1..Len(M.vars) : Len(M.vars[k]) = M.nv
InRange1(M, node) == 0 <= node /\ node < N1(M)
InVar(M, var) == 0 <= var /\ var < M.nv
\* set_nodes_vars / get_nodes_vars / index / index_mut
Acc_Set1(M, node, v) == InRange1(M, node) /\ Len(v) = M.nv
Set1(M, node, v) == [M EXCEPT !.vars[node + 1] = v]
Get1(M, node) == M.vars[node + 1]
Index1(M, node) == M.vars[node + 1]
SetVar1(M, node, var, x) == [M EXCEPT !.vars[node + 1][var + 1] = x]        \* mesh[node][var] = x
Coord1(M, node) == M.xn[node + 1]

\* refinement of the coordinate scale: the same mesh with coordinates in units 1/f of the old unit
Refine1(M, f) == [M EXCEPT !.xn = [k \in 1..Len(M.xn) |-> M.xn[k] * f]]

(* ---------------- piecewise-linear interpolation ---------------- *)
InGrid(xn, P) == xn[1] <= P /\ P <= xn[Len(xn)]
\* interval search: the cells (0-based left node) whose closed interval contains P; at an interior
\* node there are two, and InterpLaws (MC_Mesh) shows that both give the nodal value
Cells(xn, P) == {k \in 0..(Len(xn) - 2) : xn[k + 1] <= P /\ P <= xn[k + 2]}
Cell(xn, P) == CHOOSE k \in Cells(xn, P) : \A k2 \in Cells(xn, P) : k2 <= k
\* left + (right - left) * (x - x_l) / (x_r - x_l) over the rationals
LinInterp(xl, xr, vl, vr, P) == RAdd(R(vl), RMul(R(vr - vl), RDiv(R(P - xl), R(xr - xl))))
InterpCell(M, k, P) == [v \in 1..M.nv |-> LinInterp(M.xn[k + 1], M.xn[k + 2], M.vars[k + 1][v], M.vars[k + 2][v], P)]
Interp1(M, P) == InterpCell(M, Cell(M.xn, P), P)

\* The same at a point given RELATIVE to node k: x = x_k + s / 2^r (in grid units; s < 0: the cell to the left of the
\* node, s > 0: to the right, |s| / 2^r less than that cell's width).  Only the cell's own numbers are scaled, so a
\* grid with very wide cells elsewhere stays inside TLC's integers (requires width * 2^r < 2^28 for THIS cell).
OffCell(M, k, s) == IF (s >= 0 /\ k < N1(M) - 1) \/ k = 0 THEN k ELSE k - 1
OffCellOK(M, k, s, r) == LET c == OffCell(M, k, s) IN (M.xn[c + 2] - M.xn[c + 1]) * (2 ^ r) < 268435456
InterpOff(M, k, s, r) ==
  LET c == OffCell(M, k, s)
      dx == M.xn[c + 2] - M.xn[c + 1]
      off == RAdd(R(M.xn[k + 1] - M.xn[c + 1]), Norm(s, 2 ^ r))          \* x - x_l
  IN [v \in 1..M.nv |-> RAdd(R(M.vars[c + 1][v]), RMul(R(M.vars[c + 2][v] - M.vars[c + 1][v]), RDiv(off, R(dx))))]

(* ---------------- trapezium rule: sum of the cell contributions dx * (v_l + v_r) / 2, doubled ---------------- *)
Trap1x2(M, var) ==
  LET RECURSIVE Go(_)
      Go(k) == IF k > N1(M) - 2 THEN 0
               ELSE (M.xn[k + 2] - M.xn[k + 1]) * (M.vars[k + 1][var + 1] + M.vars[k + 2][var + 1]) + Go(k + 1)
  IN Go(0)

(* ================================================================ 2-D *)
NX(M) == Len(M.xn)
NY(M) == Len(M.yn)
New2(xn, yn, nv) == [xn |-> xn, yn |-> yn, nv |-> nv,
                     vars |-> [i \in 1..Len(xn) |-> [j \in 1..Len(yn) |-> ZeroVars(nv)]]]
WellFormed2(M) == /\ IsGrid(M.xn) /\ IsGrid(M.yn) /\ Len(M.vars) = NX(M)
                  /\ \A i \in 1..Len(M.vars) : /\ Len(M.vars[i]) = NY(M)
                                              /\ \A j \in 1..Len(M.vars[i]) : Len(M.vars[i][j]) = M.nv
InRange2(M, i, j) == 0 <= i /\ i < NX(M) /\ 0 <= j /\ j < NY(M)
Acc_Set2(M, i, j, v) == InRange2(M, i, j) /\ Len(v) = M.nv
Set2(M, i, j, v) == [M EXCEPT !.vars[i + 1][j + 1] = v]
Get2(M, i, j) == M.vars[i + 1][j + 1]
Index2(M, i, j) == M.vars[i + 1][j + 1]
SetVar2(M, i, j, var, x) == [M EXCEPT !.vars[i + 1][j + 1][var + 1] = x]     \* mesh[(i,j)][var] = x
Coord2(M, i, j) == <<M.xn[i + 1], M.yn[j + 1]>>
\* assign: every variable at every node
Assign2(M, x) == [M EXCEPT !.vars = [i \in 1..NX(M) |-> [j \in 1..NY(M) |-> [v \in 1..M.nv |-> x]]]]
\* apply: variable `var` at node (i,j) becomes F(x_i, y_j); the other variables are untouched
Apply2(M, F(_, _), var) ==
  [M EXCEPT !.vars = [i \in 1..NX(M) |-> [j \in 1..NY(M) |->
                         [v \in 1..M.nv |-> IF v = var + 1 THEN F(M.xn[i], M.yn[j]) ELSE M.vars[i][j][v]]]]]
\* cross-sections are 1-D meshes: at x-node i over the y-nodes, at y-node j over the x-nodes
Acc_XsecX(M, i) == 0 <= i /\ i < NX(M)
XsecX(M, i) == [xn |-> M.yn, nv |-> M.nv, vars |-> [j \in 1..NY(M) |-> Get2(M, i, j - 1)]]
Acc_XsecY(M, j) == 0 <= j /\ j < NY(M)
XsecY(M, j) == [xn |-> M.xn, nv |-> M.nv, vars |-> [i \in 1..NX(M) |-> Get2(M, i - 1, j)]]
\* variable as an nx x ny matrix, in the framework's matrix encoding [r, c, d row-major]
VarAsMatrix(M, var) == [r |-> NX(M), c |-> NY(M),
                        d |-> [n \in 1..(NX(M) * NY(M)) |-> Get2(M, (n - 1) \div NY(M), (n - 1) % NY(M))[var + 1]]]
\* the mesh with every nodal value squared
Squared2(M) == [M EXCEPT !.vars = [i \in 1..NX(M) |-> [j \in 1..NY(M) |-> [v \in 1..M.nv |-> M.vars[i][j][v] * M.vars[i][j][v]]]]]

(* ---------------- 2-D trapezium: sum over cells of dx dy (v00 + v10 + v01 + v11) / 4, times 4 ---------------- *)
CellSum2(M, i, j, var) == Get2(M, i, j)[var + 1] + Get2(M, i + 1, j)[var + 1]
                          + Get2(M, i, j + 1)[var + 1] + Get2(M, i + 1, j + 1)[var + 1]
Trap2x4(M, var) ==
  LET RECURSIVE GoJ(_, _)
      GoJ(i, j) == IF j > NY(M) - 2 THEN 0
                   ELSE (M.yn[j + 2] - M.yn[j + 1]) * CellSum2(M, i, j, var) + GoJ(i, j + 1)
      RECURSIVE GoI(_)
      GoI(i) == IF i > NX(M) - 2 THEN 0
                ELSE (M.xn[i + 2] - M.xn[i + 1]) * GoJ(i, 0) + GoI(i + 1)
  IN GoI(0)
\* square_trapezium = trapezium of the squares
SqTrap2x4(M, var) == Trap2x4(Squared2(M), var)

(* ================================================================ grids with a fine part *)
(* A nearly uniform grid x_k = (A_k + B_k / 2^K) / 2^s does not fit one 32-bit numerator.  The mesh then      *)
(* carries the coarse numerators A in xn (yn), the fine numerators B in xf (yf) and K in kx (ky); plain      *)
(* grids have xf = zeros, kx = 0.  The trapezium sums are linear in the cell widths, so the exact result is  *)
(*     T(A) + T(B) / 2^K            (1-D)                                                                    *)
(*     T(A,C) + T(B,C) / 2^kx + T(A,D) / 2^ky + T(B,D) / 2^(kx+ky)      (2-D; y = (C + D / 2^ky) / 2^sy)      *)
(* with T the integer sums above evaluated on the respective numerators.  It is returned as <<H, L>>,        *)
(* meaning H + L / 2^F with F = kx (+ ky) and 0 <= L < 2^F.  (Requires kx + ky <= 28 when both are > 0, and  *)
(* each <= 30, so that everything stays inside TLC's integers; MC_Mesh checks the split against the          *)
(* unsplit sum on small K.)                                                                                  *)
Split(T00, T10, kx, T01, ky, T11) ==
  LET F == kx + ky
      Lsum == (T10 % (2 ^ kx)) * (2 ^ ky) + (T01 % (2 ^ ky)) * (2 ^ kx) + (T11 % (2 ^ F))
  IN <<T00 + (T10 \div (2 ^ kx)) + (T01 \div (2 ^ ky)) + (T11 \div (2 ^ F)) + (Lsum \div (2 ^ F)), Lsum % (2 ^ F)>>
Trap1x2F(M, var) == Split(Trap1x2(M, var), Trap1x2([M EXCEPT !.xn = M.xf], var), M.kx, 0, 0, 0)
Trap2x4F(M, var) == Split(Trap2x4(M, var), Trap2x4([M EXCEPT !.xn = M.xf], var), M.kx,
                          Trap2x4([M EXCEPT !.yn = M.yf], var), M.ky,
                          Trap2x4([M EXCEPT !.xn = M.xf, !.yn = M.yf], var))
SqTrap2x4F(M, var) == Trap2x4F(Squared2(M), var)
=============================================================================
