----------------------------- MODULE MC_Banded -----------------------------
(* Design check and case generator for Banded.tla (C04).                               *)
(*  - every banded matrix with MinN <= n <= MaxN, 0 <= m1, m2 < n (n = MaxN: m1+m2 <= BWTop), *)
(*    in-band values from Vals, padding slots all zero or pairwise distinct nonzero    *)
(*    values (Pads), right-hand side (1,..,n);                                         *)
(*  - the compact LU runs as a state machine, one action per loop iteration            *)
(*    (shift, fact(k) for every k, forward, back);                                     *)
(*  - invariants compare it with INDEPENDENT oracles on the dense twin: Leibniz        *)
(*    determinant and Cramer's rule; the laws cross-check every operator of Banded.tla *)
(*    (index bijection, band loop = dense product, arithmetic = dense arithmetic,      *)
(*    fraction-free determinant = Leibniz) in every initial state;                     *)
(*  - PivotBy = "signed" is the deviation switch (defect D2): DetOK is then violated.  *)
(*  - Emit = TRUE prints every initial state as a case for the real Banded<T>.         *)
EXTENDS Banded, FiniteSets, Json
CONSTANTS MinN, MaxN, LawN, BWTop, Vals, Pads, PivotBy, Emit
VARIABLES B, b0, st, x, pc, orc, row
vars == <<B, b0, st, x, pc, orc, row>>

MCVals == {-1, 0, 1}
MCValsWide == {-2, -1, 0, 1, 2}

(* ---------------- independent oracles (Leibniz / Cramer) on the dense twin ---------------- *)
RowsN(n) == 0..(n - 1)
Perms(n) == {p \in [RowsN(n) -> RowsN(n)] : \A i, j \in RowsN(n) : i # j => p[i] # p[j]}
Sign(n, p) == IF Cardinality({q \in RowsN(n) \X RowsN(n) : q[1] < q[2] /\ p[q[1]] > p[q[2]]}) % 2 = 0 THEN 1 ELSE -1
RECURSIVE ProdOver(_, _, _)
ProdOver(D, p, i) == IF i >= D.r THEN 1 ELSE At(D, i, p[i]) * ProdOver(D, p, i + 1)
RECURSIVE DetSum(_, _)
DetSum(D, S) == IF S = {} THEN 0 ELSE LET e == CHOOSE e \in S : TRUE IN e[2] * ProdOver(D, e[1], 0) + DetSum(D, S \ {e})
\* permutations with their signs, tabulated once (a constant-level definition)
PermSigns == [n \in 0..4 |-> {<<p, Sign(n, p)>> : p \in Perms(n)}]
DetL(D) == DetSum(D, PermSigns[D.r])
\* complex Leibniz determinant of D + i Di
RECURSIVE CProdOver(_, _, _, _)
CProdOver(D, Di, p, i) == IF i >= D.r THEN <<1, 0>> ELSE CMulP(<<At(D, i, p[i]), At(Di, i, p[i])>>, CProdOver(D, Di, p, i + 1))
RECURSIVE CDetSum(_, _, _)
CDetSum(D, Di, S) == IF S = {} THEN <<0, 0>> ELSE LET e == CHOOSE e \in S : TRUE
                                                     t == CProdOver(D, Di, e[1], 0)
                                                     r == CDetSum(D, Di, S \ {e})
                                                 IN <<e[2] * t[1] + r[1], e[2] * t[2] + r[2]>>
CDetL(D, Di) == CDetSum(D, Di, PermSigns[D.r])
ReplaceCol(D, j, v) == Mk(D.r, D.c, LAMBDA a, c : IF c = j THEN v[a + 1] ELSE At(D, a, c))
Cramer(D, v) == LET dd == DetL(D) IN [j \in RowsN(D.r) |-> Norm(DetL(ReplaceCol(D, j, v)), dd)]

(* ---------------- initial states ---------------- *)
PadAt(pad, mm, i, c) == IF pad = 0 THEN 0 ELSE pad + i * mm + c
Bands(n) == RowsN(n) \X RowsN(n)
\* the matrix is chosen row by row (actions Pick) so that TLC's workers share the enumeration
RowCols(X, i) == {j \in RowsN(X.n) : InBandK(X.m1, X.m2, i, j)}
Oracle(X, v) == LET D == ToDense(X)
                    dd == DetL(D)
                IN [det |-> dd, x |-> IF dd # 0 THEN Cramer(D, v) ELSE <<>>]
Init == /\ \E n \in 1..IMax(MaxN, LawN) : \E q \in Bands(n) : \E pad \in Pads :
              /\ B = MkB(n, q[1], q[2], LAMBDA i, j : 0, LAMBDA i, c : PadAt(pad, q[1] + q[2] + 1, i, c))
              /\ b0 = [i \in 1..n |-> i]
        /\ st = [k |-> 0] /\ x = <<>> /\ pc = "pick" /\ row = 0 /\ orc = [det |-> 0, x |-> <<>>]
Pick == /\ pc = "pick" /\ MinN <= B.n /\ B.n <= MaxN /\ (B.n < MaxN \/ B.m1 + B.m2 <= BWTop)
        /\ \E f \in [RowCols(B, row) -> Vals] :
              LET X == MkB(B.n, B.m1, B.m2, LAMBDA i, j : IF i = row THEN f[j] ELSE BGet(B, i, j), LAMBDA i, c : At(B.c, i, c))
              IN /\ B' = X
                 /\ IF row + 1 = B.n
                      THEN /\ pc' = "fact" /\ st' = LUInit(X) /\ x' = RhsFn(b0) /\ orc' = Oracle(X, b0)
                      ELSE /\ pc' = "pick" /\ UNCHANGED <<st, x, orc>>
        /\ row' = row + 1 /\ b0' = b0
Nonsingular == orc.det # 0

Fact == /\ pc = "fact" /\ st.k < B.n
        /\ st' = FactStep(PivotBy, B, st)
        /\ pc' = IF st.k + 1 = B.n THEN "fwd" ELSE "fact"
        /\ UNCHANGED <<B, b0, x, orc, row>>
Fwd == /\ pc = "fwd"
       /\ x' = FwdFrom(B, st, 0, B.m1, x)
       /\ pc' = "back" /\ UNCHANGED <<B, b0, st, orc, row>>
Back == /\ pc = "back"
        /\ x' = IF Nonsingular /\ PivotsNonzero(B, st) THEN BackFrom(B, st, B.n - 1, 1, x) ELSE x
        /\ pc' = "done" /\ UNCHANGED <<B, b0, st, orc, row>>
Next == Pick \/ Fact \/ Fwd \/ Back
Spec == Init /\ [][Next]_vars

(* ---------------- invariants ---------------- *)
Factored == pc \in {"fwd", "back", "done"}
\* determinant = sign * product of pivots = Leibniz determinant of the dense twin; in particular exactly 0
\* for every singular band matrix (no division by a zero pivot ever takes place: Rat division would fail)
DetOK == Factored => LUDet(B, st) = R(orc.det)
PivotNonzero == (Factored /\ Nonsingular) => PivotsNonzero(B, st)
SolveOK == (pc = "done" /\ Nonsingular) => x = orc.x
\* pivoting by magnitude bounds every stored multiplier by 1
MultipliersBounded == pc # "pick" => \A i \in RowsN(B.n) : \A c \in 0..(B.m1 - 1) : RLe(RAbs(st.al[i][c]), ROne)
\* the step-wise machine and the recursive operator used elsewhere are the same function
OperatorAgrees == pc = "done" => /\ Factor(PivotBy, B) = st
                                 /\ (Nonsingular => LUSolve(B, st, b0) = x)

\* laws that tie every operator of Banded.tla to the dense twin.
\* (a) shape laws: once per (n, m1, m2, padding) for n <= LawN, on a matrix with pairwise distinct entries
Other(X) == MkB(X.n, X.m1, X.m2, LAMBDA i, j : 3 + 2 * i - j, LAMBDA i, c : 50 + i + c)
DistinctB(X) == MkB(X.n, X.m1, X.m2, LAMBDA i, j : 1 + i * X.n + j, LAMBDA i, c : At(X.c, i, c))
Vecs(n) == {[k \in 1..n |-> k], [k \in 1..n |-> IF k % 2 = 0 THEN -3 ELSE 5 - k]}
LawsShape == pc = "pick" /\ row = 0 =>
    LET X == DistinctB(B)
        D == ToDense(X)
        Y == Other(X)
    IN /\ WellFormedB(X) /\ IndexBijection(X)
       /\ \A p \in BandPos(X) : At(D, p[1], p[2]) = BGet(X, p[1], p[2])
       /\ \A p \in (RowsN(X.n) \X RowsN(X.n)) \ BandPos(X) : At(D, p[1], p[2]) = 0
       /\ SameBand(FromDense(D, X.m1, X.m2), X)
       /\ \A v \in Vecs(X.n) : SameSeq(BMatVecLoop(X, v), BMatVec(X, v))
       /\ SameMat(ToDense(BAdd(X, Y)), Add(D, ToDense(Y))) /\ SameMat(ToDense(BSub(X, Y)), Sub(D, ToDense(Y)))
       /\ SameMat(ToDense(BNeg(X)), Neg(D)) /\ SameMat(ToDense(BScale(X, -3)), Scale(D, -3))
       /\ SameBand(BDivS(BScale(X, -3), -3), X)
       /\ SameBand(BShift(X, 4), FromDense(Shift(D, 4), X.m1, X.m2))
       /\ SameBand(BLin(X, 2, Y, -3), BSub(BScale(X, 2), BScale(Y, 3)))
       /\ \A k \in (-X.m1)..X.m2 : SameBand(BFillBand(X, k, 9), FromDense(FillBand(D, k, 9), X.m1, X.m2))
       /\ \A p \in BandPos(X) : SameBand(BSet(X, p[1], p[2], 9), FromDense(SetElem(D, p[1], p[2], 9), X.m1, X.m2))
       /\ SameBand(BFill(X, 6), FromDense(New(X.n, X.n, 6), X.m1, X.m2))
\* (b) value laws: on every enumerated matrix - the oracles used by the trace specification at n <= 10
\* (fraction-free determinant, cross-multiplied residual) agree with Leibniz / Cramer, and the band loop
\* of the product (which reads compact slots) agrees with the dense product
LawsValue == pc = "fact" /\ st.k = 0 =>
    LET D == ToDense(B)
    IN /\ DetFF(D) = orc.det
       /\ SameSeq(BMatVecLoop(B, [k \in 1..B.n |-> 2 * k - 3]), BMatVec(B, [k \in 1..B.n |-> 2 * k - 3]))
       /\ (Nonsingular => LET L == IAbs(orc.det)
                              xs == [k \in 1..B.n |-> orc.x[k - 1][1] * (L \div orc.x[k - 1][2])]
                          IN ResidualZero(D, xs, L, b0) /\ ~ResidualZero(D, [xs EXCEPT ![1] = xs[1] + 1], L, b0))
       \* the Gaussian-integer versions of the two oracles: against the complex Leibniz determinant of D + i Y, and
       \* against the real ones on D, iD and rotated right-hand sides
       /\ LET Y == ToDense(Other(B))
              Z == New(B.n, B.n, 0)
              zv == [k \in 1..B.n |-> 0]
          IN /\ CDetFF(D, Y) = CDetL(D, Y)
             /\ CDetFF(D, Z) = <<orc.det, 0>>
             /\ (Nonsingular => LET L == IAbs(orc.det)
                                    xs == [k \in 1..B.n |-> orc.x[k - 1][1] * (L \div orc.x[k - 1][2])]
                                IN /\ ResidualZeroCx(D, Z, xs, zv, L, b0, zv) /\ ResidualZeroCx(D, Z, zv, xs, L, zv, b0)
                                   /\ ResidualZeroCx(Z, D, xs, zv, L, zv, b0)
                                   /\ ~ResidualZeroCx(Z, D, xs, zv, L, b0, zv) /\ ~ResidualZeroCx(D, Z, xs, [zv EXCEPT ![1] = 1], L, b0, zv))

\* spec -> implementation: one case per initial state
EmitCase == (Emit /\ pc = "fact" /\ st.k = 0) => PrintT(<<"CASE", ToJson([kind |-> "lu", band |-> B, b |-> b0])>>)
=============================================================================
