----------------------------- MODULE VectorSeq -----------------------------
(* ohsl::Vector as a mathematical value: a finite sequence of integers.  Positions are *)
(* 0-based like the implementation (element i of the vector is x[i + 1]).  Every       *)
(* public operation is one operator written from its definition, together with its     *)
(* domain predicate Dom_X: outside the domain the documentation defines no result.     *)
(* Complex vectors are pairs of integer sequences (real parts, imaginary parts); the   *)
(* operators whose definition mixes the parts have a C-prefixed complex form.          *)
EXTENDS Integers, Sequences, FiniteSets

IAbs(x) == IF x < 0 THEN -x ELSE x
IMax(a, b) == IF a > b THEN a ELSE b
SameSeq(x, y) == Len(x) = Len(y) /\ \A n \in 1..Len(x) : x[n] = y[n]
Zeros(n) == [k \in 1..n |-> 0]
\* magnitude bound (TLC's integers are 32-bit: values read from a trace are bounded before they enter arithmetic)
Small(x, bound) == \A k \in 1..Len(x) : IAbs(x[k]) <= bound
El(x, i) == x[i + 1]                                  \* element at 0-based position i
InRange(x, i) == 0 <= i /\ i < Len(x)

(* ---------------- constructors ---------------- *)
New(n, v) == [k \in 1..n |-> v]
Empty == <<>>

(* ---------------- editing operations (src/vector/operations.rs, functions.rs) ---------------- *)
Push(x, v) == [k \in 1..(Len(x) + 1) |-> IF k <= Len(x) THEN x[k] ELSE v]
PushFront(x, v) == [k \in 1..(Len(x) + 1) |-> IF k = 1 THEN v ELSE x[k - 1]]
Dom_Insert(x, p) == 0 <= p /\ p <= Len(x)
Insert(x, p, v) == [k \in 1..(Len(x) + 1) |-> IF k <= p THEN x[k] ELSE IF k = p + 1 THEN v ELSE x[k - 1]]
Dom_Pop(x) == Len(x) > 0
Pop(x) == [k \in 1..(Len(x) - 1) |-> x[k]]
PopValue(x) == x[Len(x)]
Dom_Swap(x, i, j) == InRange(x, i) /\ InRange(x, j)
Swap(x, i, j) == [k \in 1..Len(x) |-> IF k = i + 1 THEN x[j + 1] ELSE IF k = j + 1 THEN x[i + 1] ELSE x[k]]
Resize(x, n) == [k \in 1..n |-> IF k <= Len(x) THEN x[k] ELSE 0]          \* new elements are Default = 0
Assign(x, v) == [k \in 1..Len(x) |-> v]
Clear(x) == <<>>
Dom_Set(x, i) == InRange(x, i)
Set(x, i, v) == [k \in 1..Len(x) |-> IF k = i + 1 THEN v ELSE x[k]]

\* Clone::clone_from(&mut self, source): self becomes a copy of source - same length, same elements, whatever self held before
CloneFrom(x, src) == [k \in 1..Len(src) |-> src[k]]
\* == / != : equal length and equal elements
Equal(x, y) == Len(x) = Len(y) /\ \A k \in 1..Len(x) : x[k] = y[k]

(* ---------------- sorting and searching ---------------- *)
IsSorted(x) == \A k \in 1..(Len(x) - 1) : x[k] <= x[k + 1]
Count(x, v) == Cardinality({k \in 1..Len(x) : x[k] = v})
IsPermutation(x, y) == Len(x) = Len(y) /\ \A k \in 1..Len(x) : Count(x, x[k]) = Count(y, x[k])
\* the sorted rearrangement, by rank: position of x[k] = #smaller elements + #equal elements before it
Rank(x, k) == Cardinality({m \in 1..Len(x) : x[m] < x[k] \/ (x[m] = x[k] /\ m < k)}) + 1
Sort(x) == [p \in 1..Len(x) |-> x[CHOOSE k \in 1..Len(x) : Rank(x, k) = p]]
Reverse(x) == [k \in 1..Len(x) |-> x[Len(x) + 1 - k]]
SortDesc(x) == Reverse(Sort(x))
\* find: index of the first element equal to v; if there is none, the last index.  Empty vector: undefined.
Dom_Find(x) == Len(x) > 0
Hits(x, v) == {k \in 1..Len(x) : x[k] = v}
Find(x, v) == IF Hits(x, v) = {} THEN Len(x) - 1
              ELSE (CHOOSE k \in Hits(x, v) : \A m \in Hits(x, v) : k <= m) - 1

(* ---------------- element-wise arithmetic ---------------- *)
SameSize(x, y) == Len(x) = Len(y)
Add(x, y) == [k \in 1..Len(x) |-> x[k] + y[k]]
Sub(x, y) == [k \in 1..Len(x) |-> x[k] - y[k]]
Neg(x) == [k \in 1..Len(x) |-> -x[k]]
Scale(x, s) == [k \in 1..Len(x) |-> x[k] * s]
Shift(x, s) == [k \in 1..Len(x) |-> x[k] + s]
\* scalar division is the inverse of scalar multiplication: q = x / s  iff  q * s = x  (s # 0)
IsQuot(q, x, s) == s # 0 /\ Small(q, 1000000) /\ SameSeq(Scale(q, s), x)
Abs(x) == [k \in 1..Len(x) |-> IAbs(x[k])]

(* ---------------- reductions ---------------- *)
RECURSIVE DotFrom(_, _, _)
DotFrom(x, y, k) == IF k > Len(x) THEN 0 ELSE x[k] * y[k] + DotFrom(x, y, k + 1)
Dot(x, y) == DotFrom(x, y, 1)
\* partial sums / products over the INCLUSIVE 0-based index range a..b
Dom_Slice(x, a, b) == 0 <= a /\ a <= b /\ b < Len(x)
RECURSIVE SumSlice(_, _, _)
SumSlice(x, a, b) == IF a > b THEN 0 ELSE x[a + 1] + SumSlice(x, a + 1, b)
RECURSIVE ProductSlice(_, _, _)
ProductSlice(x, a, b) == IF a > b THEN 1 ELSE x[a + 1] * ProductSlice(x, a + 1, b)
Dom_Total(x) == Len(x) > 0                                        \* sum() / product() of the empty vector: undefined
Sum(x) == SumSlice(x, 0, Len(x) - 1)
Product(x) == ProductSlice(x, 0, Len(x) - 1)
Norm1(x) == Sum(Abs(x))                                           \* defined for the empty vector too (= 0)
SumSq(x) == Dot(x, x)
Dom_NormInf(x) == Len(x) > 0
RECURSIVE MaxFrom(_, _)
MaxFrom(x, k) == IF k >= Len(x) THEN x[k] ELSE IMax(x[k], MaxFrom(x, k + 1))
NormInf(x) == MaxFrom(Abs(x), 1)

(* ---------------- complex vectors: (re, im) pairs of integer sequences ---------------- *)
CMulRe(a, b, c, d) == a * c - b * d                               \* (a + ib)(c + id)
CMulIm(a, b, c, d) == a * d + b * c
CScaleRe(re, im, s, t) == Sub(Scale(re, s), Scale(im, t))
CScaleIm(re, im, s, t) == Add(Scale(re, t), Scale(im, s))
CIsQuot(qre, qim, re, im, s, t) == (s # 0 \/ t # 0) /\ Small(qre, 1000000) /\ Small(qim, 1000000) /\ SameSeq(CScaleRe(qre, qim, s, t), re) /\ SameSeq(CScaleIm(qre, qim, s, t), im)
CDotRe(a, b, c, d) == Dot(a, c) - Dot(b, d)                       \* sum of (a_k + i b_k)(c_k + i d_k): no conjugation
CDotIm(a, b, c, d) == Dot(a, d) + Dot(b, c)
\* product of the complex entries a..b (inclusive) as the pair <<re, im>>
RECURSIVE CProductSlice(_, _, _, _)
CProductSlice(re, im, a, b) == IF a > b THEN <<1, 0>>
                               ELSE LET r == CProductSlice(re, im, a + 1, b)
                                    IN <<CMulRe(re[a + 1], im[a + 1], r[1], r[2]), CMulIm(re[a + 1], im[a + 1], r[1], r[2])>>
\* the product of the entries a..b stays inside 32 bits: at most 12 entries of size |re| + |im| in 2..3 among units and
\* zeros, or at most 3 entries of size <= 700
ProdSafe(re, im, a, b) == LET big == {k \in (a + 1)..(b + 1) : IAbs(re[k]) + IAbs(im[k]) > 1}
                          IN \/ Cardinality(big) <= 12 /\ \A k \in big : IAbs(re[k]) + IAbs(im[k]) <= 3
                             \/ b - a <= 2 /\ \A k \in big : IAbs(re[k]) + IAbs(im[k]) <= 700
Conj(im) == Neg(im)                                               \* conj keeps the real parts, negates the imaginary parts
\* modulus: m = |a + ib|  iff  m >= 0 and m^2 = a^2 + b^2   (stated without a square root)
IsModulus(m, a, b) == m >= 0 /\ m <= 46000 /\ IAbs(a) <= 30000 /\ IAbs(b) <= 30000 /\ m * m = a * a + b * b
IsModulusVec(m, re, im) == Len(m) = Len(re) /\ \A k \in 1..Len(re) : IsModulus(m[k], re[k], im[k])

(* ---------------- the editing operations as one transition function ---------------- *)
(* e is an operation record (field op + arguments).  Outside an operation's domain the *)
(* vector is unchanged.                                                                *)
IsMutator(e) == e.op \in {"push", "push_front", "insert", "pop", "swap", "resize", "assign", "clear", "sort", "sort_desc", "set",
                          "add_assign", "sub_assign", "add_scalar_assign", "sub_scalar_assign", "mul_assign", "clone_from"}
ApplyOp(x, e) ==
  CASE e.op = "push" -> Push(x, e.x)
    [] e.op = "push_front" -> PushFront(x, e.x)
    [] e.op = "insert" -> IF Dom_Insert(x, e.i) THEN Insert(x, e.i, e.x) ELSE x
    [] e.op = "pop" -> IF Dom_Pop(x) THEN Pop(x) ELSE x
    [] e.op = "swap" -> IF Dom_Swap(x, e.i, e.j) THEN Swap(x, e.i, e.j) ELSE x
    [] e.op = "resize" -> Resize(x, e.n)
    [] e.op = "assign" -> Assign(x, e.x)
    [] e.op = "clear" -> Clear(x)
    [] e.op = "sort" -> Sort(x)
    [] e.op = "sort_desc" -> SortDesc(x)
    [] e.op = "set" -> IF Dom_Set(x, e.i) THEN Set(x, e.i, e.x) ELSE x
    [] e.op = "add_assign" -> IF SameSize(x, e.v) THEN Add(x, e.v) ELSE x
    [] e.op = "sub_assign" -> IF SameSize(x, e.v) THEN Sub(x, e.v) ELSE x
    [] e.op = "add_scalar_assign" -> Shift(x, e.x)
    [] e.op = "sub_scalar_assign" -> Shift(x, -e.x)
    [] e.op = "mul_assign" -> Scale(x, e.x)
    [] e.op = "clone_from" -> CloneFrom(x, e.v)
    [] OTHER -> x
=============================================================================
