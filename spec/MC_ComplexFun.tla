---------------------------- MODULE MC_ComplexFun ----------------------------
(* Design check of the catalogue ComplexFun.tla (C14) and enumeration of the complete  *)
(* obligation list (matrix relation x region, then the exact sqrt / integer-power      *)
(* cases) as replay cases.  The machine is a cursor over the canonical obligation      *)
(* sequence; the catalogue-consistency statements are constant-level invariants.       *)
EXTENDS ComplexFun, TLC, Json
CONSTANTS Emit
VARIABLES pos
vars == <<pos>>

Init == pos = 1
Next == pos < NOblig /\ pos' = pos + 1
Spec == Init /\ [][Next]_vars

(* ---------------- catalogue consistency ---------------- *)
WellFormed ==
  /\ Cardinality(Funs) = 38
  /\ \A i \in 1..NRel : LET r == Rels[i]
                        IN /\ r.kind \in Kinds /\ r.dom \in Doms /\ r.f \in Funs
                           /\ r.g \in Funs \cup {"-"} /\ r.h \in Funs \cup {"-"} /\ r.cond \in 1..65536
                           /\ (r.kind \in {"axis", "powf_near", "pow_near"}) <=> (r.dom # "all") /\ r.amp \in Amps
  /\ \A i, j \in 1..NRel : (Rels[i].id = Rels[j].id) => i = j
  /\ Cardinality(RegSet) = NReg /\ NReg = 144 + 768 + 29
  /\ Decomp \subseteq Funs /\ Cardinality(Decomp) = 20 /\ (Inverse \ {"ln"}) \subseteq Decomp
  /\ \A c \in Cuts : c.axis \in {"re", "im"} /\ c.segs \subseteq {"lo", "ml", "mh", "hi"} /\ c.segs # {} /\ c.fs \subseteq Funs
\* every one of the 38 functions has a defining relation over the whole lattice
EveryFunctionDefined == \A f \in Funs : \E r \in RelSet : Defining(r) /\ r.f = f /\ r.dom = "all"
\* ... whose other members bottom out in series / closed-form definitions (exp, sin, cos, sinh, cosh, sqrt, polar, parts)
RECURSIVE Level(_)
Level(n) == IF n = 0 THEN {f \in Funs : \E r \in RelSet : Defining(r) /\ r.f = f /\ Uses(r) = {}}
            ELSE LET prev == Level(n - 1) IN prev \cup {f \in Funs : \E r \in RelSet : Defining(r) /\ r.f = f /\ Uses(r) \subseteq prev}
BottomsOut == /\ Level(0) = {"exp", "sin", "cos", "sinh", "cosh", "sqrt", "polar", "abs_sqr", "conj", "new"}
              /\ Level(2) = Funs /\ Level(1) # Funs
              /\ \A f \in {"exp", "sin", "cos", "sinh", "cosh"} : \E r \in RelSet : r.kind = "series" /\ r.f = f
\* inverse pairings are mutual and follow the naming; hyperbolic tables parallel the trigonometric ones
TrigInv == {"asin", "acos", "atan", "asec", "acsc", "acot"}
InversePairing ==
  /\ Inverse = {r.f : r \in {q \in RelSet : q.kind = "rinv"}}
  /\ \A f \in Inverse : Cardinality({r \in RelSet : r.kind = "rinv" /\ r.f = f}) = 1
  /\ \A f1, f2 \in Inverse : (ForwardOf(f1) = ForwardOf(f2)) => f1 = f2
  /\ ForwardOf("ln") = "exp"
  /\ \A f \in Inverse \ {"ln"} : f = "a" \o ForwardOf(f)
  /\ \A f \in TrigInv : (f \o "h") \in Inverse /\ ForwardOf(f \o "h") = ForwardOf(f) \o "h"
  /\ \A f \in Inverse : ForwardOf(f) \notin Inverse /\ ForwardOf(f) \in Funs
ReciprocalPairing ==
  /\ RecipPairs = {<<r.f, r.g>> : r \in {q \in RelSet : q.kind = "recip"}}
  /\ \A p \in RecipPairs : p[1] \in Funs /\ p[2] \in Funs /\ ("a" \o p[1]) \in Inverse /\ ForwardOf("a" \o p[1]) = p[1]
  /\ \A p \in RecipPairs : (p[1] \in {"sec", "csc", "cot"}) => <<p[1] \o "h", p[2] \o "h">> \in RecipPairs
  /\ \E r \in RelSet : r.kind = "quot" /\ r.f = "tan" /\ r.g = "sin" /\ r.h = "cos"
  /\ \E r \in RelSet : r.kind = "quot" /\ r.f = "tanh" /\ r.g = "sinh" /\ r.h = "cosh"
\* the stated principal-branch predicates are attached to a relation evaluated on the whole lattice
RangesAttached ==
  /\ {g.f : g \in Ranges} = {"sqrt", "ln", "asin", "acos", "arg"}
  /\ \A g \in Ranges : /\ g.lo < g.hi /\ g.part \in {"re", "im", "val"}
                       /\ \E r \in RelSet : Defining(r) /\ r.f = g.f /\ r.dom = "all"
                       /\ RangeOf(g.f) = g
  /\ \A f \in Funs \ {g.f : g \in Ranges} : RangeOf(f) = NoRange
\* every branch cut has points on it, just above and just below it, on every segment between/beyond the branch
\* points, and the function's defining relation is an obligation there
CutFuns == UNION {c.fs : c \in Cuts}
CutsBothSides ==
  /\ CutFuns = Inverse \cup {"sqrt", "log", "pow", "powf", "arg"}
  /\ \A c1, c2 \in Cuts : (c1 # c2) => c1.fs \cap c2.fs = {}
  /\ \A c \in Cuts : \A seg \in c.segs : \A side \in {-1, 0, 1} :
        \E g \in RegSet : /\ OnSeg(g, c.axis, seg, side)
                          /\ \A f \in c.fs : \E r \in RelSet : Defining(r) /\ r.f = f /\ Applies(r, g)
\* neighbourhoods of the branch points +-1, +-i (all eight directions) and of 0 (modulus class 1e-3)
BranchPointNeighbourhoods ==
  /\ \A p \in Points : \A d \in Dirs : \E g \in RegSet : g.kind = "near" /\ g.c = p /\ g.dir = d
  /\ \A d \in Dirs : \E g \in RegSet : g.kind = "sector" /\ g.dir = d /\ g.m = 0
  /\ \A d \in Dirs : \A m \in Mods : \E g \in RegSet : g.kind = "sector" /\ g.dir = d /\ g.m = m
  /\ \A d \in AxisDirs : \A m \in Mods : \A sd \in {-1, 1} : \E g \in RegSet : g.kind = "side" /\ g.dir = d /\ g.m = m /\ g.side = sd
\* every pole (and zero) of the quotient functions with |centre| <= 10 has lattice regions at the four distances
\* 1e-3 .. 1e-6 in all eight directions, and the function's definition is an obligation there
OddPoles == {"tan", "sec", "tanh", "sech"}
PoleNeighbourhoods ==
  \A f \in Trig \cup Hyp : \A n \in {-6, -5, -4, -3, -2, -1, 1, 2, 3, 4, 5, 6} : \A d \in PoleDists : \A dir \in Dirs :
     \E g \in RegSet : /\ IsPoleReg(g) /\ g.side = n /\ g.m = d /\ g.dir = dir /\ g.c = (IF f \in Trig THEN "pole_re" ELSE "pole_im")
                       /\ \E r \in RelSet : r.kind \in {"quot", "recip"} /\ r.f = f /\ Applies(r, g)
                       /\ (f = "tan" /\ dir \in {0, 4}) => \E r \in RelSet : r.kind = "axis" /\ r.f = f /\ Applies(r, g)
\* special exact arguments: -0.0 twins of every axis ray and modulus class (incl. +-1, +-i), and 0
ExactArguments ==
  /\ \A d \in AxisDirs : \A m \in Mods : \E g \in RegSet : IsNegZero(g) /\ g.dir = d /\ g.m = m
  /\ \E g \in RegSet : IsZeroReg(g)
  /\ \A g \in RegSet : IsNegZero(g) => \A f \in {"ln", "arg"} : RangeAt(f, g).loClosed /\ RangeAt(f, g).f = f
  /\ \A g \in RegSet : (~IsNegZero(g) /\ ~IsZeroReg(g)) => \A f \in Funs : RangeAt(f, g) = RangeOf(f)
  /\ {FunSeq[i] : i \in 1..Len(FunSeq)} = Funs /\ Len(FunSeq) = 38
\* shape of the matrix
MatrixShape ==
  /\ \A i \in 1..NRel : \E j \in 1..NReg : Applies(Rels[i], Regs[j])
  /\ \A j \in 1..NReg : \E i \in 1..NRel : Applies(Rels[i], Regs[j])
  /\ \A i \in 1..NRel : \A j \in 1..NReg :
        (Rels[i].dom = "all" /\ ~IsPoleReg(Regs[j]) /\ ~IsZeroReg(Regs[j]) /\ ~Applies(Rels[i], Regs[j])) => (ExactPoint(Regs[j]) \in Sing(Rels[i].f))
  /\ ZeroRels \subseteq {Rels[i].id : i \in 1..NRel}
  /\ \A k \in 1..(NMatrix - 1) : LET a == Matrix[k]
                                     b == Matrix[k + 1]
                                 IN a[1] < b[1] \/ (a[1] = b[1] /\ a[2] < b[2])
  /\ NMatrix = Cardinality({<<i, j>> \in (1..NRel) \X (1..NReg) : Applies(Rels[i], Regs[j])})
\* exact expectations are self-consistent: the principal root squares to z and satisfies the stated range; powers obey the recurrence
ExactCasesSound ==
  /\ \A n \in 1..Len(SqrtCases) : LET w == SqrtCases[n]
                                      e == PrincipalOfSquare(w)
                                  IN /\ CEq(CMul(e, e), CMul(w, w))
                                     /\ (e.re[1] > 0 \/ (e.re[1] = 0 /\ e.im[1] >= 0))
  /\ \A n \in 1..Len(PowCases) : LET c == PowCases[n]
                                 IN /\ CEq(CMul(CPow(c.z, c.k), CPow(c.z, -c.k)), COne)
                                    /\ CEq(CPow(c.z, c.k + 1), CMul(c.z, CPow(c.z, c.k)))
  /\ Len(SqrtCases) = 48 /\ Len(PowCases) = 168
Cursor == pos \in 1..NOblig /\ Oblig(pos).pos = pos /\ Oblig(pos).kind \in {"rel", "sqrt_exact", "powk", "soak"}

\* spec -> implementation: every obligation once
EmitCase == Emit => PrintT(<<"CASE", ToJson(Oblig(pos))>>)
=============================================================================
