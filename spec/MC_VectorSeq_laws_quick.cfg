INIT InitL
NEXT NextL
CONSTANTS MaxLen = 0  Depth = 0  Emit = FALSE  Vals = {0, 1, 2}  LawLen = 3  BilinLen = 2  Ent <- MCEnt
INVARIANTS Laws
CHECK_DEADLOCK FALSE
