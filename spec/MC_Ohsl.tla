------------------------------- MODULE MC_Ohsl -------------------------------
(* Design check and case generator for the workspace semantics (C20, clone independence). *)
(* One value of each clonable kind (Vector, Matrix, Banded, Tridiagonal, Polynomial), its  *)
(* clone, and EVERY interleaving of <= Depth mutations of the original (id 1) and of the   *)
(* clone (id 2).  Invariant Independent: each object's value is the initial value put      *)
(* through ITS OWN mutations only.  With Deep = FALSE the clone is an alias (the deviation  *)
(* the property excludes): that configuration must exhibit a violation of Independent.     *)
(* With Emit = TRUE every complete interleaving is printed as a case for the harness.      *)
EXTENDS Ohsl, TLC, Json
CONSTANTS Depth, Deep, Emit
VARIABLES w, v0, hist
vars == <<w, v0, hist>>

Op(name) == [op |-> name, i |-> 0, j |-> 0, i2 |-> 0, j2 |-> 0, x |-> 0, nr |-> 0, nc |-> 0, off |-> 0,
             lo |-> 0, di |-> 0, up |-> 0, s |-> 0, v |-> <<>>, b |-> Empty, src |-> 0]
Seq3 == Mk(3, 1, LAMBDA i, j : i + 1)
Inits == { Val("vec", Seq3, 0, 0),
           Val("poly", Seq3, 0, 0),
           Val("mat", Mk(2, 3, LAMBDA i, j : 1 + 3 * i + j), 0, 0),
           Val("band", Mk(3, 3, LAMBDA i, j : IF j <= i + 1 /\ i <= j + 1 THEN 1 + 3 * i + j ELSE 0), 1, 1),
           Val("tri", Mk(3, 3, LAMBDA i, j : IF i - j \in {-1, 0, 1} THEN 1 + 3 * i + j ELSE 0), 0, 0) }

\* mutations offered in a state (always in range for the CURRENT shape): element writes, SIZE-CHANGING operations
\* (insert/resize/push/pop/trim/delete_row/transpose/resize_fill), whole-object updates, one update borrowing the OTHER object
MutOps(v, other) ==
  CASE v.k = "vec" ->
         {[Op("insert") EXCEPT !.i = 0, !.x = 7], [Op("resize") EXCEPT !.nr = 2], [Op("scale") EXCEPT !.s = -1]}
         \cup (IF v.m.r > 0 THEN {[Op("set") EXCEPT !.i = v.m.r - 1, !.x = 9]} ELSE {})
         \cup (IF SameShape(v.m, other.m) THEN {[Op("add_obj") EXCEPT !.src = 3]} ELSE {})
    [] v.k = "poly" ->
         {[Op("push") EXCEPT !.x = 0], [Op("scale") EXCEPT !.s = -1]}
         \cup (IF v.m.r > 0 THEN {[Op("set") EXCEPT !.i = v.m.r - 1, !.x = 9], Op("pop"), Op("trim")} ELSE {})
    [] v.k = "mat" ->
         {Op("transpose_in_place"), [Op("resize") EXCEPT !.nr = 3, !.nc = 2]}
         \cup (IF v.m.r > 0 /\ v.m.c > 0 THEN {[Op("set") EXCEPT !.i = 0, !.j = v.m.c - 1, !.x = 9]} ELSE {})
         \cup (IF v.m.r > 0 THEN {[Op("delete_row") EXCEPT !.i = 0]} ELSE {})
         \cup (IF SameShape(v.m, other.m) THEN {[Op("add_obj") EXCEPT !.src = 3]} ELSE {})
    [] v.k = "band" ->
         {[Op("set") EXCEPT !.i = 0, !.j = (IF v.b >= 1 /\ v.m.r >= 2 THEN 1 ELSE 0), !.x = 9],
          [Op("fill_band") EXCEPT !.off = (IF v.a >= 1 THEN -1 ELSE 0), !.x = 7],
          [Op("resize_fill") EXCEPT !.nr = 2, !.i = 0, !.j = 1, !.x = 4],
          \* same n and m1 + m2, the split shifted by one (the compact storage keeps its shape)
          [Op("resize_fill") EXCEPT !.nr = v.m.r, !.i = (IF v.b >= 1 THEN v.a + 1 ELSE IF v.a >= 1 THEN v.a - 1 ELSE v.a),
                                    !.j = (IF v.b >= 1 THEN v.b - 1 ELSE IF v.a >= 1 THEN v.b + 1 ELSE v.b), !.x = 5]}
         \cup (IF SameShape(v.m, other.m) /\ v.a = other.a /\ v.b = other.b THEN {[Op("add_obj") EXCEPT !.src = 3]} ELSE {})
    [] v.k = "tri" ->
         {[Op("set") EXCEPT !.i = 1, !.j = 0, !.x = 9], Op("transpose_in_place"), [Op("shift") EXCEPT !.s = 2], [Op("resize") EXCEPT !.nr = 2]}

Other(who) == 3 - who
\* `src = 3` above is a placeholder for "the other object": resolved here
Resolve(o, who) == IF o.op = "add_obj" THEN [o EXCEPT !.src = Other(who)] ELSE o
Mutate(ws, who, o) ==
  IF Deep THEN [ws EXCEPT ![who] = Mut(ws[who], o, ws)]
  ELSE LET nv == Mut(ws[who], o, ws) IN [x \in DOMAIN ws |-> nv]            \* alias: both names see the change

Init == /\ \E v \in Inits : v0 = v /\ w = Put(Put(EmptyWs, 1, v), 2, v)
        /\ hist = <<>>
Next == /\ Len(hist) < Depth
        /\ \E who \in {1, 2} : \E o0 \in MutOps(w[who], w[Other(who)]) :
             LET o == Resolve(o0, who) IN
               /\ w' = Mutate(w, who, o)
               /\ hist' = Append(hist, [who |-> who, o |-> o])
        /\ v0' = v0
Spec == Init /\ [][Next]_vars
View == <<w, v0, Len(hist)>>

\* replay of the history on two INDEPENDENT copies: object `who` sees only its own operations; an
\* operation that borrows the other object reads the other copy's value at that moment
RECURSIVE Replay(_, _)
Replay(ws, h) == IF h = <<>> THEN ws
                 ELSE Replay([ws EXCEPT ![Head(h).who] = Mut(ws[Head(h).who], Head(h).o, ws)], Tail(h))
Independent == LET r == Replay(Put(Put(EmptyWs, 1, v0), 2, v0), hist)
               IN SameVal(w[1], r[1]) /\ SameVal(w[2], r[2])
\* a mutation of one object never changes the other (checked on every transition)
OnlyTarget == [][\A who \in {1, 2} : (Len(hist') = Len(hist) + 1 /\ hist'[Len(hist')].who = who)
                                        => w'[Other(who)] = w[Other(who)]]_vars
Shape == WellShaped(w[1].m) /\ WellShaped(w[2].m)
\* the generator never offers a negative index or size (such a case would be a defect of this module, not of ohsl)
ArgsOK == \A k \in 1..Len(hist) : hist[k].o.i >= 0 /\ hist[k].o.j >= 0 /\ hist[k].o.nr >= 0 /\ hist[k].o.nc >= 0
EmitCase == (Emit /\ Len(hist) = Depth) => PrintT(<<"CASE", ToJson([init |-> v0, steps |-> hist])>>)
=============================================================================
