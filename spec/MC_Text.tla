------------------------------ MODULE MC_Text ------------------------------
(* Design check and case generator for Text.tla (X02).                                     *)
(* Every object of every kind up to the configured sizes, with content over an alphabet of *)
(* NA values, is one initial state (there are no transitions: rendering has no state).     *)
(* On every object:                                                                        *)
(*   Count    the text has the stated number of lines and tokens (rows * cols, n * n, ...) *)
(*            and the stated number of placeholders                                        *)
(*   Inverse  a reader that knows nothing but the text gets the object back:               *)
(*            Parse(Layout(x)) = x (hence two different objects never print the same text) *)
(*            -- for matrices with rows * cols > 0; EmptyCollapse states what is lost      *)
(*            otherwise; for banded matrices the entries and the band are recovered, and   *)
(*            the Debug layout (compact storage) holds every band entry at its slot        *)
(*   Views    the file writers and the Display / Debug layouts agree (Vector: the file is  *)
(*            the transposed line; Mesh2D: output_var is a column selection of output)     *)
(*   Distinct (cfg Pairwise) the same injectivity stated directly, pairwise                *)
(* ASSUME (evaluated once): the reference digits of the constants are consistent with each *)
(* other in exact digit arithmetic: 2 PI_2 = PI, 4 PI_4 = PI, 2 PI = TAU,                  *)
(* 2 FRAC_1_PI = FRAC_2_PI, 2 SQRT1_2 = SQRT2, SQRT2^2 = 2, SQRTPI^2 = PI,                 *)
(* PI FRAC_1_PI = 1, SQRT2 SQRT1_2 = 1, E = sum 1/k!  (EULER has no such relation; its     *)
(* digits were cross-checked at development time with the Brent-McMillan series).          *)
(* With Emit = TRUE every object prints one JSON case.                                     *)
EXTENDS Text, TLC, Json
CONSTANTS NA, MaxVec, MaxMat, MaxTri, MaxBandN, MaxBandM, MaxPoly, MaxM1, MaxM2, Emit, Pairwise
VARIABLE o
vars == <<o>>

El(nc) == IF nc = 1 THEN {<<a>> : a \in 1..NA} ELSE {<<a, b>> : a \in 1..NA, b \in 1..NA}
Seqs(S, n) == [1..n -> S]
Cxs == {[kind |-> "cx", nc |-> 2, v |-> z] : z \in El(2)}
Vecs == UNION {{[kind |-> "vec", nc |-> nc, v |-> s] : s \in Seqs(El(nc), n)} : n \in 0..MaxVec, nc \in {1, 2}}
Mats == UNION {{[kind |-> "mat", nc |-> 1, a |-> [r |-> r, c |-> c, d |-> s]] : s \in Seqs(El(1), r * c)} : r \in 0..MaxMat, c \in 0..MaxMat}
Polys == UNION {{[kind |-> "poly", nc |-> 1, v |-> s] : s \in Seqs(El(1), n)} : n \in 1..MaxPoly}
Tris == UNION {{[kind |-> "tri", nc |-> 1, tri |-> [n |-> n, sub |-> a, main |-> b, sup |-> c]] :
                   a \in Seqs(El(1), n - 1), b \in Seqs(El(1), n), c \in Seqs(El(1), n - 1)} : n \in 1..MaxTri}
\* entries outside the band are never read: they are fixed (to 1) so that every banded matrix occurs once
BandD(n, m1, m2) == {s \in Seqs(El(1), n * n) :
                       \A i, j \in 1..n : (j > i + m2 \/ i > j + m1) => s[(i - 1) * n + j] = <<1>>}
Bands == UNION {{[kind |-> "band", nc |-> 1, band |-> [n |-> n, m1 |-> m1, m2 |-> m2, fill |-> <<NA>>, d |-> s]] : s \in BandD(n, m1, m2)} :
                   n \in 0..MaxBandN, m1 \in 0..MaxBandM, m2 \in 0..MaxBandM}
M1s == UNION {{[kind |-> "m1", nc |-> 1, nv |-> nv, m |-> [nodes |-> x, vars |-> w]] : x \in Seqs(El(1), n), w \in Seqs(Seqs(El(1), nv), n)} :
                 n \in 0..MaxM1, nv \in 1..2}
M2s == UNION {{[kind |-> "m2", nc |-> 1, nv |-> nv, m |-> [xn |-> x, yn |-> y, vars |-> w]] :
                   x \in Seqs(El(1), nx), y \in Seqs(El(1), ny), w \in [1..nx -> [1..ny -> Seqs(El(1), nv)]]} :
                 nx \in 0..MaxM2, ny \in 0..MaxM2, nv \in 1..2}
Objs == Cxs \cup Vecs \cup Mats \cup Polys \cup Tris \cup Bands \cup M1s \cup M2s

Init == o \in Objs
Next == UNCHANGED o
Spec == Init /\ [][Next]_vars

TextOf(x) == CASE x.kind = "cx" -> CxText(x.v) [] x.kind = "vec" -> VecText(x.v) [] x.kind = "mat" -> MatText(x.a)
               [] x.kind = "poly" -> PolyText(x.v) [] x.kind = "tri" -> TriText(x.tri) [] x.kind = "band" -> BandText(x.band)
               [] x.kind = "m1" -> M1Text(x.m) [] x.kind = "m2" -> M2Text(x.m)

RECURSIVE CountIn(_, _)
CountIn(line, tk) == IF line = <<>> THEN 0 ELSE (IF Head(line) = tk THEN 1 ELSE 0) + CountIn(Tail(line), tk)
RECURSIVE Stars(_)
Stars(L) == IF L = <<>> THEN 0 ELSE CountIn(Head(L), Star) + Stars(Tail(L))
Max(a, b) == IF a > b THEN a ELSE b
Min(a, b) == IF a < b THEN a ELSE b
\* number of positions outside the band of an n x n matrix with m1 sub- and m2 super-diagonals
Tri2(k) == (k * (k + 1)) \div 2
NOut(n, m1, m2) == Tri2(Max(n - 1 - m1, 0)) + Tri2(Max(n - 1 - m2, 0))

Count ==
  LET T == TextOf(o) IN
  CASE o.kind = "cx" -> Len(T) = 1 /\ TokCount(T) = 1
    [] o.kind = "vec" -> Len(T) = 1 /\ TokCount(T) = Len(o.v) /\ Len(VecFile(o.v)) = Len(o.v) /\ TokCount(VecFile(o.v)) = Len(o.v)
    [] o.kind = "mat" -> Len(T) = o.a.r /\ TokCount(T) = o.a.r * o.a.c /\ \A i \in 1..o.a.r : Len(T[i]) = o.a.c
    [] o.kind = "poly" -> Len(T) = 1 /\ TokCount(T) = Len(o.v) /\ \A k \in 1..Len(o.v) : T[1][k].e = Len(o.v) - k
    [] o.kind = "tri" -> LET n == o.tri.n IN Len(T) = n /\ TokCount(T) = n * n /\ Stars(T) = n * n - (3 * n - 2) /\ TokCount(TriDbg(o.tri)) = 2 + 3 + (3 * n - 2)
    [] o.kind = "band" -> LET B == o.band IN /\ Len(T) = B.n /\ TokCount(T) = B.n * B.n /\ Stars(T) = NOut(B.n, B.m1, B.m2)
                                             /\ Len(BandDbg(B)) = 4 + B.n /\ TokCount(BandDbg(B)) = 7 + B.n * (B.m1 + B.m2 + 1)
    [] o.kind = "m1" -> LET n == Len(o.m.nodes) IN Len(T) = n /\ TokCount(T) = n * (1 + o.nv)
    [] o.kind = "m2" -> LET nx == Len(o.m.xn) ny == Len(o.m.yn)
                        IN /\ Len(T) = ny * (nx + 1) /\ TokCount(T) = nx * ny * (2 + o.nv)
                           /\ \A v \in 0..(o.nv - 1) : TokCount(M2VarText(o.m, v)) = nx * ny * 3 /\ Len(M2VarText(o.m, v)) = Len(T)

\* readers that see only the text
ParseVec(T) == [k \in 1..Len(T[1]) |-> T[1][k].el]
ParseVecFile(F) == [k \in 1..Len(F) |-> F[k][1].el]
ParseMat(T) == LET r == Len(T) c == IF Len(T) = 0 THEN 0 ELSE Len(T[1])
               IN [r |-> r, c |-> c, d |-> [n \in 1..(r * c) |-> T[((n - 1) \div c) + 1][((n - 1) % c) + 1].el]]
ParseTri(T) == LET n == Len(T) IN [n |-> n, sub |-> [k \in 1..(n - 1) |-> T[k + 1][k].el], main |-> [k \in 1..n |-> T[k][k].el], sup |-> [k \in 1..(n - 1) |-> T[k][k + 1].el]]
ParsePoly(T) == LET ts == T[1] IN [i \in 1..Len(ts) |-> (CHOOSE k \in 1..Len(ts) : ts[k].e = i - 1)]
PolyCo(T) == [i \in 1..Len(T[1]) |-> T[1][ParsePoly(T)[i]].el]
ParseM1(T) == [nodes |-> [i \in 1..Len(T) |-> T[i][1].el], vars |-> [i \in 1..Len(T) |-> [v \in 1..(Len(T[i]) - 1) |-> T[i][v + 1].el]]]

Inverse ==
  LET T == TextOf(o) IN
  CASE o.kind = "cx" -> T[1][1].el = o.v /\ T[1][1].t = "c"
    [] o.kind = "vec" -> ParseVec(T) = o.v /\ ParseVecFile(VecFile(o.v)) = o.v
    [] o.kind = "mat" -> IF o.a.r * o.a.c > 0 THEN ParseMat(T) = o.a ELSE StripBlank(T) = <<>> /\ TokCount(T) = 0   \* EmptyCollapse: 0 x c and r x 0 print no token
    [] o.kind = "poly" -> PolyCo(T) = o.v /\ PolyDbg(o.v) = VecText(o.v)
    [] o.kind = "tri" -> ParseTri(T) = o.tri /\ \A i, j \in 1..o.tri.n : (T[i][j] = Star) <=> (i - j > 1 \/ j - i > 1)
    [] o.kind = "band" -> LET B == o.band D == BandDbg(B) IN
                          /\ \A i, j \in 1..B.n : /\ InBand(B, i, j) <=> (j - i <= B.m2 /\ i - j <= B.m1)       \* m1 sub-, m2 super-diagonals
                                                  /\ (T[i][j] = Star) <=> ~InBand(B, i, j)
                                                  /\ InBand(B, i, j) => /\ T[i][j] = Num(BandAt(B, i, j))
                                                                        /\ D[4 + i][j - i + B.m1 + 1] = Num(BandAt(B, i, j))      \* its slot in the compact storage
                          /\ \A i \in 1..B.n : \A k \in 1..(B.m1 + B.m2 + 1) : (i + k - 1 - B.m1 < 1 \/ i + k - 1 - B.m1 > B.n) => D[4 + i][k] = Num(B.fill)
    [] o.kind = "m1" -> ParseM1(T) = o.m
    [] o.kind = "m2" -> LET nx == Len(o.m.xn) ny == Len(o.m.yn) IN
                        /\ \A n \in 1..Len(T) : (T[n] = <<>>) <=> (n % (nx + 1) = 0)
                        /\ \A i \in 1..nx : \A j \in 1..ny : LET ln == T[(j - 1) * (nx + 1) + i] IN
                              /\ ln[1].el = o.m.xn[i] /\ ln[2].el = o.m.yn[j] /\ [v \in 1..o.nv |-> ln[2 + v].el] = o.m.vars[i][j]

Views ==
  CASE o.kind = "vec" -> \A k \in 1..Len(o.v) : VecFile(o.v)[k][1] = VecText(o.v)[1][k]
    [] o.kind = "m2" -> \A v \in 0..(o.nv - 1) : \A n \in 1..Len(M2Text(o.m)) :
                           LET a == M2Text(o.m)[n] b == M2VarText(o.m, v)[n] IN IF a = <<>> THEN b = <<>> ELSE b = <<a[1], a[2], a[3 + v]>>
    [] o.kind = "tri" -> \* the same array as the dense matrix with placeholders off the band
                         \A i, j \in 1..o.tri.n : TriText(o.tri)[i][j] = TriAt(o.tri, i, j)
    [] OTHER -> TRUE

\* what makes a text meaningful for a reader: a matrix with entries (see EmptyCollapse)
\* (found by TLC: a Mesh1D without nodes prints nothing, so its number of variables is lost, like the shape of an empty matrix)
Meaningful(x) == IF x.kind = "mat" THEN x.a.r * x.a.c > 0 ELSE IF x.kind = "m1" THEN Len(x.m.nodes) > 0 ELSE x.kind \in {"cx", "vec", "poly", "tri"}
Distinct == (Pairwise /\ Meaningful(o)) => \A x \in Objs : (x.kind = o.kind /\ x.nc = o.nc /\ x # o /\ Meaningful(x)) => StripBlank(TextOf(x)) # StripBlank(TextOf(o))

EmitCase == Emit => PrintT(<<"CASE", ToJson(o)>>)

(* ---------------------------------------------------------------- reference digits of the constants *)
RECURSIVE MSR(_, _, _, _, _)
MSR(s, k, i, c, acc) == IF i = 1 THEN <<s[1] * k + c>> \o acc ELSE LET v == s[i] * k + c IN MSR(s, k, i - 1, v \div 10, <<v % 10>> \o acc)
MulSmall(s, k) == MSR(s, k, Len(s), 0, <<>>)
Clamp(x) == IF x > 1000000 THEN 1000000 ELSE IF x < -1000000 THEN -1000000 ELSE x
RECURSIVE DiffAcc(_, _, _, _)
DiffAcc(a, b, i, acc) == IF i > Len(b) THEN acc ELSE DiffAcc(a, b, i + 1, Clamp(10 * acc + a[i] - b[i]))
\* a - b in units of the last digit (saturated); the "digits" of a may be unnormalised
Close(a, b, tol) == LET d == DiffAcc(a, b, 1, 0) IN d >= -tol /\ d <= tol
RECURSIVE ConvAcc(_, _, _, _, _)
ConvAcc(a, b, p, i, acc) == IF i > Len(a) THEN acc ELSE LET j == p + 1 - i IN ConvAcc(a, b, p, i + 1, acc + (IF j >= 1 /\ j <= Len(b) THEN a[i] * b[j] ELSE 0))
Prod(a, b) == [p \in 1..41 |-> ConvAcc(a, b, p, 1, 0)]
RECURSIVE DSA(_, _, _, _, _)
DSA(s, k, i, rem, acc) == IF i > Len(s) THEN acc ELSE LET cur == rem * 10 + s[i] IN DSA(s, k, i + 1, cur % k, Append(acc, cur \div k))
DivSmall(s, k) == DSA(s, k, 1, 0, <<>>)
AddSeq(a, b) == [i \in 1..Len(a) |-> a[i] + b[i]]
RECURSIVE ESum(_, _, _)
ESum(k, term, acc) == IF k > 40 THEN acc ELSE LET t == DivSmall(term, k) IN ESum(k + 1, t, AddSeq(acc, t))
IntDigits(n) == [i \in 1..41 |-> IF i = 1 THEN n ELSE 0]
RefsConsistent ==
  /\ Close(MulSmall(Ref_PI_2, 2), Ref_PI, 2) /\ Close(MulSmall(Ref_PI_4, 4), Ref_PI, 4) /\ Close(MulSmall(Ref_PI, 2), Ref_TAU, 2)
  /\ Close(MulSmall(Ref_FRAC_1_PI, 2), Ref_FRAC_2_PI, 2) /\ Close(MulSmall(Ref_SQRT1_2, 2), Ref_SQRT2, 2)
  \* products: the digits beyond the 40th and the truncation of the factors contribute less than 1000 units of 10^-40
  /\ Close(Prod(Ref_SQRT2, Ref_SQRT2), IntDigits(2), 1000) /\ Close(Prod(Ref_SQRTPI, Ref_SQRTPI), Ref_PI, 1000)
  /\ Close(Prod(Ref_PI, Ref_FRAC_1_PI), IntDigits(1), 1000) /\ Close(Prod(Ref_SQRT2, Ref_SQRT1_2), IntDigits(1), 1000)
  /\ Close(ESum(1, IntDigits(1), IntDigits(1)), Ref_E, 50)
  \* the checks bite: a reference changed in its 38th decimal is rejected
  /\ ~Close(MulSmall([Ref_PI_2 EXCEPT ![39] = (@ + 1) % 10], 2), Ref_PI, 2)
  /\ ~Close(Prod([Ref_SQRT2 EXCEPT ![36] = (@ + 1) % 10], Ref_SQRT2), IntDigits(2), 1000)
  /\ \A nm \in RefNames : Len(Ref(nm)) = 41 /\ \A k \in 1..41 : Ref(nm)[k] \in 0..9
ASSUME RefsConsistent
=============================================================================
