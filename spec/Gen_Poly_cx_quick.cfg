SPECIFICATION Spec
CONSTANTS MaxLen = 0  MaxLen3 = 0  CxLen = 2  Mode = "gencx"
CONSTANTS Vals <- MCVals  CxVals <- MCVals01
INVARIANTS EmitCase
CHECK_DEADLOCK FALSE
