-------------------------- MODULE Trace_SparseCSC --------------------------
(* Trace validation for ohsl::Sparse<T> (C06, C07).                                    *)
(* Model state `cur`: the ABSTRACT matrix [rows, cols, map] the specification computes *)
(* by putting the recorded operations through the abstract operators of SparseCSC.tla. *)
(* After every construction / modification step of a C06 history the logged public     *)
(* fields must be well-formed compressed-column storage whose abstract content is      *)
(* `cur` BY VALUE (a stored zero and an absent entry are the same; the order of the row *)
(* indices inside a column is NOT demanded), and the four                               *)
(* logged views (get on every position, to_triplets, to_dense, col_index) must each    *)
(* describe `cur`.  A "products" event (C07) must report the exact dense products of    *)
(* `cur` for A x, A^T y, transpose() times y, the adjoint identity and scaled products. *)
(* In a C07 history the construction / modification steps get no verdict of their own  *)
(* (fields and views are C06's subject); the reference matrix advances by the abstract  *)
(* operator and every products probe (same object) is judged against it: the sparse     *)
(* products must equal the dense products of the reference built from the same          *)
(* operations.                                                                          *)
(* <y, A x> and <A^T y, x> are computed by the crate's Vector::dot and each compared    *)
(* with its exact value; dx / dty are the crate's dense route to_dense() * x.           *)
(* A constructor event starts a new history; every other event continues from `cur`.   *)
EXTENDS TraceBase, SparseCSC
VARIABLES l, cur
vars == <<l, cur>>

Documented(e) == e.what \in {"insert", "get", "multiply", "transpose_multiply", "from_triplets"}   \* panics stated in src/sparse.rs
IsCtor(e) == e.op \in {"from_triplets", "from_vecs"}
IsStateOp(e) == IsCtor(e) \/ IsMutator(e)
ArgVecs(e) == FromVecs(e.arg.rows, e.arg.cols, e.arg.val, e.arg.ri, e.arg.cs)

\* is the call inside the domain the property quantifies over?  (outside it nothing is demanded)
InDomain(e, M) ==
  CASE e.op = "from_triplets" -> Acc_Triplets(e.arg.rows, e.arg.cols, e.arg.ts)
    [] e.op = "from_vecs" -> Acc_Vecs(e.arg.cs) /\ WellFormed(ArgVecs(e))
    [] e.op = "insert" -> MInRange(M, e.i, e.j)
    [] OTHER -> TRUE
\* the reference matrix after the step
Expected(e, M) ==
  CASE e.op = "from_triplets" -> MOfTriplets(e.arg.rows, e.arg.cols, e.arg.ts)
    [] e.op = "from_vecs" -> Abs(ArgVecs(e))
    [] OTHER -> MApply(M, e)

\* ---- C06: verdict on a construction / modification step; "" = explained, else the failing clause ----
JudgeState(e, X) ==
  IF e.panic \/ ~e.obj THEN "panic"
  ELSE IF ~Structured(e.f) THEN "not-well-formed"
  ELSE IF Cardinality(Entries(e.f)) # e.f.nz THEN "duplicate-entries"
  ELSE IF ~RefinesValue(e.f, X) THEN "content"
  ELSE IF ~e.views THEN ""
  ELSE IF e.vpanic THEN "view-panic"
  ELSE IF ~ViewGetV(e.gp, e.gv, X) THEN "view-get"
  ELSE IF ~ViewTripletsV(e.trip, X) THEN "view-to_triplets"
  ELSE IF ~ViewDense(e.dense, X) THEN "view-to_dense"
  ELSE IF ~ViewColIndexF(e.ci, e.f) THEN "view-col_index"
  ELSE ""
\* state to continue from: the logged content when it has one, else the reference
Resync(e, X) == IF ~e.obj \/ ~Structured(e.f) THEN X
                ELSE IF RefinesValue(e.f, X) THEN X
                ELSE IF WellFormed(e.f) THEN Abs(e.f) ELSE X

\* ---- C07: verdict on a products event ----
\* one vector pair (x, y) against the dense matrix DM and its transpose DT; r carries the logged results
JudgeVec(DM, DT, x, y, a, r) ==
  LET dax == D!MatVec(DM, x)
      daty == D!MatVec(DT, y)
  IN IF ~D!SameSeq(r.ax, dax) THEN "multiply"
     ELSE IF ~D!SameSeq(r.aty, daty) THEN "transpose_multiply"
     ELSE IF ~D!SameSeq(r.tax, daty) \/ ~D!SameSeq(r.ttx, dax) THEN "explicit-transpose"
     ELSE IF r.yax # VDot(y, dax) \/ r.atyx # VDot(daty, x) \/ r.yax # r.atyx THEN "adjoint"
     ELSE IF ~D!SameSeq(r.sax, VScale(dax, a)) \/ ~D!SameSeq(r.saty, VScale(daty, a)) THEN "scale"
     ELSE ""
\* the main pair (pairwise distinct non-zero components), the repeated calls, the dense route of the crate, and
\* the battery zx / zy of vectors with exact zeros (unit vectors e_k for every k, zeros first / last /
\* alternating, a single non-zero entry, all zero, negative zero) with results zr
JudgeProducts(e, M) ==
  IF Len(e.x) # M.cols \/ Len(e.y) # M.rows THEN ""                 \* sizes do not fit: not a C07 call
  ELSE IF e.panic THEN "panic"
  ELSE LET DM == MDense(M)
           DT == D!Transpose(DM)
           main == JudgeVec(DM, DT, e.x, e.y, e.a, e)
           dax == D!MatVec(DM, e.x)
           daty == D!MatVec(DT, e.y)
           n == IF Len(e.zx) < Len(e.zy) THEN Len(e.zx) ELSE Len(e.zy)
           fits == {k \in 1..n : Len(e.zx[k]) = M.cols /\ Len(e.zy[k]) = M.rows}
           bad == {k \in fits : JudgeVec(DM, DT, e.zx[k], e.zy[k], e.a, e.zr[k]) # ""}
       IN IF main # "" THEN main
          ELSE IF ~D!SameSeq(e.ax2, dax) \/ ~D!SameSeq(e.aty2, daty) THEN "repeated-call"
          ELSE IF ~D!SameSeq(e.dx, dax) \/ ~D!SameSeq(e.dty, daty) THEN "dense-route"      \* to_dense() and Matrix * Vector
          ELSE IF Len(e.zr) # n THEN "zero-vector-results-missing"
          ELSE IF bad # {} THEN "zero-vector-" \o JudgeVec(DM, DT, e.zx[CHOOSE k \in bad : \A k2 \in bad : k <= k2], e.zy[CHOOSE k \in bad : \A k2 \in bad : k <= k2], e.a, e.zr[CHOOSE k \in bad : \A k2 \in bad : k <= k2])
          ELSE ""

Init == l = 1 /\ cur = MEmpty(0, 0) /\ TLCSet(1, 0)
Step == /\ l <= NRec
        /\ LET e == Rec[l]
           IN IF e.op = "products"
                THEN LET why == JudgeProducts(e, cur)
                     IN IF why = "" THEN cur' = cur ELSE Mismatch(l, e, why) /\ cur' = cur
              ELSE IF e.op = "gap"                                        \* unlogged small calls: must all complete
                THEN IF ~e.panic /\ e.done = e.n THEN cur' = cur ELSE Mismatch(l, e, "gap-small-call-panicked") /\ cur' = cur
              ELSE IF e.op = "refuse"
                \* a call that must be refused (ran under a panic guard): the model does not move, the SAME object is
                \* projected / viewed afterwards and must still be the unchanged matrix; the call itself is judged only
                \* as "did not return a value" where the code documents a panic
                THEN LET why == IF Documented(e) /\ e.returned THEN "refused-call-returned"
                                ELSE IF e.prop = "C07" THEN "" ELSE JudgeState(e, cur)
                     IN IF why = "" THEN cur' = cur ELSE Mismatch(l, e, "after-refused-" \o e.what \o ":" \o why) /\ cur' = cur
              ELSE IF ~IsStateOp(e)
                THEN Mismatch(l, e, "unknown-op") /\ cur' = cur
              ELSE IF ~InDomain(e, cur)
                THEN cur' = Resync(e, cur)                                  \* nothing demanded
              ELSE LET X == Expected(e, cur)
                   IN IF e.prop = "C07"
                        THEN cur' = X      \* not judged here: the reference advances and the next products probe is judged against it
                        ELSE LET why == JudgeState(e, X)
                             IN IF why = "" THEN cur' = X
                                ELSE Mismatch(l, e, why) /\ cur' = Resync(e, X)
        /\ l' = l + 1
Spec == Init /\ [][Step]_vars
=============================================================================
