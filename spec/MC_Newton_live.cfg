SPECIFICATION Spec
CONSTANTS MaxN = 2  MaxLimit = 3  Emit = FALSE  MutatesGuess = FALSE
PROPERTY Termination
CHECK_DEADLOCK FALSE
