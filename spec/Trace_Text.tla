----------------------------- MODULE Trace_Text -----------------------------
(* Trace validation for the textual output of the crate (X02).  Every event is ONE         *)
(* rendering of ONE object and is judged on its own (rendering has no state):              *)
(*   content  indices into the case's alphabet of numbers (element = <<k>> or <<kre, kim>>) *)
(*   lines    the text produced by the real code, cut into lines and tokens by the harness *)
(*            lexer; a token is [t, u, q, d, iv, e]:                                        *)
(*      t   "n" number, "c" complex pair "( a, b )", "s" the placeholder "*", "w" any      *)
(*          other word, "t" a monomial of a polynomial (e = its exponent, the coefficient  *)
(*          with its sign folded in, an omitted coefficient read as 1)                     *)
(*      u   per component, per alphabet entry k: 0 iff the printed number PARSES BACK      *)
(*          (Rust str::parse) to alphabet value k (numerically; NaN to NaN), else 9        *)
(*      q   (only when a precision p was requested) per component, per alphabet entry k:   *)
(*          the exact decimal distance |printed - value k| in HALF units of 10^-d, d the   *)
(*          number of decimals printed: 0 equal, 1 <= 1/2 unit (correctly rounded),        *)
(*          2 <= 1 unit, 9 more                                                            *)
(*      d   per component the number of decimals printed (-1: not a plain decimal)         *)
(*      iv  per component the integer denoted (BAD if none)                                *)
(*   ex, fin, z   per alphabet entry: the number of decimals its exact expansion needs     *)
(*            (capped at 99), whether it is finite, whether it is zero                     *)
(* Demanded: the text, with blank lines at the end ignored, has the lines and tokens of    *)
(* the layout function of Text.tla, and every number denotes the value that stands there:  *)
(*   no precision requested      the number parses back to the value                       *)
(*   precision p, f64 printed through the writer (Mesh1D / Mesh2D output, "fixed"):        *)
(*        exactly p decimals, within Guard half units of 10^-p of the value, and EQUAL to  *)
(*        the value whenever the value has a p-digit expansion; non-finite: parses back    *)
(*   precision p as a flag of a Display / Debug impl, or a complex element ("free": the    *)
(*        impls of the crate ignore the flags): parses back, or p decimals within Guard    *)
(* A rendering must not panic (observed exceptions are listed at Explained).               *)
EXTENDS TraceBase, Text
VARIABLES l
vars == <<l>>

Guard == 1           \* half units of 10^-p: the printed decimal is the value rounded to p decimals (a tie may go either way)

NumOK(ev, tok, c, k, fixed) ==
  /\ k >= 1 /\ k <= Len(ev.ex) /\ c <= Len(tok.u) /\ Len(tok.u[c]) = Len(ev.ex)
  /\ IF ev.p < 0 THEN tok.u[c][k] = 0
     ELSE /\ c <= Len(tok.q) /\ Len(tok.q[c]) = Len(ev.ex)
          /\ IF fixed
               THEN IF ev.fin[k] THEN tok.d[c] = ev.p /\ tok.q[c][k] <= Guard /\ (ev.p >= ev.ex[k] => tok.q[c][k] = 0)
                                 ELSE tok.u[c][k] = 0
               ELSE tok.u[c][k] = 0 \/ (tok.d[c] = ev.p /\ tok.q[c][k] <= Guard)

TokOK(ev, tok, x, fixed) ==
  CASE x.t = "s" -> tok.t = "s"
    [] x.t = "w" -> tok.t = "w"
    [] x.t = "i" -> tok.t = "n" /\ tok.iv = x.el
    [] x.t \in {"n", "c"} -> tok.t = x.t /\ \A c \in 1..Len(x.el) : NumOK(ev, tok, c, x.el[c], fixed /\ Len(x.el) = 1)
    [] x.t = "t" -> tok.t = "t" /\ tok.e = x.e /\ NumOK(ev, tok, 1, x.el[1], FALSE)
    [] OTHER -> FALSE

LinesOK(ev, ML, fixed) ==
  LET A == StripBlank(ev.lines)
      B == StripBlank(ML)
  IN /\ Len(A) = Len(B)
     /\ \A n \in 1..Len(A) : /\ Len(A[n]) = Len(B[n])
                             /\ \A k \in 1..Len(A[n]) : TokOK(ev, A[n][k], B[n][k], fixed)

\* a polynomial: the monomials may come in any order, a monomial with a zero coefficient may be left out
PolyOK(ev, co) ==
  LET A == StripBlank(ev.lines)
  IN /\ Len(A) = 1
     /\ LET ts == A[1]
        IN /\ \A k \in 1..Len(ts) : /\ ts[k].t = "t" /\ ts[k].e >= 0 /\ ts[k].e < Len(co)
                                    /\ NumOK(ev, ts[k], 1, co[ts[k].e + 1][1], FALSE)
           /\ \A k1, k2 \in 1..Len(ts) : k1 # k2 => ts[k1].e # ts[k2].e
           /\ \A i \in 0..(Len(co) - 1) : ~ev.z[co[i + 1][1]] => \E k \in 1..Len(ts) : ts[k].e = i

NoNumbers(ev) == \A n \in 1..Len(ev.lines) : \A k \in 1..Len(ev.lines[n]) : ev.lines[n][k].t = "w"

Ran(ev) == ~ev.panic
Explained(ev) ==
  CASE ev.op \in {"cx_disp", "cx_dbg"} -> Ran(ev) /\ LinesOK(ev, CxText(ev.v), FALSE)
    [] ev.op \in {"vec_disp", "vec_dbg"} -> Ran(ev) /\ LinesOK(ev, VecText(ev.v), FALSE)
    [] ev.op = "vec_out" -> Ran(ev) /\ LinesOK(ev, VecFile(ev.v), FALSE)
    [] ev.op \in {"mat_disp", "mat_dbg", "mat_out"} -> Ran(ev) /\ LinesOK(ev, MatText(ev.a), FALSE)
    \* observed, not judged: Display of a polynomial without coefficients panics (degree() is an Err, "TODO unwrap" in the source)
    [] ev.op = "poly_disp" -> IF Len(ev.v) = 0 THEN ev.panic \/ StripBlank(ev.lines) = <<>> ELSE Ran(ev) /\ PolyOK(ev, ev.v)
    [] ev.op = "poly_dbg" -> Ran(ev) /\ LinesOK(ev, PolyDbg(ev.v), FALSE)
    \* observed, not judged: Display of a 1 x 1 tridiagonal matrix panics (reads sup[0] of an empty super-diagonal)
    [] ev.op = "tri_disp" -> IF ev.tri.n = 1 THEN ev.panic \/ LinesOK(ev, TriText(ev.tri), FALSE) ELSE Ran(ev) /\ LinesOK(ev, TriText(ev.tri), FALSE)
    [] ev.op = "tri_dbg" -> Ran(ev) /\ LinesOK(ev, TriDbg(ev.tri), FALSE)
    \* an empty banded matrix prints a message: any text without numbers
    [] ev.op = "band_disp" -> Ran(ev) /\ (IF ev.band.n = 0 THEN NoNumbers(ev) ELSE LinesOK(ev, BandText(ev.band), FALSE))
    [] ev.op = "band_dbg" -> Ran(ev) /\ LinesOK(ev, BandDbg(ev.band), FALSE)
    [] ev.op = "m1_out" -> Ran(ev) /\ ev.p >= 0 /\ LinesOK(ev, M1Text(ev.m), TRUE)
    [] ev.op = "m2_out" -> Ran(ev) /\ ev.p >= 0 /\ LinesOK(ev, M2Text(ev.m), TRUE)
    [] ev.op = "m2_outvar" -> Ran(ev) /\ ev.p >= 0 /\ LinesOK(ev, M2VarText(ev.m, ev.var), TRUE)
    [] ev.op = "const" -> Ran(ev) /\ ev.name \in RefNames /\ NearestOK(ev.name, ev.lo, ev.hi)
    [] ev.op = "const_i" -> Ran(ev) /\ ev.iv = <<0, 1>>
    [] OTHER -> FALSE

Init == l = 1 /\ TLCSet(1, 0)
Step == /\ l <= NRec
        /\ LET ev == Rec[l] IN IF Explained(ev) THEN TRUE ELSE Mismatch(l, ev, ev.op)
        /\ l' = l + 1
Spec == Init /\ [][Step]_vars
=============================================================================
