--------------------------- MODULE MC_ComplexField ---------------------------
(* Design check and case generator for ComplexField.tla (C13).                         *)
(*  mode "laws": every triple (z, w, v) of complex numbers with components in the      *)
(*    value set: field axioms, conjugation/modulus, division, mixed real forms,        *)
(*    identities, equality and the lexicographic order (state predicates);             *)
(*  mode "asg": every compound-assignment machine on every pair (z, w), stepped one    *)
(*    Rust statement at a time; at the final pc the object equals the binary form.     *)
(*  SavedOld = FALSE is the read-after-overwrite deviation: the config                 *)
(*    MC_ComplexField_dev.cfg is EXPECTED to violate AsgEqualsBinary.                  *)
(*  Emit = TRUE prints every triple as a replay case (spec -> implementation).         *)
EXTENDS ComplexField, TLC, Json
CONSTANTS N, Halves, SavedOld, Emit
VARIABLES mode, kind, z, w, v, st
vars == <<mode, kind, z, w, v, st>>

Ints == (-N)..N
\* the integers -N..N, plus the halves between -1 and 1 when Halves
RVals == {R(k) : k \in Ints} \cup (IF Halves THEN {Norm(k, 2) : k \in (-2)..2} ELSE {})
CVals == {Cx(a, b) : a \in RVals, b \in RVals}

\* a single initial state; the first step picks z, the second the mode and the other operands (so that
\* TLC's workers share the evaluation of the laws instead of the sequential initial-state pass)
Init == mode = "start" /\ kind = "none" /\ z = CZero /\ w = CZero /\ v = CZero /\ st = AsgInit(CZero)
PickZ == /\ mode = "start" /\ mode' = "z" /\ z' \in CVals /\ st' = AsgInit(z') /\ UNCHANGED <<kind, w, v>>
PickLaws == /\ mode = "z" /\ mode' = "laws"
            /\ w' \in CVals /\ v' \in CVals
            /\ UNCHANGED <<kind, z, st>>
PickAsg == /\ mode = "z" /\ mode' = "asg" /\ kind' \in AsgKinds
           /\ w' \in CVals
           /\ Acc_Asg(kind', w')
           /\ UNCHANGED <<z, v, st>>
StepAsg == /\ mode = "asg" /\ st.pc < AsgLen(kind)
           /\ st' = AsgStep(kind, st, w, SavedOld)
           /\ UNCHANGED <<mode, kind, z, w, v>>
Next == PickZ \/ PickLaws \/ PickAsg \/ StepAsg
Spec == Init /\ [][Next]_vars

(* ---------------- invariants ---------------- *)
TypeOK == IsCx(z) /\ IsCx(w) /\ IsCx(v) /\ IsRat(st.re) /\ IsRat(st.im) /\ IsRat(st.a) /\ IsRat(st.den)
          /\ st.pc \in 0..8

\* each machine's final state = its binary counterpart
AsgEqualsBinary == (mode = "asg" /\ st.pc = AsgLen(kind)) => CEq(Cx(st.re, st.im), Binary(kind, z, w))
\* the closed-form runner used by the trace specification is the machine (required behaviour)
AsgRunnerIsMachine == (mode = "asg" /\ st.pc = 0) => CEq(AsgRun(kind, z, w), Binary(kind, z, w))

s == w.re            \* the real scalar of the mixed forms
FieldLaws == mode = "laws" =>
  /\ CEq(CAdd(z, w), CAdd(w, z)) /\ CEq(CMul(z, w), CMul(w, z))
  /\ CEq(CAdd(CAdd(z, w), v), CAdd(z, CAdd(w, v)))
  /\ CEq(CMul(CMul(z, w), v), CMul(z, CMul(w, v)))
  /\ CEq(CMul(z, CAdd(w, v)), CAdd(CMul(z, w), CMul(z, v)))
  \* identities and inverses
  /\ CEq(CAdd(z, CZero), z) /\ CEq(CAdd(CZero, z), z) /\ CEq(CMul(z, COne), z) /\ CEq(CMul(COne, z), z)
  /\ CEq(CSub(z, CZero), z) /\ CEq(CDiv(z, COne), z) /\ CEq(CMul(z, CZero), CZero)
  /\ CEq(CAdd(z, CNeg(z)), CZero) /\ CEq(CSub(z, w), CAdd(z, CNeg(w))) /\ CEq(CNeg(CNeg(z)), z)
  /\ CEq(CSub(z, z), CZero)
  \* conjugation and squared modulus
  /\ CEq(CMul(z, CConj(z)), OfReal(AbsSqr(z)))
  /\ CEq(CConj(CConj(z)), z) /\ CEq(CConj(CMul(z, w)), CMul(CConj(z), CConj(w)))
  /\ CEq(CConj(CAdd(z, w)), CAdd(CConj(z), CConj(w)))
  /\ AbsSqr(CMul(z, w)) = RMul(AbsSqr(z), AbsSqr(w))
  /\ RLe(RZero, AbsSqr(z)) /\ (AbsSqr(z) = RZero <=> IsZero(z))
  \* division is the inverse of multiplication; it is the textbook quotient formula
  /\ Acc_Div(w) =>
       /\ CEq(CMul(CDiv(z, w), w), z) /\ CEq(CDiv(CMul(z, w), w), z)
       /\ CEq(CMul(w, CInv(w)), COne) /\ CEq(CDiv(w, w), COne)
       /\ LET n == AbsSqr(w)
          IN CEq(CDiv(z, w), Cx(RDiv(RAdd(RMul(z.re, w.re), RMul(z.im, w.im)), n),
                                RDiv(RSub(RMul(z.im, w.re), RMul(z.re, w.im)), n)))
  \* mixed real forms = the complex form with zero imaginary part
  /\ CEq(CAddR(z, s), CAdd(z, OfReal(s))) /\ CEq(CSubR(z, s), CSub(z, OfReal(s)))
  /\ CEq(CMulR(z, s), CMul(z, OfReal(s))) /\ CEq(CMulR(z, s), CMul(OfReal(s), z))
  /\ Acc_DivR(s) => (CEq(CDivR(z, s), CDiv(z, OfReal(s))) /\ CEq(CMulR(CDivR(z, s), s), z))

Lt(a, b) == CCmp(a, b) = "lt"
OrderLaws == mode = "laws" =>
  /\ CCmp(z, w) \in {"lt", "eq", "gt"}                                   \* trichotomy (exactly one by construction of the value)
  /\ (CCmp(z, w) = "eq") <=> CEq(z, w)                                   \* consistency of = with the order
  /\ (CCmp(z, w) = "lt") <=> (CCmp(w, z) = "gt")
  /\ ~(Lt(z, w) /\ Lt(w, z)) /\ ~Lt(z, z)
  /\ (Lt(z, w) /\ Lt(w, v)) => Lt(z, v)                                  \* transitivity
  /\ (CCmp(z, w) = "eq" /\ CCmp(w, v) = "eq") => CCmp(z, v) = "eq"
  /\ (Lt(z, w) /\ CCmp(w, v) = "eq") => Lt(z, v)
  \* lexicographic: the real parts decide unless equal
  /\ (RLt(z.re, w.re) => Lt(z, w)) /\ ((z.re = w.re /\ RLt(z.im, w.im)) => Lt(z, w))

\* spec -> implementation: every triple once; the full operator set is replayed on (z, w) when full
EmitCase == (Emit /\ mode = "laws") =>
              PrintT(<<"CASE", ToJson([z |-> z, w |-> w, v |-> v, full |-> (v = CZero)])>>)
=============================================================================
