SPECIFICATION Spec
CONSTANTS N = 2  Halves = TRUE  SavedOld = TRUE  Emit = FALSE
INVARIANTS TypeOK AsgEqualsBinary AsgRunnerIsMachine FieldLaws OrderLaws
CHECK_DEADLOCK FALSE
