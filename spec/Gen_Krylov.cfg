SPECIFICATION Spec
CONSTANTS Mode = "cg"  MaxBudget = 0  BiCGInitialCheck = TRUE  DiagLo = 2  DiagHi = 6  MaxOff = 2  MaxB = 3  Emit = TRUE
INVARIANTS EmitCase
CHECK_DEADLOCK FALSE
