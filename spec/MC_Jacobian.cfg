SPECIFICATION Spec
CONSTANTS MaxM = 3  MaxN = 3  Vals <- MCVals  Deltas = {1, 2}  Emit = FALSE  TwoBases = FALSE  SetColRangeAgainst = "cols"
VIEW View
INVARIANTS TypeOK Discipline PerturbedOnce Result QuotientLaw OwnColumnOnly QuadLemma NoPanic
CHECK_DEADLOCK FALSE
