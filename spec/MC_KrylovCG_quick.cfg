SPECIFICATION Spec
CONSTANTS Mode = "cg"  MaxBudget = 0  BiCGInitialCheck = TRUE  DiagLo = 2  DiagHi = 4  MaxOff = 1  MaxB = 2  Emit = FALSE
INVARIANTS ResidualIsTrue FiniteTermination SolvesSystem NoEarlyAccept
PROPERTIES Termination
CHECK_DEADLOCK FALSE
