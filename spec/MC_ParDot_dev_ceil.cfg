SPECIFICATION Spec
CONSTANTS MaxLen = 4  MaxThreads = 3  Rule = "ceil"  JoinOrder = "spawn"  LemmaLen = 0  LemmaThreads = 1
INVARIANTS InBounds
CHECK_DEADLOCK FALSE
