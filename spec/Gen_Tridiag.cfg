SPECIFICATION Spec
CONSTANTS MaxN = 4  Vals <- MCVals4  ValsTop <- MCVals3  Emit = TRUE
INVARIANTS EmitCase
CHECK_DEADLOCK FALSE
