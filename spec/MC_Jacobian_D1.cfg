SPECIFICATION Spec
CONSTANTS MaxM = 2  MaxN = 3  Vals <- MCValsSmall  Deltas = {1}  Emit = FALSE  TwoBases = TRUE  SetColRangeAgainst = "rows"
VIEW View
INVARIANTS TypeOK Discipline NoPanic
CHECK_DEADLOCK FALSE
