---------------------------- MODULE Trace_Guards ----------------------------
(* Trace validation for C20.  Three kinds of events:                                     *)
(*  "call"      one group of the Guards table executed on one tuple, all its forms;      *)
(*              the acceptance is RECOMPUTED here from the tuple (Guards!Acc):           *)
(*                ~accept => every form panicked (where demanded: RejDom), and for a      *)
(*                           target group with an out-of-range address the receiver is   *)
(*                           bit-for-bit what it was;                                    *)
(*                accept  => no form panicked (demanded on well-formed operands: Dom),    *)
(*                           every borrowed operand is bit-for-bit unchanged, all forms   *)
(*                           returned the same result;                                   *)
(*  "coverage"  the entry points the harness executed = the table's key set;             *)
(*  "sess"      one step of a workspace session / clone interleaving: the projected      *)
(*              values of ALL live objects equal the model's (Ohsl.tla).                 *)
EXTENDS TraceBase, Guards, Ohsl
VARIABLES l, ws
vars == <<l, ws>>

\* equal projections: integer values, hash of the bit patterns and - where logged (inexact data) - the list of
\* 16-hex-digit IEEE bit patterns themselves (zeros and NaNs normalised by the harness: their sign/payload is not demanded)
SamePr(x, y) == /\ x.h = y.h /\ x.v = y.v
                /\ Has(x, "x") = Has(y, "x")
                /\ Has(x, "x") => x.x = y.x
Inexact(e) == Has(e, "var") /\ e.var.pat \in {"inexact1", "inexact2", "inexactc1"}
FormRow(row, f) == row.forms[CHOOSE k \in 1..Len(row.forms) : row.forms[k].f = f]

FormOK(row, acc, t, fr) ==
  IF ~acc
    THEN /\ RejDom(row.g, t) => fr.panic
         /\ (fr.panic /\ row.target /\ ~AddrOK(row.g, t)) =>
               Has(fr, "opre") /\ Has(fr, "opost") /\ SamePr(fr.opre, fr.opost)
    ELSE /\ Dom(row.g, t) => ~fr.panic
         /\ ~fr.panic =>
              /\ Has(fr, "res")
              /\ LET nb == FormRow(row, fr.f).nb IN
                   nb > 0 => /\ Has(fr, "pre") /\ Has(fr, "post") /\ Len(fr.pre) = nb /\ Len(fr.post) = nb
                             /\ \A k \in 1..nb : SamePr(fr.pre[k], fr.post[k])

CallOK(e) ==
  /\ e.g \in GroupNames
  /\ LET row == Row(e.g)
         acc == Acc(e.g, e.t)
     IN /\ Len(e.t) = Len(row.ps)
        /\ e.accept = acc
        /\ Len(e.forms) = Len(row.forms)
        /\ {e.forms[k].f : k \in 1..Len(e.forms)} = FormNames(row)          \* every form executed, none invented
        /\ \A k \in 1..Len(e.forms) : FormOK(row, acc, e.t, e.forms[k])
        \* inexact operands: every result carries its bit patterns (so that the comparison below is on the hex strings)
        /\ Inexact(e) => \A k \in 1..Len(e.forms) : ~e.forms[k].panic => Has(e.forms[k].res, "x")
        /\ acc => \A j, k \in 1..Len(e.forms) :                              \* owned result = borrowed result
                    (j < k /\ ~e.forms[j].panic /\ ~e.forms[k].panic) => SamePr(e.forms[j].res, e.forms[k].res)

CoverageOK(e) == /\ {e.seen[k] : k \in 1..Len(e.seen)} = EntryKeys
                 /\ {e.preps[k] : k \in 1..Len(e.preps)} = PrepKeys          \* every size-changing preparation was used

Init == l = 1 /\ ws = EmptyWs /\ TLCSet(1, 0)
Step == /\ l <= NRec
        /\ LET e == Rec[l] IN
             CASE e.op = "call" -> /\ IF CallOK(e) THEN TRUE ELSE Mismatch(l, e, e.g)
                                   /\ ws' = ws
               [] e.op = "coverage" -> /\ IF CoverageOK(e) THEN TRUE ELSE Mismatch(l, e, "coverage")
                                       /\ ws' = ws
               [] e.op = "sess" -> LET w0 == IF e.start THEN EmptyWs ELSE ws
                                       w1 == SessStep(w0, e)
                                   IN IF SessOK(w0, w1, e) THEN ws' = w1
                                      ELSE Mismatch(l, e, e.act) /\ ws' = Logged(e)      \* re-synchronise
               [] OTHER -> Mismatch(l, e, "unknown event") /\ ws' = ws
        /\ l' = l + 1
Spec == Init /\ [][Step]_vars
=============================================================================
