SPECIFICATION Spec
CONSTANTS Mode = "proto"  MaxBudget = 5  BiCGInitialCheck = TRUE  DiagLo = 2  DiagHi = 2  MaxOff = 0  MaxB = 0  Emit = FALSE
INVARIANTS TypeOK OkMeansPassedInv BudgetZeroUntouchedInv ExactStartInv BoundedInv PrefixClosed BudgetLadder
PROPERTIES Variant Termination
CHECK_DEADLOCK FALSE
