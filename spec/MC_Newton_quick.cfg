SPECIFICATION Spec
CONSTANTS MaxN = 3  MaxLimit = 4  Emit = FALSE  MutatesGuess = FALSE
VIEW View
INVARIANTS TypeOK IterBound EvalsBound OkOnlyAfterMet ErrOnlyExhausted ErrCarriesLast ZeroLimit CfgUnchanged Idempotent OutcomeLaw ProjectionLemma PrefixClosure
CHECK_DEADLOCK FALSE
