SPECIFICATION Spec
CONSTANTS MinN = 1  MaxN = 3  LawN = 6  BWTop = 3  Vals <- MCVals  Pads = {7}  PivotBy = "magnitude"  Emit = FALSE
INVARIANTS DetOK PivotNonzero SolveOK MultipliersBounded OperatorAgrees LawsShape LawsValue
CHECK_DEADLOCK FALSE
