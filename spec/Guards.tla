------------------------------- MODULE Guards -------------------------------
(* C20: the table of checked entry points of ohsl (DESIGN.md Appendix B) as TLA+ data.  *)
(* A GROUP is one operation with one acceptance predicate over a tuple t of sizes and   *)
(* indices; its FORMS (by-reference "ref", half-consuming "mix", consuming "own",       *)
(* &self/&mut self "method") are the distinct ENTRY POINTS "<group>.<form>" - paired    *)
(* forms share the group's predicate by construction.                                   *)
(*   ps      kinds of the parameters: "n" size, "i" index, "b" band width, "v" number   *)
(*           of variables (all >= 0), "o" signed band offset                            *)
(*   forms   <<form, nb>>: nb = number of BORROWED operands of that form; they must be  *)
(*           bit-for-bit unchanged by an accepted call                                  *)
(*   target  the tuple addresses an element of the receiver: if the address is out of   *)
(*           range (~AddrOK) the receiver must be unchanged after the panic            *)
(*   guard   FALSE: the operation accepts every tuple (listed for operand immutability  *)
(*           and owned = borrowed only)                                                 *)
(* No CONSTANTS here: the trace specification extends this module.                      *)
EXTENDS Integers, Sequences, FiniteSets

Fm(f, nb) == [f |-> f, nb |-> nb]
Grp(g, ps, forms, target, guard) == [g |-> g, ps |-> ps, forms |-> forms, target |-> target, guard |-> guard]
RefOwn(a) == <<Fm("ref", a), Fm("own", 0)>>
Meth(a) == <<Fm("method", a)>>
Own == <<Fm("own", 0)>>
BandOp == <<"n", "b", "b">>                      \* a Banded operand: n, m1, m2

VecGroups == <<
  Grp("vec.add", <<"n", "n">>, <<Fm("ref", 2), Fm("mix", 1), Fm("own", 0)>>, FALSE, TRUE),
  Grp("vec.sub", <<"n", "n">>, <<Fm("ref", 2), Fm("mix", 1), Fm("own", 0)>>, FALSE, TRUE),
  Grp("vec.add_assign", <<"n", "n">>, Own, FALSE, TRUE),
  Grp("vec.sub_assign", <<"n", "n">>, Own, FALSE, TRUE),
  Grp("vec.dot", <<"n", "n">>, Meth(2), FALSE, TRUE),
  Grp("vec.dot_f64", <<"n", "n">>, Meth(2), FALSE, TRUE),
  Grp("vec.sum_slice", <<"n", "i", "i">>, Meth(1), FALSE, TRUE),
  Grp("vec.product_slice", <<"n", "i", "i">>, Meth(1), FALSE, TRUE),
  Grp("vec.index_get", <<"n", "i">>, Meth(1), FALSE, TRUE),
  Grp("vec.index_set", <<"n", "i">>, Meth(0), TRUE, TRUE),
  Grp("vec.swap", <<"n", "i", "i">>, Meth(0), TRUE, TRUE),
  Grp("vec.insert", <<"n", "i">>, Meth(0), TRUE, TRUE),
  Grp("vec.pop", <<"n">>, Meth(0), TRUE, TRUE) >>

MatGroups == <<
  Grp("mat.add", <<"n", "n", "n", "n">>, RefOwn(2), FALSE, TRUE),
  Grp("mat.sub", <<"n", "n", "n", "n">>, RefOwn(2), FALSE, TRUE),
  Grp("mat.add_assign", <<"n", "n", "n", "n">>, RefOwn(1), FALSE, TRUE),
  Grp("mat.sub_assign", <<"n", "n", "n", "n">>, RefOwn(1), FALSE, TRUE),
  Grp("mat.matmul", <<"n", "n", "n", "n">>, RefOwn(2), FALSE, TRUE),
  Grp("mat.matvec", <<"n", "n", "n">>, <<Fm("ref", 2), Fm("own", 0), Fm("method", 2)>>, FALSE, TRUE),
  Grp("mat.get_row", <<"n", "n", "i">>, Meth(1), FALSE, TRUE),
  Grp("mat.get_col", <<"n", "n", "i">>, Meth(1), FALSE, TRUE),
  Grp("mat.delete_row", <<"n", "n", "i">>, Meth(0), TRUE, TRUE),
  Grp("mat.fill_row", <<"n", "n", "i">>, Meth(0), TRUE, TRUE),
  Grp("mat.fill_col", <<"n", "n", "i">>, Meth(0), TRUE, TRUE),
  Grp("mat.set_row", <<"n", "n", "i", "n">>, Meth(0), TRUE, TRUE),
  Grp("mat.set_col", <<"n", "n", "i", "n">>, Meth(0), TRUE, TRUE),
  Grp("mat.swap_rows", <<"n", "n", "i", "i">>, Meth(0), TRUE, TRUE),
  Grp("mat.solve_basic", <<"n", "n", "n">>, Meth(1), FALSE, TRUE),
  Grp("mat.solve_lu", <<"n", "n", "n">>, Meth(1), FALSE, TRUE),
  Grp("mat.lu_decomp_in_place", <<"n", "n">>, Meth(0), FALSE, TRUE),
  Grp("mat.determinant", <<"n", "n">>, Meth(1), FALSE, TRUE),
  Grp("mat.inverse", <<"n", "n">>, Meth(1), FALSE, TRUE) >>

BandGroups == <<
  Grp("band.add", BandOp \o BandOp, RefOwn(2), FALSE, TRUE),
  Grp("band.sub", BandOp \o BandOp, RefOwn(2), FALSE, TRUE),
  Grp("band.add_assign", BandOp \o BandOp, RefOwn(1), FALSE, TRUE),
  Grp("band.sub_assign", BandOp \o BandOp, RefOwn(1), FALSE, TRUE),
  Grp("band.matvec", BandOp \o <<"n">>, RefOwn(2), FALSE, TRUE),
  Grp("band.solve", BandOp \o <<"n">>, Meth(2), FALSE, TRUE),
  Grp("band.fill_band", BandOp \o <<"o">>, Meth(0), TRUE, TRUE) >>

TriGroups == <<
  Grp("tri.with_vectors", <<"n", "n", "n">>, Own, FALSE, TRUE),
  Grp("tri.with_vecs", <<"n", "n", "n">>, Own, FALSE, TRUE),
  Grp("tri.add", <<"n", "n">>, Own, FALSE, TRUE),
  Grp("tri.sub", <<"n", "n">>, Own, FALSE, TRUE),
  Grp("tri.matvec", <<"n", "n">>, RefOwn(2), FALSE, TRUE),
  Grp("tri.solve", <<"n", "n">>, Meth(2), FALSE, TRUE),
  Grp("tri.index_get", <<"n", "i", "i">>, Meth(1), FALSE, TRUE),
  Grp("tri.index_set", <<"n", "i", "i">>, Meth(0), TRUE, TRUE) >>

SparseGroups == <<
  Grp("sparse.from_triplets", <<"n", "n", "i", "i">>, Own, FALSE, TRUE),
  Grp("sparse.get", <<"n", "n", "i", "i">>, Meth(1), FALSE, TRUE),
  Grp("sparse.insert", <<"n", "n", "i", "i">>, Meth(0), TRUE, TRUE),
  Grp("sparse.multiply", <<"n", "n", "n">>, Meth(2), FALSE, TRUE),
  Grp("sparse.transpose_multiply", <<"n", "n", "n">>, Meth(2), FALSE, TRUE),
  Grp("sparse.solve_cg", <<"n", "n", "n", "n">>, Meth(2), FALSE, TRUE),
  Grp("sparse.solve_bicgstab", <<"n", "n", "n", "n">>, Meth(2), FALSE, TRUE),
  Grp("sparse.solve_qmr", <<"n", "n", "n", "n">>, Meth(2), FALSE, TRUE),
  Grp("sparse.solve_bicg", <<"n", "n", "n", "n">>, Meth(2), FALSE, TRUE) >>

MeshGroups == <<
  Grp("mesh1.set_nodes_vars", <<"n", "v", "i", "v">>, Meth(0), TRUE, TRUE),
  Grp("mesh1.get_nodes_vars", <<"n", "v", "i">>, Meth(1), FALSE, TRUE),
  Grp("mesh1.index_get", <<"n", "v", "i">>, Meth(1), FALSE, TRUE),            \* mesh[node]      (Index<usize>)
  Grp("mesh1.index_set", <<"n", "v", "i">>, Meth(0), TRUE, TRUE),             \* mesh[node][0] = x / mesh[node] = v  (IndexMut<usize>)
  Grp("mesh2.set_nodes_vars", <<"n", "n", "v", "i", "i", "v">>, Meth(0), TRUE, TRUE),
  Grp("mesh2.get_nodes_vars", <<"n", "n", "i", "i">>, Meth(1), FALSE, TRUE),
  Grp("mesh2.cross_section_xnode", <<"n", "n", "i">>, Meth(1), FALSE, TRUE),
  Grp("mesh2.cross_section_ynode", <<"n", "n", "i">>, Meth(1), FALSE, TRUE),
  Grp("mesh2.var_as_matrix", <<"n", "n", "v", "i">>, Meth(1), FALSE, TRUE) >>

PolyGroups == <<
  Grp("poly.index_get", <<"n", "i">>, Meth(1), FALSE, TRUE),
  Grp("poly.index_set", <<"n", "i">>, Meth(0), TRUE, TRUE),
  Grp("poly.roots_f64", <<"n">>, Meth(1), FALSE, TRUE),
  Grp("poly.roots_cx", <<"n">>, Meth(1), FALSE, TRUE) >>

(* ---- by-reference / consuming pairs without a size requirement (guard = FALSE) ---- *)
PairGroups == <<
  Grp("mat.neg", <<"n", "n">>, RefOwn(1), FALSE, FALSE),
  Grp("mat.mul_scalar", <<"n", "n">>, RefOwn(1), FALSE, FALSE),
  Grp("mat.div_scalar", <<"n", "n">>, RefOwn(1), FALSE, FALSE),
  Grp("band.neg", BandOp, RefOwn(1), FALSE, FALSE),
  Grp("band.mul_scalar", BandOp, RefOwn(1), FALSE, FALSE),
  Grp("band.div_scalar", BandOp, RefOwn(1), FALSE, FALSE),
  Grp("poly.add", <<"n", "n">>, RefOwn(2), FALSE, FALSE),
  Grp("poly.sub", <<"n", "n">>, RefOwn(2), FALSE, FALSE),
  Grp("poly.mul", <<"n", "n">>, RefOwn(2), FALSE, FALSE),
  Grp("poly.neg", <<"n">>, RefOwn(1), FALSE, FALSE),
  Grp("poly.mul_scalar", <<"n">>, RefOwn(1), FALSE, FALSE) >>

(* ---- &self methods without a range argument: receiver (and borrowed arguments) unchanged ---- *)
Obs(g, ps, nb) == Grp(g, ps, Meth(nb), FALSE, FALSE)
ObsGroups == <<
  Obs("vec.sum", <<"n">>, 1), Obs("vec.product", <<"n">>, 1), Obs("vec.abs", <<"n">>, 1),
  Obs("vec.norm_1", <<"n">>, 1), Obs("vec.norm_2", <<"n">>, 1), Obs("vec.norm_p", <<"n">>, 1),
  Obs("vec.norm_inf", <<"n">>, 1), Obs("vec.find", <<"n">>, 1), Obs("vec.clone", <<"n">>, 1),
  Obs("vec.conj", <<"n">>, 1), Obs("vec.real", <<"n">>, 1),
  Obs("mat.transpose", <<"n", "n">>, 1), Obs("mat.norm_1", <<"n", "n">>, 1), Obs("mat.norm_inf", <<"n", "n">>, 1),
  Obs("mat.norm_p", <<"n", "n">>, 1), Obs("mat.norm_frob", <<"n", "n">>, 1), Obs("mat.norm_max", <<"n", "n">>, 1),
  Obs("mat.clone", <<"n", "n">>, 1),
  Obs("band.det", BandOp, 1), Obs("band.clone", BandOp, 1),
  Obs("tri.det", <<"n">>, 1), Obs("tri.convert", <<"n">>, 1), Obs("tri.transpose", <<"n">>, 1),
  Obs("tri.conj", <<"n">>, 1), Obs("tri.clone", <<"n">>, 1),
  Obs("sparse.col_index", <<"n", "n">>, 1), Obs("sparse.to_triplets", <<"n", "n">>, 1),
  Obs("sparse.to_dense", <<"n", "n">>, 1), Obs("sparse.transpose", <<"n", "n">>, 1),
  Obs("poly.eval", <<"n">>, 1), Obs("poly.derivative", <<"n">>, 1), Obs("poly.derivative_n", <<"n">>, 1),
  Obs("poly.derivative_at", <<"n">>, 1), Obs("poly.polydiv", <<"n", "n">>, 2), Obs("poly.degree", <<"n">>, 1),
  Obs("poly.clone", <<"n">>, 1),
  Obs("mesh1.get_interpolated_vars", <<"n", "v">>, 1), Obs("mesh1.trapezium", <<"n", "v">>, 1),
  Obs("mesh1.nodes", <<"n", "v">>, 1),
  Obs("mesh2.trapezium", <<"n", "n">>, 1), Obs("mesh2.square_trapezium", <<"n", "n">>, 1),
  Obs("mesh2.nodes", <<"n", "n">>, 1),
  Obs("newton.parameters", <<"n">>, 1), Obs("newton.solve", <<"n">>, 1) >>

Table == VecGroups \o MatGroups \o BandGroups \o TriGroups \o SparseGroups \o MeshGroups \o PolyGroups
         \o PairGroups \o ObsGroups
GroupNames == {Table[k].g : k \in 1..Len(Table)}
Row(g) == Table[CHOOSE k \in 1..Len(Table) : Table[k].g = g]
FormNames(row) == {row.forms[k].f : k \in 1..Len(row.forms)}
EntryPoints == UNION {{<<Table[k].g, f>> : f \in FormNames(Table[k])} : k \in 1..Len(Table)}
\* the key set as strings "<group>.<form>" (what the harness reports in its coverage event)
EntryKeys == {ep[1] \o "." \o ep[2] : ep \in EntryPoints}
\* Appendix B's list of by-reference / consuming pairs: each must have both forms in the table
Paired == {"vec.add", "vec.sub", "mat.neg", "mat.add", "mat.sub", "mat.mul_scalar", "mat.div_scalar", "mat.matmul",
           "mat.matvec", "mat.add_assign", "mat.sub_assign", "band.neg", "band.add", "band.sub", "band.mul_scalar",
           "band.div_scalar", "band.add_assign", "band.sub_assign", "band.matvec", "poly.add", "poly.neg", "poly.sub",
           "poly.mul", "poly.mul_scalar", "tri.matvec"}

(* ---------------- acceptance predicates (Appendix B), t = the tuple, 1-based ---------------- *)
Abs(x) == IF x < 0 THEN -x ELSE x
Acc(g, t) ==
  CASE g \in {"vec.add", "vec.sub", "vec.add_assign", "vec.sub_assign", "vec.dot", "vec.dot_f64"} -> t[1] = t[2]
    [] g \in {"vec.sum_slice", "vec.product_slice"} -> t[2] <= t[3] /\ t[3] < t[1]            \* (n, s, e): s <= e < n
    [] g \in {"vec.index_get", "vec.index_set"} -> t[2] < t[1]                                 \* (n, i)
    [] g = "vec.swap" -> t[2] < t[1] /\ t[3] < t[1]
    [] g = "vec.insert" -> t[2] <= t[1]                                                        \* (n, pos): pos <= n
    [] g = "vec.pop" -> t[1] >= 1
    [] g \in {"mat.add", "mat.sub", "mat.add_assign", "mat.sub_assign"} -> t[1] = t[3] /\ t[2] = t[4]   \* (r1,c1,r2,c2)
    [] g = "mat.matmul" -> t[2] = t[3]                                                         \* c1 = r2
    [] g = "mat.matvec" -> t[3] = t[2]                                                         \* (r, c, |v|)
    [] g \in {"mat.get_row", "mat.delete_row", "mat.fill_row"} -> t[3] < t[1]                  \* (r, c, i)
    [] g \in {"mat.get_col", "mat.fill_col"} -> t[3] < t[2]                                    \* (r, c, j)
    [] g = "mat.set_row" -> t[4] = t[2] /\ t[3] < t[1]                                         \* (r, c, i, |v|)
    [] g = "mat.set_col" -> t[4] = t[1] /\ t[3] < t[2]                                         \* (r, c, j, |v|)
    [] g = "mat.swap_rows" -> t[3] < t[1] /\ t[4] < t[1]
    [] g \in {"mat.solve_basic", "mat.solve_lu"} -> t[1] = t[2] /\ t[3] = t[1]                 \* (r, c, |b|)
    [] g \in {"mat.lu_decomp_in_place", "mat.determinant", "mat.inverse"} -> t[1] = t[2]
    [] g \in {"band.add", "band.sub", "band.add_assign", "band.sub_assign"} -> t[1] = t[4] /\ t[2] = t[5] /\ t[3] = t[6]
    [] g \in {"band.matvec", "band.solve"} -> t[4] = t[1]                                      \* (n, m1, m2, |v|)
    [] g = "band.fill_band" -> -t[2] <= t[4] /\ t[4] <= t[3]                                   \* (n, m1, m2, k)
    [] g \in {"tri.with_vectors", "tri.with_vecs"} -> t[1] = t[2] - 1 /\ t[3] = t[2] - 1       \* (|sub|, |main|, |sup|)
    [] g \in {"tri.add", "tri.sub", "tri.matvec", "tri.solve"} -> t[1] = t[2]
    [] g \in {"tri.index_get", "tri.index_set"} -> t[2] < t[1] /\ t[3] < t[1] /\ Abs(t[2] - t[3]) <= 1
    [] g \in {"sparse.from_triplets", "sparse.get", "sparse.insert"} -> t[3] < t[1] /\ t[4] < t[2]   \* (rows, cols, i, j)
    [] g = "sparse.multiply" -> t[3] = t[2]
    [] g = "sparse.transpose_multiply" -> t[3] = t[1]
    [] g \in {"sparse.solve_cg", "sparse.solve_bicgstab", "sparse.solve_qmr", "sparse.solve_bicg"} ->
          t[1] = t[2] /\ t[3] = t[1] /\ t[4] = t[1]                                            \* (rows, cols, |b|, |x|)
    [] g = "mesh1.set_nodes_vars" -> t[3] < t[1] /\ t[4] = t[2]                                \* (nnodes, nvars, k, |v|)
    [] g \in {"mesh1.get_nodes_vars", "mesh1.index_get", "mesh1.index_set"} -> t[3] < t[1]
    [] g = "mesh2.set_nodes_vars" -> t[4] < t[1] /\ t[5] < t[2] /\ t[6] = t[3]                 \* (nx, ny, nvars, i, j, |v|)
    [] g = "mesh2.get_nodes_vars" -> t[3] < t[1] /\ t[4] < t[2]                                \* (nx, ny, i, j)
    [] g = "mesh2.cross_section_xnode" -> t[3] < t[1]
    [] g = "mesh2.cross_section_ynode" -> t[3] < t[2]
    [] g = "mesh2.var_as_matrix" -> t[4] < t[3]                                                \* (nx, ny, nvars, k)
    [] g \in {"poly.index_get", "poly.index_set"} -> t[2] < t[1]
    [] g \in {"poly.roots_f64", "poly.roots_cx"} -> t[1] >= 2                                  \* degree >= 1
    [] OTHER -> TRUE                                                                           \* guard = FALSE rows

(* the ADDRESS part of a target row's predicate: outside it the receiver must be unchanged *)
AddrOK(g, t) ==
  CASE g \in {"mat.set_row", "mat.delete_row", "mat.fill_row"} -> t[3] < t[1]
    [] g \in {"mat.set_col", "mat.fill_col"} -> t[3] < t[2]
    [] g = "mesh1.set_nodes_vars" -> t[3] < t[1]
    [] g = "mesh2.set_nodes_vars" -> t[4] < t[1] /\ t[5] < t[2]
    [] OTHER -> Acc(g, t)

(* `accept => no panic` is demanded only on well-formed, non-degenerate operands: every size   *)
(* and variable count >= 1, band widths below the dimension (DESIGN section 7).                 *)
SizesPos(ps, t) == \A k \in 1..Len(ps) : ps[k] \in {"n", "v"} => t[k] >= 1
BandOK(t, k) == t[k + 1] < t[k] /\ t[k + 2] < t[k]
Dom(g, t) ==
  LET row == Row(g) IN
  CASE g \in {"tri.with_vectors", "tri.with_vecs"} -> t[2] >= 1
    [] g \in {"band.add", "band.sub", "band.add_assign", "band.sub_assign"} -> SizesPos(row.ps, t) /\ BandOK(t, 1) /\ BandOK(t, 4)
    [] g \in {"band.matvec", "band.solve", "band.fill_band", "band.neg", "band.mul_scalar", "band.div_scalar", "band.det",
              "band.clone"} -> SizesPos(row.ps, t) /\ BandOK(t, 1)
    [] OTHER -> SizesPos(row.ps, t)
(* `~accept => panic` is demanded everywhere except where the receiver has no node at all in    *)
(* the other direction (a cross section of an empty mesh copies nothing and checks nothing).   *)
RejDom(g, t) ==
  CASE g = "mesh2.cross_section_xnode" -> t[2] >= 1
    [] g = "mesh2.cross_section_ynode" -> t[1] >= 1
    [] OTHER -> TRUE

(* ---------------- receivers that are AGED before the call (state-changing sequences) ---------------- *)
(* For these groups the harness also builds the first operand at an OLD size and brings it to the size *)
(* of the tuple through a size-changing operation ("prep"); the predicate is evaluated on the NEW size. *)
NamesOf(seq) == {seq[k].g : k \in 1..Len(seq)}
VecRecv == NamesOf(VecGroups) \cup {"vec.sum", "vec.product", "vec.abs", "vec.norm_1", "vec.norm_2", "vec.norm_p", "vec.norm_inf", "vec.find", "vec.clone"}
MatRecv == NamesOf(MatGroups) \cup {"mat.neg", "mat.mul_scalar", "mat.div_scalar", "mat.transpose", "mat.norm_1", "mat.norm_inf", "mat.norm_p",
                                    "mat.norm_frob", "mat.norm_max", "mat.clone"}
BandRecv == NamesOf(BandGroups) \cup {"band.neg", "band.mul_scalar", "band.div_scalar", "band.det", "band.clone"}
TriRecv == {"tri.add", "tri.sub", "tri.matvec", "tri.solve", "tri.index_get", "tri.index_set", "tri.det", "tri.convert", "tri.transpose", "tri.clone"}
SparseRecv == (NamesOf(SparseGroups) \ {"sparse.from_triplets"}) \cup {"sparse.col_index", "sparse.to_triplets", "sparse.to_dense", "sparse.transpose"}
PolyRecv == {"poly.index_get", "poly.index_set", "poly.roots_f64", "poly.add", "poly.sub", "poly.mul", "poly.neg", "poly.mul_scalar", "poly.eval",
             "poly.derivative", "poly.derivative_n", "poly.derivative_at", "poly.polydiv", "poly.degree", "poly.clone"}
Mesh1Recv == {"mesh1.set_nodes_vars", "mesh1.get_nodes_vars", "mesh1.index_get", "mesh1.index_set", "mesh1.get_interpolated_vars", "mesh1.trapezium", "mesh1.nodes"}
RecvTy(g) == CASE g \in VecRecv -> "vec" [] g \in MatRecv -> "mat" [] g \in BandRecv -> "band" [] g \in TriRecv -> "tri"
               [] g \in SparseRecv -> "sparse" [] g \in PolyRecv -> "poly" [] g \in Mesh1Recv -> "mesh1" [] OTHER -> "none"
Pr(prep, old) == [prep |-> prep, old |-> old]
\* the preparations of a receiver whose NEW size is the head of tuple t: <<prep, old size(s)>>
\* Besides plain growth/shrinkage the old state shares SOME dimensions with the new one but not others (same length;
\* same rows*cols, other shape; same n and total bandwidth, other split; same band widths, other n; no-op resize; ...).
Preps(ty, t) ==
  CASE ty = "vec" -> {Pr("vec.resize", <<t[1] + 2>>), Pr("vec.resize", <<t[1]>>), Pr("vec.pop_push", <<t[1] + 1>>), Pr("vec.clear_insert", <<t[1] + 1>>)}
                     \cup (IF t[1] >= 1 THEN {Pr("vec.resize", <<t[1] - 1>>)} ELSE {}) \cup (IF t[1] >= 2 THEN {Pr("vec.pop_push", <<t[1] - 2>>)} ELSE {})
                     \cup (IF t[1] = 0 THEN {Pr("vec.clear", <<3>>)} ELSE {})
    [] ty = "mat" -> {Pr("mat.resize", <<t[1] + 2, t[2] + 1>>), Pr("mat.delete_row", <<t[1] + 1, t[2]>>),
                      Pr("mat.transpose_in_place", <<t[2], t[1]>>), Pr("mat.clear_resize", <<t[1] + 1, t[2] + 1>>),
                      Pr("mat.resize", <<t[2], t[1]>>),                                   \* same rows*cols, transposed shape (no-op when square)
                      Pr("mat.resize", <<t[1], t[2] + 1>>), Pr("mat.resize", <<t[1] + 1, t[2]>>)}   \* same rows / same cols
                     \cup (IF t[1] >= 1 THEN {Pr("mat.resize", <<t[1] - 1, t[2] + 2>>)} ELSE {}) \cup (IF t[2] >= 1 THEN {Pr("mat.resize", <<t[1] + 1, t[2] - 1>>)} ELSE {})
                     \cup (IF t[1] * t[2] >= 1 THEN {Pr("mat.resize", <<t[1] * t[2], 1>>),              \* same rows*cols: (r*c) x 1 -> r x c
                                                     Pr("mat.reshape_chain", <<1, t[1] * t[2]>>)} ELSE {})   \* 1 x rc -> rc x 1 -> c x r -> r x c
                     \cup (IF t[1] = 0 /\ t[2] = 0 THEN {Pr("mat.clear", <<2, 3>>)} ELSE {})
    [] ty = "band" -> {Pr("band.resize", <<t[1] + 1, t[2] + 1, t[3]>>), Pr("band.resize", <<t[1] + 2, t[2], t[3] + 1>>),
                       Pr("band.resize", <<t[1], t[2], t[3]>>),                                          \* no-op resize
                       Pr("band.resize", <<t[1] + 1, t[2], t[3]>>),                                      \* same band widths, other n
                       Pr("band.resize", <<t[1], t[2], t[3] + 1>>), Pr("band.resize", <<t[1], t[2] + 1, t[3]>>)}   \* same n, one width changed
                      \cup (IF t[1] >= 1 THEN {Pr("band.resize", <<t[1] - 1, t[2], t[3] + 1>>), Pr("band.resize", <<t[1] - 1, t[2], t[3]>>)} ELSE {})
                      \cup (IF t[3] >= 1 THEN {Pr("band.resize", <<t[1], t[2] + 1, t[3] - 1>>)} ELSE {})   \* same n and m1 + m2, other split
                      \cup (IF t[2] >= 1 THEN {Pr("band.resize", <<t[1], t[2] - 1, t[3] + 1>>)} ELSE {})
    [] ty = "tri" -> IF t[1] = 0 THEN {} ELSE {Pr("tri.resize", <<t[1] + 2>>), Pr("tri.resize", <<t[1] - 1>>), Pr("tri.resize", <<t[1]>>)}
    [] ty = "sparse" -> {Pr("sparse.insert", <<t[1], t[2]>>), Pr("sparse.transpose", <<t[2], t[1]>>), Pr("sparse.transpose2", <<t[1], t[2]>>)}
    [] ty = "poly" -> {Pr("poly.push", <<0>>), Pr("poly.pop", <<t[1] + 1>>)} \cup (IF t[1] >= 2 THEN {Pr("poly.push", <<t[1] - 2>>)} ELSE {})
                      \cup (IF t[1] >= 1 THEN {Pr("poly.trim", <<t[1] + 2>>), Pr("poly.pop_push", <<t[1]>>)} ELSE {})
    [] ty = "mesh1" -> {Pr("mesh1.read", <<t[1] + 2>>), Pr("mesh1.read", <<t[1] + 1>>), Pr("mesh1.read", <<t[1]>>)}
                       \cup (IF t[1] >= 1 THEN {Pr("mesh1.read", <<t[1] - 1>>)} ELSE {})
    [] OTHER -> {}
\* number of leading tuple parameters that are the receiver's own dimensions
RecvLen(ty) == CASE ty = "mat" -> 2 [] ty = "band" -> 3 [] ty = "sparse" -> 2 [] OTHER -> 1
PrepKeys == {"vec.resize", "vec.pop_push", "vec.clear_insert", "vec.clear", "mat.clear", "mat.resize", "mat.delete_row", "mat.transpose_in_place", "mat.clear_resize",
             "mat.reshape_chain", "band.resize", "tri.resize", "sparse.insert", "sparse.transpose", "sparse.transpose2", "poly.push", "poly.pop", "poly.pop_push",
             "poly.trim", "mesh1.read"}

(* ---------------- operand VARIANTS of the by-reference / consuming pairs (accepted tuples only) ---------------- *)
(* rhs: content of the second operand ("other" distinct, "same" equal to the first, "zero", "eye" identity/ones,   *)
(* "alias" the SAME object on both sides of the by-reference forms); sc: code of the scalar (harness: 1: 0.0,      *)
(* 2: -0.0, 3: 1.0, 4: -1.0, 5: 2.0, 6: 0.5; 0: the default); operands hold negative entries, zeros and -0.0.      *)
SameTyBinary == {"vec.add", "vec.sub", "vec.add_assign", "vec.sub_assign", "vec.dot", "vec.dot_f64", "mat.add", "mat.sub", "mat.add_assign",
                 "mat.sub_assign", "mat.matmul", "band.add", "band.sub", "band.add_assign", "band.sub_assign", "poly.add", "poly.sub", "poly.mul",
                 "tri.add", "tri.sub"}
MatVecLike == {"mat.matvec", "band.matvec", "tri.matvec"}
SameShapeOps(g, t) == CASE Len(t) = 2 -> t[1] = t[2] [] Len(t) = 4 -> t[1] = t[3] /\ t[2] = t[4]
                        [] Len(t) = 6 -> t[1] = t[4] /\ t[2] = t[5] /\ t[3] = t[6] [] OTHER -> FALSE
Vr(rhs, sc) == [rhs |-> rhs, sc |-> sc]
Variants(g, t) ==
  CASE g \in SameTyBinary -> {Vr("other", 0), Vr("zero", 0), Vr("eye", 0)} \cup (IF SameShapeOps(g, t) THEN {Vr("same", 0), Vr("alias", 0)} ELSE {})
    [] g \in MatVecLike -> {Vr("other", 0), Vr("zero", 0), Vr("eye", 0)}
    [] g \in {"mat.mul_scalar", "band.mul_scalar", "poly.mul_scalar"} -> {Vr("other", c) : c \in 1..6}
    [] g \in {"mat.div_scalar", "band.div_scalar"} -> {Vr("other", c) : c \in 3..6}
    [] g \in {"mat.neg", "band.neg", "poly.neg"} -> {Vr("other", 0)}
    [] OTHER -> {}
=============================================================================

