------------------------------- MODULE Guards -------------------------------
(* C20: the table of checked entry points of ohsl (DESIGN.md Appendix B) as TLA+ data.  *)
(* A GROUP is one operation with one acceptance predicate over a tuple t of sizes and   *)
(* indices; its FORMS (by-reference "ref", half-consuming "mix", consuming "own",       *)
(* &self/&mut self "method") are the distinct ENTRY POINTS "<group>.<form>" - paired    *)
(* forms share the group's predicate by construction.                                   *)
(*   ps      kinds of the parameters: "n" size, "i" index, "b" band width, "v" number   *)
(*           of variables (all >= 0), "o" signed band offset                            *)
(*   forms   <<form, nb>>: nb = number of BORROWED operands of that form; they must be  *)
(*           bit-for-bit unchanged by an accepted call                                  *)
(*   target  the tuple addresses an element of the receiver: if the address is out of   *)
(*           range (~AddrOK) the receiver must be unchanged after the panic            *)
(*   guard   FALSE: the operation accepts every tuple (listed for operand immutability  *)
(*           and owned = borrowed only)                                                 *)
(* No CONSTANTS here: the trace specification extends this module.                      *)
EXTENDS Integers, Sequences, FiniteSets

Fm(f, nb) == [f |-> f, nb |-> nb]
Grp(g, ps, forms, target, guard) == [g |-> g, ps |-> ps, forms |-> forms, target |-> target, guard |-> guard]
RefOwn(a) == <<Fm("ref", a), Fm("own", 0)>>
Meth(a) == <<Fm("method", a)>>
Own == <<Fm("own", 0)>>
BandOp == <<"n", "b", "b">>                      \* a Banded operand: n, m1, m2

VecGroups == <<
  Grp("vec.add", <<"n", "n">>, <<Fm("ref", 2), Fm("mix", 1), Fm("own", 0)>>, FALSE, TRUE),
  Grp("vec.sub", <<"n", "n">>, <<Fm("ref", 2), Fm("mix", 1), Fm("own", 0)>>, FALSE, TRUE),
  Grp("vec.add_assign", <<"n", "n">>, Own, FALSE, TRUE),
  Grp("vec.sub_assign", <<"n", "n">>, Own, FALSE, TRUE),
  Grp("vec.dot", <<"n", "n">>, Meth(2), FALSE, TRUE),
  Grp("vec.dot_f64", <<"n", "n">>, Meth(2), FALSE, TRUE),
  Grp("vec.sum_slice", <<"n", "i", "i">>, Meth(1), FALSE, TRUE),
  Grp("vec.product_slice", <<"n", "i", "i">>, Meth(1), FALSE, TRUE),
  Grp("vec.index_get", <<"n", "i">>, Meth(1), FALSE, TRUE),
  Grp("vec.index_set", <<"n", "i">>, Meth(0), TRUE, TRUE),
  Grp("vec.swap", <<"n", "i", "i">>, Meth(0), TRUE, TRUE),
  Grp("vec.insert", <<"n", "i">>, Meth(0), TRUE, TRUE),
  Grp("vec.pop", <<"n">>, Meth(0), TRUE, TRUE) >>

MatGroups == <<
  Grp("mat.add", <<"n", "n", "n", "n">>, RefOwn(2), FALSE, TRUE),
  Grp("mat.sub", <<"n", "n", "n", "n">>, RefOwn(2), FALSE, TRUE),
  Grp("mat.add_assign", <<"n", "n", "n", "n">>, RefOwn(1), FALSE, TRUE),
  Grp("mat.sub_assign", <<"n", "n", "n", "n">>, RefOwn(1), FALSE, TRUE),
  Grp("mat.matmul", <<"n", "n", "n", "n">>, RefOwn(2), FALSE, TRUE),
  Grp("mat.matvec", <<"n", "n", "n">>, <<Fm("ref", 2), Fm("own", 0), Fm("method", 2)>>, FALSE, TRUE),
  Grp("mat.get_row", <<"n", "n", "i">>, Meth(1), FALSE, TRUE),
  Grp("mat.get_col", <<"n", "n", "i">>, Meth(1), FALSE, TRUE),
  Grp("mat.delete_row", <<"n", "n", "i">>, Meth(0), TRUE, TRUE),
  Grp("mat.fill_row", <<"n", "n", "i">>, Meth(0), TRUE, TRUE),
  Grp("mat.fill_col", <<"n", "n", "i">>, Meth(0), TRUE, TRUE),
  Grp("mat.set_row", <<"n", "n", "i", "n">>, Meth(0), TRUE, TRUE),
  Grp("mat.set_col", <<"n", "n", "i", "n">>, Meth(0), TRUE, TRUE),
  Grp("mat.swap_rows", <<"n", "n", "i", "i">>, Meth(0), TRUE, TRUE),
  Grp("mat.solve_basic", <<"n", "n", "n">>, Meth(1), FALSE, TRUE),
  Grp("mat.solve_lu", <<"n", "n", "n">>, Meth(1), FALSE, TRUE),
  Grp("mat.lu_decomp_in_place", <<"n", "n">>, Meth(0), FALSE, TRUE),
  Grp("mat.determinant", <<"n", "n">>, Meth(1), FALSE, TRUE),
  Grp("mat.inverse", <<"n", "n">>, Meth(1), FALSE, TRUE) >>

BandGroups == <<
  Grp("band.add", BandOp \o BandOp, RefOwn(2), FALSE, TRUE),
  Grp("band.sub", BandOp \o BandOp, RefOwn(2), FALSE, TRUE),
  Grp("band.add_assign", BandOp \o BandOp, RefOwn(1), FALSE, TRUE),
  Grp("band.sub_assign", BandOp \o BandOp, RefOwn(1), FALSE, TRUE),
  Grp("band.matvec", BandOp \o <<"n">>, RefOwn(2), FALSE, TRUE),
  Grp("band.solve", BandOp \o <<"n">>, Meth(2), FALSE, TRUE),
  Grp("band.fill_band", BandOp \o <<"o">>, Meth(0), TRUE, TRUE) >>

TriGroups == <<
  Grp("tri.with_vectors", <<"n", "n", "n">>, Own, FALSE, TRUE),
  Grp("tri.with_vecs", <<"n", "n", "n">>, Own, FALSE, TRUE),
  Grp("tri.add", <<"n", "n">>, Own, FALSE, TRUE),
  Grp("tri.sub", <<"n", "n">>, Own, FALSE, TRUE),
  Grp("tri.matvec", <<"n", "n">>, RefOwn(2), FALSE, TRUE),
  Grp("tri.solve", <<"n", "n">>, Meth(2), FALSE, TRUE),
  Grp("tri.index_get", <<"n", "i", "i">>, Meth(1), FALSE, TRUE),
  Grp("tri.index_set", <<"n", "i", "i">>, Meth(0), TRUE, TRUE) >>

SparseGroups == <<
  Grp("sparse.from_triplets", <<"n", "n", "i", "i">>, Own, FALSE, TRUE),
  Grp("sparse.get", <<"n", "n", "i", "i">>, Meth(1), FALSE, TRUE),
  Grp("sparse.insert", <<"n", "n", "i", "i">>, Meth(0), TRUE, TRUE),
  Grp("sparse.multiply", <<"n", "n", "n">>, Meth(2), FALSE, TRUE),
  Grp("sparse.transpose_multiply", <<"n", "n", "n">>, Meth(2), FALSE, TRUE),
  Grp("sparse.solve_cg", <<"n", "n", "n", "n">>, Meth(2), FALSE, TRUE),
  Grp("sparse.solve_bicgstab", <<"n", "n", "n", "n">>, Meth(2), FALSE, TRUE),
  Grp("sparse.solve_qmr", <<"n", "n", "n", "n">>, Meth(2), FALSE, TRUE),
  Grp("sparse.solve_bicg", <<"n", "n", "n", "n">>, Meth(2), FALSE, TRUE) >>

MeshGroups == <<
  Grp("mesh1.set_nodes_vars", <<"n", "v", "i", "v">>, Meth(0), TRUE, TRUE),
  Grp("mesh1.get_nodes_vars", <<"n", "v", "i">>, Meth(1), FALSE, TRUE),
  Grp("mesh2.set_nodes_vars", <<"n", "n", "v", "i", "i", "v">>, Meth(0), TRUE, TRUE),
  Grp("mesh2.get_nodes_vars", <<"n", "n", "i", "i">>, Meth(1), FALSE, TRUE),
  Grp("mesh2.cross_section_xnode", <<"n", "n", "i">>, Meth(1), FALSE, TRUE),
  Grp("mesh2.cross_section_ynode", <<"n", "n", "i">>, Meth(1), FALSE, TRUE),
  Grp("mesh2.var_as_matrix", <<"n", "n", "v", "i">>, Meth(1), FALSE, TRUE) >>

PolyGroups == <<
  Grp("poly.index_get", <<"n", "i">>, Meth(1), FALSE, TRUE),
  Grp("poly.index_set", <<"n", "i">>, Meth(0), TRUE, TRUE),
  Grp("poly.roots_f64", <<"n">>, Meth(1), FALSE, TRUE),
  Grp("poly.roots_cx", <<"n">>, Meth(1), FALSE, TRUE) >>

(* ---- by-reference / consuming pairs without a size requirement (guard = FALSE) ---- *)
PairGroups == <<
  Grp("mat.neg", <<"n", "n">>, RefOwn(1), FALSE, FALSE),
  Grp("mat.mul_scalar", <<"n", "n">>, RefOwn(1), FALSE, FALSE),
  Grp("mat.div_scalar", <<"n", "n">>, RefOwn(1), FALSE, FALSE),
  Grp("band.neg", BandOp, RefOwn(1), FALSE, FALSE),
  Grp("band.mul_scalar", BandOp, RefOwn(1), FALSE, FALSE),
  Grp("band.div_scalar", BandOp, RefOwn(1), FALSE, FALSE),
  Grp("poly.add", <<"n", "n">>, RefOwn(2), FALSE, FALSE),
  Grp("poly.sub", <<"n", "n">>, RefOwn(2), FALSE, FALSE),
  Grp("poly.mul", <<"n", "n">>, RefOwn(2), FALSE, FALSE),
  Grp("poly.neg", <<"n">>, RefOwn(1), FALSE, FALSE),
  Grp("poly.mul_scalar", <<"n">>, RefOwn(1), FALSE, FALSE) >>

(* ---- &self methods without a range argument: receiver (and borrowed arguments) unchanged ---- *)
Obs(g, ps, nb) == Grp(g, ps, Meth(nb), FALSE, FALSE)
ObsGroups == <<
  Obs("vec.sum", <<"n">>, 1), Obs("vec.product", <<"n">>, 1), Obs("vec.abs", <<"n">>, 1),
  Obs("vec.norm_1", <<"n">>, 1), Obs("vec.norm_2", <<"n">>, 1), Obs("vec.norm_p", <<"n">>, 1),
  Obs("vec.norm_inf", <<"n">>, 1), Obs("vec.find", <<"n">>, 1), Obs("vec.clone", <<"n">>, 1),
  Obs("vec.conj", <<"n">>, 1), Obs("vec.real", <<"n">>, 1),
  Obs("mat.transpose", <<"n", "n">>, 1), Obs("mat.norm_1", <<"n", "n">>, 1), Obs("mat.norm_inf", <<"n", "n">>, 1),
  Obs("mat.norm_p", <<"n", "n">>, 1), Obs("mat.norm_frob", <<"n", "n">>, 1), Obs("mat.norm_max", <<"n", "n">>, 1),
  Obs("mat.clone", <<"n", "n">>, 1),
  Obs("band.det", BandOp, 1), Obs("band.clone", BandOp, 1),
  Obs("tri.det", <<"n">>, 1), Obs("tri.convert", <<"n">>, 1), Obs("tri.transpose", <<"n">>, 1),
  Obs("tri.conj", <<"n">>, 1), Obs("tri.clone", <<"n">>, 1),
  Obs("sparse.col_index", <<"n", "n">>, 1), Obs("sparse.to_triplets", <<"n", "n">>, 1),
  Obs("sparse.to_dense", <<"n", "n">>, 1), Obs("sparse.transpose", <<"n", "n">>, 1),
  Obs("poly.eval", <<"n">>, 1), Obs("poly.derivative", <<"n">>, 1), Obs("poly.derivative_n", <<"n">>, 1),
  Obs("poly.derivative_at", <<"n">>, 1), Obs("poly.polydiv", <<"n", "n">>, 2), Obs("poly.degree", <<"n">>, 1),
  Obs("poly.clone", <<"n">>, 1),
  Obs("mesh1.get_interpolated_vars", <<"n", "v">>, 1), Obs("mesh1.trapezium", <<"n", "v">>, 1),
  Obs("mesh1.nodes", <<"n", "v">>, 1),
  Obs("mesh2.trapezium", <<"n", "n">>, 1), Obs("mesh2.square_trapezium", <<"n", "n">>, 1),
  Obs("mesh2.nodes", <<"n", "n">>, 1),
  Obs("newton.parameters", <<"n">>, 1), Obs("newton.solve", <<"n">>, 1) >>

Table == VecGroups \o MatGroups \o BandGroups \o TriGroups \o SparseGroups \o MeshGroups \o PolyGroups
         \o PairGroups \o ObsGroups
GroupNames == {Table[k].g : k \in 1..Len(Table)}
Row(g) == Table[CHOOSE k \in 1..Len(Table) : Table[k].g = g]
FormNames(row) == {row.forms[k].f : k \in 1..Len(row.forms)}
EntryPoints == UNION {{<<Table[k].g, f>> : f \in FormNames(Table[k])} : k \in 1..Len(Table)}
\* the key set as strings "<group>.<form>" (what the harness reports in its coverage event)
EntryKeys == {ep[1] \o "." \o ep[2] : ep \in EntryPoints}
\* Appendix B's list of by-reference / consuming pairs: each must have both forms in the table
Paired == {"vec.add", "vec.sub", "mat.neg", "mat.add", "mat.sub", "mat.mul_scalar", "mat.div_scalar", "mat.matmul",
           "mat.matvec", "mat.add_assign", "mat.sub_assign", "band.neg", "band.add", "band.sub", "band.mul_scalar",
           "band.div_scalar", "band.add_assign", "band.sub_assign", "band.matvec", "poly.add", "poly.neg", "poly.sub",
           "poly.mul", "poly.mul_scalar", "tri.matvec"}

(* ---------------- acceptance predicates (Appendix B), t = the tuple, 1-based ---------------- *)
Abs(x) == IF x < 0 THEN -x ELSE x
Acc(g, t) ==
  CASE g \in {"vec.add", "vec.sub", "vec.add_assign", "vec.sub_assign", "vec.dot", "vec.dot_f64"} -> t[1] = t[2]
    [] g \in {"vec.sum_slice", "vec.product_slice"} -> t[2] <= t[3] /\ t[3] < t[1]            \* (n, s, e): s <= e < n
    [] g \in {"vec.index_get", "vec.index_set"} -> t[2] < t[1]                                 \* (n, i)
    [] g = "vec.swap" -> t[2] < t[1] /\ t[3] < t[1]
    [] g = "vec.insert" -> t[2] <= t[1]                                                        \* (n, pos): pos <= n
    [] g = "vec.pop" -> t[1] >= 1
    [] g \in {"mat.add", "mat.sub", "mat.add_assign", "mat.sub_assign"} -> t[1] = t[3] /\ t[2] = t[4]   \* (r1,c1,r2,c2)
    [] g = "mat.matmul" -> t[2] = t[3]                                                         \* c1 = r2
    [] g = "mat.matvec" -> t[3] = t[2]                                                         \* (r, c, |v|)
    [] g \in {"mat.get_row", "mat.delete_row", "mat.fill_row"} -> t[3] < t[1]                  \* (r, c, i)
    [] g \in {"mat.get_col", "mat.fill_col"} -> t[3] < t[2]                                    \* (r, c, j)
    [] g = "mat.set_row" -> t[4] = t[2] /\ t[3] < t[1]                                         \* (r, c, i, |v|)
    [] g = "mat.set_col" -> t[4] = t[1] /\ t[3] < t[2]                                         \* (r, c, j, |v|)
    [] g = "mat.swap_rows" -> t[3] < t[1] /\ t[4] < t[1]
    [] g \in {"mat.solve_basic", "mat.solve_lu"} -> t[1] = t[2] /\ t[3] = t[1]                 \* (r, c, |b|)
    [] g \in {"mat.lu_decomp_in_place", "mat.determinant", "mat.inverse"} -> t[1] = t[2]
    [] g \in {"band.add", "band.sub", "band.add_assign", "band.sub_assign"} -> t[1] = t[4] /\ t[2] = t[5] /\ t[3] = t[6]
    [] g \in {"band.matvec", "band.solve"} -> t[4] = t[1]                                      \* (n, m1, m2, |v|)
    [] g = "band.fill_band" -> -t[2] <= t[4] /\ t[4] <= t[3]                                   \* (n, m1, m2, k)
    [] g \in {"tri.with_vectors", "tri.with_vecs"} -> t[1] = t[2] - 1 /\ t[3] = t[2] - 1       \* (|sub|, |main|, |sup|)
    [] g \in {"tri.add", "tri.sub", "tri.matvec", "tri.solve"} -> t[1] = t[2]
    [] g \in {"tri.index_get", "tri.index_set"} -> t[2] < t[1] /\ t[3] < t[1] /\ Abs(t[2] - t[3]) <= 1
    [] g \in {"sparse.from_triplets", "sparse.get", "sparse.insert"} -> t[3] < t[1] /\ t[4] < t[2]   \* (rows, cols, i, j)
    [] g = "sparse.multiply" -> t[3] = t[2]
    [] g = "sparse.transpose_multiply" -> t[3] = t[1]
    [] g \in {"sparse.solve_cg", "sparse.solve_bicgstab", "sparse.solve_qmr", "sparse.solve_bicg"} ->
          t[1] = t[2] /\ t[3] = t[1] /\ t[4] = t[1]                                            \* (rows, cols, |b|, |x|)
    [] g = "mesh1.set_nodes_vars" -> t[3] < t[1] /\ t[4] = t[2]                                \* (nnodes, nvars, k, |v|)
    [] g = "mesh1.get_nodes_vars" -> t[3] < t[1]
    [] g = "mesh2.set_nodes_vars" -> t[4] < t[1] /\ t[5] < t[2] /\ t[6] = t[3]                 \* (nx, ny, nvars, i, j, |v|)
    [] g = "mesh2.get_nodes_vars" -> t[3] < t[1] /\ t[4] < t[2]                                \* (nx, ny, i, j)
    [] g = "mesh2.cross_section_xnode" -> t[3] < t[1]
    [] g = "mesh2.cross_section_ynode" -> t[3] < t[2]
    [] g = "mesh2.var_as_matrix" -> t[4] < t[3]                                                \* (nx, ny, nvars, k)
    [] g \in {"poly.index_get", "poly.index_set"} -> t[2] < t[1]
    [] g \in {"poly.roots_f64", "poly.roots_cx"} -> t[1] >= 2                                  \* degree >= 1
    [] OTHER -> TRUE                                                                           \* guard = FALSE rows

(* the ADDRESS part of a target row's predicate: outside it the receiver must be unchanged *)
AddrOK(g, t) ==
  CASE g \in {"mat.set_row", "mat.delete_row", "mat.fill_row"} -> t[3] < t[1]
    [] g \in {"mat.set_col", "mat.fill_col"} -> t[3] < t[2]
    [] g = "mesh1.set_nodes_vars" -> t[3] < t[1]
    [] g = "mesh2.set_nodes_vars" -> t[4] < t[1] /\ t[5] < t[2]
    [] OTHER -> Acc(g, t)

(* `accept => no panic` is demanded only on well-formed, non-degenerate operands: every size   *)
(* and variable count >= 1, band widths below the dimension (DESIGN section 7).                 *)
SizesPos(ps, t) == \A k \in 1..Len(ps) : ps[k] \in {"n", "v"} => t[k] >= 1
BandOK(t, k) == t[k + 1] < t[k] /\ t[k + 2] < t[k]
Dom(g, t) ==
  LET row == Row(g) IN
  CASE g \in {"tri.with_vectors", "tri.with_vecs"} -> t[2] >= 1
    [] g \in {"band.add", "band.sub", "band.add_assign", "band.sub_assign"} -> SizesPos(row.ps, t) /\ BandOK(t, 1) /\ BandOK(t, 4)
    [] g \in {"band.matvec", "band.solve", "band.fill_band", "band.neg", "band.mul_scalar", "band.div_scalar", "band.det",
              "band.clone"} -> SizesPos(row.ps, t) /\ BandOK(t, 1)
    [] OTHER -> SizesPos(row.ps, t)
(* `~accept => panic` is demanded everywhere except where the receiver has no node at all in    *)
(* the other direction (a cross section of an empty mesh copies nothing and checks nothing).   *)
RejDom(g, t) ==
  CASE g = "mesh2.cross_section_xnode" -> t[2] >= 1
    [] g = "mesh2.cross_section_ynode" -> t[1] >= 1
    [] OTHER -> TRUE
=============================================================================
