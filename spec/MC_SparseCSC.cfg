SPECIFICATION Spec
CONSTANTS MaxR = 3  MaxC = 3  MaxEnt = 3  Depth = 2  Emit = FALSE  WithZero = FALSE
VIEW View
INVARIANTS Inv_Domain Inv_WellFormed Inv_Refines Inv_Views Inv_Fast Inv_Value
CHECK_DEADLOCK FALSE
