SPECIFICATION Spec
CONSTANTS MaxDim = 2  Depth = 2  FullInit = TRUE  Emit = TRUE
INVARIANTS EmitCase
CHECK_DEADLOCK FALSE
