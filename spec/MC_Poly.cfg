SPECIFICATION Spec
CONSTANTS MaxLen = 3  MaxLen3 = 3  CxLen = 0  Mode = "mc"
CONSTANTS Vals <- MCVals  CxVals <- MCVals
INVARIANTS Laws
CHECK_DEADLOCK FALSE
