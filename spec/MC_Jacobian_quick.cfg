SPECIFICATION Spec
CONSTANTS MaxM = 3  MaxN = 3  Vals <- MCValsSmall  Deltas = {1, 2}  Emit = FALSE  TwoBases = TRUE  SetColRangeAgainst = "cols"
VIEW View
INVARIANTS TypeOK Discipline PerturbedOnce Result QuotientLaw OwnColumnOnly QuadLemma NoPanic
CHECK_DEADLOCK FALSE
