SPECIFICATION Spec
CONSTANTS N = 1  Halves = TRUE  SavedOld = TRUE  Emit = FALSE
INVARIANTS TypeOK AsgEqualsBinary AsgRunnerIsMachine FieldLaws OrderLaws
CHECK_DEADLOCK FALSE
