SPECIFICATION Spec
CONSTANTS MaxN = 3  Vals <- MCVals4  ValsTop <- MCVals4  Emit = FALSE
INVARIANTS CompletesExact RefusesIff RefusalReason OperatorAgrees DetOK Laws
CHECK_DEADLOCK FALSE
