SPECIFICATION Spec
CONSTANTS MaxDim = 3  Depth = 3  FullInit = TRUE  Emit = FALSE
VIEW View
INVARIANTS Shape Laws
CHECK_DEADLOCK FALSE
