SPECIFICATION Spec
CONSTANTS MaxDegU = 3  MaxDegV = 2  Rounding = TRUE  DropLeadingTerm = TRUE  Cap = 6  Emit = FALSE
CONSTANTS Vals <- MCVals2
INVARIANTS IdentityInv Remainder ZeroDivisorRejected NeverGivesUp StepBound Variant WellFormed RunAgrees
PROPERTY Terminates
CHECK_DEADLOCK FALSE
