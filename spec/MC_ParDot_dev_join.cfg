SPECIFICATION Spec
CONSTANTS MaxLen = 4  MaxThreads = 3  Rule = "code"  JoinOrder = "completion"  LemmaLen = 0  LemmaThreads = 1
INVARIANTS Deterministic
CHECK_DEADLOCK FALSE
