SPECIFICATION Spec
CONSTANTS MaxR = 2  MaxC = 3  MaxEnt = 3  Depth = 2  Emit = FALSE  WithZero = TRUE
VIEW View
INVARIANTS Inv_WellFormed Inv_Refines Inv_Products
CHECK_DEADLOCK FALSE
