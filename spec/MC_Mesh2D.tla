----------------------------- MODULE MC_Mesh2D -----------------------------
(* Design check and case generator for Mesh2D.tla (X01).                                  *)
(* A mesh of every shape in Shapes (0 nodes in a direction included), NVs variables and   *)
(* both element types (Types: FALSE = f64 / integers, TRUE = complex / pairs) is put      *)
(* through EVERY history of <= Depth mutators (set_nodes_vars with every value vector,    *)
(* single-entry index writes, assign, apply of polynomial functions of the coordinates).  *)
(*  - on every transition (assertion RAW in Next): the read-after-write law, stated       *)
(*    WITHOUT the model's write operators, through every observer: get, index, both       *)
(*    cross-sections, var_as_matrix, output, output_var, the flat store                   *)
(*  - on every state: Shape, Layout (node <-> slot bijection, flat store refines the      *)
(*    function), Views (cross-sections / matrix / files agree with each other), Quad      *)
(*    (f64: iterated rule = sum over cells = nodal-weight form = transposed rule;         *)
(*    additivity over every split of the grid in x and in y; constant -> constant * area; *)
(*    exact for bilinear integrands against the closed form; square_trapezium = rule of   *)
(*    the squares >= 0; no cells -> 0)                                                    *)
(* With Emit = TRUE every history of length Depth prints one JSON case.                   *)
EXTENDS Mesh2D, TLC, Json
CONSTANTS Shapes, NVs, Types, Vals, Depth, Emit, Positional
VARIABLES m, d, hist
vars == <<m, d, hist>>

MCVals == {-1, 0, 2}
CxVals == {<<0, 0>>, <<1, -2>>, <<-1, 3>>}
\* shape sets (tuples cannot be written in .cfg files)
Rect(a, b) == {<<x, y>> : x \in a..b, y \in a..b}
Shapes03 == Rect(0, 3)
Shapes04 == Rect(0, 4) \ {<<4, 4>>}
Shapes02 == Rect(0, 2)
Shapes03q == Rect(0, 3) \ {<<3, 3>>}
ShapesGenQ == {<<0, 2>>, <<2, 0>>, <<1, 1>>, <<1, 3>>, <<3, 1>>, <<2, 3>>, <<3, 2>>}
ShapesGen == Rect(0, 3) \ {<<0, 0>>, <<3, 3>>}
\* non-uniform canonical grids (only the shape matters for the store; the quadrature laws see the widths)
CanonX(n) == SubSeq(<<-1, 0, 2, 5>>, 1, n)
CanonY(n) == SubSeq(<<0, 1, 4, 6>>, 1, n)

RECURSIVE SumSeq(_)
SumSeq(s) == IF s = <<>> THEN 0 ELSE Head(s) + SumSeq(Tail(s))

(* ---------------------------------------------------------------- operations *)
Zero6 == <<0, 0, 0, 0, 0, 0>>
FunVal(cx, o, X, Y) == MFunVal(cx, o.co, o.coi, X, Y)
\* the functions applied: not symmetric in (x, y), not constant, one with squares
Funs == {<<<<1, 1, -2, 0, 0, 0>>, <<0, 0, 1, 1, 0, 0>>>>, <<<<0, 2, 0, 1, 0, -1>>, <<3, -1, 0, 0, 1, 0>>>>}
Values(M) == IF M.cx THEN CxVals ELSE Vals
Op(M, name) == [op |-> name, i |-> 0, j |-> 0, var |-> 0, x |-> MZero(M.cx), v |-> <<>>, co |-> Zero6, coi |-> Zero6]
Pick(M, s) == IF M.cx THEN (IF s % 2 = 0 THEN <<1, -2>> ELSE <<-1, 3>>) ELSE (IF s % 2 = 0 THEN 2 ELSE -1)
ValVecs(M, s) == IF Positional THEN {[v \in 1..M.nv |-> Pick(M, v + s)]} ELSE [1..M.nv -> Values(M)]
Nodes(M) == (0..(MNX(M) - 1)) \X (0..(MNY(M) - 1))
Ops(M, s) ==
       {[Op(M, "set") EXCEPT !.i = p[1], !.j = p[2], !.v = v] : p \in Nodes(M), v \in ValVecs(M, s)}
  \cup UNION {{[Op(M, "iset") EXCEPT !.i = p[1], !.j = p[2], !.var = k, !.x = x] :
                  k \in (IF Positional THEN {(p[1] + 2 * p[2] + s) % M.nv} ELSE 0..(M.nv - 1)),
                  x \in (IF Positional THEN {Pick(M, s)} ELSE Values(M) \ {MZero(M.cx)})} : p \in Nodes(M)}
  \cup {[Op(M, "assign") EXCEPT !.x = x] : x \in (IF Positional THEN {Pick(M, s + 1)} ELSE Values(M))}
  \cup {[Op(M, "apply") EXCEPT !.var = k, !.co = f[1], !.coi = f[2]] :
           k \in (IF Positional THEN {s % M.nv} ELSE 0..(M.nv - 1)),
           f \in (IF Positional THEN {CHOOSE g \in Funs : (g[1][1] = 1) = (s % 2 = 1)} ELSE Funs)}

\* the transition function of the model
Write(M, o) == CASE o.op = "set" -> MSet(M, o.i, o.j, o.v)
                 [] o.op = "iset" -> MSetEntry(M, o.i, o.j, o.var, o.x)
                 [] o.op = "assign" -> MAssign(M, o.x)
                 [] o.op = "apply" -> MApply(M, LAMBDA X, Y : FunVal(M.cx, o, X, Y), o.var)

(* ---------------------------------------------------------------- read-after-write through every observer *)
\* what node (a, b) must hold after operation o on M -- stated without the model's write operators
Expect(M, o, a, b) ==
  CASE o.op = "set" -> IF a = o.i /\ b = o.j THEN o.v ELSE MGet(M, a, b)
    [] o.op = "iset" -> [v \in 1..M.nv |-> IF a = o.i /\ b = o.j /\ v = o.var + 1 THEN o.x ELSE MGet(M, a, b)[v]]
    [] o.op = "assign" -> [v \in 1..M.nv |-> o.x]
    [] o.op = "apply" -> [v \in 1..M.nv |-> IF v = o.var + 1 THEN FunVal(M.cx, o, M.xn[a + 1], M.yn[b + 1]) ELSE MGet(M, a, b)[v]]
    [] OTHER -> MGet(M, a, b)
NoOp(M) == Op(M, "none")
\* numbers per value on a line of a file
Wd(M) == IF M.cx THEN 2 ELSE 1
LineOK(M, line, a, b, ex, vs) ==          \* vs: the variables printed (0-based), in order
  /\ Len(line) = 2 + Len(vs) * Wd(M) /\ line[1] = M.xn[a + 1] /\ line[2] = M.yn[b + 1]
  /\ \A k \in 1..Len(vs) : IF M.cx THEN line[2 * k + 1] = ex[vs[k] + 1][1] /\ line[2 * k + 2] = ex[vs[k] + 1][2]
                                   ELSE line[k + 2] = ex[vs[k] + 1]
FileOK(M, o, L, vs) ==
  LET nx == MNX(M)
  IN /\ Len(L) = MNY(M) * (nx + 1)
     /\ \A b \in 0..(MNY(M) - 1) :
          /\ L[(b + 1) * (nx + 1)] = <<>>                                             \* the blank line after y-node b
          /\ \A a \in 0..(nx - 1) : LineOK(M, L[b * (nx + 1) + a + 1], a, b, Expect(M, o, a, b), vs)
RAW(M, o, M2) ==
  /\ MWellFormed(M2) /\ M2.xn = M.xn /\ M2.yn = M.yn /\ M2.nv = M.nv /\ M2.cx = M.cx
  /\ MNNodes(M2) = <<Len(M.xn), Len(M.yn)>> /\ MNVars(M2) = M.nv
  /\ \A a \in 0..(MNX(M) - 1), b \in 0..(MNY(M) - 1) :
       /\ MGet(M2, a, b) = Expect(M, o, a, b) /\ MIndex(M2, a, b) = Expect(M, o, a, b)
       /\ MCoord(M2, a, b) = <<M.xn[a + 1], M.yn[b + 1]>>
       /\ MFlat(M2)[a * MNY(M) + b + 1] = Expect(M, o, a, b)
  /\ \A a \in 0..(MNX(M) - 1) : LET S == MXsecX(M2, a)
                                IN /\ S.xn = M.yn /\ S.nv = M.nv /\ S.cx = M.cx /\ Len(S.vars) = MNY(M)
                                   /\ \A b \in 0..(MNY(M) - 1) : S.vars[b + 1] = Expect(M, o, a, b)
  /\ \A b \in 0..(MNY(M) - 1) : LET S == MXsecY(M2, b)
                                IN /\ S.xn = M.xn /\ S.nv = M.nv /\ S.cx = M.cx /\ Len(S.vars) = MNX(M)
                                   /\ \A a \in 0..(MNX(M) - 1) : S.vars[a + 1] = Expect(M, o, a, b)
  /\ \A k \in 0..(M.nv - 1) :
       LET A == MVarMatrix(M2, k)
       IN /\ A.r = MNX(M) /\ A.c = MNY(M) /\ Len(A.d) = MNX(M) * MNY(M)
          /\ \A a \in 0..(MNX(M) - 1), b \in 0..(MNY(M) - 1) : At(A, a, b) = Expect(M, o, a, b)[k + 1]
          /\ FileOK(M, o, MOutputVar(M2, k), <<k>>)
  /\ FileOK(M, o, MOutput(M2), [k \in 1..M.nv |-> k - 1])

(* ---------------------------------------------------------------- the machine *)
Init == /\ d = 0 /\ hist = <<>>
        /\ \E sh \in Shapes, nv \in NVs, cx \in Types : m = MNew(cx, CanonX(sh[1]), CanonY(sh[2]), nv)
Next == /\ d < Depth
        /\ \E o \in Ops(m, d + 1) :
              /\ m' = Write(m, o)
              /\ Assert(RAW(m, o, m'), <<"read-after-write law broken", m, o>>)
              /\ hist' = Append(hist, o)
        /\ d' = d + 1
Spec == Init /\ [][Next]_vars
View == <<m, d>>

(* ---------------------------------------------------------------- invariants *)
Shape == MWellFormed(m)
\* a fresh mesh holds zeros through every observer (afterwards: RAW on every transition)
Fresh == d = 0 => RAW(m, NoOp(m), m) /\ \A p \in Nodes(m) : MGet(m, p[1], p[2]) = [v \in 1..m.nv |-> MZero(m.cx)]

\* node <-> slot is a bijection onto 0 .. nx*ny - 1, (node, var) <-> scalar slot onto 0 .. nx*ny*nv - 1; the flat store refines the function
Layout ==
  LET n == MNX(m) * MNY(m)
  IN /\ \A p \in Nodes(m) : /\ MSlot(m, p[1], p[2]) \in 0..(n - 1)
                            /\ MNodeOfSlot(m, MSlot(m, p[1], p[2])) = p
                            /\ MFlat(m)[MSlot(m, p[1], p[2]) + 1] = MGet(m, p[1], p[2])
     /\ \A s \in 0..(n - 1) : MNodeOfSlot(m, s) \in Nodes(m) /\ MSlot(m, MNodeOfSlot(m, s)[1], MNodeOfSlot(m, s)[2]) = s
     /\ Cardinality({MSlot(m, p[1], p[2]) : p \in Nodes(m)}) = n
     /\ Cardinality({MScalarSlot(m, p[1], p[2], v) : p \in Nodes(m), v \in 0..(m.nv - 1)}) = n * m.nv
     /\ \A p \in Nodes(m), v \in 0..(m.nv - 1) : MScalarSlot(m, p[1], p[2], v) \in 0..(n * m.nv - 1)
     /\ Len(MFlat(m)) = n /\ MUnflat(m, MFlat(m)) = m
     \* a write to one slot is a write to exactly one node
     /\ \A p \in Nodes(m) : LET w == [v \in 1..m.nv |-> Pick(m, v)]
                            IN MFlat(MSet(m, p[1], p[2], w)) = [MFlat(m) EXCEPT ![MSlot(m, p[1], p[2]) + 1] = w]

\* the views agree with each other: section of section, matrix rows/columns, files
Views ==
  /\ \A p \in Nodes(m), k \in 0..(m.nv - 1) :
       /\ MXsecX(m, p[1]).vars[p[2] + 1][k + 1] = MXsecY(m, p[2]).vars[p[1] + 1][k + 1]
       /\ At(MVarMatrix(m, k), p[1], p[2]) = MXsecX(m, p[1]).vars[p[2] + 1][k + 1]
       /\ MOutputVar(m, k)[p[2] * (MNX(m) + 1) + p[1] + 1] = MLineVar(m, p[1], p[2], k)
       /\ MOutput(m)[p[2] * (MNX(m) + 1) + p[1] + 1] = MLine(m, p[1], p[2])
  /\ \A k \in 0..(m.nv - 1) : /\ \A a \in 0..(MNX(m) - 1) : GetRow(MVarMatrix(m, k), a) = [b \in 1..MNY(m) |-> MXsecX(m, a).vars[b][k + 1]]
                              /\ \A b \in 0..(MNY(m) - 1) : GetCol(MVarMatrix(m, k), b) = [a \in 1..MNX(m) |-> MXsecY(m, b).vars[a][k + 1]]
                              /\ Len(MOutputVar(m, k)) = Len(MOutput(m))

(* ---------------- quadrature: independent definitions ---------------- *)
FV(M, k, i, j) == M.vars[i][j][k + 1]
\* sum over the cells of dx dy (f00 + f10 + f01 + f11)
CellForm(M, k) == SumSeq([n \in 1..MCells(M) |->
                    LET i == ((n - 1) \div (MNY(M) - 1)) + 1
                        j == ((n - 1) % (MNY(M) - 1)) + 1
                    IN (M.xn[i + 1] - M.xn[i]) * (M.yn[j + 1] - M.yn[j])
                       * (FV(M, k, i, j) + FV(M, k, i + 1, j) + FV(M, k, i, j + 1) + FV(M, k, i + 1, j + 1))])
\* nodal weights (doubled): w_k = x_{k+1} - x_{k-1}, one-sided at the ends
W(xn, k) == (IF k < Len(xn) THEN xn[k + 1] ELSE xn[k]) - (IF k > 1 THEN xn[k - 1] ELSE xn[k])
WeightForm(M, val(_, _)) == SumSeq([n \in 1..(MNX(M) * MNY(M)) |->
                              LET i == ((n - 1) \div MNY(M)) + 1
                                  j == ((n - 1) % MNY(M)) + 1
                              IN W(M.xn, i) * W(M.yn, j) * val(i, j)])
Transposed(M) == [M EXCEPT !.xn = M.yn, !.yn = M.xn, !.vars = [j \in 1..MNY(M) |-> [i \in 1..MNX(M) |-> M.vars[i][j]]]]
SubX(M, a, b) == [M EXCEPT !.xn = SubSeq(M.xn, a, b), !.vars = SubSeq(M.vars, a, b)]
SubY(M, a, b) == [M EXCEPT !.yn = SubSeq(M.yn, a, b), !.vars = [i \in 1..MNX(M) |-> SubSeq(M.vars[i], a, b)]]
Span(xn) == IF xn = <<>> THEN 0 ELSE xn[Len(xn)] - xn[1]
SqSpan(xn) == IF xn = <<>> THEN 0 ELSE xn[Len(xn)] * xn[Len(xn)] - xn[1] * xn[1]
\* 4 * int int (a + b x + c y + e x y) dx dy over the grid rectangle
BilInt4(M, a, b, c, e) == 4 * a * Span(M.xn) * Span(M.yn) + 2 * b * SqSpan(M.xn) * Span(M.yn)
                          + 2 * c * Span(M.xn) * SqSpan(M.yn) + e * SqSpan(M.xn) * SqSpan(M.yn)
BilCo == {<<1, 0, 0, 0>>, <<0, 1, 0, 0>>, <<0, 0, 1, 0>>, <<0, 0, 0, 1>>, <<2, -1, 3, -2>>}
Quad ==
  ~m.cx =>
    \A k \in 0..(m.nv - 1) :
      /\ MTrap4(m, k) = CellForm(m, k)
      /\ MTrap4(m, k) = WeightForm(m, LAMBDA i, j : FV(m, k, i, j))
      /\ MTrap4(Transposed(m), k) = MTrap4(m, k)
      /\ MSqTrap4(m, k) = WeightForm(m, LAMBDA i, j : FV(m, k, i, j) * FV(m, k, i, j))
      /\ MSqTrap4(m, k) >= 0
      /\ (MCells(m) = 0 => MTrap4(m, k) = 0 /\ MSqTrap4(m, k) = 0)
      \* additivity over every split of the grid at an x-node / a y-node
      /\ \A a \in 1..MNX(m) : /\ MTrap4(m, k) = MTrap4(SubX(m, 1, a), k) + MTrap4(SubX(m, a, MNX(m)), k)
                              /\ MSqTrap4(m, k) = MSqTrap4(SubX(m, 1, a), k) + MSqTrap4(SubX(m, a, MNX(m)), k)
      /\ \A b \in 1..MNY(m) : /\ MTrap4(m, k) = MTrap4(SubY(m, 1, b), k) + MTrap4(SubY(m, b, MNY(m)), k)
                              /\ MSqTrap4(m, k) = MSqTrap4(SubY(m, 1, b), k) + MSqTrap4(SubY(m, b, MNY(m)), k)
      \* a constant integrates to constant * area, its square to constant^2 * area
      /\ \A c \in Vals : /\ MTrap4(MAssign(m, c), k) = 4 * c * Span(m.xn) * Span(m.yn)
                         /\ MSqTrap4(MAssign(m, c), k) = 4 * c * c * Span(m.xn) * Span(m.yn)
      \* exact for bilinear integrands; the other variables keep their integrals
      /\ \A co \in BilCo :
           LET A == MApply(m, LAMBDA X, Y : co[1] + co[2] * X + co[3] * Y + co[4] * X * Y, k)
           IN /\ MTrap4(A, k) = BilInt4(m, co[1], co[2], co[3], co[4])
              /\ \A k2 \in 0..(m.nv - 1) : k2 # k => MTrap4(A, k2) = MTrap4(m, k2) /\ MSqTrap4(A, k2) = MSqTrap4(m, k2)

\* spec -> implementation: one case per history of full length
EmitCase == (Emit /\ d = Depth) =>
              PrintT(<<"CASE", ToJson([cx |-> m.cx, xn |-> m.xn, yn |-> m.yn, nv |-> m.nv, ops |-> hist])>>)
=============================================================================
