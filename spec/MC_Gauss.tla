------------------------------ MODULE MC_Gauss ------------------------------
(* Design check and case generator for Gauss.tla (C01, C02).                            *)
(*  Mode = "solve": every NONSINGULAR integer system (A, b) of the scope is put through *)
(*     Gaussian elimination with partial pivoting and then through the LU solver; every *)
(*     maximal-magnitude pivot choice (ties) is explored.  The solution is compared in  *)
(*     every state with Cramer's rule over Leibniz determinants (independent of any     *)
(*     elimination).                                                                    *)
(*  Mode = "det": EVERY matrix of the scope, singular ones included, is factorised;     *)
(*     the determinant must equal the Leibniz determinant; nonsingular matrices are     *)
(*     inverted column by column and both products must be the identity.                *)
(*  Emit = TRUE: no steps are taken; every initial state is printed as one JSON case    *)
(*     (with the expected exact result) that the harness runs on the real crate.        *)
(*  Skip = FALSE reproduces defect D6 (division by a zero pivot column).                *)
EXTENDS Gauss, TLC, Json
CONSTANTS Mode, Scope, Skip, Emit
VARIABLE st
vars == <<st>>

Mats(n, V) == [1..n -> [1..n -> V]]
Vecs(n, V) == [1..n -> V]
\* n = 3 with the first row fixed (quick tier): a zero leading pivot that forces an exchange, and a tie
FixedFirstRow(M) == <<M[1][1], M[1][2], M[1][3]>> \in {<<0, 1, -1>>, <<1, -1, 0>>}

\* 4x4 unit upper triangular matrices over {-1,0,1}; their row permutations need an exchange at every step
UpperPairs4 == {ij \in (1..4) \X (1..4) : ij[1] < ij[2]}
UnitUpper4 == {[i \in 1..4 |-> [j \in 1..4 |-> IF i = j THEN 1 ELSE IF i > j THEN 0 ELSE u[<<i, j>>]]] : u \in [UpperPairs4 -> {-1, 0, 1}]}
\* ---- scopes: sets of <<n, A, b>> ----
SolveSystems ==
  CASE Scope = "quick" ->
         {<<1, M, b>> : M \in Mats(1, -3..3), b \in Vecs(1, -2..2)}
         \cup {<<2, M, b>> : M \in Mats(2, -2..2), b \in {<<1, 0>>, <<1, -2>>, <<2, 2>>}}
         \cup {<<3, M, b>> : M \in {X \in Mats(3, {-1, 0, 1}) : FixedFirstRow(X)}, b \in {<<1, 0, -1>>, <<1, 1, 1>>}}
    [] Scope = "thorough" ->
         {<<1, M, b>> : M \in Mats(1, -3..3), b \in Vecs(1, -2..2)}
         \cup {<<2, M, b>> : M \in Mats(2, -2..2), b \in Vecs(2, -2..2)}
         \cup {<<3, M, b>> : M \in Mats(3, {-1, 0, 1}), b \in {<<1, 0, -1>>, <<1, 1, 1>>}}
    [] Scope = "n4" -> {<<4, [i \in 1..4 |-> T[p[i]]], <<1, -1, 2, 0>>>> : T \in UnitUpper4, p \in Perms(4)}
    [] Scope = "tiny" -> {<<2, M, b>> : M \in Mats(2, -1..1), b \in {<<1, -1>>}}
DetMatrices ==
  CASE Scope = "quick" ->
         {<<1, M, <<0>>>> : M \in Mats(1, -3..3)}
         \cup {<<2, M, <<0, 0>>>> : M \in Mats(2, -3..3)}
         \cup {<<3, M, <<0, 0, 0>>>> : M \in {X \in Mats(3, {-1, 0, 1}) : X[1][1] = 0 /\ X[1][2] # -1}}
    [] Scope = "thorough" ->
         {<<1, M, <<0>>>> : M \in Mats(1, -3..3)}
         \cup {<<2, M, <<0, 0>>>> : M \in Mats(2, -3..3)}
         \cup {<<3, M, <<0, 0, 0>>>> : M \in Mats(3, {-1, 0, 1})}
    [] Scope = "tiny" -> {<<2, M, <<0, 0>>>> : M \in Mats(2, -1..1)}

Init == \E t \in (IF Mode = "solve" THEN SolveSystems ELSE DetMatrices) :
          /\ st = InitState(t[1], t[2], t[3], Mode)
          /\ (Mode = "solve" => st.det0 # 0)
\* final states stutter, so that TLC's deadlock check reports exactly a machine that gets stuck half-way
Final == {"sdone", "idone"}
Next == /\ ~Emit
        /\ IF st.pc \in Final THEN st' = st ELSE st' \in Succ(st, Skip)
Spec == Init /\ [][Next]_vars

(* ---------------- invariants ---------------- *)
Inv_Preserved == Preserved(st)
Inv_NonzeroPivot == NonzeroPivot(st)
Inv_MultipliersBounded == MultipliersBounded(st)
Inv_Solved == Solved(st)
Inv_Agree == Agree(st)
Inv_LU == LUFactors(st)
Inv_Det == DetOk(st)
Inv_Inverse == InverseOk(st)
\* the fraction-free determinant used by the trace specification is the Leibniz determinant
Inv_Bareiss == st.pc \in {"pivot", "lupivot", "back"} => Bareiss(st.A0, st.n) = st.det0
\* the cross-multiplied residual predicate accepts the true solution and rejects a perturbed one
Inv_SolvesPredicate ==
  (st.mode = "solve" /\ st.pc \in {"gdone", "sdone"}) =>
     /\ Solves(st.A0, st.xs, st.b0, st.n)
     /\ ~Solves(st.A0, [st.xs EXCEPT ![1] = RAdd(st.xs[1], ROne)], st.b0, st.n)
\* bookkeeping: exchange counters agree with the permutation actually applied
Inv_Counts == st.piv \in 0..st.n /\ st.swaps \in 0..st.n

(* ---------------- spec -> implementation: one case per initial state ---------------- *)
Flat(M, n) == [m \in 1..(n * n) |-> M[((m - 1) \div n) + 1][((m - 1) % n) + 1]]
JMat(M, n) == [r |-> n, c |-> n, d |-> Flat(M, n)]
EmitCase ==
  (Emit /\ st.pc \in {"pivot", "back", "lupivot"} /\ st.piv = 0 /\ st.swaps = 0) =>
    IF st.mode = "solve"
      THEN PrintT(<<"CASE", ToJson([kind |-> "solve", n |-> st.n, a |-> JMat(st.A0, st.n), b |-> st.b0, want |-> st.xs])>>)
      ELSE PrintT(<<"CASE", ToJson([kind |-> "det", n |-> st.n, a |-> JMat(st.A0, st.n), wdet |-> st.det0,
                                     sing |-> (st.det0 = 0)])>>)
=============================================================================
