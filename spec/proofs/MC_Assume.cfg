CHECK_DEADLOCK FALSE
