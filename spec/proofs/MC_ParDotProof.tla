--------------------------- MODULE MC_ParDotProof ---------------------------
(* TLC: the definitions restated in ParDotProof.tla agree with spec/ParDot.tla (Rule = "code") *)
(* on 0..40 x 1..14, and the proved statements imply ParDot's Covers / InOrder there.          *)
EXTENDS Integers, FiniteSets
VARIABLES len, nt, spawned, wpc, pos, acc, joined, result, mpc
P == INSTANCE ParDot WITH MaxLen <- 8, MaxThreads <- 4, Rule <- "code", JoinOrder <- "spawn"
Q == INSTANCE ParDotProof
ASSUME \A l \in 0..40, n \in 1..14 :
         /\ P!CS(l, n) = Q!CS(l, n)
         /\ \A i \in 0..(n - 1) : P!Start(i, l, n) = Q!Start(i, l, n) /\ P!End(i, l, n) = Q!End(i, l, n)
         /\ P!Covers(l, n) /\ P!InOrder(l, n)
         \* the proved form (exists-unique) and ParDot's form (cardinality 1) say the same
         /\ \A j \in 0..(l - 1) : (Cardinality({i \in 0..(n - 1) : Q!InRange(j, i, l, n)}) = 1)
                                   <=> (\E i \in 0..(n - 1) : Q!InRange(j, i, l, n) /\ \A i2 \in 0..(n - 1) : Q!InRange(j, i2, l, n) => i2 = i)
\* ParDot.tla declares variables; a one-state behaviour so that TLC evaluates the ASSUME
vs == <<len, nt, spawned, wpc, pos, acc, joined, result, mpc>>
MCInit == len = 0 /\ nt = 1 /\ spawned = 0 /\ wpc = 0 /\ pos = 0 /\ acc = 0 /\ joined = 0 /\ result = 0 /\ mpc = 0
MCNext == UNCHANGED vs
=============================================================================
