------------------------- MODULE MC_DenseLayoutProof -------------------------
(* TLC: the definitions restated in DenseLayoutProof.tla agree with spec/Dense.tla on every *)
(* shape 0..5 x 0..5, and the proved statements hold there when evaluated.                  *)
EXTENDS Integers, Sequences
D == INSTANCE Dense
Q == INSTANCE DenseLayoutProof
F(i, j) == 100 * i + j + 7
ASSUME \A r \in 0..5, c \in 0..5 :
         LET M == D!Mk(r, c, F) IN
         /\ M = Q!Mk(r, c, F)
         /\ D!Transpose(M) = Q!Transpose(M)
         /\ D!Transpose(D!Transpose(M)) = M
         /\ \A i \in 0..(r - 1), j \in 0..(c - 1) :
              /\ D!At(M, i, j) = Q!At(M, i, j) /\ D!At(M, i, j) = M.d[Q!Slot(i, j, c) + 1] /\ D!At(M, i, j) = F(i, j)
              /\ Q!Slot(i, j, c) \in 0..(r * c - 1) /\ Q!RowOf(Q!Slot(i, j, c), c) = i /\ Q!ColOf(Q!Slot(i, j, c), c) = j
         /\ \A s \in 0..(r * c - 1) : /\ M.d[s + 1] = F(Q!RowOf(s, c), Q!ColOf(s, c))
                                      /\ Q!Slot(Q!RowOf(s, c), Q!ColOf(s, c), c) = s
                                      /\ Q!TIdx(Q!TIdx(s, r, c), c, r) = s
                                      /\ D!Transpose(M).d[Q!TIdx(s, r, c) + 1] = M.d[s + 1]
=============================================================================
