------------------------- MODULE MC_BandedIndexProof -------------------------
(* TLC: the definitions restated in BandedIndexProof.tla agree with spec/Banded.tla on every *)
(* n in 0..5, m1, m2 in 0..3, and the proved statements hold there when evaluated.           *)
EXTENDS Integers, Sequences
Bn == INSTANCE Banded
Q == INSTANCE BandedIndexProof
ASSUME \A n \in 0..5, m1 \in 0..3, m2 \in 0..3 :
         LET B == Bn!BNew(n, m1, m2, 7) IN
         /\ Bn!WellFormedB(B) /\ Q!Shape(B)
         /\ Bn!MMof(B) = Q!MMof(B) /\ Bn!BandPos(B) = Q!BandPos(B) /\ Bn!EntrySlots(B) = Q!EntrySlots(B)
         /\ Bn!IndexBijection(B) /\ Q!IndexBijection(B)
         /\ \A p \in Q!BandPos(B) : /\ Bn!SlotCol(B, p[1], p[2]) = Q!SlotCol(B, p[1], p[2])
                                    /\ Bn!InBand(B, p[1], p[2])
                                    /\ Bn!BGet(B, p[1], p[2]) = B.c.d[Q!Flat(B, p[1], p[2]) + 1]
                                    /\ Q!Flat(B, p[1], p[2]) \in 0..(n * Q!MMof(B) - 1)
         /\ \A p, q \in Q!BandPos(B) : Q!Flat(B, p[1], p[2]) = Q!Flat(B, q[1], q[2]) => p = q
=============================================================================
