INIT MCInit
NEXT MCNext
CHECK_DEADLOCK FALSE
