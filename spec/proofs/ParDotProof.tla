---------------------------- MODULE ParDotProof ----------------------------
(* Unbounded version of the partition lemma of spec/ParDot.tla (C16), Rule = "code":     *)
(* for ALL l \in Nat (vector length) and n \in Nat \ {0} (worker count) the index ranges *)
(* [Start(i), End(i)) of the workers 0..n-1 are well-formed, consecutive, pairwise       *)
(* disjoint and cover 0..l-1: every index is summed by exactly one worker (n > l         *)
(* included: then CS = 0, the first n-1 workers get nothing, the last one everything).   *)
(* CS, Start, End are ParDot.tla's definitions with Rule = "code" substituted            *)
(* (MC_ParDotProof.tla checks the agreement with the original module by TLC).            *)
EXTENDS Integers, TLAPS

CS(l, n) == l \div n
Start(i, l, n) == i * CS(l, n)
End(i, l, n) == IF i = n - 1 THEN l ELSE (i + 1) * CS(l, n)
InRange(j, i, l, n) == Start(i, l, n) <= j /\ j < End(i, l, n)

\* the two facts about integer division that are used (SMT knows \div and % for a positive divisor)
LEMMA DivFacts == \A l \in Nat, n \in Nat \ {0} : /\ l \div n \in Nat
                                                  /\ n * (l \div n) <= l
                                                  /\ l < n * (l \div n) + n
  OBVIOUS

\* monotonicity of multiplication by a natural number (non-linear: stated once, used by name)
LEMMA MulMono == \A a, b, q \in Nat : a <= b => a * q <= b * q
  OBVIOUS

THEOREM WellFormed ==
  \A l \in Nat, n \in Nat \ {0} : \A i \in 0..(n - 1) :
     /\ Start(i, l, n) \in Nat /\ End(i, l, n) \in Nat
     /\ Start(i, l, n) <= End(i, l, n) /\ End(i, l, n) <= l
PROOF
  <1> SUFFICES ASSUME NEW l \in Nat, NEW n \in Nat \ {0}, NEW i \in 0..(n - 1)
               PROVE  /\ Start(i, l, n) \in Nat /\ End(i, l, n) \in Nat
                      /\ Start(i, l, n) <= End(i, l, n) /\ End(i, l, n) <= l
    OBVIOUS
  <1> DEFINE q == l \div n
  <1>1. q \in Nat /\ n * q <= l  BY DivFacts
  <1>2. i * q \in Nat /\ (i + 1) * q \in Nat /\ i * q <= (i + 1) * q  BY <1>1, MulMono
  <1>3. (i + 1) * q <= n * q  BY <1>1, MulMono
  <1>4. i * q <= l  BY <1>1, <1>2, <1>3
  <1> QED BY <1>1, <1>2, <1>3, <1>4 DEF Start, End, CS

THEOREM Consecutive ==
  \A l \in Nat, n \in Nat \ {0} :
     /\ Start(0, l, n) = 0 /\ End(n - 1, l, n) = l
     /\ \A i \in 0..(n - 2) : End(i, l, n) = Start(i + 1, l, n)
  BY DivFacts DEF Start, End, CS

\* pairwise disjoint: an index lies in the range of at most one worker
LEMMA DisjointLt ==
  \A l \in Nat, n \in Nat \ {0} : \A i1, i2 \in 0..(n - 1) : \A j \in Int :
     InRange(j, i1, l, n) /\ InRange(j, i2, l, n) => ~(i1 < i2)
PROOF
  <1> SUFFICES ASSUME NEW l \in Nat, NEW n \in Nat \ {0}, NEW i1 \in 0..(n - 1), NEW i2 \in 0..(n - 1), NEW j \in Int,
                      InRange(j, i1, l, n), InRange(j, i2, l, n), i1 < i2
               PROVE  FALSE
    OBVIOUS
  <1> DEFINE q == l \div n
  <1>1. q \in Nat  BY DivFacts
  <1>2. i1 # n - 1  OBVIOUS
  <1>3. j < (i1 + 1) * q  BY <1>2 DEF InRange, End, CS
  <1>4. i2 * q <= j  BY DEF InRange, Start, CS
  <1>5. (i1 + 1) * q <= i2 * q  BY <1>1, MulMono
  <1>6. (i1 + 1) * q \in Int /\ i2 * q \in Int  BY <1>1
  <1> QED BY <1>3, <1>4, <1>5, <1>6

THEOREM Disjoint ==
  \A l \in Nat, n \in Nat \ {0} : \A i1, i2 \in 0..(n - 1) : \A j \in Int :
     InRange(j, i1, l, n) /\ InRange(j, i2, l, n) => i1 = i2
PROOF
  <1> SUFFICES ASSUME NEW l \in Nat, NEW n \in Nat \ {0}, NEW i1 \in 0..(n - 1), NEW i2 \in 0..(n - 1), NEW j \in Int,
                      InRange(j, i1, l, n), InRange(j, i2, l, n)
               PROVE  i1 = i2
    OBVIOUS
  <1>1. ~(i1 < i2)  BY DisjointLt
  <1>2. ~(i2 < i1)  BY DisjointLt
  <1> QED BY <1>1, <1>2

\* cover: every index 0..l-1 lies in the range of some worker
THEOREM Cover ==
  \A l \in Nat, n \in Nat \ {0} : \A j \in 0..(l - 1) : \E i \in 0..(n - 1) : InRange(j, i, l, n)
PROOF
  <1> SUFFICES ASSUME NEW l \in Nat, NEW n \in Nat \ {0}, NEW j \in 0..(l - 1)
               PROVE  \E i \in 0..(n - 1) : InRange(j, i, l, n)
    OBVIOUS
  <1> DEFINE q == l \div n
  <1>1. q \in Nat  BY DivFacts
  <1>2. CASE (n - 1) * q <= j
    <2>1. InRange(j, n - 1, l, n)  BY <1>2 DEF InRange, Start, End, CS
    <2> QED BY <2>1
  <1>3. CASE j < (n - 1) * q
    <2>1. q > 0  BY <1>1, <1>3
    <2> DEFINE i == j \div q
    <2>2. i \in Nat /\ q * i <= j /\ j < q * i + q  BY <1>1, <2>1, DivFacts
    <2>3. i * q = q * i /\ (i + 1) * q = q * i + q  BY <1>1, <2>2
    <2>4. i < n - 1
      <3>1. ASSUME i >= n - 1 PROVE FALSE
        <4>0. n - 1 \in Nat /\ n - 1 <= i  BY <3>1, <2>2
        <4>1. (n - 1) * q <= i * q  BY <4>0, <1>1, <2>2, MulMono
        <4>2. (n - 1) * q \in Int /\ i * q \in Int /\ q * i \in Int  BY <4>0, <1>1, <2>2
        <4>3. i * q <= j  BY <2>2, <2>3
        <4> QED BY <4>1, <4>2, <4>3, <1>3
      <3> QED BY <3>1, <2>2
    <2>5. InRange(j, i, l, n)  BY <2>2, <2>3, <2>4 DEF InRange, Start, End, CS
    <2> QED BY <2>4, <2>5, <2>2
  <1> QED BY <1>2, <1>3, <1>1

\* every index is summed exactly once
THEOREM ExactlyOnce ==
  \A l \in Nat, n \in Nat \ {0} : \A j \in 0..(l - 1) :
     \E i \in 0..(n - 1) : /\ InRange(j, i, l, n)
                           /\ \A i2 \in 0..(n - 1) : InRange(j, i2, l, n) => i2 = i
PROOF
  <1> SUFFICES ASSUME NEW l \in Nat, NEW n \in Nat \ {0}, NEW j \in 0..(l - 1)
               PROVE  \E i \in 0..(n - 1) : /\ InRange(j, i, l, n)
                                             /\ \A i2 \in 0..(n - 1) : InRange(j, i2, l, n) => i2 = i
    OBVIOUS
  <1>1. PICK i \in 0..(n - 1) : InRange(j, i, l, n)  BY Cover
  <1>2. j \in Int  OBVIOUS
  <1>3. \A i2 \in 0..(n - 1) : InRange(j, i2, l, n) => i2 = i  BY <1>1, <1>2, Disjoint
  <1> QED BY <1>1, <1>3
=============================================================================
