-------------------------- MODULE DenseLayoutProof --------------------------
(* Unbounded version of the row-major layout facts of spec/Dense.tla (C03).               *)
(* Dense.tla stores an r x c matrix as d[1..r*c] with  At(M, i, j) == M.d[i * M.c + j + 1] *)
(* and builds it with  Mk(r, c, F): d[n] = F((n - 1) \div c, (n - 1) % c).                 *)
(* With the 0-based slot s = n - 1:  Slot(i, j, c) = i * c + j,  RowOf(s, c) = s \div c,   *)
(* ColOf(s, c) = s % c.  Proved for ALL r, c \in Nat:                                      *)
(*   Into / LeftInverse / Onto : (i, j) |-> Slot(i, j, c) is a bijection from              *)
(*        (0..r-1) x (0..c-1) onto 0..r*c-1 with inverse s |-> (RowOf(s, c), ColOf(s, c))  *)
(*   MkAt : At(Mk(r, c, F), i, j) = F(i, j) for every in-range (i, j) and every F          *)
(*   TransposeTwice : on the index level, transposing twice is the identity; and           *)
(*        At(Transpose(Transpose(M)), i, j) = At(M, i, j) with the shape restored          *)
EXTENDS Integers, Sequences, TLAPS

Slot(i, j, c) == i * c + j
RowOf(s, c) == s \div c
ColOf(s, c) == s % c

\* verbatim from spec/Dense.tla
Mk(r, c, F(_, _)) == [r |-> r, c |-> c, d |-> [n \in 1..(r * c) |-> F((n - 1) \div c, (n - 1) % c)]]
At(M, i, j) == M.d[i * M.c + j + 1]
Transpose(M) == Mk(M.c, M.r, LAMBDA a, b : At(M, b, a))

LEMMA DivMod == \A s \in Nat, c \in Nat \ {0} : /\ s \div c \in Nat /\ s % c \in 0..(c - 1)
                                                /\ s = c * (s \div c) + (s % c)
PROOF
  <1> SUFFICES ASSUME NEW s \in Nat, NEW c \in Nat \ {0}
               PROVE  s \div c \in Nat /\ s % c \in 0..(c - 1) /\ s = c * (s \div c) + (s % c)
    OBVIOUS
  <1> DEFINE q == s \div c
  <1> DEFINE m == s % c
  <1>1. q \in Nat /\ m \in 0..(c - 1)  OBVIOUS
  <1>2. m = s - c * q  OBVIOUS
  <1>3. c * q \in Int  BY <1>1
  <1> HIDE DEF q, m
  <1>4. q \in Nat /\ m \in 0..(c - 1) /\ s = c * q + m  BY <1>1, <1>2, <1>3
  <1> QED BY <1>4 DEF q, m
LEMMA MulMono == \A a, b, q \in Nat : a <= b => a * q <= b * q
  OBVIOUS
LEMMA MulNat == \A a, b \in Nat : a * b \in Nat
  OBVIOUS

\* quotient and remainder are unique
LEMMA DivUnique == \A c \in Nat \ {0}, i \in Nat : \A j \in 0..(c - 1) : (i * c + j) \div c = i /\ (i * c + j) % c = j
PROOF
  <1> SUFFICES ASSUME NEW c \in Nat \ {0}, NEW i \in Nat, NEW j \in 0..(c - 1)
               PROVE  (i * c + j) \div c = i /\ (i * c + j) % c = j
    OBVIOUS
  <1> DEFINE s == i * c + j
  <1> DEFINE q == s \div c
  <1> DEFINE m == s % c
  <1>0. i * c \in Nat /\ s \in Nat  BY MulNat
  <1>1. q \in Nat /\ m \in 0..(c - 1) /\ s = c * q + m  BY <1>0, DivMod
  <1>2. q \in Nat  BY <1>1
  <1>3. c * q = q * c /\ q * c \in Nat  BY <1>2, MulNat
  <1>4. ~(q < i)
    <2>1. ASSUME q < i PROVE FALSE
      <3>1. (q + 1) * c <= i * c  BY <2>1, <1>2, MulMono
      <3>2. (q + 1) * c = q * c + c  BY <1>2
      <3> QED BY <3>1, <3>2, <1>1, <1>3, <1>0
    <2> QED BY <2>1
  <1>5. ~(i < q)
    <2>1. ASSUME i < q PROVE FALSE
      <3>1. (i + 1) * c <= q * c  BY <2>1, <1>2, MulMono
      <3>2. (i + 1) * c = i * c + c  BY <1>0
      <3> QED BY <3>1, <3>2, <1>1, <1>3, <1>0
    <2> QED BY <2>1
  <1>6. q = i  BY <1>4, <1>5, <1>2
  <1> QED BY <1>6, <1>1, <1>3, <1>0

THEOREM Into == \A r, c \in Nat : \A i \in 0..(r - 1), j \in 0..(c - 1) : Slot(i, j, c) \in 0..(r * c - 1)
PROOF
  <1> SUFFICES ASSUME NEW r \in Nat, NEW c \in Nat, NEW i \in 0..(r - 1), NEW j \in 0..(c - 1)
               PROVE  i * c + j \in 0..(r * c - 1)
    BY DEF Slot
  <1>1. i * c \in Nat /\ r * c \in Nat  BY MulNat
  <1>2. (i + 1) * c <= r * c  BY MulMono
  <1>3. (i + 1) * c = i * c + c  BY <1>1
  <1> QED BY <1>1, <1>2, <1>3

THEOREM LeftInverse == \A r, c \in Nat : \A i \in 0..(r - 1), j \in 0..(c - 1) :
                          RowOf(Slot(i, j, c), c) = i /\ ColOf(Slot(i, j, c), c) = j
  BY DivUnique DEF Slot, RowOf, ColOf

THEOREM Injective == \A r, c \in Nat : \A i1, i2 \in 0..(r - 1), j1, j2 \in 0..(c - 1) :
                        Slot(i1, j1, c) = Slot(i2, j2, c) => i1 = i2 /\ j1 = j2
  BY LeftInverse

THEOREM Onto == \A r, c \in Nat : \A s \in 0..(r * c - 1) :
                   /\ RowOf(s, c) \in 0..(r - 1) /\ ColOf(s, c) \in 0..(c - 1)
                   /\ Slot(RowOf(s, c), ColOf(s, c), c) = s
PROOF
  <1> SUFFICES ASSUME NEW r \in Nat, NEW c \in Nat, NEW s \in 0..(r * c - 1)
               PROVE  /\ s \div c \in 0..(r - 1) /\ s % c \in 0..(c - 1) /\ (s \div c) * c + (s % c) = s
    BY DEF Slot, RowOf, ColOf
  <1>0. r * c \in Nat  BY MulNat
  <1>1. c # 0  BY <1>0
  <1> DEFINE q == s \div c
  <1> DEFINE m == s % c
  <1>2. q \in Nat /\ m \in 0..(c - 1) /\ s = c * q + m  BY <1>1, DivMod
  <1>3. q \in Nat  BY <1>2
  <1>4. c * q = q * c /\ q * c \in Nat  BY <1>3, MulNat
  <1>5. q < r
    <2>1. ASSUME r <= q PROVE FALSE
      <3>1. r * c <= q * c  BY <2>1, <1>3, MulMono
      <3> QED BY <3>1, <1>2, <1>4, <1>0
    <2> QED BY <2>1, <1>3
  <1> HIDE DEF q, m
  <1>6. q \in 0..(r - 1) /\ m \in 0..(c - 1) /\ q * c + m = s  BY <1>2, <1>3, <1>4, <1>5
  <1> QED BY <1>6 DEF q, m

THEOREM MkAt == ASSUME NEW r \in Nat, NEW c \in Nat, NEW i \in 0..(r - 1), NEW j \in 0..(c - 1), NEW F(_, _)
                PROVE  At(Mk(r, c, F), i, j) = F(i, j)
PROOF
  <1> DEFINE n == i * c + j + 1
  <1>1. i * c + j \in 0..(r * c - 1)  BY Into DEF Slot
  <1>2. n \in 1..(r * c) /\ n - 1 = i * c + j  BY <1>1
  <1>3. (n - 1) \div c = i /\ (n - 1) % c = j  BY <1>2, DivUnique
  <1>4. Mk(r, c, F).c = c /\ Mk(r, c, F).d[n] = F((n - 1) \div c, (n - 1) % c)  BY <1>2 DEF Mk
  <1> QED BY <1>3, <1>4 DEF At

\* the slot of element s (0-based) of an r x c matrix after transposition (a c x r matrix)
TIdx(s, r, c) == Slot(ColOf(s, c), RowOf(s, c), r)
THEOREM TransposeTwiceIdx == \A r, c \in Nat : \A s \in 0..(r * c - 1) :
                                TIdx(s, r, c) \in 0..(c * r - 1) /\ TIdx(TIdx(s, r, c), c, r) = s
PROOF
  <1> SUFFICES ASSUME NEW r \in Nat, NEW c \in Nat, NEW s \in 0..(r * c - 1)
               PROVE  TIdx(s, r, c) \in 0..(c * r - 1) /\ TIdx(TIdx(s, r, c), c, r) = s
    OBVIOUS
  <1> DEFINE i == RowOf(s, c)
  <1> DEFINE j == ColOf(s, c)
  <1>1. i \in 0..(r - 1) /\ j \in 0..(c - 1) /\ Slot(i, j, c) = s  BY Onto
  <1>2. TIdx(s, r, c) = Slot(j, i, r)  BY DEF TIdx
  <1>3. Slot(j, i, r) \in 0..(c * r - 1)  BY <1>1, Into
  <1>4. RowOf(Slot(j, i, r), r) = j /\ ColOf(Slot(j, i, r), r) = i  BY <1>1, LeftInverse
  <1>5. TIdx(Slot(j, i, r), c, r) = Slot(i, j, c)  BY <1>4 DEF TIdx
  <1> QED BY <1>1, <1>2, <1>3, <1>5

THEOREM TransposeTwice ==
  \A M : (M.r \in Nat /\ M.c \in Nat) =>
     /\ Transpose(Transpose(M)).r = M.r /\ Transpose(Transpose(M)).c = M.c
     /\ \A i \in 0..(M.r - 1), j \in 0..(M.c - 1) : At(Transpose(Transpose(M)), i, j) = At(M, i, j)
PROOF
  <1> SUFFICES ASSUME NEW M, M.r \in Nat, M.c \in Nat
               PROVE  /\ Transpose(Transpose(M)).r = M.r /\ Transpose(Transpose(M)).c = M.c
                      /\ \A i \in 0..(M.r - 1), j \in 0..(M.c - 1) : At(Transpose(Transpose(M)), i, j) = At(M, i, j)
    OBVIOUS
  <1> DEFINE T == Transpose(M)
  <1>1. T.r = M.c /\ T.c = M.r  BY DEF Transpose, Mk
  <1>2. Transpose(T).r = M.r /\ Transpose(T).c = M.c  BY <1>1 DEF Transpose, Mk
  <1>3. \A a \in 0..(M.c - 1), b \in 0..(M.r - 1) : At(T, a, b) = At(M, b, a)
    <2> TAKE a \in 0..(M.c - 1), b \in 0..(M.r - 1)
    <2> DEFINE G(x, y) == At(M, y, x)
    <2>1. T = Mk(M.c, M.r, G)  BY DEF Transpose
    <2>2. At(Mk(M.c, M.r, G), a, b) = G(a, b)  BY MkAt
    <2> QED BY <2>1, <2>2
  <1>4. \A i \in 0..(M.r - 1), j \in 0..(M.c - 1) : At(Transpose(T), i, j) = At(T, j, i)
    <2> TAKE i \in 0..(M.r - 1), j \in 0..(M.c - 1)
    <2> DEFINE H(x, y) == At(T, y, x)
    <2>1. Transpose(T) = Mk(M.r, M.c, H)  BY <1>1 DEF Transpose
    <2>2. At(Mk(M.r, M.c, H), i, j) = H(i, j)  BY MkAt
    <2> QED BY <2>1, <2>2
  <1> QED BY <1>2, <1>3, <1>4

=============================================================================
