--------------------------- MODULE CscColumnProof ---------------------------
(* Unbounded version of the column-ownership fact behind spec/SparseCSC.tla (C06): in a    *)
(* structured CSC value (column starts cs[1..cols+1] rising from 0 to the entry count nz)  *)
(* every stored position k \in 0..nz-1 belongs to EXACTLY ONE column: there is exactly one *)
(* j \in 1..cols with cs[j] <= k < cs[j+1] (column number j - 1) -- for ALL cols, nz and   *)
(* all such cs, empty columns included.  Also: cs is monotone over any distance.           *)
(* CsStructured is the column-start part of SparseCSC.tla's Structured(S), verbatim;       *)
(* Typed(S) adds what TLA+ leaves open: the sizes are naturals and the starts integers.    *)
EXTENDS Integers, Sequences, NaturalsInduction, TLAPS

CsStructured(S) == /\ S.cols >= 0 /\ S.nz >= 0
                   /\ Len(S.cs) = S.cols + 1 /\ S.cs[1] = 0 /\ S.cs[S.cols + 1] = S.nz
                   /\ \A k \in 1..S.cols : S.cs[k] <= S.cs[k + 1]
Typed(S) == S.cols \in Nat /\ S.nz \in Nat /\ \A k \in 1..(S.cols + 1) : S.cs[k] \in Int
\* position k (0-based, as the code walks cs[j] .. cs[j+1]-1) lies in the column with 1-based start index j
InCol(S, k, j) == S.cs[j] <= k /\ k < S.cs[j + 1]

THEOREM Monotone ==
  \A S : Typed(S) /\ CsStructured(S) => \A a, b \in 1..(S.cols + 1) : a <= b => S.cs[a] <= S.cs[b]
PROOF
  <1> SUFFICES ASSUME NEW S, Typed(S), CsStructured(S)
               PROVE  \A a, b \in 1..(S.cols + 1) : a <= b => S.cs[a] <= S.cs[b]
    OBVIOUS
  <1> DEFINE n == S.cols
  <1> DEFINE P(d) == \A a \in 1..(n + 1) : a + d <= n + 1 => S.cs[a] <= S.cs[a + d]
  <1>0. n \in Nat /\ \A k \in 1..(n + 1) : S.cs[k] \in Int  BY DEF Typed
  <1>1. P(0)  BY <1>0
  <1>2. \A d \in Nat : P(d) => P(d + 1)
    <2> TAKE d \in Nat
    <2> HAVE P(d)
    <2> TAKE a \in 1..(n + 1)
    <2> HAVE a + (d + 1) <= n + 1
    <2>1. S.cs[a] <= S.cs[a + d]  BY <1>0
    <2>2. a + d \in 1..n  BY <1>0
    <2>3. S.cs[a + d] <= S.cs[a + d + 1]  BY <2>2 DEF CsStructured
    <2>4. S.cs[a] \in Int /\ S.cs[a + d] \in Int /\ S.cs[a + d + 1] \in Int /\ a + (d + 1) = a + d + 1  BY <1>0, <2>2
    <2> QED BY <2>1, <2>3, <2>4
  <1> HIDE DEF P
  <1>3. \A d \in Nat : P(d)  BY <1>1, <1>2, NatInduction
  <1> TAKE a, b \in 1..(n + 1)
  <1> HAVE a <= b
  <1>4. b - a \in Nat /\ a + (b - a) = b /\ a + (b - a) <= n + 1  BY <1>0
  <1>5. P(b - a)  BY <1>3, <1>4
  <1> QED BY <1>4, <1>5 DEF P

THEOREM SomeColumn ==
  \A S : Typed(S) /\ CsStructured(S) => \A k \in 0..(S.nz - 1) : \E j \in 1..S.cols : InCol(S, k, j)
PROOF
  <1> SUFFICES ASSUME NEW S, Typed(S), CsStructured(S), NEW k \in 0..(S.nz - 1)
               PROVE  \E j \in 1..S.cols : InCol(S, k, j)
    OBVIOUS
  <1> DEFINE n == S.cols
  <1> DEFINE P(m) == (m <= n /\ k < S.cs[m + 1]) => \E j \in 1..m : InCol(S, k, j)
  <1>0. n \in Nat /\ S.nz \in Nat /\ \A i \in 1..(n + 1) : S.cs[i] \in Int  BY DEF Typed
  <1>1. P(0)  BY <1>0 DEF CsStructured
  <1>2. \A m \in Nat : P(m) => P(m + 1)
    <2> TAKE m \in Nat
    <2> HAVE P(m)
    <2> HAVE m + 1 <= n /\ k < S.cs[(m + 1) + 1]
    <2>1. m + 1 \in 1..n /\ S.cs[m + 1] \in Int  BY <1>0
    <2>2. CASE k < S.cs[m + 1]
      <3>0. m <= n  BY <1>0
      <3>1. \E j \in 1..m : InCol(S, k, j)  BY <3>0, <2>2
      <3> QED BY <3>1
    <2>3. CASE ~(k < S.cs[m + 1])
      <3>1. InCol(S, k, m + 1)  BY <2>3, <2>1 DEF InCol
      <3> QED BY <3>1, <2>1
    <2> QED BY <2>2, <2>3
  <1> HIDE DEF P
  <1>3. \A m \in Nat : P(m)  BY <1>1, <1>2, NatInduction
  <1>4. P(n)  BY <1>3, <1>0
  <1>5. k < S.cs[n + 1]  BY <1>0 DEF CsStructured
  <1> QED BY <1>4, <1>5, <1>0 DEF P

THEOREM OneColumn ==
  \A S : Typed(S) /\ CsStructured(S) =>
     \A k \in Int : \A j1, j2 \in 1..S.cols : InCol(S, k, j1) /\ InCol(S, k, j2) => j1 = j2
PROOF
  <1> SUFFICES ASSUME NEW S, Typed(S), CsStructured(S), NEW k \in Int, NEW j1 \in 1..S.cols, NEW j2 \in 1..S.cols,
                      InCol(S, k, j1), InCol(S, k, j2)
               PROVE  j1 = j2
    OBVIOUS
  <1>0. S.cols \in Nat /\ \A i \in 1..(S.cols + 1) : S.cs[i] \in Int  BY DEF Typed
  <1>1. ASSUME NEW a \in 1..S.cols, NEW b \in 1..S.cols, InCol(S, k, a), InCol(S, k, b), a < b PROVE FALSE
    <2>1. a + 1 \in 1..(S.cols + 1) /\ b \in 1..(S.cols + 1) /\ a + 1 <= b  BY <1>0, <1>1
    <2>2. S.cs[a + 1] <= S.cs[b]  BY <2>1, Monotone
    <2>3. S.cs[a + 1] \in Int /\ S.cs[b] \in Int  BY <2>1, <1>0
    <2> QED BY <2>2, <2>3, <1>1 DEF InCol
  <1>2. ~(j1 < j2)  BY <1>1
  <1>3. ~(j2 < j1)  BY <1>1
  <1> QED BY <1>2, <1>3, <1>0

THEOREM ExactlyOneColumn ==
  \A S : Typed(S) /\ CsStructured(S) =>
     \A k \in 0..(S.nz - 1) : \E j \in 1..S.cols : /\ InCol(S, k, j)
                                                   /\ \A j2 \in 1..S.cols : InCol(S, k, j2) => j2 = j
PROOF
  <1> SUFFICES ASSUME NEW S, Typed(S), CsStructured(S), NEW k \in 0..(S.nz - 1)
               PROVE  \E j \in 1..S.cols : InCol(S, k, j) /\ \A j2 \in 1..S.cols : InCol(S, k, j2) => j2 = j
    OBVIOUS
  <1>1. PICK j \in 1..S.cols : InCol(S, k, j)  BY SomeColumn
  <1>2. k \in Int  BY DEF Typed
  <1>3. \A j2 \in 1..S.cols : InCol(S, k, j2) => j2 = j  BY <1>1, <1>2, OneColumn
  <1> QED BY <1>1, <1>3
=============================================================================
