-------------------------- MODULE MC_CscColumnProof --------------------------
(* TLC: on every column-start vector with cols <= 4 and values 0..4, CsStructured is exactly *)
(* the column-start part of SparseCSC.tla's Structured, and InCol(S, k, j) says the same as  *)
(* the specification's column expansion ColIndex(S)[k + 1] = j - 1; the proved statements    *)
(* hold there when evaluated.                                                                *)
EXTENDS Integers, Sequences
X == INSTANCE SparseCSC
Q == INSTANCE CscColumnProof
MkS(cs) == LET nz == cs[Len(cs)] IN [rows |-> 3, cols |-> Len(cs) - 1, nz |-> nz, val |-> [m \in 1..nz |-> 1], ri |-> [m \in 1..nz |-> 0], cs |-> cs]
ASSUME \A c \in 0..4 : \A cs \in [1..(c + 1) -> 0..4] :
         LET S == MkS(cs) IN
         /\ Q!Typed(S)
         /\ X!Structured(S) <=> Q!CsStructured(S)
         /\ Q!CsStructured(S) =>
              /\ \A k \in 0..(S.nz - 1) : \A j \in 1..S.cols : Q!InCol(S, k, j) <=> (X!ColIndex(S)[k + 1] = j - 1)
              /\ \A k \in 0..(S.nz - 1) : \E j \in 1..S.cols : Q!InCol(S, k, j) /\ \A j2 \in 1..S.cols : Q!InCol(S, k, j2) => j2 = j
              /\ \A a, b \in 1..(S.cols + 1) : a <= b => S.cs[a] <= S.cs[b]
=============================================================================
