-------------------------- MODULE BandedIndexProof --------------------------
(* Unbounded version of IndexBijection of spec/Banded.tla (C04): for ALL n, m1, m2 \in Nat  *)
(* the compact-storage index map (i, j) |-> (i, m1 + j - i) is a bijection between the      *)
(* in-band positions of an n x n matrix with m1 sub- and m2 super-diagonals and the          *)
(* NON-PADDING slots of the n x (m1+m2+1) compact array: it never hits a padding slot, every *)
(* non-padding slot is hit, and two band positions never share a slot.  Combined with the    *)
(* row-major layout (DenseLayoutProof.tla): the FLAT offset i * (m1+m2+1) + (m1 + j - i) is  *)
(* in range and injective on the band.                                                       *)
(* The definitions are Banded.tla's (verbatim; MMof..IndexBijection take the record B).      *)
EXTENDS DenseLayoutProof

\* verbatim from spec/Banded.tla
MMof(B) == B.m1 + B.m2 + 1
InBandK(m1, m2, i, j) == j <= i + m2 /\ i <= j + m1
SlotCol(B, i, j) == B.m1 + j - i
SlotIsEntry(B, i, c) == LET j == i + c - B.m1 IN 0 <= j /\ j < B.n
BandPosK(n, m1, m2) == {p \in (0..(n - 1)) \X (0..(n - 1)) : InBandK(m1, m2, p[1], p[2])}
BandPos(B) == BandPosK(B.n, B.m1, B.m2)
EntrySlots(B) == {s \in (0..(B.n - 1)) \X (0..(MMof(B) - 1)) : SlotIsEntry(B, s[1], s[2])}
IndexBijection(B) ==
    /\ \A p \in BandPos(B) : <<p[1], SlotCol(B, p[1], p[2])>> \in EntrySlots(B)
    /\ \A s \in EntrySlots(B) : /\ <<s[1], s[1] + s[2] - B.m1>> \in BandPos(B)
                                /\ SlotCol(B, s[1], s[1] + s[2] - B.m1) = s[2]
    /\ \A p, q \in BandPos(B) : (p[1] = q[1] /\ SlotCol(B, p[1], p[2]) = SlotCol(B, q[1], q[2])) => p = q

Shape(B) == B.n \in Nat /\ B.m1 \in Nat /\ B.m2 \in Nat

THEOREM BandIndexBijection == \A B : Shape(B) => IndexBijection(B)
PROOF
  <1> SUFFICES ASSUME NEW B, Shape(B) PROVE IndexBijection(B)
    OBVIOUS
  <1> DEFINE n == B.n
  <1> DEFINE m1 == B.m1
  <1> DEFINE m2 == B.m2
  <1>0. n \in Nat /\ m1 \in Nat /\ m2 \in Nat  BY DEF Shape
  <1>1. \A p \in BandPos(B) : <<p[1], SlotCol(B, p[1], p[2])>> \in EntrySlots(B)
    <2> TAKE p \in BandPos(B)
    <2>1. p[1] \in 0..(n - 1) /\ p[2] \in 0..(n - 1) /\ p[2] <= p[1] + m2 /\ p[1] <= p[2] + m1
      BY DEF BandPos, BandPosK, InBandK
    <2>2. m1 + p[2] - p[1] \in 0..(m1 + m2 + 1 - 1)  BY <2>1, <1>0
    <2>3. p[1] + (m1 + p[2] - p[1]) - m1 = p[2]  BY <2>1, <1>0
    <2> QED BY <2>1, <2>2, <2>3, <1>0 DEF EntrySlots, SlotIsEntry, SlotCol, MMof
  <1>2. \A s \in EntrySlots(B) : /\ <<s[1], s[1] + s[2] - B.m1>> \in BandPos(B)
                                 /\ SlotCol(B, s[1], s[1] + s[2] - B.m1) = s[2]
    <2> TAKE s \in EntrySlots(B)
    <2>0. s \in (0..(n - 1)) \X (0..(MMof(B) - 1)) /\ SlotIsEntry(B, s[1], s[2])  BY DEF EntrySlots
    <2>1. s[1] \in 0..(n - 1) /\ s[2] \in 0..(m1 + m2 + 1 - 1) /\ 0 <= s[1] + s[2] - m1 /\ s[1] + s[2] - m1 < n
      BY <2>0, <1>0 DEF SlotIsEntry, MMof
    <2>2. s[1] + s[2] - m1 \in 0..(n - 1)  BY <2>1, <1>0
    <2>3. InBandK(m1, m2, s[1], s[1] + s[2] - m1)  BY <2>1, <1>0 DEF InBandK
    <2>4. m1 + (s[1] + s[2] - m1) - s[1] = s[2]  BY <2>1, <1>0
    <2> QED BY <2>1, <2>2, <2>3, <2>4 DEF BandPos, BandPosK, SlotCol
  <1>3. \A p, q \in BandPos(B) : (p[1] = q[1] /\ SlotCol(B, p[1], p[2]) = SlotCol(B, q[1], q[2])) => p = q
    <2> TAKE p, q \in BandPos(B)
    <2> HAVE p[1] = q[1] /\ SlotCol(B, p[1], p[2]) = SlotCol(B, q[1], q[2])
    <2>1. p \in (0..(n - 1)) \X (0..(n - 1)) /\ q \in (0..(n - 1)) \X (0..(n - 1))  BY DEF BandPos, BandPosK
    <2>2. p[2] = q[2]  BY <2>1, <1>0 DEF SlotCol
    <2> QED BY <2>1, <2>2
  <1> QED BY <1>1, <1>2, <1>3 DEF IndexBijection

\* the flat offset into the row-major compact array
Flat(B, i, j) == Slot(i, SlotCol(B, i, j), MMof(B))
THEOREM BandFlatInjective ==
  \A B : Shape(B) =>
     /\ \A p \in BandPos(B) : Flat(B, p[1], p[2]) \in 0..(B.n * MMof(B) - 1)
     /\ \A p, q \in BandPos(B) : Flat(B, p[1], p[2]) = Flat(B, q[1], q[2]) => p = q
PROOF
  <1> SUFFICES ASSUME NEW B, Shape(B)
               PROVE  /\ \A p \in BandPos(B) : Flat(B, p[1], p[2]) \in 0..(B.n * MMof(B) - 1)
                      /\ \A p, q \in BandPos(B) : Flat(B, p[1], p[2]) = Flat(B, q[1], q[2]) => p = q
    OBVIOUS
  <1>0. B.n \in Nat /\ MMof(B) \in Nat  BY DEF Shape, MMof
  <1>1. IndexBijection(B)  BY BandIndexBijection
  <1>2. \A p \in BandPos(B) : p[1] \in 0..(B.n - 1) /\ SlotCol(B, p[1], p[2]) \in 0..(MMof(B) - 1)
    BY <1>1 DEF IndexBijection, EntrySlots
  <1>3. \A p \in BandPos(B) : Flat(B, p[1], p[2]) \in 0..(B.n * MMof(B) - 1)
    BY <1>0, <1>2, Into DEF Flat
  <1>4. \A p, q \in BandPos(B) : Flat(B, p[1], p[2]) = Flat(B, q[1], q[2]) => p = q
    <2> TAKE p, q \in BandPos(B)
    <2> HAVE Flat(B, p[1], p[2]) = Flat(B, q[1], q[2])
    <2>1. p[1] = q[1] /\ SlotCol(B, p[1], p[2]) = SlotCol(B, q[1], q[2])
      BY <1>0, <1>2, Injective DEF Flat
    <2> QED BY <2>1, <1>1 DEF IndexBijection
  <1> QED BY <1>3, <1>4
=============================================================================
