---------------------------- MODULE MC_SparseCSC ----------------------------
(* Design check and case generator for SparseCSC.tla (C06, C07): the history machine.   *)
(*  - Init: every shape 0..MaxR x 0..MaxC, every duplicate-free entry set of at most    *)
(*    MaxEnt entries, in EVERY triplet order (from_triplets; the arrays it produces are  *)
(*    also the from_vecs inputs, which therefore cover every within-column order);      *)
(*  - Next: insert at every in-range position (new entry -> rebuild, present entry ->   *)
(*    overwrite), scale by every factor of ScaleVals, transpose; Depth operations;      *)
(*  - the concrete state `cur` is driven by the algorithms transcribed from the code,   *)
(*    the abstract matrix `model` by the definitions; the invariants relate the two in  *)
(*    every reachable state (C06: WellFormed, Refines, Views; C07: Products);           *)
(*  - with Emit = TRUE every behaviour of length Depth is printed as one JSON case that *)
(*    the harness replays on the real Sparse<Rat> / Sparse<f64>.                        *)
EXTENDS SparseCSC, TLC, Json
CONSTANTS MaxR, MaxC, MaxEnt, Depth, Emit, WithZero
VARIABLES cur, model, init, hist, trail
vars == <<cur, model, init, hist, trail>>

ScaleVals == {-1, 2}
\* WithZero adds explicit zeros: an initial zero entry at (0,0), insert of 0 (new / overwrite), scale by 0
Z == IF WithZero THEN {0} ELSE {}
VecVals == {-1, 0, 1, 2}
Vecs(n) == [1..n -> VecVals]

Positions(r, c) == (0..(r - 1)) \X (0..(c - 1))
\* initial values are pairwise distinct and nonzero: a misplaced or lost entry is visible
ValAt(c, p) == IF WithZero /\ p = <<0, 0>> THEN 0 ELSE 1 + p[1] * c + p[2]
Orders(P) == LET n == Cardinality(P) IN {f \in [1..n -> P] : \A a, b \in 1..n : a # b => f[a] # f[b]}
TsOf(c, f) == [m \in 1..Len(f) |-> <<f[m][1], f[m][2], ValAt(c, f[m])>>]

Op(name) == [op |-> name, i |-> 0, j |-> 0, v |-> 0, a |-> 0]
Ops(M, k) ==
     {[Op("insert") EXCEPT !.i = p[1], !.j = p[2], !.v = v] : p \in Positions(M.rows, M.cols), v \in {40 + k} \cup Z}
  \cup {[Op("scale") EXCEPT !.a = a] : a \in ScaleVals \cup Z}
  \cup {Op("transpose")}

Init == \E r \in 0..MaxR, c \in 0..MaxC :
          \E P \in SUBSET Positions(r, c) :
             /\ Cardinality(P) <= MaxEnt
             /\ \E f \in Orders(P) :
                  LET ts == TsOf(c, f)
                  IN /\ init = [rows |-> r, cols |-> c, ts |-> ts]
                     /\ cur = FromTriplets(r, c, ts)
                     /\ model = MOfTriplets(r, c, ts)
                     /\ hist = <<>>
                     /\ trail = <<FromTriplets(r, c, ts)>>
Next == /\ Len(hist) < Depth
        /\ \E o \in Ops(model, Len(hist)) :
              /\ cur' = CApply(cur, o)
              /\ model' = MApply(model, o)
              /\ hist' = Append(hist, o)
              /\ trail' = Append(trail, CApply(cur, o))
        /\ init' = init
Spec == Init /\ [][Next]_vars
View == <<cur, model, Len(hist)>>

(* ---------------- C06 ---------------- *)
Inv_Domain == Acc_Triplets(init.rows, init.cols, init.ts)
Inv_WellFormed == WellFormed(cur)
Inv_Refines == Abs(cur) = model
GetMat(S, which) == D!Mk(S.rows, S.cols, LAMBDA i, j : LET g == Get(S, i, j) IN IF which = 1 THEN (IF g[1] THEN 1 ELSE 0) ELSE g[2])
Inv_Views == /\ \A i \in 0..(cur.rows - 1), j \in 0..(cur.cols - 1) : Get(cur, i, j) = MGet(model, i, j)
             /\ ViewGet(GetMat(cur, 1), GetMat(cur, 2), model)
             /\ ViewTriplets(ToTriplets(cur), model)
             /\ ViewDense(ToDense(cur), model)
             /\ ViewColIndex(ColIndex(cur), model)
             /\ model = MOfTriplets(cur.rows, cur.cols, ToTriplets(cur))         \* triplet round trip
             /\ Abs(FromTriplets(cur.rows, cur.cols, ToTriplets(cur))) = model
             /\ Abs(FromVecs(cur.rows, cur.cols, cur.val, cur.ri, cur.cs)) = model
             /\ Abs(Transpose(Transpose(cur))) = model
\* the linear refinement test of the trace specification is the definition, also where it fails
PerturbedMap(M) ==
     {[M EXCEPT !.map = [p \in (DOMAIN M.map) \ {q} |-> M.map[p]]] : q \in DOMAIN M.map}
  \cup {[M EXCEPT !.map[q] = @ + 1] : q \in DOMAIN M.map}
  \cup {MInsert(M, q[1], q[2], 7) : q \in Positions(M.rows, M.cols) \ DOMAIN M.map}
Perturbed(M) == PerturbedMap(M) \cup {[M EXCEPT !.rows = @ + 1], [M EXCEPT !.cols = @ + 1]}
Inv_Fast == /\ RefinesFast(cur, model)
            /\ \A M2 \in Perturbed(model) : ~RefinesFast(cur, M2) /\ Abs(cur) # M2
            /\ \A M2 \in Perturbed(model) : ViewDense(ToDense(cur), M2) = MSameValue(model, M2)     \* (dense is by value)
            /\ \A M2 \in Perturbed(model) : ~ViewGet(GetMat(cur, 1), GetMat(cur, 2), M2)
            /\ \A M2 \in PerturbedMap(model) : ~ViewTriplets(ToTriplets(cur), M2)      \* (a triplet list carries no shape)

\* comparison by value (stored zero == absent): the linear tests of the trace specification are the
\* definition MSameValue, on the model, on perturbed models and on models that differ only in zeros; a
\* storage that drops its zeros still passes every by-value test
ZeroVariants(M) ==
     {[M EXCEPT !.map = [p \in (DOMAIN M.map) \ {q} |-> M.map[p]]] : q \in {p \in DOMAIN M.map : M.map[p] = 0}}
  \cup {MInsert(M, q[1], q[2], 0) : q \in Positions(M.rows, M.cols) \ DOMAIN M.map}
NonZeroTs(ts) == SelectSeq(ts, LAMBDA t : t[3] # 0)
Inv_Value ==
    LET DZ == FromTriplets(cur.rows, cur.cols, NonZeroTs(ToTriplets(cur)))        \* the same matrix, zeros dropped
    IN /\ RefinesValue(cur, model) /\ RefinesValue(DZ, model) /\ WellFormed(DZ)
       /\ ViewGetV(GetMat(cur, 1), GetMat(cur, 2), model) /\ ViewGetV(GetMat(DZ, 1), GetMat(DZ, 2), model)
       /\ ViewTripletsV(ToTriplets(cur), model) /\ ViewTripletsV(ToTriplets(DZ), model)
       /\ ViewDense(ToDense(DZ), model)
       /\ ViewColIndexF(ColIndex(cur), cur) /\ ViewColIndexF(ColIndex(DZ), DZ)
       /\ \A M2 \in Perturbed(model) \cup ZeroVariants(model) :
             /\ RefinesValue(cur, M2) = MSameValue(Abs(cur), M2)
             /\ RefinesValue(DZ, M2) = MSameValue(model, M2)
             /\ ViewGetV(GetMat(cur, 1), GetMat(cur, 2), M2) = MSameValue(model, M2)
       /\ \A M2 \in PerturbedMap(model) \cup ZeroVariants(model) :
             ViewTripletsV(ToTriplets(cur), M2) = MSameValue(model, M2)

(* ---------------- C07 (on every state of the C06 machine) ---------------- *)
Eq(u, v) == D!SameSeq(u, v)
\* (the transposed state, the dense reference and each product are bound once; TLC evaluates function
\* constructors lazily, so tables of products would not save anything)
Factors == ScaleVals \cup {0, 3}
Inv_Products ==
    LET T == Transpose(cur)
        DM == MDense(model)
        DT == D!Transpose(DM)
    IN /\ \A x \in Vecs(cur.cols) :
             LET ax == Mul(cur, x)
             IN /\ Acc_Mul(cur, x)
                /\ Eq(ax, D!MatVec(DM, x))                                      \* A x = Dense(A) x
                /\ Eq(TMul(T, x), ax)                                           \* (A^T)^T x = A x
                /\ \A a \in Factors : Eq(Mul(Scale(cur, a), x), VScale(ax, a))  \* (a A) x = a (A x)
                /\ \A y \in Vecs(cur.rows) : VDot(y, ax) = VDot(TMul(cur, y), x) \* <y, A x> = <A^T y, x>
       /\ \A y \in Vecs(cur.rows) :
             LET aty == TMul(cur, y)
             IN /\ Acc_TMul(cur, y)
                /\ Eq(aty, D!MatVec(DT, y))                                     \* A^T y = Dense(A)^T y
                /\ Eq(Mul(T, y), aty)                                           \* explicit transpose
                /\ \A a \in Factors : Eq(TMul(Scale(cur, a), y), VScale(aty, a))

(* ---------------- spec -> implementation ---------------- *)
EmitCase == (Emit /\ Len(hist) = Depth) =>
              PrintT(<<"CASE", ToJson([rows |-> init.rows, cols |-> init.cols, ts |-> init.ts, ops |-> hist, exp |-> trail])>>)
=============================================================================
