SPECIFICATION Spec
CONSTANTS MaxM = 3  MaxN = 3  Vals <- MCValsSmall  Deltas = {1, 2}  Emit = TRUE  TwoBases = TRUE  SetColRangeAgainst = "cols"
VIEW View
INVARIANTS EmitCase
CONSTRAINT GenStop
CHECK_DEADLOCK FALSE
