SPECIFICATION Spec
CONSTANTS MaxDegU = 3  MaxDegV = 2  Rounding = FALSE  DropLeadingTerm = TRUE  Cap = 6  Emit = TRUE
CONSTANTS Vals <- MCVals1
INVARIANTS EmitCase

CHECK_DEADLOCK FALSE
