------------------------------ MODULE MC_ParDot ------------------------------
(* Design check for ParDot.tla (C16).                                                  *)
(*  - interleavings (Spec): every schedule of the Spawn / Work / Join / Finish machine *)
(*    for every len <= MaxLen and nt <= MaxThreads: TypeOK, Deterministic,             *)
(*    EachIndexOnce, InBounds, Disjoint in every state; Terminates under weak fairness.*)
(*  - partition lemma (InitLemma/NextLemma): one state per pair (len, nt) with         *)
(*    len in 0..LemmaLen, nt in 1..LemmaThreads - the whole range the property states -*)
(*    in which Lemma demands Covers /\ InOrder.  The pairs are reached through one     *)
(*    intermediate state per len so that TLC's workers share them.                     *)
(*  - deviation configurations (MC_ParDot_dev_*.cfg) set Rule / JoinOrder to a         *)
(*    behaviour the code does not have and are EXPECTED to violate the named invariant.*)
EXTENDS ParDot, TLC
CONSTANTS LemmaLen, LemmaThreads

Idle == /\ spawned = 0 /\ wpc = [i \in 0..(MaxThreads - 1) |-> "idle"]
        /\ acc = [i \in 0..(MaxThreads - 1) |-> <<>>] /\ pos = [i \in 0..(MaxThreads - 1) |-> 0]
        /\ joined = <<>> /\ result = <<>>
InitLemma == len = 0 /\ nt = 0 /\ mpc = "root" /\ Idle
NextLemma == /\ UNCHANGED <<spawned, wpc, acc, pos, joined, result>>
             /\ \/ mpc = "root" /\ len' \in 0..LemmaLen /\ nt' = 0 /\ mpc' = "len"
                \/ mpc = "len" /\ nt' \in 1..LemmaThreads /\ len' = len /\ mpc' = "pair"
Lemma == mpc = "pair" => Covers(len, nt) /\ InOrder(len, nt)
=============================================================================
