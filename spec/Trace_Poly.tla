---------------------------- MODULE Trace_Poly ----------------------------
(* Trace validation for ohsl::Polynomial arithmetic, evaluation and differentiation    *)
(* (C11).  Every event is one public call on the real type; its recorded result must   *)
(* equal the operator of Poly.tla applied to the recorded operands.  kind "i": integer *)
(* coefficients (Polynomial<Rat>, <f64>), "c": Gaussian integers (Polynomial<Cmplx>,   *)
(* real and imaginary coefficient lists), "q": rationals [n, d] (Polynomial<Rat>).     *)
(* A result polynomial must be EQUAL AS A POLYNOMIAL to the model's and not longer     *)
(* than the textbook length (so degrees combine as expected); calls the property does  *)
(* not define (eval / derivative / trim of the empty polynomial, derivative orders     *)
(* beyond deg+1, degree() of the empty polynomial) are accepted whatever they do.      *)
EXTENDS TraceBase, Poly
VARIABLES l
vars == <<l>>

\* "cube" (p*p)*p, "lin" (p+p)-p, "comm" p*q - q*p, "sumsq" p*p + q*q: chained expressions reusing one object
PolyOps == {"add", "sub", "mul", "neg", "scale", "derivative", "derivative_n", "trim", "cube", "lin", "comm", "sumsq"}
ValOps == {"eval", "derivative_at", "evalres"}

\* is the call inside the domain the property speaks about?
Defined(e) == CASE e.op \in {"derivative", "trim", "eval"} -> Len(e.p) >= 1
                [] e.op = "derivative_n" -> e.n <= Len(e.p)                    \* orders 0..deg+1
                [] e.op = "derivative_at" -> Len(e.p) >= 1 /\ e.n <= Len(e.p) - 1
                [] e.op = "evalres" -> Len(e.p) >= 1 /\ Len(e.q) >= 1
                [] e.op = "degree" -> Len(e.p) >= 1
                [] OTHER -> TRUE

(* ------------- integer coefficients ------------- *)
IModel(e) == CASE e.op = "add" -> PAdd(e.p, e.q) [] e.op = "sub" -> PSub(e.p, e.q) [] e.op = "mul" -> PMul(e.p, e.q)
               [] e.op = "neg" -> PNeg(e.p) [] e.op = "scale" -> PScale(e.p, e.s)
               [] e.op = "derivative" -> PDeriv(e.p) [] e.op = "derivative_n" -> PDerivN(e.p, e.n)
               [] e.op = "trim" -> PTrim(e.p)
               [] e.op = "cube" -> PMul(PMul(e.p, e.p), e.p) [] e.op = "lin" -> PSub(PAdd(e.p, e.p), e.p)
               [] e.op = "comm" -> PSub(PMul(e.p, e.q), PMul(e.q, e.p)) [] e.op = "sumsq" -> PAdd(PMul(e.p, e.p), PMul(e.q, e.q))
IValue(e) == CASE e.op = "eval" -> PEval(e.p, e.x)
               [] e.op = "derivative_at" -> PEval(PDerivN(e.p, e.n), e.x)
               \* value of the real code's result at x = the same combination of the operands' values
               [] e.op = "evalres" -> (CASE e.sub = "add" -> PEval(e.p, e.x) + PEval(e.q, e.x)
                                         [] e.sub = "sub" -> PEval(e.p, e.x) - PEval(e.q, e.x)
                                         [] e.sub = "mul" -> PEval(e.p, e.x) * PEval(e.q, e.x))
IGoodPoly(e) == LET m == IModel(e) IN /\ SamePoly(e.r, m) /\ Len(e.r) <= Len(m)
                                      /\ (e.op = "trim" => Trimmed(e.r))
(* ------------- Gaussian integers ------------- *)
CPof(e) == CP(e.p, e.pi)
CQof(e) == CP(e.q, e.qi)
CModel(e) == CASE e.op = "add" -> CAdd(CPof(e), CQof(e)) [] e.op = "sub" -> CSub(CPof(e), CQof(e))
               [] e.op = "mul" -> CMul(CPof(e), CQof(e))
               [] e.op = "neg" -> CNeg(CPof(e)) [] e.op = "scale" -> CScale(CPof(e), <<e.s, e.si>>)
               [] e.op = "derivative" -> CDeriv(CPof(e)) [] e.op = "derivative_n" -> CDerivN(CPof(e), e.n)
               [] e.op = "trim" -> CTrim(CPof(e))
               [] e.op = "cube" -> CMul(CMul(CPof(e), CPof(e)), CPof(e)) [] e.op = "lin" -> CSub(CAdd(CPof(e), CPof(e)), CPof(e))
               [] e.op = "comm" -> CSub(CMul(CPof(e), CQof(e)), CMul(CQof(e), CPof(e)))
               [] e.op = "sumsq" -> CAdd(CMul(CPof(e), CPof(e)), CMul(CQof(e), CQof(e)))
CValue(e) == LET x == <<e.x, e.xi>> IN
             CASE e.op = "eval" -> CEval(CPof(e), x)
               [] e.op = "derivative_at" -> CEval(CDerivN(CPof(e), e.n), x)
               [] e.op = "evalres" -> (CASE e.sub = "add" -> GAdd(CEval(CPof(e), x), CEval(CQof(e), x))
                                         [] e.sub = "sub" -> GSub(CEval(CPof(e), x), CEval(CQof(e), x))
                                         [] e.sub = "mul" -> GMul(CEval(CPof(e), x), CEval(CQof(e), x)))
CGoodPoly(e) == LET m == CModel(e)
                    g == CP(e.r, e.ri)
                IN /\ Len(e.r) = Len(e.ri) /\ CSame(g, m) /\ CLen(g) <= CLen(m)
                   /\ (e.op = "trim" => CTrimmed(g))
(* ------------- rationals ------------- *)
QModel(e) == CASE e.op = "add" -> QAdd(e.p, e.q) [] e.op = "sub" -> QSub(e.p, e.q) [] e.op = "mul" -> QMul(e.p, e.q)
               [] e.op = "neg" -> QNeg(e.p) [] e.op = "scale" -> QScale(e.p, e.s)
               [] e.op = "derivative" -> QDeriv(e.p) [] e.op = "derivative_n" -> QDerivN(e.p, e.n)
               [] e.op = "trim" -> QTrim(e.p)
               [] e.op = "cube" -> QMul(QMul(e.p, e.p), e.p) [] e.op = "lin" -> QSub(QAdd(e.p, e.p), e.p)
               [] e.op = "comm" -> QSub(QMul(e.p, e.q), QMul(e.q, e.p)) [] e.op = "sumsq" -> QAdd(QMul(e.p, e.p), QMul(e.q, e.q))
QValue(e) == CASE e.op = "eval" -> QEval(e.p, e.x)
               [] e.op = "derivative_at" -> QEval(QDerivN(e.p, e.n), e.x)
               [] e.op = "evalres" -> (CASE e.sub = "add" -> RAdd(QEval(e.p, e.x), QEval(e.q, e.x))
                                         [] e.sub = "sub" -> RSub(QEval(e.p, e.x), QEval(e.q, e.x))
                                         [] e.sub = "mul" -> RMul(QEval(e.p, e.x), QEval(e.q, e.x)))
QGoodPoly(e) == LET m == QModel(e) IN /\ QSame(e.r, m) /\ Len(e.r) <= Len(m)
                                      /\ (e.op = "trim" => QTrimmed(e.r))

IsZeroModel(e) == CASE e.kind = "i" -> PIsZero(e.p) [] e.kind = "c" -> CIsZero(CPof(e)) [] e.kind = "q" -> QIsZero(e.p)

GoodPolyK(e) == CASE e.kind = "i" -> IGoodPoly(e) [] e.kind = "c" -> CGoodPoly(e) [] e.kind = "q" -> QGoodPoly(e)
GoodValK(e) == CASE e.kind = "i" -> e.v = IValue(e)
                 [] e.kind = "c" -> <<e.v, e.vi>> = CValue(e)
                 [] e.kind = "q" -> <<e.v[1], e.v[2]>> = QValue(e)
Explained(e) ==
  IF ~Defined(e) THEN TRUE
  ELSE CASE e.op \in PolyOps -> ~e.panic /\ e.intact /\ GoodPolyK(e)
         [] e.op \in ValOps -> ~e.panic /\ e.intact /\ GoodValK(e)
         [] e.op = "is_zero" -> ~e.panic /\ e.b = IsZeroModel(e)
         [] e.op = "degree" -> ~e.panic /\ e.ok /\ e.d = PDeg(e.p)
         [] e.op = "size" -> ~e.panic /\ e.d = Len(e.p)
         [] OTHER -> FALSE

Init == l = 1 /\ TLCSet(1, 0)
Step == /\ l <= NRec
        /\ LET e == Rec[l] IN IF Explained(e) THEN TRUE ELSE Mismatch(l, e, e.op)
        /\ l' = l + 1
Spec == Init /\ [][Step]_vars
=============================================================================
