SPECIFICATION Spec
CONSTANTS Depth = 2  Deep = FALSE  Emit = FALSE
INVARIANTS Independent
CHECK_DEADLOCK FALSE
