SPECIFICATION Spec
CONSTANTS MaxM = 3  MaxN = 3  Vals <- MCValsSmall  Deltas = {2}  Emit = FALSE  TwoBases = TRUE  SetColRangeAgainst = "cols"
PROPERTY Termination
CHECK_DEADLOCK FALSE
