---------------------------- MODULE Trace_Tridiag ----------------------------
(* Trace validation for ohsl::Tridiagonal (C05).  Every event carries the operand `pre` *)
(* (n and the three diagonals) and the logged outcome; the expectation is computed by   *)
(* the operators of Tridiag.tla.  solve: the MODEL decides from the leading principal   *)
(* minors whether elimination meets a zero pivot; if so the call must have panicked     *)
(* with a message mentioning "zero", otherwise it must have returned x with T x = r     *)
(* exactly (cross-multiplied, x = xs / L).  Floats on diagonally dominant systems: the  *)
(* harness logs backward-error units, the bound lives here.                             *)
EXTENDS TraceBase, Tridiag
VARIABLES l
vars == <<l>>

\* Thomas elimination on a diagonally dominant matrix: |dT| <= (4u + O(u^2)) |L||U| <= 12u |T| (Higham, Thm 9.14);
\* constant factor 8 on top; complex arithmetic: one more factor 8
SolveGuard == 96
\* three-term recurrence: |computed f_n - f_n| <= gamma_{3n} F_n with F the recurrence on absolute values;
\* units are measured against eps * F_n, guard 3n with constant factor 8 (rounded up), complex x8
DetGuard(n) == 32 * n
Cx(e) == IF e.cxf THEN 8 ELSE 1

GoodT(e, X) == ~e.panic /\ SameTri(e.post, X)                              \* mutator / constructor
GoodRT(e, X) == ~e.panic /\ SameTri(e.post, e.pre) /\ SameTri(e.rt, X)     \* observer returning a tridiagonal matrix
Given(e) == [n |-> Len(e.main), sub |-> e.sub, main |-> e.main, sup |-> e.sup]

Explained(e) ==
  CASE e.op = "convert" -> ~e.panic /\ SameMat(e.rm, TDense(e.pre))
    [] e.op = "get" -> IF TInBand(e.pre, e.i, e.j) THEN ~e.panic /\ e.ri = TGet(e.pre, e.i, e.j)
                       ELSE e.panic \/ e.ri = 0           \* off the three diagonals: refuse, or the dense twin's zero
    [] e.op = "size" -> ~e.panic /\ e.rn = e.pre.n
    [] e.op = "diags" -> ~e.panic /\ SameSeq(e.rsub, e.pre.sub) /\ SameSeq(e.rmain, e.pre.main) /\ SameSeq(e.rsup, e.pre.sup)
    \* "built": the operand of a case as constructed by with_vecs / with_vectors / new + index assignment
    [] e.op \in {"with_vecs", "with_vectors", "built"} -> GoodT(e, Given(e))
    [] e.op = "with_elements" -> GoodT(e, TWithElements(e.lo, e.di, e.up, e.n))
    [] e.op = "new" -> GoodT(e, TNew(e.n))
    [] e.op = "clone" -> GoodRT(e, e.pre)
    [] e.op = "set" -> IF TInBand(e.pre, e.i, e.j) THEN GoodT(e, TSet(e.pre, e.i, e.j, e.x)) ELSE e.panic
    [] e.op = "transpose_in_place" -> GoodT(e, TTranspose(e.pre))
    [] e.op = "transpose" -> GoodRT(e, TTranspose(e.pre))
    [] e.op = "neg" -> GoodRT(e, TNeg(e.pre))
    [] e.op = "add" -> IF e.pre.n = e.b.n THEN GoodRT(e, TAdd(e.pre, e.b)) ELSE e.panic
    [] e.op = "sub" -> IF e.pre.n = e.b.n THEN GoodRT(e, TSub(e.pre, e.b)) ELSE e.panic
    [] e.op \in {"mul_scalar", "lmul_f64"} -> GoodRT(e, TScale(e.pre, e.s))
    [] e.op = "div_scalar" -> GoodRT(e, TDivS(e.pre, e.s))
    [] e.op = "mul_assign" -> GoodT(e, TScale(e.pre, e.s))
    [] e.op = "div_assign" -> GoodT(e, TDivS(e.pre, e.s))
    [] e.op = "add_scalar_assign" -> GoodT(e, TShift(e.pre, e.s))
    [] e.op = "sub_scalar_assign" -> GoodT(e, TShift(e.pre, -e.s))
    [] e.op = "matvec" -> IF Acc_TMatVec(e.pre, e.v) THEN ~e.panic /\ SameSeq(e.rv, TMatVec(e.pre, e.v)) ELSE e.panic
    \* complex operands as real and imaginary parts
    [] e.op = "matvec_cx" -> /\ ~e.panic
                             /\ LET A == TDense(e.pre)
                                    Bi == TDense(e.prei)
                                    av == MatVec(A, e.v)
                                    bw == MatVec(Bi, e.vi)
                                    aw == MatVec(A, e.vi)
                                    bv == MatVec(Bi, e.v)
                                IN /\ SameSeq(e.rre, [k \in 1..e.pre.n |-> av[k] - bw[k]])
                                   /\ SameSeq(e.rim, [k \in 1..e.pre.n |-> aw[k] + bv[k]])
    [] e.op = "scale_cx" -> /\ ~e.panic
                            /\ SameTri(e.rt, TLin(e.pre, e.s, e.prei, -e.si))
                            /\ SameTri(e.rti, TLin(e.pre, e.si, e.prei, e.s))
    \* ---- exact determinant and solve-or-refuse ----
    [] e.op = "det" -> ~e.panic /\ e.rq[2] = 1 /\ e.rq[1] = TDet(e.pre)
    [] e.op = "solve" -> IF SomePivotZero(e.pre)
                           THEN e.panic /\ e.zero                      \* refuses, and says why
                           ELSE ~e.panic /\ e.imzero /\ Checkable(e.xs, e.L) /\ ResidualZero(TDense(e.pre), e.xs, e.L, e.r)
    \* floats on integer data where only the zero tests are exact: the outcome (answer or refusal) is decided by the model
    [] e.op = "solve_outcome" -> IF SomePivotZero(e.pre) THEN e.panic /\ e.zero ELSE ~e.panic /\ e.finite
    \* ---- floats ----
    [] e.op = "solve_units" -> ~e.panic /\ e.units >= 0 /\ e.units <= Cx(e) * SolveGuard
    [] e.op = "det_units" -> ~e.panic /\ e.units >= 0 /\ e.units <= Cx(e) * DetGuard(e.n)
    [] OTHER -> FALSE

Init == l = 1 /\ TLCSet(1, 0)
Step == /\ l <= NRec
        /\ LET e == Rec[l] IN IF Explained(e) THEN TRUE ELSE Mismatch(l, e, e.op)
        /\ l' = l + 1
Spec == Init /\ [][Step]_vars
=============================================================================
