---------------------------- MODULE Trace_Tridiag ----------------------------
(* Trace validation for ohsl::Tridiagonal (C05).  Every event carries the operand `pre` *)
(* (n and the three diagonals) and the logged outcome; the expectation is computed by   *)
(* the operators of Tridiag.tla.  solve: the MODEL decides from the leading principal   *)
(* minors whether elimination meets a zero pivot; if so the call must have panicked     *)
(* with a message mentioning "zero", otherwise it must have returned x with T x = r     *)
(* exactly (cross-multiplied, x = xs / L).  Floats on diagonally dominant systems: the  *)
(* harness logs backward-error units, the bound lives here.                             *)
EXTENDS TraceBase, Tridiag
VARIABLES l, cur, curi, bad
vars == <<l, cur, curi, bad>>
\* cur / curi: the MODEL's current value (real / imaginary part) of the object a sequence works on, computed by the
\* operators of Tridiag.tla from the operations seen so far; every event of a sequence must start from it.
\* bad: the case in which an event was not explained (its later exact det / solve events are reported unjudged)

\* Thomas elimination on a diagonally dominant matrix: |dT| <= (4u + O(u^2)) |L||U| <= 12u |T| (Higham, Thm 9.14);
\* constant factor 8 on top; complex arithmetic: one more factor 8
SolveGuard == 96
\* three-term recurrence: |computed f_n - f_n| <= gamma_{3n} F_n with F the recurrence on absolute values;
\* units are measured against eps * F_n, guard 3n with constant factor 8 (rounded up), complex x8
DetGuard(n) == 32 * n
Cx(e) == IF e.cxf THEN 8 ELSE 1

\* strict diagonal dominance of A + iB from the integer parts: |a_ii + i b_ii| >= max(|a_ii|, |b_ii|) and
\* |a + ib| <= |a| + |b|
Off(T, Ti, k, which) == IF which = "sub" THEN IAbs(T.sub[k]) + IAbs(Ti.sub[k]) ELSE IAbs(T.sup[k]) + IAbs(Ti.sup[k])
DiagAt(T, Ti, i) == IMax(IAbs(T.main[i]), IAbs(Ti.main[i]))
Dominant(T, Ti) ==
    \/ \A i \in 1..T.n : DiagAt(T, Ti, i) > (IF i > 1 THEN Off(T, Ti, i - 1, "sub") ELSE 0) + (IF i < T.n THEN Off(T, Ti, i, "sup") ELSE 0)      \* rows
    \/ \A i \in 1..T.n : DiagAt(T, Ti, i) > (IF i > 1 THEN Off(T, Ti, i - 1, "sup") ELSE 0) + (IF i < T.n THEN Off(T, Ti, i, "sub") ELSE 0)      \* columns
GoodT(e, X) == ~e.panic /\ SameTri(e.post, X)                              \* mutator / constructor
GoodRT(e, X) == ~e.panic /\ SameTri(e.post, e.pre) /\ SameTri(e.rt, X)     \* observer returning a tridiagonal matrix
Given(e) == [n |-> Len(e.main), sub |-> e.sub, main |-> e.main, sup |-> e.sup]

Explained(e) ==
  CASE e.op \in {"convert", "dense"} -> ~e.panic /\ SameMat(e.rm, TDense(e.pre))     \* dense = every read through the index operator
    \* resize: the property is silent on what is kept (the code's own TODO); only the new size is demanded, and whatever
    \* the object then holds is the operand of the following events
    [] e.op = "resize" -> ~e.panic /\ TWellFormed(e.post) /\ e.post.n = e.n2
    \* the object re-bound to the result of an operator applied to it
    [] e.op = "rebind_neg" -> GoodT(e, TNeg(e.pre))
    [] e.op = "rebind_add" -> GoodT(e, TAdd(e.pre, e.b))
    [] e.op = "rebind_sub" -> GoodT(e, TSub(e.pre, e.b))
    [] e.op = "rebind_mul" -> GoodT(e, TScale(e.pre, e.s))
    [] e.op = "rebind_div" -> GoodT(e, TDivS(e.pre, e.s))
    [] e.op = "get" -> IF TInBand(e.pre, e.i, e.j) THEN ~e.panic /\ e.ri = TGet(e.pre, e.i, e.j)
                       ELSE e.panic \/ e.ri = 0           \* off the three diagonals: refuse, or the dense twin's zero
    [] e.op = "size" -> ~e.panic /\ e.rn = e.pre.n
    [] e.op = "diags" -> ~e.panic /\ SameSeq(e.rsub, e.pre.sub) /\ SameSeq(e.rmain, e.pre.main) /\ SameSeq(e.rsup, e.pre.sup)
    \* "built": the operand of a case as constructed by with_vecs / with_vectors / new + index assignment
    [] e.op \in {"with_vecs", "with_vectors", "built"} -> GoodT(e, Given(e))
    [] e.op = "with_elements" -> GoodT(e, TWithElements(e.lo, e.di, e.up, e.n))
    [] e.op = "new" -> GoodT(e, TNew(e.n))
    [] e.op = "clone" -> GoodRT(e, e.pre)
    \* ---- the std-trait forms.  t.clone_from(&s): the target becomes a copy of the source, SIZE INCLUDED, whatever it was
    \* before (same size, larger, smaller, 1 x 1); the source is untouched
    [] e.op = "clone_from" -> ~e.panic /\ SameTri(e.post, e.b) /\ SameTri(e.bpost, e.b)
    [] e.op = "clone_into" -> GoodRT(e, e.pre)                        \* the second object .clone_from(this one)
    \* the second object still holds what it held when it was last written (independence of the two objects)
    [] e.op = "aux_same" -> ~e.panic /\ SameTri(e.post, e.pre) /\ SameTri(e.rt, e.want)
    [] e.op = "reclone" -> GoodT(e, e.pre)                            \* replaced by its own clone, the original dropped
    [] e.op = "set" -> IF TInBand(e.pre, e.i, e.j) THEN GoodT(e, TSet(e.pre, e.i, e.j, e.x)) ELSE e.panic
    [] e.op = "transpose_in_place" -> GoodT(e, TTranspose(e.pre))
    [] e.op = "transpose" -> GoodRT(e, TTranspose(e.pre))
    [] e.op = "neg" -> GoodRT(e, TNeg(e.pre))
    [] e.op = "add" -> IF e.pre.n = e.b.n THEN GoodRT(e, TAdd(e.pre, e.b)) ELSE e.panic
    [] e.op = "sub" -> IF e.pre.n = e.b.n THEN GoodRT(e, TSub(e.pre, e.b)) ELSE e.panic
    [] e.op \in {"mul_scalar", "lmul_f64"} -> GoodRT(e, TScale(e.pre, e.s))
    [] e.op = "div_scalar" -> GoodRT(e, TDivS(e.pre, e.s))
    [] e.op = "mul_assign" -> GoodT(e, TScale(e.pre, e.s))
    [] e.op = "div_assign" -> GoodT(e, TDivS(e.pre, e.s))
    [] e.op = "add_scalar_assign" -> GoodT(e, TShift(e.pre, e.s))
    [] e.op = "sub_scalar_assign" -> GoodT(e, TShift(e.pre, -e.s))
    [] e.op = "matvec" -> IF Acc_TMatVec(e.pre, e.v) THEN ~e.panic /\ SameSeq(e.rv, TMatVec(e.pre, e.v)) ELSE e.panic
    \* complex operands as real and imaginary parts
    [] e.op = "matvec_cx" -> IF Len(e.v) # e.pre.n THEN e.panic ELSE      \* (a vector of another size is refused)
                             /\ ~e.panic
                             /\ LET A == TDense(e.pre)
                                    Bi == TDense(e.prei)
                                    av == MatVec(A, e.v)
                                    bw == MatVec(Bi, e.vi)
                                    aw == MatVec(A, e.vi)
                                    bv == MatVec(Bi, e.v)
                                IN /\ SameSeq(e.rre, [k \in 1..e.pre.n |-> av[k] - bw[k]])
                                   /\ SameSeq(e.rim, [k \in 1..e.pre.n |-> aw[k] + bv[k]])
    [] e.op = "scale_cx" -> /\ ~e.panic
                            /\ SameTri(e.rt, TLin(e.pre, e.s, e.prei, -e.si))
                            /\ SameTri(e.rti, TLin(e.pre, e.si, e.prei, e.s))
    \* ---- exact determinant and solve-or-refuse ----
    [] e.op = "det" -> ~e.panic /\ e.rq[2] = 1 /\ e.rq[1] = TDet(e.pre)
    [] e.op = "solve" -> IF Len(e.r) # e.pre.n THEN e.panic          \* a right-hand side of another size is refused
                         ELSE IF SomePivotZero(e.pre)
                           THEN e.panic /\ e.zero                      \* refuses, and says why
                           ELSE ~e.panic /\ e.imzero /\ Checkable(e.xs, e.L) /\ ResidualZero(TDense(e.pre), e.xs, e.L, e.r)
    \* ---- Gaussian-integer data on which the complex float arithmetic is exact: judged like Rat, over Gaussian rationals ----
    [] e.op = "det_cx" -> ~e.panic /\ e.rq[2] = 1 /\ e.rqi[2] = 1 /\ <<e.rq[1], e.rqi[1]>> = CTDet(e.pre, e.prei)
    [] e.op = "solve_cx" -> IF CSomePivotZero(e.pre, e.prei)
                              THEN e.panic /\ e.zero
                              ELSE /\ ~e.panic /\ Checkable(e.xs, e.L) /\ Checkable(e.xsi, e.L)
                                   /\ ResidualZeroCx(TDense(e.pre), TDense(e.prei), e.xs, e.xsi, e.L, e.r, e.ri)
    [] e.op = "div_cx" -> /\ ~e.panic /\ (e.s # 0 \/ e.si # 0)
                          /\ SameTri(e.pre, TLin(e.rt, e.s, e.rti, -e.si))
                          /\ SameTri(e.prei, TLin(e.rt, e.si, e.rti, e.s))
    \* ---- exact dyadic float data with a pivot that is tiny relative to its diagonal entry: entries, right-hand side and the
    \* returned solution are polynomials in eps = 2^-t (coefficient lists); x = xs / (L eps^K).  The model refuses only if a
    \* leading minor vanishes IDENTICALLY; otherwise the call must return the exact solution ----
    [] e.op = "solve_eps" -> IF PSomePivotZero(e.pre)
                               THEN e.panic /\ e.zero
                               ELSE /\ ~e.panic /\ e.L >= 1 /\ e.L <= 1024 /\ e.K >= 0 /\ e.K <= 4
                                    /\ \A j \in 1..e.pre.n : PSmall(e.xs[j], 1048576)
                                    /\ PResidualZero(e.pre, e.xs, e.L, e.K, e.r)
    \* floats on integer data where only the zero tests are exact: the outcome (answer or refusal) is decided by the model
    [] e.op = "solve_outcome" -> IF SomePivotZero(e.pre) THEN e.panic /\ e.zero ELSE ~e.panic /\ e.finite
    \* ---- floats ----
    \* floats in a sequence: the bound is demanded where the model state is strictly diagonally dominant (by rows or by
    \* columns; for complex entries a sufficient integer condition on the parts), which also excludes zero pivots
    [] e.op = "solve_dd" -> IF Dominant(e.pre, IF Has(e, "prei") THEN e.prei ELSE TScale(e.pre, 0)) THEN ~e.panic /\ e.units >= 0 /\ e.units <= Cx(e) * SolveGuard ELSE TRUE
    [] e.op = "solve_units" -> ~e.panic /\ e.units >= 0 /\ e.units <= Cx(e) * SolveGuard
    [] e.op = "det_units" -> ~e.panic /\ e.units >= 0 /\ e.units <= Cx(e) * DetGuard(e.n)
    [] OTHER -> FALSE

\* ---- model state ----
IsSeq(e) == Has(e, "seq")
ImPart(e) == Has(e, "part") /\ e.part = "im"
TwoParts(e) == Has(e, "prei")
PreOK(e) == IF ~IsSeq(e) \/ e.op = "built" THEN TRUE
            ELSE IF TwoParts(e) THEN SameTri(e.pre, cur) /\ SameTri(e.prei, curi)
            ELSE IF ImPart(e) THEN SameTri(e.pre, curi) ELSE SameTri(e.pre, cur)
After(e) == CASE e.op = "clone_from" -> e.b
              [] e.op = "set" -> TSet(e.pre, e.i, e.j, e.x)
              [] e.op = "transpose_in_place" -> TTranspose(e.pre)
              [] e.op \in {"mul_assign", "rebind_mul"} -> TScale(e.pre, e.s)
              [] e.op \in {"div_assign", "rebind_div"} -> TDivS(e.pre, e.s)
              [] e.op = "add_scalar_assign" -> TShift(e.pre, e.s)
              [] e.op = "sub_scalar_assign" -> TShift(e.pre, -e.s)
              [] e.op = "rebind_neg" -> TNeg(e.pre)
              [] e.op = "rebind_add" -> TAdd(e.pre, e.b)
              [] e.op = "rebind_sub" -> TSub(e.pre, e.b)
              [] e.op = "with_elements" -> TWithElements(e.lo, e.di, e.up, e.n)
              [] e.op = "new" -> TNew(e.n)
              [] e.op \in {"with_vecs", "with_vectors"} -> Given(e)
Mutators == {"clone_from", "set", "transpose_in_place", "mul_assign", "rebind_mul", "div_assign", "rebind_div", "add_scalar_assign", "sub_scalar_assign",
             "rebind_neg", "rebind_add", "rebind_sub", "with_elements", "new", "with_vecs", "with_vectors"}
NextPart(e, v, ok) ==
    IF e.op = "built" THEN (IF e.panic THEN v ELSE Given(e))
    ELSE IF ~IsSeq(e) THEN v                                                \* (stand-alone events: another object)
    ELSE IF ~ok THEN (IF Has(e, "post") THEN e.post ELSE v)                 \* re-synchronise on the logged state
    \* a refused call (out-of-range assignment, operand of another size) leaves the object as it was
    ELSE IF e.op \in Mutators /\ e.panic THEN v
    ELSE IF e.op \in Mutators THEN After(e)
    ELSE IF e.op = "resize" THEN e.post
    ELSE v
Unjudged(e) == IsSeq(e) /\ e.cid = bad /\ e.op \in {"det", "solve", "det_cx", "solve_cx"}
NoTri == [n |-> 0, sub |-> <<>>, main |-> <<>>, sup |-> <<>>]

Init == l = 1 /\ cur = NoTri /\ curi = NoTri /\ bad = -1 /\ TLCSet(1, 0)
Step == /\ l <= NRec
        /\ LET e == Rec[l]
               ok == IF Unjudged(e) THEN FALSE ELSE IF PreOK(e) THEN Explained(e) ELSE FALSE
           IN /\ IF ok THEN TRUE
                 ELSE Mismatch(l, e, IF Unjudged(e) THEN "unjudged-after-mismatch" ELSE IF PreOK(e) THEN e.op ELSE "operand-is-not-the-model-state")
              /\ bad' = IF ok THEN bad ELSE e.cid
              /\ IF e.op = "scale_cx"
                   THEN IF e.src \in {"mul_assign", "rebind_mul"}
                          THEN /\ cur' = (IF ok THEN TLin(e.pre, e.s, e.prei, -e.si) ELSE e.rt)
                               /\ curi' = (IF ok THEN TLin(e.pre, e.si, e.prei, e.s) ELSE e.rti)
                          ELSE UNCHANGED <<cur, curi>>
                   ELSE IF e.op = "div_cx" /\ e.src \in {"div_assign", "rebind_div"}
                   THEN cur' = e.rt /\ curi' = e.rti
                   ELSE IF TwoParts(e) THEN UNCHANGED <<cur, curi>>
                   ELSE IF ImPart(e) THEN cur' = cur /\ curi' = NextPart(e, curi, ok)
                   ELSE cur' = NextPart(e, cur, ok) /\ curi' = curi
        /\ l' = l + 1
Spec == Init /\ [][Step]_vars
=============================================================================
