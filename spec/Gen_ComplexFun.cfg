SPECIFICATION Spec
CONSTANTS Emit = TRUE
INVARIANTS EmitCase
CHECK_DEADLOCK FALSE
