---------------------------- MODULE MC_VectorSeq ----------------------------
(* Design check and case generator for VectorSeq.tla (C15).  Two machines share the    *)
(* module (selected by INIT/NEXT in the configuration files):                          *)
(*  - histories (InitH/NextH): one vector, every editing operation and observer with   *)
(*    every in-range argument (and one out-of-range argument per index), starting from *)
(*    every sequence of length <= MaxLen over Vals.  A twin list `lst` is driven by an *)
(*    independent definition of the same operation in terms of the Sequences           *)
(*    primitives (Append, SubSeq, \o, Head/Tail); Twin demands that the two agree     *)
(*    after every step; Structure states the laws of sort/find/resize/insert/pop on    *)
(*    every reachable vector.  With Emit = TRUE every behaviour of length Depth is     *)
(*    printed as one JSON case that the harness replays on the real ohsl::Vector.      *)
(*  - laws (InitL/NextL): one state per integer vector of length <= LawLen with        *)
(*    entries in Ent; Laws states the norm, dot and slice laws against every second    *)
(*    (and, up to BilinLen, third) vector of the same length.                          *)
EXTENDS VectorSeq, TLC, Json
CONSTANTS MaxLen, Depth, Emit, Vals, LawLen, BilinLen, Ent
VARIABLES v, lst, v0, hist
vars == <<v, lst, v0, hist>>

MCEnt == (-2)..2
Op(name) == [op |-> name, x |-> 0, i |-> 0, j |-> 0, n |-> 0, a |-> 0, b |-> 0, v |-> <<>>, form |-> "ref"]
Fresh(n) == [k \in 1..n |-> k]                 \* operand for += / -= / dot / +, pairwise distinct

(* ---------------- the operations offered in a state ---------------- *)
Ix(x) == 0..Len(x)                              \* every in-range index and one out-of-range index
Mutators(x) ==
     {[Op("push") EXCEPT !.x = a] : a \in Vals}
  \cup {[Op("push_front") EXCEPT !.x = a] : a \in Vals}
  \cup {[Op("insert") EXCEPT !.i = p, !.x = a] : p \in 0..(Len(x) + 1), a \in Vals}
  \cup {Op("pop"), Op("clear"), Op("sort"), Op("sort_desc")}
  \cup {[Op("swap") EXCEPT !.i = p, !.j = q] : p \in Ix(x), q \in Ix(x)}
  \cup {[Op("resize") EXCEPT !.n = m] : m \in 0..(MaxLen + 1)}
  \cup {[Op("assign") EXCEPT !.x = a] : a \in Vals}
  \cup {[Op("set") EXCEPT !.i = p, !.x = 2] : p \in Ix(x)}
  \cup {[Op("add_assign") EXCEPT !.v = Fresh(Len(x))], [Op("sub_assign") EXCEPT !.v = Fresh(Len(x))],
        [Op("add_assign") EXCEPT !.v = Fresh(Len(x) + 1)], [Op("sub_assign") EXCEPT !.v = Fresh(Len(x) + 1)]}
  \cup {[Op("clone_from") EXCEPT !.v = Fresh(n)] : n \in 0..(MaxLen + 1)}
  \cup {[Op("add_scalar_assign") EXCEPT !.x = 1], [Op("sub_scalar_assign") EXCEPT !.x = 1], [Op("mul_assign") EXCEPT !.x = -1]}
Observers(x) ==
     {[Op("find") EXCEPT !.x = a] : a \in Vals \cup {7}}
  \cup {[Op("sum_slice") EXCEPT !.a = p, !.b = q] : p \in Ix(x), q \in Ix(x)}
  \cup {[Op("product_slice") EXCEPT !.a = p, !.b = q] : p \in Ix(x), q \in Ix(x)}
  \cup {Op("sum"), Op("product"), Op("norm_1"), Op("norm_inf"), Op("abs"), Op("size"), Op("clone"), Op("neg")}
  \cup {[Op("get") EXCEPT !.i = p] : p \in 0..(Len(x) - 1)}
  \cup {[Op("dot") EXCEPT !.v = Fresh(Len(x))], [Op("add") EXCEPT !.v = Fresh(Len(x))], [Op("sub") EXCEPT !.v = Fresh(Len(x)), !.form = "own"],
        [Op("add") EXCEPT !.v = Fresh(Len(x) + 1), !.form = "mixed"], [Op("dot") EXCEPT !.v = Fresh(Len(x) + 1)]}
  \cup {[Op("eq") EXCEPT !.v = Fresh(n)] : n \in 0..(Len(x) + 1)} \cup {[Op("ne") EXCEPT !.v = x], [Op("eq") EXCEPT !.v = x]}
  \cup {[Op("mul_scalar") EXCEPT !.x = 2], [Op("mul_scalar") EXCEPT !.x = -1, !.form = "left"]}
\* observers do not change the vector: they are offered as the last step of an emitted behaviour only
Ops(x) == Mutators(x) \cup (IF Emit /\ Len(hist) = Depth - 1 THEN Observers(x) ELSE {})

(* ---------------- the twin: the same operations from the Sequences primitives ---------------- *)
RECURSIVE InsSorted(_, _)
InsSorted(s, a) == IF s = <<>> THEN <<a>> ELSE IF a <= Head(s) THEN <<a>> \o s ELSE <<Head(s)>> \o InsSorted(Tail(s), a)
RECURSIVE InsertionSort(_)
InsertionSort(s) == IF s = <<>> THEN <<>> ELSE InsSorted(InsertionSort(Tail(s)), Head(s))
RECURSIVE Rev(_)
Rev(s) == IF s = <<>> THEN <<>> ELSE Append(Rev(Tail(s)), Head(s))
RECURSIVE Rep(_, _)
Rep(n, a) == IF n <= 0 THEN <<>> ELSE Append(Rep(n - 1, a), a)
RECURSIVE Zip(_, _, _)
Zip(s, t, sign) == IF s = <<>> THEN <<>> ELSE <<Head(s) + sign * Head(t)>> \o Zip(Tail(s), Tail(t), sign)
RECURSIVE Map1(_, _, _)
Map1(s, mul, add) == IF s = <<>> THEN <<>> ELSE <<Head(s) * mul + add>> \o Map1(Tail(s), mul, add)
Twin(s, o) ==
  CASE o.op = "push" -> Append(s, o.x)
    [] o.op = "push_front" -> <<o.x>> \o s
    [] o.op = "insert" -> IF o.i <= Len(s) THEN SubSeq(s, 1, o.i) \o <<o.x>> \o SubSeq(s, o.i + 1, Len(s)) ELSE s
    [] o.op = "pop" -> IF s = <<>> THEN s ELSE SubSeq(s, 1, Len(s) - 1)
    [] o.op = "swap" -> IF o.i < Len(s) /\ o.j < Len(s) THEN [[s EXCEPT ![o.i + 1] = s[o.j + 1]] EXCEPT ![o.j + 1] = s[o.i + 1]] ELSE s
    [] o.op = "resize" -> IF o.n <= Len(s) THEN SubSeq(s, 1, o.n) ELSE s \o Rep(o.n - Len(s), 0)
    [] o.op = "assign" -> Rep(Len(s), o.x)
    [] o.op = "clear" -> <<>>
    [] o.op = "sort" -> InsertionSort(s)
    [] o.op = "sort_desc" -> Rev(InsertionSort(s))
    [] o.op = "set" -> IF o.i < Len(s) THEN [s EXCEPT ![o.i + 1] = o.x] ELSE s
    [] o.op = "add_assign" -> IF Len(o.v) = Len(s) THEN Zip(s, o.v, 1) ELSE s
    [] o.op = "sub_assign" -> IF Len(o.v) = Len(s) THEN Zip(s, o.v, -1) ELSE s
    [] o.op = "add_scalar_assign" -> Map1(s, 1, o.x)
    [] o.op = "sub_scalar_assign" -> Map1(s, 1, -o.x)
    [] o.op = "mul_assign" -> Map1(s, o.x, 0)
    [] o.op = "clone_from" -> o.v
    [] OTHER -> s

(* ---------------- machine 1: histories ---------------- *)
Starts == UNION {[1..n -> Vals] : n \in 0..MaxLen}
InitH == /\ v0 \in Starts /\ v = v0 /\ lst = v0 /\ hist = <<>>
NextH == /\ Len(hist) < Depth
         /\ \E o \in Ops(v) : v' = ApplyOp(v, o) /\ lst' = Twin(lst, o) /\ hist' = Append(hist, o)
         /\ v0' = v0
SpecH == InitH /\ [][NextH]_vars
View == <<v, lst, Len(hist)>>

TwinAgrees == SameSeq(v, lst)
RECURSIVE SeqSum(_)
SeqSum(s) == IF s = <<>> THEN 0 ELSE Head(s) + SeqSum(Tail(s))
RECURSIVE SeqProd(_)
SeqProd(s) == IF s = <<>> THEN 1 ELSE Head(s) * SeqProd(Tail(s))
Structure ==
  /\ Len(v) \in 0..(MaxLen + Depth + 1)
  /\ IsSorted(Sort(v)) /\ IsPermutation(Sort(v), v) /\ Len(Sort(v)) = Len(v)
  /\ SameSeq(SortDesc(v), Rev(Sort(v))) /\ SameSeq(Sort(Sort(v)), Sort(v))
  /\ \A a \in Vals \cup {7} :
        /\ Dom_Find(v) => LET f == Find(v, a) IN
              /\ InRange(v, f)
              /\ (El(v, f) = a /\ \A k \in 0..(f - 1) : El(v, k) # a) \/ (f = Len(v) - 1 /\ \A k \in 0..(Len(v) - 1) : El(v, k) # a)
        /\ SameSeq(Pop(Push(v, a)), v) /\ PopValue(Push(v, a)) = a
        /\ SameSeq(Insert(v, Len(v), a), Push(v, a)) /\ SameSeq(Insert(v, 0, a), PushFront(v, a))
        /\ \A p \in 0..Len(v) : LET w == Insert(v, p, a) IN
              Len(w) = Len(v) + 1 /\ El(w, p) = a /\ (\A k \in 0..(p - 1) : El(w, k) = El(v, k)) /\ (\A k \in p..(Len(v) - 1) : El(w, k + 1) = El(v, k))
        /\ Len(Assign(v, a)) = Len(v) /\ Count(Assign(v, a), a) = Len(v)
  /\ \A i \in 0..(Len(v) - 1), j \in 0..(Len(v) - 1) : SameSeq(Swap(Swap(v, i, j), i, j), v) /\ IsPermutation(Swap(v, i, j), v)
  /\ \A m \in 0..(Len(v) + 2) : LET w == Resize(v, m) IN
        Len(w) = m /\ (\A k \in 1..m : w[k] = IF k <= Len(v) THEN v[k] ELSE 0) /\ (m >= Len(v) => SameSeq(Resize(w, Len(v)), v))
  /\ \A a \in 0..(Len(v) - 1), b \in 0..(Len(v) - 1) : a <= b =>
        SumSlice(v, a, b) = SeqSum(SubSeq(v, a + 1, b + 1)) /\ ProductSlice(v, a, b) = SeqProd(SubSeq(v, a + 1, b + 1))
  /\ Norm1(v) = SeqSum(Abs(v)) /\ (Len(v) > 0 => \E k \in 1..Len(v) : NormInf(v) = IAbs(v[k]) /\ \A m \in 1..Len(v) : IAbs(v[m]) <= NormInf(v))
\* spec -> implementation: print each complete behaviour once
EmitCase == (Emit /\ Len(hist) = Depth) => PrintT(<<"CASE", ToJson([init |-> v0, ops |-> hist])>>)

(* ---------------- machine 2: algebraic laws over all small integer vectors ---------------- *)
\* the vectors are built entry by entry so that TLC's workers share the states (one state per vector)
InitL == /\ v = <<>> /\ lst = <<>> /\ v0 = <<>> /\ hist = <<>>
NextL == /\ Len(v) < LawLen /\ \E a \in Ent : v' = Append(v, a)
         /\ UNCHANGED <<lst, v0, hist>>
SpecL == InitL /\ [][NextL]_vars
Ones(n) == [k \in 1..n |-> 1]
IsZero(x) == \A k \in 1..Len(x) : x[k] = 0
Laws ==
  LET n == Len(v) IN
  /\ Norm1(v) >= 0 /\ (Norm1(v) = 0 <=> IsZero(v)) /\ SumSq(v) >= 0 /\ (SumSq(v) = 0 <=> IsZero(v))
  /\ n > 0 => /\ NormInf(v) >= 0 /\ (NormInf(v) = 0 <=> IsZero(v))
              /\ NormInf(v) * NormInf(v) <= SumSq(v) /\ SumSq(v) <= Norm1(v) * Norm1(v)         \* inf <= 2 <= 1 (squared)
              /\ NormInf(v) <= Norm1(v) /\ Norm1(v) <= n * NormInf(v)
              /\ Sum(v) = Dot(v, Ones(n)) /\ Norm1(v) = Dot(Abs(v), Ones(n))
  /\ \A s \in (-3)..3 :                                                                        \* homogeneity
        /\ Norm1(Scale(v, s)) = IAbs(s) * Norm1(v) /\ SumSq(Scale(v, s)) = s * s * SumSq(v)
        /\ (n > 0 => NormInf(Scale(v, s)) = IAbs(s) * NormInf(v))
        /\ (s # 0 => IsQuot(v, Scale(v, s), s)) /\ SameSeq(Shift(Shift(v, s), -s), v)
  /\ SameSeq(Neg(Neg(v)), v) /\ SameSeq(Sub(v, v), Zeros(n)) /\ SameSeq(Add(v, v), Scale(v, 2)) /\ SameSeq(Abs(Abs(v)), Abs(v))
  /\ \A a \in 0..(n - 1) : SumSlice(v, a, a) = El(v, a) /\ ProductSlice(v, a, a) = El(v, a)
  /\ \A a \in 0..(n - 1), b \in 0..(n - 1), c \in 0..(n - 1) : (a <= b /\ b < c) =>                \* slice additivity
        /\ SumSlice(v, a, b) + SumSlice(v, b + 1, c) = SumSlice(v, a, c)
        /\ ProductSlice(v, a, b) * ProductSlice(v, b + 1, c) = ProductSlice(v, a, c)
  /\ \A y \in [1..n -> Ent] :
        /\ Norm1(Add(v, y)) <= Norm1(v) + Norm1(y)                                              \* triangle inequality
        /\ (n > 0 => NormInf(Add(v, y)) <= NormInf(v) + NormInf(y))
        /\ Dot(v, y) * Dot(v, y) <= SumSq(v) * SumSq(y)                                         \* Cauchy-Schwarz = triangle for the 2-norm
        /\ SumSq(Add(v, y)) = SumSq(v) + 2 * Dot(v, y) + SumSq(y)
        /\ Dot(v, y) = Dot(y, v)                                                                \* symmetric
        /\ \A s \in (-2)..2 : Dot(Scale(v, s), y) = s * Dot(v, y)                               \* homogeneous
        /\ SameSeq(Sub(Add(v, y), y), v) /\ SameSeq(Add(v, y), Add(y, v)) /\ SameSeq(Sub(v, y), Add(v, Neg(y)))
        /\ (n <= BilinLen => \A z \in [1..n -> Ent] : Dot(Add(v, z), y) = Dot(v, y) + Dot(z, y))  \* additive
        \* complex forms, v + i y:  z conj(z) = |z|^2, conj is an involution, the complex dot product is symmetric
        /\ CDotRe(v, y, v, Conj(y)) = SumSq(v) + SumSq(y) /\ CDotIm(v, y, v, Conj(y)) = 0
        /\ SameSeq(Conj(Conj(y)), y)
        /\ CDotRe(v, y, y, v) = CDotRe(y, v, v, y) /\ CDotIm(v, y, y, v) = CDotIm(y, v, v, y)
        /\ SameSeq(CScaleRe(v, y, 1, 0), v) /\ SameSeq(CScaleIm(v, y, 1, 0), y)
        /\ SameSeq(CScaleRe(v, y, 0, 1), Neg(y)) /\ SameSeq(CScaleIm(v, y, 0, 1), v)             \* multiplication by i
        /\ \A s \in (-1)..2, t \in (-1)..2 : (s # 0 \/ t # 0) => CIsQuot(v, y, CScaleRe(v, y, s, t), CScaleIm(v, y, s, t), s, t)
        /\ \A a \in 0..(n - 1), b \in 0..(n - 1), c \in 0..(n - 1) : (a <= b /\ b < c) =>
              LET p == CProductSlice(v, y, a, b)  q == CProductSlice(v, y, b + 1, c)  r == CProductSlice(v, y, a, c)
              IN r[1] = CMulRe(p[1], p[2], q[1], q[2]) /\ r[2] = CMulIm(p[1], p[2], q[1], q[2])
        /\ (n > 0 => CProductSlice(v, Zeros(n), 0, n - 1) = <<Product(v), 0>>)
=============================================================================
