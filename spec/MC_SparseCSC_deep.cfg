SPECIFICATION Spec
CONSTANTS MaxR = 2  MaxC = 3  MaxEnt = 4  Depth = 3  Emit = FALSE  WithZero = FALSE
VIEW View
INVARIANTS Inv_Domain Inv_WellFormed Inv_Refines Inv_Views Inv_Fast Inv_Value
CHECK_DEADLOCK FALSE
