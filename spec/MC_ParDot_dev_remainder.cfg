SPECIFICATION Spec
CONSTANTS MaxLen = 4  MaxThreads = 3  Rule = "no_remainder"  JoinOrder = "spawn"  LemmaLen = 0  LemmaThreads = 1
INVARIANTS EachIndexOnce
CHECK_DEADLOCK FALSE
