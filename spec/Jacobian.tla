------------------------------ MODULE Jacobian ------------------------------
(* C18 - the finite-difference Jacobian of a map R^n -> R^m, over the integers.          *)
(* The map is affine, x |-> M x + c, so that every forward difference quotient is an     *)
(* exact integer (delta divides delta * M[i][j]) and the result must be exactly M.       *)
(*                                                                                       *)
(* Two layers:                                                                           *)
(*  - pure operators: what a legal evaluation point is (PointOK: the base point, or the  *)
(*    base point with exactly ONE coordinate moved by exactly delta - i.e. the previous  *)
(*    coordinate was restored before the next was perturbed), what a legal sequence of   *)
(*    evaluation points is (PointsExplained), and the forward quotient (FwdQuotCol);     *)
(*  - the algorithm as a step machine over an explicit state record s (functional style, *)
(*    so that trace specifications can extend this module without inheriting variables): *)
(*    EvalBase, then for each coordinate IN ANY ORDER Perturb(j), EvalPerturbed(j),      *)
(*    Restore(j), StoreCol(j).  MC_Jacobian proves in small scope that every behaviour   *)
(*    of the machine satisfies the pure predicates and ends with the matrix M.           *)
(*                                                                                       *)
(* Deviation switch (DESIGN section 6, D1): the column store is Matrix::set_col, whose    *)
(* range check once compared the column index with the number of ROWS.  With             *)
(* SetColRangeAgainst = "rows" StoreCol(j) is refused for j >= m, i.e. for every wide    *)
(* Jacobian (m < n) the machine panics; the required behaviour is "cols".                *)
EXTENDS Dense
CONSTANT SetColRangeAgainst        \* "cols" (required) | "rows" (the code before fix D1)

(* ---------------- pure operators ---------------- *)
\* points are sequences 1..n; coordinate j (0-based like the code) is index j + 1
Affine(M, c, x) == [i \in 1..M.r |-> Dot(GetRow(M, i - 1), x) + c[i]]
Bump(x, j, d) == [k \in 1..Len(x) |-> IF k = j + 1 THEN x[k] + d ELSE x[k]]
DiffSet(p, x) == {k \in 1..Len(x) : p[k] # x[k]}
\* the base point, or the base point with exactly one coordinate moved by exactly d
PointOK(p, x, d) == /\ Len(p) = Len(x)
                    /\ Cardinality(DiffSet(p, x)) <= 1
                    /\ \A k \in DiffSet(p, x) : p[k] - x[k] = d
\* which coordinate a legal point perturbs (-1: none, it is the base point)
CoordOf(p, x) == IF DiffSet(p, x) = {} THEN -1 ELSE (CHOOSE k \in DiffSet(p, x) : TRUE) - 1
\* a legal sequence of evaluation points: every point legal, the base point and every coordinate visited.
\* (How often a point is evaluated and in which order the coordinates are taken is left open.)
PointsExplained(pts, x, d) ==
    /\ \A q \in 1..Len(pts) : PointOK(pts[q], x, d)
    /\ \E q \in 1..Len(pts) : CoordOf(pts[q], x) = -1
    /\ \A j \in 0..(Len(x) - 1) : \E q \in 1..Len(pts) : CoordOf(pts[q], x) = j
\* column j of the result: the forward difference quotient (exact: the difference is a multiple of d)
FwdQuotCol(fb, fn, d) == [i \in 1..Len(fb) |-> QuotExact(fn[i] - fb[i], d)]
\* the forward quotient of the square, exactly: ((x + d)^2 - x^2) / d = 2 x + d  (MC_Jacobian checks the identity);
\* a central stencil would give 2 x, a step other than d another number
QuadQuot(x, d) == 2 * x + d
\* the acceptance test of the column store
AccStore(J, j) == IF SetColRangeAgainst = "rows" THEN 0 <= j /\ j < J.r ELSE 0 <= j /\ j < J.c

(* ---------------- the algorithm as a machine over a state record ---------------- *)
(* P = [m, n, M, c, x, d] is the problem; s the machine state.                           *)
JInit(P) == [phase |-> "start", state |-> P.x, fbase |-> <<>>, fnew |-> <<>>, jac |-> Empty, cur |-> -1, sub |-> "idle",
             done |-> {}, pts |-> <<>>, npert |-> [j \in 0..(P.n - 1) |-> 0]]

EvalBase(P, s) == [s EXCEPT !.phase = "loop", !.fbase = Affine(P.M, P.c, s.state), !.pts = Append(s.pts, s.state),
                            !.jac = New(Len(Affine(P.M, P.c, s.state)), P.n, 0)]
Perturb(P, s, j) == [s EXCEPT !.state = Bump(s.state, j, P.d), !.cur = j, !.sub = "perturbed", !.npert[j] = s.npert[j] + 1]
EvalPerturbed(P, s) == [s EXCEPT !.fnew = Affine(P.M, P.c, s.state), !.pts = Append(s.pts, s.state), !.sub = "evaluated"]
Restore(P, s) == [s EXCEPT !.state = Bump(s.state, s.cur, -P.d), !.sub = "restored"]
StoreCol(P, s) == IF AccStore(s.jac, s.cur)
                    THEN [s EXCEPT !.jac = SetCol(s.jac, s.cur, FwdQuotCol(s.fbase, s.fnew, P.d)), !.done = s.done \cup {s.cur},
                                   !.cur = -1, !.sub = "idle"]
                    ELSE [s EXCEPT !.phase = "panic"]
Finish(P, s) == [s EXCEPT !.phase = "done"]

\* the set of successor states
JNext(P, s) ==
  CASE s.phase = "start" -> {EvalBase(P, s)}
    [] s.phase = "loop" /\ s.sub = "idle" ->
          IF s.done = 0..(P.n - 1) THEN {Finish(P, s)} ELSE {Perturb(P, s, j) : j \in (0..(P.n - 1)) \ s.done}
    [] s.phase = "loop" /\ s.sub = "perturbed" -> {EvalPerturbed(P, s)}
    [] s.phase = "loop" /\ s.sub = "evaluated" -> {Restore(P, s)}
    [] s.phase = "loop" /\ s.sub = "restored" -> {StoreCol(P, s)}
    [] OTHER -> {}
=============================================================================
