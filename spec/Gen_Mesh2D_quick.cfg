SPECIFICATION Spec
CONSTANTS
  Shapes <- ShapesGenQ
  NVs = {2}
  Types = {FALSE, TRUE}
  Vals <- MCVals
  Depth = 2
  Emit = TRUE
  Positional = TRUE
INVARIANTS EmitCase
CHECK_DEADLOCK FALSE
