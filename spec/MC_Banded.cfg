SPECIFICATION Spec
CONSTANTS MinN = 1  MaxN = 3  LawN = 8  BWTop = 4  Vals <- MCVals  Pads = {0, 7}  PivotBy = "magnitude"  Emit = FALSE
INVARIANTS DetOK PivotNonzero SolveOK MultipliersBounded OperatorAgrees LawsShape LawsValue
CHECK_DEADLOCK FALSE
