// Auto-registers every suite in src/suites/*.rs: each file must export
//   pub fn gen(tier: &str, seed: u64, out: &mut crate::util::Out)
//   pub fn exec(case: &serde_json::Value, out: &mut crate::util::Out)
use std::{env, fs, path::Path};
fn main() {
    let dir = Path::new(&env::var("CARGO_MANIFEST_DIR").unwrap()).join("src/suites");
    let mut names: Vec<String> = fs::read_dir(&dir).unwrap().filter_map(|e| e.ok()).filter_map(|e| {
        let p = e.path(); if p.extension().map(|x| x == "rs").unwrap_or(false) { Some(p.file_stem().unwrap().to_string_lossy().to_string()) } else { None } }).collect();
    names.sort();
    let mut s = String::new();
    for n in &names { s += &format!("#[path = \"{}/{}.rs\"] pub mod {};\n", dir.display(), n, n); }
    s += "pub fn gen(suite: &str, tier: &str, seed: u64, out: &mut crate::util::Out) -> bool { match suite {\n";
    for n in &names { s += &format!("  \"{}\" => {{ {}::gen(tier, seed, out); true }}\n", n, n); }
    s += "  _ => false } }\n";
    s += "pub fn exec(suite: &str, case: &serde_json::Value, out: &mut crate::util::Out) -> bool { match suite {\n";
    for n in &names { s += &format!("  \"{}\" => {{ {}::exec(case, out); true }}\n", n, n); }
    s += "  _ => false } }\n";
    fs::write(Path::new(&env::var("OUT_DIR").unwrap()).join("suites_gen.rs"), s).unwrap();
    println!("cargo:rerun-if-changed=src/suites");
    println!("cargo:rerun-if-changed=build.rs");
}
