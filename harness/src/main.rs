//! ohsl-conf: conformance harness binding the TLA+ specifications in /verif/spec to the real crate.
//!   ohsl-conf gen  <suite> <tier> <seed> <cases.ndjson>     generate cases (inputs only)
//!   ohsl-conf exec <suite> <cases.ndjson> <events.ndjson>   run the real code on each case, log events
//! Suites live in src/suites/<name>.rs and are registered automatically by build.rs.
#![allow(dead_code)]
pub mod rat; pub mod dd; pub mod util;
pub mod suites { include!(concat!(env!("OUT_DIR"), "/suites_gen.rs")); }
use util::*;

fn main() {
    let a: Vec<String> = std::env::args().collect();
    if a.len() < 5 { eprintln!("usage: ohsl-conf gen <suite> <tier> <seed> <out> | exec <suite> <cases> <out>"); std::process::exit(2); }
    silence_panics();
    match a[1].as_str() {
        "gen" => {
            let seed: u64 = a[4].parse().unwrap_or(1);
            let mut out = Out::create(&a[5]);
            if !suites::gen(&a[2], &a[3], seed, &mut out) { eprintln!("TOOL-ERROR unknown suite {}", a[2]); std::process::exit(2) }
            println!("cases {}", out.n); out.finish();
        }
        "exec" => {
            let cases = read_ndjson(&a[3]);
            let mut out = Out::create(&a[4]);
            for c in &cases {
                if !suites::exec(&a[2], c, &mut out) { eprintln!("TOOL-ERROR unknown suite {}", a[2]); std::process::exit(2) }
            }
            println!("events {}", out.n); out.finish();
        }
        _ => { eprintln!("unknown command"); std::process::exit(2) }
    }
}
