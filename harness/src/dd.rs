//! Double-double arithmetic (about 32 significant digits) used as the reference for
//! floating-point error measurements.  Trusted measurement code.
#[derive(Clone, Copy, Debug)]
pub struct DD { pub hi: f64, pub lo: f64 }
#[inline] fn two_sum(a: f64, b: f64) -> (f64, f64) { let s = a + b; let bb = s - a; (s, (a - (s - bb)) + (b - bb)) }
#[inline] fn quick_two_sum(a: f64, b: f64) -> (f64, f64) { let s = a + b; (s, b - (s - a)) }
#[inline] fn two_prod(a: f64, b: f64) -> (f64, f64) { let p = a * b; (p, a.mul_add(b, -p)) }
impl DD {
    pub const ZERO: DD = DD { hi: 0.0, lo: 0.0 };
    pub fn from(x: f64) -> DD { DD { hi: x, lo: 0.0 } }
    pub fn add(self, o: DD) -> DD { let (s, e) = two_sum(self.hi, o.hi); let e = e + self.lo + o.lo; let (h, l) = quick_two_sum(s, e); DD { hi: h, lo: l } }
    pub fn neg(self) -> DD { DD { hi: -self.hi, lo: -self.lo } }
    pub fn sub(self, o: DD) -> DD { self.add(o.neg()) }
    pub fn mul(self, o: DD) -> DD { let (p, e) = two_prod(self.hi, o.hi); let e = e + self.hi * o.lo + self.lo * o.hi; let (h, l) = quick_two_sum(p, e); DD { hi: h, lo: l } }
    pub fn mulf(self, o: f64) -> DD { self.mul(DD::from(o)) }
    pub fn div(self, o: DD) -> DD {
        let q1 = self.hi / o.hi; let r = self.sub(o.mulf(q1)); let q2 = r.hi / o.hi; let r2 = r.sub(o.mulf(q2)); let q3 = r2.hi / o.hi;
        let (h, l) = quick_two_sum(q1, q2); DD { hi: h, lo: l }.add(DD::from(q3)) }
    pub fn abs(self) -> DD { if self.hi < 0.0 || (self.hi == 0.0 && self.lo < 0.0) { self.neg() } else { self } }
    pub fn to_f64(self) -> f64 { self.hi + self.lo }
    pub fn prod(a: f64, b: f64) -> DD { let (p, e) = two_prod(a, b); DD { hi: p, lo: e } }
    pub fn sqrt(self) -> DD { if self.hi <= 0.0 { return DD::ZERO; } let x = self.hi.sqrt(); let xx = DD::from(x); let r = self.sub(xx.mul(xx)); xx.add(DD::from(r.hi / (2.0 * x))) }
}
/// complex double-double
#[derive(Clone, Copy, Debug)]
pub struct CDD { pub re: DD, pub im: DD }
impl CDD {
    pub const ZERO: CDD = CDD { re: DD::ZERO, im: DD::ZERO };
    pub fn from(re: f64, im: f64) -> CDD { CDD { re: DD::from(re), im: DD::from(im) } }
    pub fn add(self, o: CDD) -> CDD { CDD { re: self.re.add(o.re), im: self.im.add(o.im) } }
    pub fn sub(self, o: CDD) -> CDD { CDD { re: self.re.sub(o.re), im: self.im.sub(o.im) } }
    pub fn mul(self, o: CDD) -> CDD { CDD { re: self.re.mul(o.re).sub(self.im.mul(o.im)), im: self.re.mul(o.im).add(self.im.mul(o.re)) } }
    pub fn div(self, o: CDD) -> CDD { let den = o.re.mul(o.re).add(o.im.mul(o.im));
        CDD { re: self.re.mul(o.re).add(self.im.mul(o.im)).div(den), im: self.im.mul(o.re).sub(self.re.mul(o.im)).div(den) } }
    pub fn abs(self) -> f64 { let a = self.re.to_f64(); let b = self.im.to_f64(); a.hypot(b) }
}
