//! Shared helpers: element-type abstraction, JSON projection under TLC's encoding rule
//! (only 32-bit integers, booleans, strings, arrays, objects), panic capture, file I/O.
use crate::rat::Rat;
use ohsl::{Cmplx, Matrix, Vector};
use rand::rngs::StdRng;
use rand::{Rng, SeedableRng};
use serde_json::{json, Value};
use std::io::{BufRead, BufReader, BufWriter, Write};
use std::panic::{catch_unwind, AssertUnwindSafe};

/// Sentinel logged for a value that is not exactly the integer it should be (never matches an expectation).
pub const BAD: i64 = 1_073_741_823;
pub const SAT: i64 = 1 << 30;

pub fn rng(seed: u64, stream: u64) -> StdRng { StdRng::seed_from_u64(seed.wrapping_mul(0x9E3779B97F4A7C15).wrapping_add(stream)) }

/// Run a closure, capturing a panic as data.
pub fn guarded<R>(f: impl FnOnce() -> R) -> Result<R, String> {
    match catch_unwind(AssertUnwindSafe(f)) {
        Ok(r) => Ok(r),
        Err(p) => Err(if let Some(s) = p.downcast_ref::<&str>() { s.to_string() } else if let Some(s) = p.downcast_ref::<String>() { s.clone() } else { "panic".to_string() }),
    }
}
pub fn silence_panics() { std::panic::set_hook(Box::new(|_| {})); }

pub fn read_ndjson(path: &str) -> Vec<Value> {
    let f = std::fs::File::open(path).unwrap_or_else(|e| { eprintln!("TOOL-ERROR cannot open {}: {}", path, e); std::process::exit(2) });
    BufReader::new(f).lines().map(|l| l.unwrap()).filter(|l| !l.trim().is_empty()).map(|l| serde_json::from_str(&l).unwrap_or_else(|e| { eprintln!("TOOL-ERROR bad json {}: {}", l, e); std::process::exit(2) })).collect()
}
pub struct Out { w: BufWriter<std::fs::File>, pub n: i64 }
impl Out {
    pub fn create(path: &str) -> Out { Out { w: BufWriter::new(std::fs::File::create(path).unwrap()), n: 0 } }
    /// write an event; assigns the sequential `id`
    pub fn ev(&mut self, mut v: Value) { self.n += 1; v["id"] = json!(self.n); writeln!(self.w, "{}", v).unwrap(); }
    pub fn raw(&mut self, v: &Value) { self.n += 1; writeln!(self.w, "{}", v).unwrap(); }
    pub fn finish(mut self) { self.w.flush().unwrap(); }
}

/// Element types the generic containers are instantiated at.  A value is projected to a pair of
/// integers (real part, imaginary part); real types have imaginary part 0.
pub trait ElemBase: Copy + Clone + ohsl::Number + std::fmt::Debug + Send + Sync + 'static {
    const CX: bool;
    const NAME: &'static str;
    fn from_ri(re: i64, im: i64) -> Self;
    fn to_ri(&self) -> (i64, i64);
}
/// element types that also have a sign (everything except the unsigned integers)
pub trait Elem: ElemBase + ohsl::Signed {}
impl<T: ElemBase + ohsl::Signed> Elem for T {}
fn f2i(x: f64) -> i64 { if x.is_finite() && x == x.trunc() && x.abs() < SAT as f64 { x as i64 } else { BAD } }
impl ElemBase for f64 { const CX: bool = false; const NAME: &'static str = "f64";
    fn from_ri(re: i64, _im: i64) -> f64 { re as f64 } fn to_ri(&self) -> (i64, i64) { (f2i(*self), 0) } }
impl ElemBase for Rat { const CX: bool = false; const NAME: &'static str = "rat";
    fn from_ri(re: i64, _im: i64) -> Rat { Rat::int(re) }
    fn to_ri(&self) -> (i64, i64) { (if self.d == 1 && self.n.abs() < SAT as i128 { self.n as i64 } else { BAD }, 0) } }
impl ElemBase for i64 { const CX: bool = false; const NAME: &'static str = "i64";
    fn from_ri(re: i64, _im: i64) -> i64 { re } fn to_ri(&self) -> (i64, i64) { (if self.abs() < SAT { *self } else { BAD }, 0) } }
impl ElemBase for f32 { const CX: bool = false; const NAME: &'static str = "f32";
    fn from_ri(re: i64, _im: i64) -> f32 { re as f32 } fn to_ri(&self) -> (i64, i64) { (f2i(*self as f64), 0) } }
impl ElemBase for i32 { const CX: bool = false; const NAME: &'static str = "i32";
    fn from_ri(re: i64, _im: i64) -> i32 { re as i32 } fn to_ri(&self) -> (i64, i64) { (*self as i64, 0) } }
impl ElemBase for u32 { const CX: bool = false; const NAME: &'static str = "u32";
    fn from_ri(re: i64, _im: i64) -> u32 { re as u32 } fn to_ri(&self) -> (i64, i64) { (if (*self as i64) < SAT { *self as i64 } else { BAD }, 0) } }
impl ElemBase for Cmplx { const CX: bool = true; const NAME: &'static str = "cx";
    fn from_ri(re: i64, im: i64) -> Cmplx { Cmplx::new(re as f64, im as f64) } fn to_ri(&self) -> (i64, i64) { (f2i(self.real), f2i(self.imag)) } }

/// which component of a projection is wanted
#[derive(Clone, Copy, PartialEq)]
pub enum Part { Re, Im }
pub fn part(p: (i64, i64), w: Part) -> i64 { if w == Part::Re { p.0 } else { p.1 } }

pub fn jmat<T: ElemBase>(m: &Matrix<T>, w: Part) -> Value {
    let mut d = Vec::with_capacity(m.rows() * m.cols());
    for i in 0..m.rows() { for j in 0..m.cols() { d.push(part(m[(i, j)].to_ri(), w)); } }
    json!({"r": m.rows(), "c": m.cols(), "d": d})
}
pub fn jvec<T: ElemBase>(v: &Vector<T>, w: Part) -> Value { Value::from(v.vec.iter().map(|x| part(x.to_ri(), w)).collect::<Vec<i64>>()) }

pub fn geti(v: &Value, k: &str) -> i64 { v[k].as_i64().unwrap_or_else(|| { eprintln!("TOOL-ERROR missing int field {} in {}", k, v); std::process::exit(2) }) }
pub fn getu(v: &Value, k: &str) -> usize { let x = geti(v, k); if x < 0 { usize::MAX / 4 } else { x as usize } }
pub fn gets<'a>(v: &'a Value, k: &str) -> &'a str { v[k].as_str().unwrap_or("") }
pub fn ivec(v: &Value) -> Vec<i64> { v.as_array().map(|a| a.iter().map(|x| x.as_i64().unwrap()).collect()).unwrap_or_default() }

/// build a matrix from {r,c,d} (+ optional imaginary twin)
pub fn mat_from<T: ElemBase>(re: &Value, im: Option<&Value>) -> Matrix<T> {
    let r = getu(re, "r"); let c = getu(re, "c"); let d = ivec(&re["d"]);
    let di = im.map(|v| ivec(&v["d"]));
    let mut m = Matrix::<T>::new(r, c, T::from_ri(0, 0));
    for i in 0..r { for j in 0..c { let k = i * c + j; m[(i, j)] = T::from_ri(d[k], di.as_ref().map(|x| x[k]).unwrap_or(0)); } }
    m
}
pub fn vec_from<T: ElemBase>(re: &Value, im: Option<&Value>) -> Vector<T> {
    let d = ivec(re); let di = im.map(ivec);
    Vector::create(d.iter().enumerate().map(|(k, x)| T::from_ri(*x, di.as_ref().map(|y| y[k]).unwrap_or(0))).collect())
}
pub fn rand_mat_json(rng: &mut StdRng, r: usize, c: usize, lo: i64, hi: i64) -> Value {
    json!({"r": r, "c": c, "d": (0..r * c).map(|_| rng.gen_range(lo..=hi)).collect::<Vec<i64>>()})
}
pub fn rand_vec_json(rng: &mut StdRng, n: usize, lo: i64, hi: i64) -> Value { Value::from((0..n).map(|_| rng.gen_range(lo..=hi)).collect::<Vec<i64>>()) }

/// ceil(err/unit) saturated, as an integer number of units (float clauses)
pub fn units(err: f64, unit: f64) -> i64 {
    if !err.is_finite() { return SAT; }
    if err <= 0.0 { return 0; }
    if unit <= 0.0 || !unit.is_finite() { return SAT; }
    let u = (err / unit).ceil(); if u >= SAT as f64 { SAT } else { u as i64 }
}
pub fn bits(x: f64) -> String { format!("{:016x}", x.to_bits()) }

// ---------------------------------------------------------------- exact rationals in events: [n, d]
/// `[n, d]` (reduced, d > 0); a value that does not fit TLC's 32-bit integers is logged as [BAD, 1]
pub fn jrat(r: Rat) -> Value { if r.n.abs() < SAT as i128 && r.d < SAT as i128 { json!([r.n as i64, r.d as i64]) } else { json!([BAD, 1]) } }
pub fn rat_fits(r: Rat) -> bool { r.n.abs() < SAT as i128 && r.d < SAT as i128 }
/// accepts an integer or a pair [n, d]
pub fn rat_from(v: &Value) -> Rat { if let Some(n) = v.as_i64() { Rat::int(n) } else { Rat::new(v[0].as_i64().unwrap() as i128, v[1].as_i64().unwrap() as i128) } }
pub fn jratvec(v: &Vector<Rat>) -> Value { Value::from(v.vec.iter().map(|x| jrat(*x)).collect::<Vec<Value>>()) }
pub fn ratvec_from(v: &Value) -> Vector<Rat> { Vector::create(v.as_array().map(|a| a.iter().map(rat_from).collect()).unwrap_or_default()) }
/// {r, c, d: [[n,d], ...]} row-major
pub fn jratmat(m: &Matrix<Rat>) -> Value {
    let mut d = Vec::new(); for i in 0..m.rows() { for j in 0..m.cols() { d.push(jrat(m[(i, j)])); } }
    json!({"r": m.rows(), "c": m.cols(), "d": d})
}
pub fn ratmat_from(v: &Value) -> Matrix<Rat> {
    let r = getu(v, "r"); let c = getu(v, "c"); let d = v["d"].as_array().unwrap();
    let mut m = Matrix::<Rat>::new(r, c, Rat::int(0)); for i in 0..r { for j in 0..c { m[(i, j)] = rat_from(&d[i * c + j]); } } m
}
/// f64 matrix / vector from integer JSON
pub fn f64mat_from(v: &Value) -> Matrix<f64> { mat_from::<f64>(v, None) }
pub fn f64vec_from(v: &Value) -> Vector<f64> { vec_from::<f64>(v, None) }
/// an f64 given as {"m": mantissa(int), "e": exponent(int)} meaning m * 2^e, or a plain integer
pub fn f64_from(v: &Value) -> f64 { if let Some(n) = v.as_i64() { n as f64 } else { (v["m"].as_i64().unwrap() as f64) * (2.0f64).powi(v["e"].as_i64().unwrap() as i32) } }
