//! Suite "cfun": the 38 public functions of ohsl::Complex<f64> against their defining relations (C14).
//! A case is one OBLIGATION enumerated by spec/MC_ComplexFun.tla:
//!   kind "rel":        relation `rel` (kind, f, g, h, cond) on region `reg` (kind, dir, m, side, c), with the range
//!                      predicate `range` of f;  the harness evaluates the relation on a deterministic lattice of
//!                      points of the region plus `nrand` seeded random points and reports the worst error in units of
//!                      64 * eps * max(1, magnitudes) * cond, the conjunction of the range flags and the point count;
//!   kind "sqrt_exact": sqrt(z) against the exact principal root `expect` (Gaussian integers);
//!   kind "powk":       pow(z, k + 0i) and powf(z, k) against the exact Gaussian rational `expect`;
//!   kind "start"/"end": markers of a complete pass over the obligation list.
//! References are independent of the code under test: power series in double-double (exp with argument halving,
//! sin, cos, sinh, cosh), ln by Newton iteration on the double-double exp from the real std ln/atan2, real std
//! functions on the axes, double-double field arithmetic for quotients/products.
use crate::dd::{CDD, DD};
use crate::util::*;
use ohsl::{Cmplx, One, Zero};
use rand::rngs::StdRng;
use rand::Rng;
use serde_json::{json, Value};
use std::f64::consts::{FRAC_PI_2, PI};

const EPS: f64 = f64::EPSILON;
const UNIT: f64 = 64.0 * EPS;

// ------------------------------------------------------------------ double-double helpers
fn c(re: f64, im: f64) -> Cmplx { Cmplx::new(re, im) }
fn cd(z: Cmplx) -> CDD { CDD::from(z.real, z.imag) }
fn cscale(a: CDD, s: f64) -> CDD { CDD { re: a.re.mulf(s), im: a.im.mulf(s) } }
fn cneg(a: CDD) -> CDD { CDD { re: a.re.neg(), im: a.im.neg() } }
fn cone() -> CDD { CDD::from(1.0, 0.0) }
fn cdist(a: CDD, b: CDD) -> f64 { a.sub(b).abs() }
fn cfinite(z: Cmplx) -> bool { z.real.is_finite() && z.imag.is_finite() }
/// sum_{n} z^n / n! restricted to the terms selected by (start, step, alternate)
fn series(z: CDD, start: usize, step: usize, alternate: bool) -> CDD {
    let mut term = cone();            // z^n / n!
    let mut sum = CDD::ZERO;
    let mut sign = 1.0;
    for n in 0..400usize {
        if n >= start && (n - start) % step == 0 {
            sum = sum.add(cscale(term, sign));
            if alternate { sign = -sign; }
        }
        let d = DD::from((n + 1) as f64); let t = term.mul(z);
        term = CDD { re: t.re.div(d), im: t.im.div(d) };
        if n > 8 && term.abs() < 1e-40 * (1.0f64).max(sum.abs()) { break; }
    }
    sum
}
fn exp_dd(z: CDD) -> CDD {
    // argument halving: exp(z) = exp(z / 2^k)^(2^k), |z / 2^k| < 1/2
    let mut k = 0; let mut m = z.abs();
    while m > 0.5 { m *= 0.5; k += 1; }
    let mut e = series(cscale(z, 0.5f64.powi(k)), 0, 1, false);
    for _ in 0..k { e = e.mul(e); }
    e
}
fn sin_dd(z: CDD) -> CDD { series(z, 1, 2, true) }
fn cos_dd(z: CDD) -> CDD { series(z, 0, 2, true) }
fn sinh_dd(z: CDD) -> CDD { series(z, 1, 2, false) }
fn cosh_dd(z: CDD) -> CDD { series(z, 0, 2, false) }
/// principal logarithm: Newton iteration y <- y + z exp(-y) - 1 from the real std ln / atan2
fn ln_dd(z: Cmplx) -> CDD {
    let mut y = CDD::from(z.real.hypot(z.imag).ln(), z.imag.atan2(z.real));
    for _ in 0..3 { let corr = cd(z).mul(exp_dd(cneg(y))).sub(cone()); y = y.add(corr); }
    y
}

/// the admissible values of ln z: on the negative real axis with imaginary part -0.0 the argument sits on the branch
/// cut and either limiting value (Im = -pi or +pi) is accepted (no side convention is demanded on a cut; with
/// imaginary part +0.0 the stated range (-pi, pi] fixes +pi)
fn cut_limits(z: Cmplx, l: CDD) -> Vec<CDD> {
    if z.imag == 0.0 && z.imag.is_sign_negative() && z.real < 0.0 { vec![l, CDD { re: l.re, im: l.im.neg() }] } else { vec![l] }
}

// ------------------------------------------------------------------ the functions under test, by catalogue name
fn apply1(name: &str, z: Cmplx) -> Cmplx {
    match name {
        "sqrt" => z.sqrt(), "exp" => z.exp(), "ln" => z.ln(),
        "sin" => z.sin(), "cos" => z.cos(), "tan" => z.tan(), "sec" => z.sec(), "csc" => z.csc(), "cot" => z.cot(),
        "asin" => z.asin(), "acos" => z.acos(), "atan" => z.atan(), "asec" => z.asec(), "acsc" => z.acsc(), "acot" => z.acot(),
        "sinh" => z.sinh(), "cosh" => z.cosh(), "tanh" => z.tanh(), "sech" => z.sech(), "csch" => z.csch(), "coth" => z.coth(),
        "asinh" => z.asinh(), "acosh" => z.acosh(), "atanh" => z.atanh(), "asech" => z.asech(), "acsch" => z.acsch(), "acoth" => z.acoth(),
        "conj" => z.conj(),
        other => { eprintln!("TOOL-ERROR cfun: unknown unary function {}", other); std::process::exit(2) }
    }
}
// ------------------------------------------------------------------ interleaved evaluation of the whole catalogue on one z
/// the unary functions of apply1, in catalogue order
const UNARY: [&str; 28] = ["sqrt", "exp", "ln", "sin", "cos", "tan", "sec", "csc", "cot", "asin", "acos", "atan", "asec", "acsc", "acot",
    "sinh", "cosh", "tanh", "sech", "csch", "coth", "asinh", "acosh", "atanh", "asech", "acsch", "acoth", "conj"];
/// functions that decompose their argument into modulus and phase (ComplexFun.Decomp)
const DECOMP: [&str; 20] = ["sqrt", "ln", "log", "pow", "powf", "arg", "abs", "polar", "asin", "acos", "atan", "asinh", "acosh", "atanh",
    "asec", "acsc", "acot", "asech", "acsch", "acoth"];
#[derive(Clone, Copy, PartialEq, Debug)]
enum Call { Un(usize), Abs, Arg, AbsSqr, Polar, Pow(usize), Powf(usize), Log(usize) }
fn call_name(cl: Call) -> &'static str {
    match cl { Call::Un(i) => UNARY[i], Call::Abs => "abs", Call::Arg => "arg", Call::AbsSqr => "abs_sqr", Call::Polar => "polar",
               Call::Pow(_) => "pow", Call::Powf(_) => "powf", Call::Log(_) => "log" }
}
fn decomp_idx(cl: Call) -> Option<usize> { let n = call_name(cl); DECOMP.iter().position(|d| *d == n) }
/// adjacency coverage over a pass of the obligation list (reset by the "start" marker, reported by "end")
static COVER: std::sync::Mutex<[bool; 400]> = std::sync::Mutex::new([false; 400]);
/// every value of the catalogue at one z, all computed in ONE back-to-back sequence of calls
pub struct Table { un: Vec<Cmplx>, abs: f64, arg: f64, abs_sqr: f64, polar: Cmplx, pw: Vec<Cmplx>, pf: Vec<Cmplx>, lg: Vec<Cmplx>,
                   ws: Vec<Cmplx>, xs: Vec<f64>, bs: Vec<Cmplx>, repeat_ok: bool,
                   pw_x: Vec<(Cmplx, Cmplx)>, pf_x: Vec<(f64, Cmplx)>, lg_x: Vec<(Cmplx, Cmplx)> }
impl Table {
    fn get(&self, name: &str) -> Cmplx {
        match UNARY.iter().position(|u| *u == name) { Some(i) => self.un[i],
            None => { eprintln!("TOOL-ERROR cfun: {} is not in the evaluation table", name); std::process::exit(2) } }
    }
}
fn same_bits(a: Cmplx, b: Cmplx) -> bool {
    let eq = |x: f64, y: f64| x.to_bits() == y.to_bits() || (x.is_nan() && y.is_nan());
    eq(a.real, b.real) && eq(a.imag, b.imag)
}
fn do_call(cl: Call, z: Cmplx, t: &Table) -> Cmplx {
    match cl { Call::Un(i) => apply1(UNARY[i], z), Call::Abs => c(z.abs(), 0.0), Call::Arg => c(z.arg(), 0.0), Call::AbsSqr => c(z.abs_sqr(), 0.0),
               Call::Polar => Cmplx::polar(z.abs(), z.arg()), Call::Pow(j) => z.pow(&t.ws[j]), Call::Powf(j) => z.powf(t.xs[j]), Call::Log(j) => z.log(t.bs[j]) }
}
/// the sequence of calls: mode 0 catalogue order, 1 reversed, 2 seeded shuffle, 3 seeded shuffle with a chosen ordered
/// pair of decomposition-based functions moved to the front (the pair cycles through all 400 with `key`)
fn call_order(nw: usize, nx: usize, nb: usize, mode: u64, key: u64) -> Vec<Call> {
    use rand::seq::SliceRandom;
    let mut v: Vec<Call> = vec![Call::Un(0)];
    v.extend((0..nw).map(Call::Pow)); v.extend((0..nx).map(Call::Powf));
    v.push(Call::Un(1)); v.push(Call::Un(2)); v.extend((0..nb).map(Call::Log));
    v.push(Call::Polar); v.push(Call::Abs); v.push(Call::Arg); v.push(Call::AbsSqr);
    v.extend((3..UNARY.len()).map(Call::Un));
    match mode % 4 {
        0 => {}
        1 => v.reverse(),
        2 => v.shuffle(&mut rng(key, 771)),
        _ => {
            v.shuffle(&mut rng(key, 772));
            let (a, b) = ((key % 20) as usize, ((key / 20) % 20) as usize);
            let pick = |v: &Vec<Call>, d: usize, skip: Option<usize>| -> Option<usize> {
                let c: Vec<usize> = (0..v.len()).filter(|i| decomp_idx(v[*i]) == Some(d) && Some(*i) != skip).collect();
                if c.is_empty() { None } else { Some(c[(key / 400) as usize % c.len()]) } };
            if let Some(ia) = pick(&v, a, None) { let ca = v.remove(ia); v.insert(0, ca);
                if let Some(ib) = pick(&v, b, Some(0)) { let cb = v.remove(ib); v.insert(1, cb); } }
        }
    }
    v
}
/// the signed-zero twins of a value: every zero component flipped, alone and together (empty when no component is zero)
fn twins(z: Cmplx) -> Vec<Cmplx> {
    let (zr, zi) = (z.real == 0.0, z.imag == 0.0);
    let mut v = Vec::new();
    if zr { v.push(c(-z.real, z.imag)); }
    if zi { v.push(c(z.real, -z.imag)); }
    if zr && zi { v.push(c(-z.real, -z.imag)); }
    v
}
fn call_on(cl: Call, z: Cmplx, w: Cmplx, x: f64, b: Cmplx) -> Cmplx {
    match cl { Call::Pow(_) => z.pow(&w), Call::Powf(_) => z.powf(x), Call::Log(_) => z.log(b), _ => unreachable!() }
}
/// Call everything on zs[0] in the given order, each function twice in a row (results must be bit-identical).
/// Caches keyed by ==, which conflates +0.0 and -0.0: IMMEDIATELY after the call on an argument the same function is
/// called on each signed-zero twin of that argument and then on the argument again (both orders) - for z (zs[1..] are
/// its twins; each gets its own table, judged like any other point), for the exponent and for the base (the twin values
/// are kept as extra entries of the table and judged against their own reference).
pub fn run_group(zs: &[Cmplx], ws: Vec<Cmplx>, xs: Vec<f64>, bs: Vec<Cmplx>, mode: u64, key: u64) -> Vec<Table> {
    let nan = c(f64::NAN, f64::NAN);
    let mk = || Table { un: vec![nan; UNARY.len()], abs: f64::NAN, arg: f64::NAN, abs_sqr: f64::NAN, polar: nan, pw: vec![nan; ws.len()], pf: vec![nan; xs.len()],
                        lg: vec![nan; bs.len()], ws: ws.clone(), xs: xs.clone(), bs: bs.clone(), repeat_ok: true, pw_x: vec![], pf_x: vec![], lg_x: vec![] };
    let mut ts: Vec<Table> = zs.iter().map(|_| mk()).collect();
    let order = call_order(ws.len(), xs.len(), bs.len(), mode, key);
    let mut cover = COVER.lock().unwrap();
    let mut prev: Option<usize> = None;
    let store = |t: &mut Table, cl: Call, r: Cmplx| match cl { Call::Un(i) => t.un[i] = r, Call::Abs => t.abs = r.real, Call::Arg => t.arg = r.real, Call::AbsSqr => t.abs_sqr = r.real,
        Call::Polar => t.polar = r, Call::Pow(j) => t.pw[j] = r, Call::Powf(j) => t.pf[j] = r, Call::Log(j) => t.lg[j] = r };
    for cl in order {
        let z = zs[0];
        let r1 = do_call(cl, z, &ts[0]); let r2 = do_call(cl, z, &ts[0]);
        let mut ok = same_bits(r1, r2);
        store(&mut ts[0], cl, r1);
        // twins of z: f(z), f(z'), f(z) ...
        for i in 1..zs.len() { let ri = do_call(cl, zs[i], &ts[0]); store(&mut ts[i], cl, ri); let back = do_call(cl, z, &ts[0]); if !same_bits(back, r1) { ok = false; } }
        // twins of the second argument
        match cl {
            Call::Pow(j) => for w2 in twins(ws[j]) { let v = call_on(cl, z, w2, 0.0, nan); ts[0].pw_x.push((w2, v)); if !same_bits(call_on(cl, z, ws[j], 0.0, nan), r1) { ok = false; } },
            Call::Powf(j) => if xs[j] == 0.0 { let v = call_on(cl, z, nan, -xs[j], nan); ts[0].pf_x.push((-xs[j], v)); if !same_bits(call_on(cl, z, nan, xs[j], nan), r1) { ok = false; } },
            Call::Log(j) => for b2 in twins(bs[j]) { let v = call_on(cl, z, nan, 0.0, b2); ts[0].lg_x.push((b2, v)); if !same_bits(call_on(cl, z, nan, 0.0, bs[j]), r1) { ok = false; } },
            _ => {}
        }
        if !ok { for t in ts.iter_mut() { t.repeat_ok = false; }
                 if std::env::var("CFUN_DEBUG").is_ok() { eprintln!("repeat differs: {:?} z={:?}", cl, z); } }
        let d = decomp_idx(cl);
        if let Some(k) = d { cover[k * 20 + k] = true; if let Some(p) = prev { cover[p * 20 + k] = true; } }
        prev = d;
    }
    ts
}

fn real_fn(name: &str, x: f64) -> f64 {
    match name {
        "exp" => x.exp(), "ln" => x.ln(), "sqrt" => x.sqrt(), "sin" => x.sin(), "cos" => x.cos(), "tan" => x.tan(),
        "sinh" => x.sinh(), "cosh" => x.cosh(), "tanh" => x.tanh(), "asin" => x.asin(), "acos" => x.acos(), "atan" => x.atan(),
        "asinh" => x.asinh(), "acosh" => x.acosh(),
        // std atanh loses accuracy next to +-1 (it forms 2x/(1-x)); ln_1p is accurate to an ulp
        "atanh" => 0.5 * (x.ln_1p() - (-x).ln_1p()),
        other => { eprintln!("TOOL-ERROR cfun: no real function {}", other); std::process::exit(2) }
    }
}
fn series_ref(name: &str, z: Cmplx) -> CDD {
    match name { "exp" => exp_dd(cd(z)), "sin" => sin_dd(cd(z)), "cos" => cos_dd(cd(z)), "sinh" => sinh_dd(cd(z)), "cosh" => cosh_dd(cd(z)),
        other => { eprintln!("TOOL-ERROR cfun: no series for {}", other); std::process::exit(2) } }
}

// ------------------------------------------------------------------ one evaluation of a relation
/// (error, scale) of one instance; scale = max(1, magnitudes involved)
struct Eval { err: f64, scale: f64, range_val: Option<f64> }
fn ev(err: f64, mags: &[f64]) -> Eval { Eval { err, scale: mags.iter().fold(1.0f64, |a, b| if b.is_finite() { a.max(*b) } else { a }), range_val: None } }
/// purely relative scale (quotient / reciprocal definitions: a few ulps of |f(z)| everywhere, also next to poles and zeros)
fn ev_rel(err: f64, mag: f64) -> Eval { Eval { err, scale: if mag.is_finite() && mag > 0.0 { mag } else { 1.0 }, range_val: None } }
fn bad() -> Eval { Eval { err: f64::INFINITY, scale: 1.0, range_val: None } }
fn part_of(v: Cmplx, part: &str) -> f64 { if part == "im" { v.imag } else { v.real } }

const POW_W: [(f64, f64); 18] = [(2.0, 0.0), (-1.0, 0.0), (0.5, 0.0), (0.0, 1.0), (1.5, -2.0), (-2.5, 1.5), (3.0, 0.0), (0.0, -3.0),
    (-3.0, 0.0), (-2.0, 0.0), (0.0, 0.0), (1.0, 0.0), (-0.5, 0.0), (1.5, 0.0), (-1.5, 0.0), (0.0, -1.0), (2.0, -0.0), (-0.0, 2.0)];
const POWF_X: [f64; 14] = [2.0, -1.0, 0.5, 3.0, -3.0, 1.0 / 3.0, -2.5, 1.0, 0.0, -2.0, 1.5, -1.5, -0.5, -0.0];
// bases: positive / negative real axis, imaginary axis, modulus exactly one, -0.0 parts, general
const LOG_B: [(f64, f64); 16] = [(2.0, 0.0), (10.0, 0.0), (0.5, 0.0), (0.0, 1.0), (-3.0, 0.0), (1.0, 1.0), (0.2, -0.7),
    (-1.0, 0.0), (-0.5, 0.0), (0.0, -1.0), (0.0, 2.0), (0.0, -0.25), (0.6, 0.8), (-0.8, 0.6), (-2.0, -0.0), (-0.0, 3.0)];

/// all instances of relation `rel` at the point z (several for the two-argument functions)
fn eval_rel(rel: &Value, range: &Value, z: Cmplx, t: &Table) -> Vec<Eval> {
    let kind = gets(rel, "kind"); let f = gets(rel, "f"); let g = gets(rel, "g"); let h = gets(rel, "h");
    let part = gets(range, "part");
    let r = guarded(|| -> Vec<Eval> {
        let mut out = Vec::new();
        match kind {
            "series" => { let got = t.get(f); let want = series_ref(f, z);
                out.push(if cfinite(got) { ev(cdist(cd(got), want), &[want.abs()]) } else { bad() }); }
            "axis" => { let got = t.get(f); let want = real_fn(f, z.real);
                let mut e = if cfinite(got) && want.is_finite() { ev((got.real - want).hypot(got.imag), &[want.abs()]) } else { bad() };
                e.range_val = Some(part_of(got, part)); out.push(e); }
            "quot" => { let got = t.get(f); let (a, b) = (t.get(g), t.get(h)); let want = cd(a).div(cd(b));
                out.push(if cfinite(got) && cfinite(a) && cfinite(b) { ev_rel(cdist(cd(got), want), want.abs()) } else { bad() }); }
            "recip" => { let got = t.get(f); let a = t.get(g); let want = cone().div(cd(a));
                out.push(if cfinite(got) && cfinite(a) { ev_rel(cdist(cd(got), want), want.abs()) } else { bad() }); }
            "rinv" => { let w = t.get(f); let back = apply1(g, w);
                let mut e = if cfinite(w) && cfinite(back) { ev(cdist(cd(back), cd(z)), &[z.abs()]) } else { bad() };
                e.range_val = Some(part_of(w, part)); out.push(e); }
            "pyth_plus" | "pyth_minus" => { let (a, b) = (t.get(g), t.get(h)); let (a2, b2) = (cd(a).mul(cd(a)), cd(b).mul(cd(b)));
                let s = if kind == "pyth_plus" { a2.add(b2) } else { a2.sub(b2) };
                out.push(if cfinite(a) && cfinite(b) { ev(cdist(s, cone()), &[a2.abs(), b2.abs()]) } else { bad() }); }
            "sqrt_sq" => { let w = t.get("sqrt"); let mut e = if cfinite(w) { ev(cdist(cd(w).mul(cd(w)), cd(z)), &[z.abs()]) } else { bad() };
                e.range_val = Some(part_of(w, part)); out.push(e); }
            "pow_def" | "pow_near" => { let l = ln_dd(z);
                for (w, got) in t.ws.iter().cloned().zip(t.pw.iter().cloned()).chain(t.pw_x.iter().cloned()) { let w = &w;
                    let mut best = bad();
                    for lv in cut_limits(z, l) { let want = exp_dd(cd(*w).mul(lv));
                        let e = if cfinite(got) { ev(cdist(cd(got), want), &[want.abs()]) } else { bad() };
                        if e.err / e.scale < best.err / best.scale || !best.err.is_finite() { best = e; } }
                    out.push(best); } }
            "powf_def" | "powf_near" => { let l = ln_dd(z);
                for (x, got) in t.xs.iter().cloned().zip(t.pf.iter().cloned()).chain(t.pf_x.iter().cloned()) { let x = &x;
                    let mut best = bad();
                    for lv in cut_limits(z, l) { let want = exp_dd(cscale(lv, *x));
                        let e = if cfinite(got) { ev(cdist(cd(got), want), &[want.abs()]) } else { bad() };
                        if e.err / e.scale < best.err / best.scale || !best.err.is_finite() { best = e; } }
                    out.push(best); } }
            "log_def" => { let lz = t.get("ln");
                for (b, got) in t.bs.iter().cloned().zip(t.lg.iter().cloned()).chain(t.lg_x.iter().cloned()) { let lb = b.ln(); if lb.abs() < 0.1 { continue; } let want = cd(lz).div(cd(lb));
                    out.push(if cfinite(got) && cfinite(lz) && cfinite(lb) { ev(cdist(cd(got), want), &[want.abs()]) } else { bad() }); } }
            "polar_def" => { let r = z.real.hypot(z.imag); let th0 = z.imag.atan2(z.real);
                for th in [th0, th0 + 2.0 * PI, -th0, th0 - PI] { let got = Cmplx::polar(r, th); let want = CDD { re: DD::prod(r, th.cos()), im: DD::prod(r, th.sin()) };
                    out.push(if cfinite(got) { ev(cdist(cd(got), want), &[r]) } else { bad() }); } }
            "polar_rt" => { let (r, th) = (t.abs, t.arg); let back = t.polar; let fresh = Cmplx::polar(r, th);
                let mut e = if cfinite(back) { ev(cdist(cd(back), cd(z)), &[z.abs()]) } else { bad() };
                e.range_val = Some(th); if !same_bits(back, fresh) { e = bad(); } out.push(e); }
            "abs_def" => { let got = t.abs; let want = DD::from(t.abs_sqr).sqrt();
                out.push(if got.is_finite() { ev(DD::from(got).sub(want).to_f64().abs(), &[want.to_f64()]) } else { bad() }); }
            "abs_sqr_def" => { let got = t.abs_sqr; let want = DD::prod(z.real, z.real).add(DD::prod(z.imag, z.imag));
                out.push(if got.is_finite() { ev(DD::from(got).sub(want).to_f64().abs(), &[want.to_f64()]) } else { bad() }); }
            // exact (bitwise) definitions
            "conj_def" => { let got = t.get("conj"); let ok = got.real.to_bits() == z.real.to_bits() && got.imag.to_bits() == (-z.imag).to_bits();
                out.push(if ok { ev(0.0, &[1.0]) } else { bad() }); }
            "new_def" => { let got = Cmplx::new(z.real, z.imag); let sw = Cmplx::new(z.imag, z.real);
                let ok = got.real.to_bits() == z.real.to_bits() && got.imag.to_bits() == z.imag.to_bits() && sw.real.to_bits() == z.imag.to_bits() && sw.imag.to_bits() == z.real.to_bits();
                out.push(if ok { ev(0.0, &[1.0]) } else { bad() }); }
            "zero_def" => { let got = Cmplx::zero(); let ok = got.real.to_bits() == 0 && got.imag.to_bits() == 0 && (z + got).real == z.real && (z + got).imag == z.imag;
                out.push(if ok { ev(0.0, &[1.0]) } else { bad() }); }
            "one_def" => { let got = Cmplx::one(); let ok = got.real.to_bits() == 1.0f64.to_bits() && got.imag.to_bits() == 0 && (z * got).real == z.real && (z * got).imag == z.imag;
                out.push(if ok { ev(0.0, &[1.0]) } else { bad() }); }
            other => { eprintln!("TOOL-ERROR cfun: unknown relation kind {}", other); std::process::exit(2) }
        }
        out
    });
    r.unwrap_or_else(|_| vec![bad()])
}

/// the stated range predicate (bounds in units of pi/2; hi = 99: unbounded); closed ends with a tolerance of
/// 64 eps pi, open ends strict
fn range_ok(range: &Value, v: f64) -> bool {
    if gets(range, "f") == "-" { return true; }
    if !v.is_finite() { return false; }
    let tol = UNIT * PI;
    let lo = geti(range, "lo") as f64 * FRAC_PI_2; let hi = geti(range, "hi");
    let lo_ok = if range["loClosed"].as_bool().unwrap_or(true) { v >= lo - tol } else { v > lo };
    let hi_ok = if hi == 99 { true } else { let h = hi as f64 * FRAC_PI_2; if range["hiClosed"].as_bool().unwrap_or(true) { v <= h + tol } else { v < h } };
    lo_ok && hi_ok
}

// ------------------------------------------------------------------ regions -> points
fn mod_reps(m: i64) -> Vec<f64> {
    match m { 0 => vec![1e-3], 1 => vec![0.3, 0.7], 2 => vec![1.0 - 1e-3, 1.0 - 1e-6], 3 => vec![1.0], 4 => vec![1.0 + 1e-6, 1.0 + 1e-3], 5 => vec![2.0, 3.0, 5.0], _ => vec![10.0] }
}
fn mod_rand(m: i64, rng: &mut StdRng) -> f64 {
    match m { 0 => rng.gen_range(1e-3..1e-2), 1 => rng.gen_range(0.05..0.95), 2 => 1.0 - 10f64.powf(rng.gen_range(-9.0..-3.0)), 3 => 1.0,
              4 => 1.0 + 10f64.powf(rng.gen_range(-9.0..-3.0)), 5 => rng.gen_range(1.2..9.0), _ => rng.gen_range(9.0..10.0) }
}
/// the point of modulus r on the ray `dir` (dir even: exactly on the axis, other part +0.0), angle offset `a` degrees inside a quadrant
fn ray(dir: i64, r: f64, a: f64) -> Cmplx {
    match dir { 0 => c(r, 0.0), 2 => c(0.0, r), 4 => c(-r, 0.0), 6 => c(0.0, -r),
        _ => { let th = (((dir - 1) / 2) as f64 * 90.0 + a).to_radians(); c(r * th.cos(), r * th.sin()) } }
}
/// the crate's OWN constants (exact bit patterns read from ohsl::constant), with their halves and doubles
fn crate_constants() -> Vec<f64> {
    use ohsl::constant::*;
    let base = [PI, PI_2, PI_4, FRAC_1_PI, FRAC_2_PI, TAU, SQRTPI, SQRT2, SQRT1_2, E, EULER];
    let mut v: Vec<f64> = Vec::new();
    for cst in base { for f in [1.0, 0.5, 2.0] { let x = cst * f; if !v.iter().any(|y| y.to_bits() == x.to_bits()) { v.push(x); } } }
    v
}
/// (dir, modulus class) of a point, as the region lattice of ComplexFun.tla classifies it; None outside 1e-3 <= |z| <= 10
fn classify(z: Cmplx) -> Option<(i64, i64)> {
    let r = z.real.hypot(z.imag);
    if !(r >= 1e-3 && r <= 10.0) { return None; }
    let dir = match (z.real == 0.0, z.imag == 0.0) {
        (false, true) => if z.real > 0.0 { 0 } else { 4 }, (true, false) => if z.imag > 0.0 { 2 } else { 6 }, (true, true) => return None,
        _ => match (z.real > 0.0, z.imag > 0.0) { (true, true) => 1, (false, true) => 3, (false, false) => 5, (true, false) => 7 } };
    let m = if r < 0.05 { 0 } else if r < 1.0 - 1e-3 { 1 } else if r < 1.0 { 2 } else if r == 1.0 { 3 } else if r <= 1.0 + 1e-3 { 4 } else if r < 9.0 { 5 } else { 6 };
    Some((dir, m))
}
/// evaluation points built from the crate's constants: real part, imaginary part or both equal to +-C, the other part
/// zero, ordinary, or another constant (arguments no grid or random significand ever hits bit for bit)
fn constant_points() -> Vec<Cmplx> {
    let cs = crate_constants(); let mut v = Vec::new();
    let ord = [0.5, 1.0, 3.0];
    for (i, cst) in cs.iter().enumerate() {
        let other = cs[(i + 1) % cs.len()];
        for sr in [1.0, -1.0] {
            v.push(c(sr * cst, 0.0)); v.push(c(0.0, sr * cst));
            for si in [1.0, -1.0] {
                for y in ord { v.push(c(sr * cst, si * y)); v.push(c(si * y, sr * cst)); }
                v.push(c(sr * cst, si * other)); v.push(c(sr * cst, si * cst));
            }
        }
    }
    v
}
fn points(reg: &Value, rng: &mut StdRng, nrand: usize) -> Vec<Cmplx> {
    let kind = gets(reg, "kind"); let dir = geti(reg, "dir"); let m = geti(reg, "m"); let side = geti(reg, "side") as f64;
    let mut v = Vec::new();
    match kind {
        "sector" => {
            let angles: Vec<f64> = if dir % 2 == 0 { vec![0.0] } else { vec![15.0, 45.0, 75.0] };
            for r in mod_reps(m) { for a in &angles { v.push(ray(dir, r, *a)); } }
            for _ in 0..nrand { let r = mod_rand(m, rng); let a = rng.gen_range(1.0..89.0); v.push(ray(dir, r, a)); }
            for p in constant_points() { if classify(p) == Some((dir, m)) { v.push(p); } }
        }
        "side" => {
            // the axis ray displaced by side * 1e-9 perpendicular to it (counter-clockwise positive)
            let d = 1e-9 * side;
            let mut rs = mod_reps(m); for _ in 0..nrand { rs.push(mod_rand(m, rng)); }
            for r in rs { v.push(match dir { 0 => c(r, d), 2 => c(-d, r), 4 => c(-r, -d), _ => c(d, -r) }); }
        }
        "near" => {
            let (cx, cy) = match gets(reg, "c") { "1" => (1.0, 0.0), "-1" => (-1.0, 0.0), "i" => (0.0, 1.0), _ => (0.0, -1.0) };
            let mut rhos = vec![1e-3, 1e-4, 1e-5, 1e-6]; for _ in 0..nrand { rhos.push(10f64.powf(rng.gen_range(-6.0..-2.0))); }
            for (k, rho) in rhos.iter().enumerate() {
                let p = if dir % 2 == 0 { let u = ray(dir, *rho, 0.0); c(cx + u.real, cy + u.imag) }
                        else { let a = if k < 4 { 45.0 } else { rng.gen_range(15.0..75.0) }; let u = ray(dir, *rho, a); c(cx + u.real, cy + u.imag) };
                v.push(p);
            }
        }
        "pole" => {
            // centre side * pi/2 on the real (pole_re) or imaginary (pole_im) axis; distance 10^-(3+m) in direction dir * pi/4
            let p0 = side * FRAC_PI_2; let d0 = 10f64.powi(-(3 + m as i32));
            let mut ds = vec![d0]; for _ in 0..nrand { ds.push(d0 * rng.gen_range(1.0..3.0)); }
            for (k, d) in ds.iter().enumerate() {
                let a = if k == 0 { 45.0 } else { rng.gen_range(10.0..80.0) };
                let u = ray(dir, *d, a);
                v.push(if gets(reg, "c") == "pole_re" { c(p0 + u.real, u.imag) } else { c(u.real, p0 + u.imag) });
            }
        }
        "exact" => {
            if gets(reg, "c") == "zero" { v.push(c(0.0, 0.0)); }
            else {
                // the axis ray with the other part -0.0
                let mut rs = mod_reps(m); for _ in 0..nrand { rs.push(mod_rand(m, rng)); }
                for r in rs { v.push(match dir { 0 => c(r, -0.0), 2 => c(-0.0, r), 4 => c(-r, -0.0), _ => c(-0.0, -r) }); }
                for p in constant_points() { if classify(p) == Some((dir, m)) { v.push(if dir % 4 == 0 { c(p.real, -0.0) } else { c(-0.0, p.imag) }); } }
            }
        }
        other => { eprintln!("TOOL-ERROR cfun: unknown region kind {}", other); std::process::exit(2) }
    }
    v
}

/// a-priori amplification of a relation at z (named by the specification); computed from z only
fn amp_at(amp: &str, z: Cmplx) -> f64 {
    match amp {
        "inv_sqrt_1mz2" => { let a = (c(1.0, 0.0) - z).abs() * (c(1.0, 0.0) + z).abs(); if a > 0.0 { (1.0 / a.sqrt()).max(1.0) } else { 1.0 } }
        "abs_sq" => z.abs_sqr().max(1.0),
        "inv_abs" => { let a = z.real.hypot(z.imag); if a > 0.0 { (1.0 / a).max(1.0) } else { 1.0 } }
        "none" => 1.0,
        other => { eprintln!("TOOL-ERROR cfun: unknown amplification {}", other); std::process::exit(2) }
    }
}
/// exponents next to every integer -3..3 and next to +-0.5, +-1.5: k +- (1 ulp, 1e-15, 1e-12, 1e-9, 4e-9, 1e-8, 1e-7, 1e-6)
const NEAR_CENTRES: [f64; 11] = [-3.0, -2.0, -1.0, 0.0, 1.0, 2.0, 3.0, -1.5, -0.5, 0.5, 1.5];
fn near_exponents() -> Vec<f64> {
    let mut v = Vec::new();
    for k in NEAR_CENTRES {
        let up = if k == 0.0 { f64::MIN_POSITIVE } else { f64::from_bits(if k > 0.0 { k.to_bits() + 1 } else { k.to_bits() - 1 }) };
        let dn = if k == 0.0 { -f64::MIN_POSITIVE } else { f64::from_bits(if k > 0.0 { k.to_bits() - 1 } else { k.to_bits() + 1 }) };
        v.push(up); v.push(dn);
        for d in [1e-15, 1e-12, 1e-9, 4e-9, 1e-8, 1e-7, 1e-6] { v.push(k + d); v.push(k - d); }
    }
    v
}
fn zhex(z: Cmplx) -> String { format!("{}{}", bits(z.real), bits(z.imag)) }
fn ratio_units(r: f64) -> i64 { if !r.is_finite() { SAT } else { units(r, 1.0) } }

pub fn exec(case: &Value, out: &mut Out) {
    let cid = geti(case, "cid");
    let kind = gets(case, "kind");
    match kind {
        "start" => { *COVER.lock().unwrap() = [false; 400]; out.ev(json!({"op": kind, "cid": cid, "pos": 0})); }
        "end" => { let n = COVER.lock().unwrap().iter().filter(|b| **b).count();
                   out.ev(json!({"op": kind, "cid": cid, "pos": 0, "pairs": n, "decomp": DECOMP.to_vec()})); }
        "rel" => {
            let rel = &case["rel"]; let reg = &case["reg"]; let range = &case["range"];
            let cond = geti(rel, "cond") as f64; let nrand = getu(case, "nrand"); let seed = geti(case, "seed") as u64;
            let pos = geti(case, "pos");
            let mut rng = rng(seed, 1_000_003u64.wrapping_mul(pos as u64));
            let pts = points(reg, &mut rng, nrand);
            let (mut worst, mut wz, mut range_all, mut n, mut repeat) = (0.0f64, pts[0], true, 0i64, true);
            let rkind = gets(rel, "kind");
            for (k, z) in pts.iter().enumerate() {
                // second arguments: the fixed lists always, random ones / the near-integer family for the relation that judges them
                let mut ws: Vec<Cmplx> = POW_W.iter().map(|p| c(p.0, p.1)).collect(); let mut xs: Vec<f64> = POWF_X.to_vec();
                let mut bs: Vec<Cmplx> = LOG_B.iter().map(|p| c(p.0, p.1)).collect();
                match rkind {
                    "pow_def" => { for cst in crate_constants() { if cst <= 3.0 { ws.push(c(cst, 0.0)); ws.push(c(-cst, 0.0)); ws.push(c(0.0, cst)); ws.push(c(cst, -0.5)); }
                                                                   if cst <= 2.0 { ws.push(c(cst, cst)); ws.push(c(-0.7, -cst)); } }
                                   for _ in 0..nrand { let m: f64 = rng.gen_range(0.0..3.0); let t: f64 = rng.gen_range(-PI..PI); ws.push(c(m * t.cos(), m * t.sin())); } },
                    "powf_def" => { for cst in crate_constants() { if cst <= 3.0 { xs.push(cst); xs.push(-cst); } } for _ in 0..nrand { xs.push(rng.gen_range(-3.0..3.0)); } },
                    "log_def" => { for cst in crate_constants() { bs.push(c(cst, 0.0)); bs.push(c(-cst, 0.0)); bs.push(c(0.0, cst)); bs.push(c(cst, 1.0)); bs.push(c(-0.5, -cst)); bs.push(c(cst, cst)); }
                                   for _ in 0..nrand { let m: f64 = 10f64.powf(rng.gen_range(-3.0..1.0)); let t: f64 = rng.gen_range(-PI..PI); bs.push(c(m * t.cos(), m * t.sin())); } },
                    "powf_near" => xs = near_exponents(),
                    "pow_near" => { ws = Vec::new(); for x in near_exponents() { ws.push(c(x, 0.0)); }
                                    for x in near_exponents().iter().step_by(3) { ws.push(c(*x, 1e-9)); ws.push(c(x.round() * 0.5 + *x * 0.5, -1e-9)); }
                                    for kc in NEAR_CENTRES { ws.push(c(kc, 1e-9)); ws.push(c(kc, -1e-9)); } }
                    _ => {}
                }
                let key = (pos as u64).wrapping_mul(31).wrapping_add(k as u64 * 7).wrapping_add(seed);
                // the -0.0 regions and the point 0 are evaluated together with their signed-zero twins
                let mut group = vec![*z]; if gets(reg, "kind") == "exact" { group.extend(twins(*z)); }
                let tabs = match guarded(|| run_group(&group, ws, xs, bs, (pos as u64 + k as u64) % 4, key)) { Ok(t) => t,
                    Err(_) => { n += 1; worst = f64::INFINITY; wz = *z; COVER.clear_poison(); continue; } };
                for (zm, tab) in group.iter().zip(tabs.iter()) {
                let z = zm;
                if !tab.repeat_ok { repeat = false; wz = *z; }
                for e in eval_rel(rel, range, *z, tab) {
                    n += 1;
                    let ratio = if e.err.is_finite() { e.err / (UNIT * e.scale * cond * amp_at(gets(rel, "amp"), *z)) } else { f64::INFINITY };
                    if ratio > worst { worst = ratio; wz = *z; }
                    if let Some(v) = e.range_val { if !range_ok(range, v) { range_all = false; if worst == 0.0 { wz = *z; } } }
                }
                }
            }
            out.ev(json!({"op": "rel", "cid": cid, "pos": pos, "ri": case["ri"], "gi": case["gi"], "rel": rel["id"], "relkind": rel["kind"], "cond": rel["cond"],
                          "rangef": range["f"], "rangeclosed": range["loClosed"].as_bool().unwrap_or(true) && range["hiClosed"].as_bool().unwrap_or(true), "amp": rel["amp"], "npts": n, "err_units": ratio_units(worst), "fine": ratio_units(worst * 1e4), "range": range_all, "repeat": repeat, "worst_z": zhex(wz)}));
        }
        "soak" => {
            // call-count dependence: n guarded calls of one function on four fixed inexact arguments, each result compared
            // bit for bit with the first call's on the same argument
            let pos = geti(case, "pos"); let fname = gets(case, "fn").to_string(); let n = getu(case, "minpts");
            let zs = [c(1.1, 3.3), c(-0.7, 0.21), c(2.3456, -0.789), c(-0.31, -1.7)];
            let (w, x, b) = (c(1.3, -0.4), 1.7f64, c(2.1, 0.6));
            let f = |k: usize| -> Cmplx { let z = zs[k]; match fname.as_str() {
                "new" => Cmplx::new(z.real, z.imag), "zero" => Cmplx::zero(), "one" => Cmplx::one(), "abs_sqr" => c(z.abs_sqr(), 0.0),
                "abs" => c(z.abs(), 0.0), "arg" => c(z.arg(), 0.0), "pow" => z.pow(&w), "powf" => z.powf(x), "log" => z.log(b),
                "polar" => Cmplx::polar(z.real.abs(), z.imag), name => apply1(name, z) } };
            let mut first: [Option<Cmplx>; 4] = [None; 4];
            let (mut panics, mut diffs, mut first_bad) = (0i64, 0i64, -1i64);
            for k in 0..n {
                match guarded(|| f(k % 4)) {
                    Ok(r) => match first[k % 4] { None => first[k % 4] = Some(r), Some(r0) => if !same_bits(r0, r) { diffs += 1; if first_bad < 0 { first_bad = k as i64; } } },
                    Err(_) => { panics += 1; if first_bad < 0 { first_bad = k as i64; } }
                }
            }
            out.ev(json!({"op": "soak", "cid": cid, "pos": pos, "fn": fname, "cond": case["cond"], "npts": n as i64, "panics": panics, "diffs": diffs, "first_bad": first_bad,
                          "err_units": 0, "fine": 0, "range": true, "repeat": diffs == 0}));
        }
        "sqrt_exact" | "powk" => {
            let pos = geti(case, "pos");
            let zr = rat_from(&case["z"]["re"]).to_f64(); let zi = rat_from(&case["z"]["im"]).to_f64(); let z = c(zr, zi);
            let q = |v: &Value| -> DD { let r = rat_from(v); DD::from(r.n as f64).div(DD::from(r.d as f64)) };
            let want = CDD { re: q(&case["expect"]["re"]), im: q(&case["expect"]["im"]) };
            let cond = geti(case, "cond") as f64; let k = geti(case, "k");
            // the judged call follows a call of the other decomposition family on the same z, and is made twice in a row
            let mut repeat = true;
            let r = guarded(|| if kind == "sqrt_exact" { let _ = z.powf(2.0); let (a, a2) = (z.sqrt(), z.sqrt()); (vec![a], same_bits(a, a2)) }
                               else { let w = c(k as f64, 0.0); let _ = z.ln(); let (a, a2) = (z.pow(&w), z.pow(&w)); let _ = z.sqrt(); let (b, b2) = (z.powf(k as f64), z.powf(k as f64));
                                      (vec![a, b], same_bits(a, a2) && same_bits(b, b2)) });
            let r = r.map(|(v, ok)| { repeat = ok; v });
            let (mut worst, mut range_all) = (0.0f64, true);
            match r { Ok(vs) => for g in vs {
                        let ratio = if cfinite(g) { cdist(cd(g), want) / (UNIT * want.abs().max(1.0) * cond) } else { f64::INFINITY };
                        worst = if ratio.is_finite() { worst.max(ratio) } else { f64::INFINITY };
                        if kind == "sqrt_exact" && !range_ok(&case["range"], g.real) { range_all = false; } },
                      Err(_) => worst = f64::INFINITY }
            out.ev(json!({"op": kind, "cid": cid, "pos": pos, "z": case["z"], "k": k, "expect": case["expect"], "cond": case["cond"],
                          "npts": if kind == "powk" { 2 } else { 1 }, "err_units": ratio_units(worst), "fine": ratio_units(worst * 1e4), "range": range_all, "repeat": repeat}));
        }
        other => { eprintln!("TOOL-ERROR unknown cfun case kind {}", other); std::process::exit(2) }
    }
}

/// all cases come from the specification's enumeration (MC_ComplexFun); nothing to generate here
pub fn gen(_tier: &str, _seed: u64, _out: &mut Out) {}
