//! Suite "mesh2d": the whole public surface of ohsl::Mesh2D (X01) for the element types f64 and Complex<f64> —
//! histories of mutators (set_nodes_vars, index_mut, assign, apply) interleaved with every observer (nvars, nnodes,
//! coord, xnodes, ynodes, get_nodes_vars, index, both cross-sections, var_as_matrix, trapezium, square_trapezium,
//! output, output_var) on ONE object.  See spec/Trace_Mesh2D.tla for the meaning of every field.
//!
//! Encoding (all integers): a coordinate x = X / dx, y = Y / dy, a value V / dv (complex: [Re, Im] / dv) with the
//! case's positive integer denominators dx, dy, dv (powers of two: every f64 result is exact; 3, 5, 10: "inexact"
//! families).  A number read from the code is logged as its numerator (BAD unless numerator / den reproduces the f64
//! bit for bit).  A quadrature q is logged as ri = round(q * K), K = 4 dx dy dv (dv^2 for square_trapezium) -- an
//! integer TLC recomputes -- plus `un`, |q K - ri| in units of the a-priori rounding bound (0 iff q K is that integer).
//! A file is read back and logged line by line, every number as [m, d] = m / 10^d exactly as printed.
use crate::util::*;
use ohsl::{Cmplx, Mesh1D, Mesh2D, Vector};
use rand::rngs::StdRng;
use rand::Rng;
use serde_json::{json, Value};

fn num(x: f64, den: i64) -> i64 {
    let r = (x * den as f64).round();
    if r.is_finite() && r.abs() < SAT as f64 && r / den as f64 == x { r as i64 } else { BAD }
}
fn clamp(v: i128) -> i64 { if v.abs() < SAT as i128 { v as i64 } else { BAD } }
fn poly(co: &[i64], x: i64, y: i64) -> i64 {
    let (x, y) = (x as i128, y as i128);
    clamp(co[0] as i128 + co[1] as i128 * x + co[2] as i128 * y + co[3] as i128 * x * y + co[4] as i128 * x * x + co[5] as i128 * y * y)
}

/// Element types Mesh2D is instantiated at.
pub trait E2: Copy + Clone + ohsl::Number + std::fmt::Debug + std::fmt::Display + 'static {
    const NAME: &'static str;
    const CX: bool;
    fn mk(re: i64, im: i64, den: i64) -> Self;
    fn js(&self, den: i64) -> Value;
    fn mag(&self) -> f64;
    fn trap(_m: &Mesh2D<Self>, _var: usize) -> Option<f64> { None }
    fn sqtrap(_m: &Mesh2D<Self>, _var: usize) -> Option<f64> { None }
}
impl E2 for f64 {
    const NAME: &'static str = "f64";
    const CX: bool = false;
    fn mk(re: i64, _im: i64, den: i64) -> f64 { re as f64 / den as f64 }
    fn js(&self, den: i64) -> Value { json!(num(*self, den)) }
    fn mag(&self) -> f64 { self.abs() }
    fn trap(m: &Mesh2D<f64>, var: usize) -> Option<f64> { Some(m.trapezium(var)) }
    fn sqtrap(m: &Mesh2D<f64>, var: usize) -> Option<f64> { Some(m.square_trapezium(var)) }
}
impl E2 for Cmplx {
    const NAME: &'static str = "cx";
    const CX: bool = true;
    fn mk(re: i64, im: i64, den: i64) -> Cmplx { Cmplx::new(re as f64 / den as f64, im as f64 / den as f64) }
    fn js(&self, den: i64) -> Value { json!([num(self.real, den), num(self.imag, den)]) }
    fn mag(&self) -> f64 { self.real.abs().max(self.imag.abs()) }
}
/// a value in a case: an integer (f64) or a pair [re, im]
fn val_of<T: E2>(v: &Value, den: i64) -> T {
    if let Some(a) = v.as_array() { T::mk(a[0].as_i64().unwrap_or(0), a.get(1).and_then(|x| x.as_i64()).unwrap_or(0), den) } else { T::mk(v.as_i64().unwrap_or(0), 0, den) }
}
fn vec_of<T: E2>(v: &Value, den: i64) -> Vector<T> { Vector::create(v.as_array().map(|a| a.iter().map(|x| val_of::<T>(x, den)).collect()).unwrap_or_default()) }
fn jv<T: E2>(v: &Vector<T>, den: i64) -> Value { Value::from(v.vec.iter().map(|x| x.js(den)).collect::<Vec<Value>>()) }
fn jnodes(v: &Vector<f64>, den: i64) -> Value { Value::from(v.vec.iter().map(|x| num(*x, den)).collect::<Vec<i64>>()) }
fn nodes_of(xn: &Value, den: i64) -> Vector<f64> { Vector::create(ivec(xn).iter().map(|x| *x as f64 / den as f64).collect()) }

struct Sc { dx: i64, dy: i64, dv: i64 }

/// the store, read node by node through get_nodes_vars
fn proj<T: E2>(m: &Mesh2D<T>, dv: i64) -> Value {
    guarded(|| { let (nx, ny) = m.nnodes();
        Value::from((0..nx).map(|i| Value::from((0..ny).map(|j| jv(&m.get_nodes_vars(i, j), dv)).collect::<Vec<Value>>())).collect::<Vec<Value>>()) }).unwrap_or_else(|_| json!([]))
}
/// a cross-section through every accessor of Mesh1D
fn sect<T: E2>(s: &Mesh1D<T, f64>, dn: i64, dv: i64, o: &mut Value) {
    let n = s.nnodes();
    o["rnn"] = json!(n as i64); o["rnv"] = json!(s.nvars() as i64); o["rn"] = jnodes(&s.nodes(), dn);
    o["rcoord"] = Value::from((0..n).map(|k| num(s.coord(k), dn)).collect::<Vec<i64>>());
    o["rvars"] = Value::from((0..n).map(|k| jv(&s.get_nodes_vars(k), dv)).collect::<Vec<Value>>());
    o["rivars"] = Value::from((0..n).map(|k| jv(&s[k], dv)).collect::<Vec<Value>>());
}

// ------------------------------------------------------------------ files
fn file_dir() -> String {
    if let Ok(d) = std::env::var("MESH2D_DIR") { if !d.is_empty() { return d; } }
    let a: Vec<String> = std::env::args().collect();
    let ev = a.get(4).cloned().unwrap_or_else(|| { eprintln!("TOOL-ERROR mesh2d: no events path"); std::process::exit(2) });
    let p = std::path::Path::new(&ev).parent().map(|p| p.to_path_buf()).unwrap_or_default();
    let s = if p.as_os_str().is_empty() { ".".to_string() } else { p.to_string_lossy().to_string() };
    if s.starts_with("/tmp") { eprintln!("TOOL-ERROR mesh2d: refusing to write files under /tmp"); std::process::exit(2) }
    s
}
/// a printed decimal number, exactly: [m, d] = m / 10^d ([BAD, 0] if it is not a plain decimal that fits)
fn tok(s: &str) -> Value {
    let bad = json!([BAD, 0]);
    let (neg, body) = if let Some(r) = s.strip_prefix('-') { (true, r) } else { (false, s.strip_prefix('+').unwrap_or(s)) };
    let (ip, fp) = match body.split_once('.') { Some((a, b)) => { if b.is_empty() { return bad; } (a, b) } None => (body, "") };
    if ip.is_empty() || !ip.bytes().all(|c| c.is_ascii_digit()) || !fp.bytes().all(|c| c.is_ascii_digit()) || ip.len() + fp.len() > 17 { return bad; }
    let m: i128 = format!("{}{}", ip, fp).parse().unwrap_or(SAT as i128);
    if m >= SAT as i128 { return bad; }
    json!([if neg { -(m as i64) } else { m as i64 }, fp.len() as i64])
}
/// the file as lines of numbers; brackets and commas of a complex pair are typesetting and are dropped
fn read_lines(path: &str) -> Value {
    let text = std::fs::read_to_string(path).unwrap_or_else(|_| "unreadable".to_string());
    let mut ls: Vec<&str> = text.split('\n').collect();
    if ls.last() == Some(&"") { ls.pop(); }
    Value::from(ls.iter().map(|l| { let t: String = l.chars().map(|c| if c == '(' || c == ')' || c == ',' { ' ' } else { c }).collect();
        Value::from(t.split_whitespace().map(tok).collect::<Vec<Value>>()) }).collect::<Vec<Value>>())
}

fn stale(op: &Value, path: &str) {
    let _ = std::fs::remove_file(path);
    if op.get("stale").and_then(|x| x.as_bool()).unwrap_or(false) { std::fs::write(path, "7.5 7.5 7.5 7.5 7.5 7.5 7.5 7.5 7.5\n".repeat(60)).unwrap(); }
}

// ------------------------------------------------------------------ quadrature measurement
/// ri = round(q K), un = |q K - ri| in units of (cells + 16) u sum_cells (|x_i|+|x_i+1|)(|y_j|+|y_j+1|)/4 * sum |v| (or v^2), times K
fn quad<T: E2>(m: &Mesh2D<T>, q: f64, k: f64, var: usize, sq: bool, o: &mut Value) {
    let y = q * k; let r = y.round();
    o["ri"] = json!(if r.is_finite() && r.abs() < SAT as f64 { r as i64 } else { BAD });
    if y == r { o["un"] = json!(0); return; }
    let (xs, ys) = (m.xnodes(), m.ynodes()); let (nx, ny) = m.nnodes();
    let f = |i: usize, j: usize| -> f64 { let v = m.get_nodes_vars(i, j)[var].mag(); if sq { v * v } else { v } };
    let mut a = 0.0f64;
    for i in 0..nx.saturating_sub(1) { for j in 0..ny.saturating_sub(1) {
        a += 0.25 * (xs[i].abs() + xs[i + 1].abs()) * (ys[j].abs() + ys[j + 1].abs()) * (f(i, j) + f(i + 1, j) + f(i, j + 1) + f(i + 1, j + 1)); } }
    let cells = (nx.saturating_sub(1) * ny.saturating_sub(1)) as f64;
    o["un"] = json!(units((y - r).abs(), (cells + 16.0) * (2.0f64).powi(-53) * a * k).max(1));
}

// ------------------------------------------------------------------ one operation
fn step<T: E2>(m: &mut Mesh2D<T>, op: &Value, sc: &Sc, path: &str) -> Option<Value> {
    let name = gets(op, "op").to_string();
    if matches!(name.as_str(), "trap" | "sq_trap") && T::CX { return None; }
    let mut e = op.clone();
    let (i, j, var) = (op.get("i").map(|_| getu(op, "i")).unwrap_or(0), op.get("j").map(|_| getu(op, "j")).unwrap_or(0), op.get("var").map(|_| getu(op, "var")).unwrap_or(0));
    let r = guarded(|| {
        let mut o = json!({});
        match name.as_str() {
            "set" => m.set_nodes_vars(i, j, vec_of::<T>(&op["v"], sc.dv)),
            "isetv" => m[(i, j)] = vec_of::<T>(&op["v"], sc.dv),
            "iset" => m[(i, j)][var] = val_of::<T>(&op["x"], sc.dv),
            "assign" => m.assign(val_of::<T>(&op["x"], sc.dv)),
            "apply" => {
                let (co, coi) = (ivec(&op["co"]), ivec(&op["coi"]));
                let (dx, dy, dv) = (sc.dx, sc.dy, sc.dv);
                let f = move |x: f64, y: f64| -> T { let (xx, yy) = (num(x, dx), num(y, dy)); T::mk(poly(&co, xx, yy), poly(&coi, xx, yy), dv) };
                m.apply(&f, var);
            }
            "nvars" => o["ri"] = json!(m.nvars() as i64),
            "nnodes" => { let (nx, ny) = m.nnodes(); o["rv"] = json!([nx as i64, ny as i64]); }
            "xnodes" => o["rv"] = jnodes(&m.xnodes(), sc.dx),
            "ynodes" => o["rv"] = jnodes(&m.ynodes(), sc.dy),
            "coord" => { let (x, y) = m.coord(i, j); o["rv"] = json!([num(x, sc.dx), num(y, sc.dy)]); }
            "get" => o["rv"] = jv(&m.get_nodes_vars(i, j), sc.dv),
            "index" => o["rv"] = jv(&m[(i, j)], sc.dv),
            "index_all" => { let (nx, ny) = m.nnodes();
                o["rvars"] = Value::from((0..nx).map(|a| Value::from((0..ny).map(|b| jv(&m[(a, b)], sc.dv)).collect::<Vec<Value>>())).collect::<Vec<Value>>()); }
            "coord_all" => { let (nx, ny) = m.nnodes();
                o["rc"] = Value::from((0..nx).map(|a| Value::from((0..ny).map(|b| { let (x, y) = m.coord(a, b); json!([num(x, sc.dx), num(y, sc.dy)]) }).collect::<Vec<Value>>())).collect::<Vec<Value>>()); }
            "xsec_x" => { let s = m.cross_section_xnode(i); sect(&s, sc.dy, sc.dv, &mut o); }
            "xsec_y" => { let s = m.cross_section_ynode(j); sect(&s, sc.dx, sc.dv, &mut o); }
            "vam" => { let a = m.var_as_matrix(var); let mut d = vec![];
                for r in 0..a.rows() { for c in 0..a.cols() { d.push(a[(r, c)].js(sc.dv)); } }
                o["rm"] = json!({"r": a.rows(), "c": a.cols(), "d": d}); }
            "trap" => { let q = T::trap(m, var).unwrap(); quad(m, q, (4 * sc.dx * sc.dy * sc.dv) as f64, var, false, &mut o); }
            "sq_trap" => { let q = T::sqtrap(m, var).unwrap(); quad(m, q, (4 * sc.dx * sc.dy * sc.dv * sc.dv) as f64, var, true, &mut o); }
            // "stale": a longer file of other content already exists under that name (the call must replace it)
            "output" => { stale(op, path); m.output(path, getu(op, "p")); o["lines"] = read_lines(path); }
            "output_var" => { stale(op, path); m.output_var(path, var, getu(op, "p")); o["lines"] = read_lines(path); }
            other => { eprintln!("TOOL-ERROR unknown mesh2d op {}", other); std::process::exit(2) }
        }
        o
    });
    let _ = std::fs::remove_file(path);
    match r { Ok(o) => { e["panic"] = json!(false); for (kk, v) in o.as_object().unwrap() { e[kk] = v.clone(); } }
              Err(_) => { e["panic"] = json!(true); } }
    e["post"] = proj(m, sc.dv);
    Some(e)
}

// ------------------------------------------------------------------ a case = one object, one history
/// "sweep": every observer with every argument (sq: square_trapezium stays inside TLC's integers; p: first precision)
fn expand(op: &Value, nx: usize, ny: usize, nv: usize, cx: bool) -> Vec<Value> {
    if gets(op, "op") != "sweep" { return vec![op.clone()]; }
    let (sq, p0) = (op["sq"].as_bool().unwrap_or(false), op["p"].as_i64().unwrap_or(3));
    let mut v = vec![json!({"op": "nvars"}), json!({"op": "nnodes"}), json!({"op": "xnodes"}), json!({"op": "ynodes"}), json!({"op": "index_all"}), json!({"op": "coord_all"})];
    for i in 0..nx { v.push(json!({"op": "xsec_x", "i": i})); }
    for j in 0..ny { v.push(json!({"op": "xsec_y", "j": j})); }
    for q in 0..nv {
        v.push(json!({"op": "vam", "var": q}));
        if !cx { v.push(json!({"op": "trap", "var": q})); if sq { v.push(json!({"op": "sq_trap", "var": q})); } }
        v.push(json!({"op": "output_var", "var": q, "p": (p0 + 1 + q as i64) % 6, "stale": q % 2 == 0}));
    }
    v.push(json!({"op": "output", "p": p0 % 6, "stale": p0 % 2 == 1}));
    v
}

fn run<T: E2>(case: &Value, out: &mut Out) {
    let cid = geti(case, "cid");
    let sc = Sc { dx: geti(case, "dx"), dy: geti(case, "dy"), dv: geti(case, "dv") };
    let nv = getu(case, "nv");
    let (nx, ny) = (ivec(&case["xn"]).len(), ivec(&case["yn"]).len());
    let dir = file_dir();
    let mut e = json!({"op": "new", "cx": T::CX, "dx": sc.dx, "dy": sc.dy, "dv": sc.dv, "xn": case["xn"], "yn": case["yn"], "nv": nv, "cid": cid, "k": 0, "ty": T::NAME});
    let made = guarded(|| Mesh2D::<T>::new(nodes_of(&case["xn"], sc.dx), nodes_of(&case["yn"], sc.dy), nv));
    let mut m = match made {
        Ok(m) => m,
        Err(_) => { e["panic"] = json!(true); e["rnn"] = json!([]); e["rnv"] = json!(-1); e["post"] = json!([]); out.ev(e); return; }
    };
    e["panic"] = json!(false);
    let (a, b) = m.nnodes(); e["rnn"] = json!([a as i64, b as i64]); e["rnv"] = json!(m.nvars() as i64); e["post"] = proj(&m, sc.dv);
    out.ev(e);
    let mut k = 1usize;
    for op0 in case["ops"].as_array().unwrap() {
        for op in expand(op0, nx, ny, nv, T::CX) {
            let path = format!("{}/mesh2d_out_{}_{}_{}.dat", dir, std::process::id(), cid, k);
            if let Some(mut e) = step(&mut m, &op, &sc, &path) {
                e["cid"] = json!(cid); e["k"] = json!(k); e["ty"] = json!(T::NAME);
                out.ev(e);
            }
            k += 1;
        }
    }
}

pub fn exec(case: &Value, out: &mut Out) {
    match gets(case, "ty") {
        "f64" => run::<f64>(case, out), "cx" => run::<Cmplx>(case, out),
        t => { eprintln!("TOOL-ERROR unknown mesh2d element type {}", t); std::process::exit(2) }
    }
}

// ------------------------------------------------------------------ case generation (impl -> spec)
const CMAX: i64 = 24;        // |coordinate numerator|
/// n distinct increasing numerators in -CMAX..=CMAX (non-uniform with overwhelming probability; `uniform`: equal steps)
fn grid(rng: &mut StdRng, n: usize, uniform: bool) -> Vec<i64> {
    if n == 0 { return vec![]; }
    if uniform { let h = rng.gen_range(1..=(2 * CMAX / n as i64).max(1)); let a = rng.gen_range(-CMAX..=CMAX - h * (n as i64 - 1)); return (0..n as i64).map(|k| a + h * k).collect(); }
    if n >= 4 && rng.gen_range(0..5) == 0 {
        // first cell = last cell (looks uniform from both ends), interior cells different
        let w = rng.gen_range(1..=3i64); let mut ws = vec![w];
        for _ in 0..n - 3 { let mut d = rng.gen_range(1..=6i64); if d == w { d += 1; } ws.push(d); }
        ws.push(w);
        let tot: i64 = ws.iter().sum(); let a = rng.gen_range(-CMAX..=(CMAX - tot).max(-CMAX));
        let mut xs = vec![a]; for d in ws { let l = *xs.last().unwrap(); xs.push(l + d); }
        if *xs.last().unwrap() <= CMAX { return xs; }
    }
    let mut xs: Vec<i64> = vec![];
    while xs.len() < n { let x = rng.gen_range(-CMAX..=CMAX); if !xs.contains(&x) { xs.push(x); } }
    xs.sort(); xs
}
fn rval(rng: &mut StdRng, cx: bool, vmax: i64) -> Value {
    if cx { json!([rng.gen_range(-vmax..=vmax), rng.gen_range(-vmax..=vmax)]) } else { json!(rng.gen_range(-vmax..=vmax)) }
}
fn rvec(rng: &mut StdRng, cx: bool, nv: usize, vmax: i64) -> Value { Value::from((0..nv).map(|_| rval(rng, cx, vmax)).collect::<Vec<Value>>()) }
fn vabs(v: &Value) -> i64 { if let Some(a) = v.as_array() { a.iter().map(vabs).max().unwrap_or(0) } else { v.as_i64().unwrap_or(0).abs() } }

fn gen_case(rng: &mut StdRng, nx: usize, ny: usize, nv: usize, cx: bool, len: usize, nobs: usize, inexact: bool, small: bool, uniform: bool) -> Value {
    let pw = [1i64, 2, 4, 8];
    let (dx, dy, dv) = if inexact { ([10i64, 5, 3][rng.gen_range(0..3)], [10i64, 3, 1, 4][rng.gen_range(0..4)], if cx { [10i64, 5][rng.gen_range(0..2)] } else { [3i64, 10, 5][rng.gen_range(0..3)] }) }
                       else { (pw[rng.gen_range(0..4)], pw[rng.gen_range(0..4)], pw[rng.gen_range(0..4)]) };
    let xn = grid(rng, nx, uniform); let uy = uniform && rng.gen_bool(0.5); let yn = grid(rng, ny, uy);
    let span = |g: &Vec<i64>| -> i64 { if g.is_empty() { 0 } else { g[g.len() - 1] - g[0] } };
    let area4 = 4 * span(&xn).max(1) * span(&yn).max(1);
    let vlim: i64 = if small { 30 } else { 999 };
    let empty = nx == 0 || ny == 0;
    let mut vmax: i64 = 0;
    let mut ops: Vec<Value> = vec![];
    let sq_ok = |vmax: i64| -> bool { (area4 as i128) * (vmax as i128) * (vmax as i128) < (1i128 << 29) };
    let observe = |rng: &mut StdRng, ops: &mut Vec<Value>, vmax: i64| {
        let names: Vec<&str> = if empty { vec!["nvars", "nnodes", "xnodes", "ynodes", "vam", "output", "output_var", "index_all", "coord_all", "trap", "xsec"] }
                               else { vec!["nvars", "nnodes", "xnodes", "ynodes", "coord", "get", "index", "xsec_x", "xsec_y", "vam", "trap", "sq_trap", "output", "output_var", "get", "index", "xsec_x", "xsec_y", "trap", "sq_trap"] };
        let n = names[rng.gen_range(0..names.len())];
        let (i, j, var, p) = (rng.gen_range(0..nx.max(1)), rng.gen_range(0..ny.max(1)), rng.gen_range(0..nv), rng.gen_range(0..=5i64));
        match n {
            "coord" | "get" | "index" => ops.push(json!({"op": n, "i": i, "j": j})),
            "xsec_x" => ops.push(json!({"op": n, "i": i})),
            "xsec_y" => ops.push(json!({"op": n, "j": j})),
            "xsec" => { if nx > 0 { ops.push(json!({"op": "xsec_x", "i": i})) } else if ny > 0 { ops.push(json!({"op": "xsec_y", "j": j})) } else { ops.push(json!({"op": "nnodes"})) } }
            "vam" => ops.push(json!({"op": n, "var": var})),
            "trap" => { if !cx { ops.push(json!({"op": n, "var": var})) } else { ops.push(json!({"op": "vam", "var": var})) } }
            "sq_trap" => { if !cx && sq_ok(vmax) { ops.push(json!({"op": n, "var": var})) } else { ops.push(json!({"op": "index_all"})) } }
            "output" => ops.push(json!({"op": n, "p": p, "stale": (i + j) % 3 == 0})),
            "output_var" => ops.push(json!({"op": n, "var": var, "p": p, "stale": (i + j) % 3 == 1})),
            _ => ops.push(json!({"op": n})),
        }
    };
    // the fresh mesh: zeros through every observer (one case in three), else a few observers
    if rng.gen_range(0..3) == 0 { ops.push(json!({"op": "sweep", "sq": true, "p": rng.gen_range(0..6)})); } else { for _ in 0..nobs.min(2) { observe(rng, &mut ops, vmax); } }
    for _ in 0..len {
        let kind = if empty { rng.gen_range(3..5) } else { rng.gen_range(0..6) };
        let (i, j, var) = (rng.gen_range(0..nx.max(1)), rng.gen_range(0..ny.max(1)), rng.gen_range(0..nv));
        match kind {
            0 | 5 => { let v = rvec(rng, cx, nv, vlim); vmax = vmax.max(vabs(&v)); ops.push(json!({"op": if kind == 0 { "set" } else { "isetv" }, "i": i, "j": j, "v": v})); }
            1 | 2 => { let x = rval(rng, cx, vlim); vmax = vmax.max(vabs(&x)); ops.push(json!({"op": "iset", "i": i, "j": j, "var": var, "x": x})); }
            3 => { let x = rval(rng, cx, vlim); vmax = vabs(&x); ops.push(json!({"op": "assign", "x": x})); }
            _ => {
                let co = |rng: &mut StdRng| -> Vec<i64> { if small { vec![rng.gen_range(-3..=3), rng.gen_range(-1..=1), rng.gen_range(-1..=1), 0, 0, 0] }
                    else { vec![rng.gen_range(-9..=9), rng.gen_range(-5..=5), rng.gen_range(-5..=5), rng.gen_range(-1..=1), rng.gen_range(-1..=1), rng.gen_range(-1..=1)] } };
                let (c1, c2) = (co(rng), if cx { co(rng) } else { vec![0; 6] });
                for x in &xn { for y in &yn { vmax = vmax.max(poly(&c1, *x, *y).abs()).max(poly(&c2, *x, *y).abs()); } }
                ops.push(json!({"op": "apply", "var": var, "co": c1, "coi": c2}));
            }
        }
        for _ in 0..nobs { observe(rng, &mut ops, vmax); }
    }
    ops.push(json!({"op": "sweep", "sq": sq_ok(vmax), "p": rng.gen_range(0..6)}));
    json!({"ty": if cx { "cx" } else { "f64" }, "dx": dx, "dy": dy, "dv": dv, "xn": xn, "yn": yn, "nv": nv, "inexact": inexact, "ops": ops})
}

pub fn gen(tier: &str, seed: u64, out: &mut Out) {
    let quick = tier == "quick";
    let mut rng = rng(seed, 101);
    let mut cid = 0i64;
    let mut push = |out: &mut Out, mut c: Value| { cid += 1; c["cid"] = json!(cid); c["suite"] = json!("mesh2d"); out.raw(&c); };
    // every shape 0..6 x 0..6, 1..3 variables, both element types
    let reps = if quick { 1 } else { 6 };
    let (len, nobs) = if quick { (4, 3) } else { (8, 4) };
    for nx in 0..=6usize { for ny in 0..=6usize { for nv in 1..=3usize { for cx in [false, true] { for rep in 0..reps {
        let h = nx * 7 + ny * 3 + nv + rep + cx as usize;
        push(out, gen_case(&mut rng, nx, ny, nv, cx, len, nobs, h % 4 == 0, h % 2 == 1, h % 9 == 5));
    } } } } }
}
