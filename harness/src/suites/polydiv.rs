//! Suite "polydiv": Polynomial::polydiv (C12).
//!  ty "rat"  : Polynomial<Rat>, coefficients ints or [n,d]               -> exact event (TLC checks u = q*v + r)
//!  ty "f64x" : Polynomial<f64>, integer coefficients, |lc(v)| a power of 2 (every intermediate exact) -> exact event
//!  ty "f64"  : general f64 coefficients given as 16-hex-digit bit patterns -> float event (double-double residual)
//!  ty "cx"   : Complex<f64> coefficients (bit patterns re / im)            -> float event
use crate::dd::{CDD, DD};
use crate::rat::Rat;
use crate::util::*;
use ohsl::{Cmplx, Polynomial};
use rand::rngs::StdRng;
use rand::Rng;
use serde_json::{json, Value};

/// largest numerator / denominator of an exact result that is handed to TLC (keeps TLC's 32-bit arithmetic safe)
pub const NMAX: i128 = 1 << 15;
pub const DMAX: i128 = 1 << 8;

pub fn hexf(s: &Value) -> f64 { f64::from_bits(u64::from_str_radix(s.as_str().unwrap_or("0"), 16).unwrap_or_else(|_| { eprintln!("TOOL-ERROR bad f64 bits {}", s); std::process::exit(2) })) }
pub fn fhex(x: f64) -> Value { json!(bits(x)) }
/// exact conversion of a dyadic f64 to a rational (None if not finite or the denominator exceeds 2^40)
fn f64_to_rat(x: f64) -> Option<Rat> {
    if !x.is_finite() { return None; }
    let mut y = x; let mut k = 0u32;
    while y != y.trunc() { y *= 2.0; k += 1; if k > 40 { return None; } }
    if y.abs() >= 1e30 { return None; }
    Some(Rat::new(y as i128, 1i128 << k))
}
fn small(r: &Rat) -> bool { r.n.abs() < NMAX && r.d <= DMAX }

fn rat_poly(v: &Value) -> Polynomial<Rat> { Polynomial::new(v.as_array().map(|a| a.iter().map(rat_from).collect()).unwrap_or_default()) }
fn f64_poly_int(v: &Value) -> Polynomial<f64> { Polynomial::new(ivec(v).iter().map(|x| *x as f64).collect()) }
fn f64_poly_hex(v: &Value) -> Polynomial<f64> { Polynomial::new(v.as_array().map(|a| a.iter().map(hexf).collect()).unwrap_or_default()) }
fn cx_poly_hex(re: &Value, im: &Value) -> Polynomial<Cmplx> {
    let a: Vec<f64> = re.as_array().map(|a| a.iter().map(hexf).collect()).unwrap_or_default();
    let b: Vec<f64> = im.as_array().map(|a| a.iter().map(hexf).collect()).unwrap_or_default();
    Polynomial::new(a.iter().enumerate().map(|(k, x)| Cmplx::new(*x, b.get(k).cloned().unwrap_or(0.0))).collect())
}
fn coeffs<T: Copy>(p: &Polynomial<T>) -> Vec<T> { (0..p.size()).map(|i| p[i]).collect() }
fn jr(v: &[Rat]) -> Value { Value::from(v.iter().map(|x| jrat(*x)).collect::<Vec<Value>>()) }

type DivOut<T> = Result<Result<(Polynomial<T>, Polynomial<T>), &'static str>, String>;

fn exact_event(case: &Value, ty: &str, u: &[Rat], v: &[Rat], res: Result<Result<(Vec<Option<Rat>>, Vec<Option<Rat>>), &'static str>, String>, out: &mut Out) {
    exact_event_x(case, ty, u, v, res, out, &|_| {})
}
fn exact_event_x(case: &Value, ty: &str, u: &[Rat], v: &[Rat], res: Result<Result<(Vec<Option<Rat>>, Vec<Option<Rat>>), &'static str>, String>, out: &mut Out, extra: &dyn Fn(&mut Value)) {
    let mut e = json!({"op": "polydiv", "kind": "exact", "ty": ty, "cid": geti(case, "cid"), "u": jr(u), "v": jr(v), "panic": false, "ok": false, "fits": true, "q": [], "r": [], "err": ""});
    match res {
        Err(_) => e["panic"] = json!(true),
        Ok(Err(m)) => e["err"] = json!(m),
        Ok(Ok((q, r))) => {
            e["ok"] = json!(true);
            let fits = q.iter().chain(r.iter()).all(|x| x.map(|y| small(&y)).unwrap_or(false));
            e["fits"] = json!(fits);
            if fits { e["q"] = jr(&q.iter().map(|x| x.unwrap()).collect::<Vec<Rat>>()); e["r"] = jr(&r.iter().map(|x| x.unwrap()).collect::<Vec<Rat>>()); }
        }
    }
    extra(&mut e);
    out.ev(e);
}

fn lead_nz_f(v: &[(f64, f64)]) -> bool { v.last().map(|x| x.0 != 0.0 || x.1 != 0.0).unwrap_or(false) }

/// float event: the identity residual in double-double, in units of eps * (||u||inf + ||q||1 * ||v||inf)
fn float_event(case: &Value, ty: &str, u: &[(f64, f64)], v: &[(f64, f64)], res: Result<Result<(Vec<(f64, f64)>, Vec<(f64, f64)>), &'static str>, String>, out: &mut Out) {
    let zerodiv = v.iter().all(|x| x.0 == 0.0 && x.1 == 0.0);
    let mut e = json!({"op": "polydiv", "kind": "float", "ty": ty, "cid": geti(case, "cid"), "degu": u.len() as i64 - 1, "degv": v.len() as i64 - 1,
                       "zerodiv": zerodiv, "lead_nz": lead_nz_f(v), "panic": false, "ok": false, "rzero": false, "degr": -1, "degq": -1, "id_units": SAT, "id_milli": SAT, "err": ""});
    match res {
        Err(_) => e["panic"] = json!(true),
        Ok(Err(m)) => e["err"] = json!(m),
        Ok(Ok((q, r))) => {
            e["ok"] = json!(true);
            e["rzero"] = json!(r.iter().all(|x| x.0 == 0.0 && x.1 == 0.0));
            // mathematical degree of r (leading zeros do not count)
            let mut dr = r.len() as i64 - 1; while dr >= 0 && r[dr as usize].0 == 0.0 && r[dr as usize].1 == 0.0 { dr -= 1; }
            e["degr"] = json!(dr); e["degq"] = json!(q.len() as i64 - 1);
            let n = u.len().max(r.len()).max(if q.is_empty() || v.is_empty() { 0 } else { q.len() + v.len() - 1 });
            let mut err = 0.0f64; let mut bad = false;
            for k in 0..n {
                let mut s = match u.get(k) { Some(x) => CDD::from(x.0, x.1), None => CDD::ZERO };
                for (i, qi) in q.iter().enumerate() { if k >= i { if let Some(vj) = v.get(k - i) {
                    // exact complex product of two f64 pairs, accumulated in double-double
                    let re = DD::prod(qi.0, vj.0).sub(DD::prod(qi.1, vj.1)); let im = DD::prod(qi.0, vj.1).add(DD::prod(qi.1, vj.0));
                    s = s.sub(CDD { re, im });
                } } }
                if let Some(x) = r.get(k) { s = s.sub(CDD::from(x.0, x.1)); }
                let a = s.abs(); if !a.is_finite() { bad = true; } else if a > err { err = a; }
            }
            let nu = u.iter().map(|x| x.0.hypot(x.1)).fold(0.0, f64::max);
            let nv = v.iter().map(|x| x.0.hypot(x.1)).fold(0.0, f64::max);
            let nq: f64 = q.iter().map(|x| x.0.hypot(x.1)).sum();
            let unit = f64::EPSILON * (nu + nq * nv);
            if bad || !unit.is_finite() { e["id_units"] = json!(SAT); e["id_milli"] = json!(SAT); }
            else { e["id_units"] = json!(units(err, unit)); e["id_milli"] = json!(units(err, unit / 1000.0)); }
        }
    }
    out.ev(e);
}

/// Sequence on ONE object (integer data): the object is used as dividend ("div") and as divisor ("divby") of a fixed second polynomial,
/// mutated through IndexMut / coeffs() / trim, and used again; each result is judged against the CURRENT coefficients (tracked in a plain Vec).
fn run_seq<T: Copy + ohsl::Number + ohsl::Signed + std::fmt::Debug + Send + Sync + 'static>(case: &Value, out: &mut Out, ty: &str, mk: &dyn Fn(i64) -> T, back: &dyn Fn(T) -> Option<Rat>) {
    let mut mv: Vec<i64> = ivec(&case["u"]);
    let mut obj = Polynomial::<T>::new(mv.iter().map(|x| mk(*x)).collect());
    let wv: Vec<i64> = ivec(&case["w"]); let w = Polynomial::<T>::new(wv.iter().map(|x| mk(*x)).collect());
    // the dividend used when the object is the divisor: longer than the object, so that the division loop really runs
    let bv: Vec<i64> = ivec(&case["wb"]); let wb = Polynomial::<T>::new(bv.iter().map(|x| mk(*x)).collect());
    let rats = |v: &[i64]| v.iter().map(|x| Rat::int(*x)).collect::<Vec<Rat>>();
    for (k, st) in case["steps"].as_array().unwrap().iter().enumerate() {
        match gets(st, "op") {
            "set" => { let i = getu(st, "i"); obj[i] = mk(geti(st, "v")); mv[i] = geti(st, "v"); }
            "cset" => { let i = getu(st, "i"); obj.coeffs()[i] = mk(geti(st, "v")); mv[i] = geti(st, "v"); }
            "push" => { obj.coeffs().push(mk(geti(st, "v"))); mv.push(geti(st, "v")); }
            "pop" => { obj.coeffs().pop(); mv.pop(); }
            "trim" => { obj.trim(); while mv.len() > 1 && mv[mv.len() - 1] == 0 { mv.pop(); } }
            op @ ("div" | "divby") => {
                let r: DivOut<T> = guarded(|| if op == "div" { obj.polydiv(&w) } else { wb.polydiv(&obj) });
                let synced = obj.size() == mv.len() && (0..mv.len()).all(|i| obj[i] == mk(mv[i]));
                let (u, v) = if op == "div" { (rats(&mv), rats(&wv)) } else { (rats(&bv), rats(&mv)) };
                exact_event_x(case, ty, &u, &v, r.map(|x| x.map(|(q, r)| (coeffs(&q).into_iter().map(|c| back(c)).collect(), coeffs(&r).into_iter().map(|c| back(c)).collect()))), out,
                              &|e| { e["step"] = json!(k); e["role"] = json!(op); e["synced"] = json!(synced); });
            }
            "isz" => {
                // is_zero() of the object, judged against the current coefficients
                let mut e = json!({"op": "is_zero", "kind": "exact", "ty": ty, "cid": geti(case, "cid"), "step": k, "u": jr(&rats(&mv)), "panic": false, "b": false});
                match guarded(|| obj.is_zero()) { Ok(b) => e["b"] = json!(b), Err(_) => e["panic"] = json!(true) }
                out.ev(e);
            }
            o => { eprintln!("TOOL-ERROR unknown polydiv step {}", o); std::process::exit(2) }
        }
    }
}

/// calls the crate refuses (Err or panic), under guarded(), in every element type; used by the "poison" cases
fn refuse(kind: &str) {
    let _ = guarded(|| match kind {
        "divempty" => { let _ = Polynomial::<f64>::new(vec![1.0, 2.0]).polydiv(&Polynomial::<f64>::new(vec![])); let _ = Polynomial::<Rat>::new(vec![Rat::int(1)]).polydiv(&Polynomial::<Rat>::new(vec![])); }
        "divzero" => { let _ = Polynomial::<Cmplx>::new(vec![Cmplx::new(1.0, 1.0); 3]).polydiv(&Polynomial::<Cmplx>::new(vec![Cmplx::new(0.0, 0.0); 2])); let _ = Polynomial::<Rat>::new(vec![Rat::int(1); 3]).polydiv(&Polynomial::<Rat>::new(vec![Rat::int(0); 2])); }
        // a divisor whose leading coefficient vanishes: the exact type panics (division by zero) INSIDE polydiv
        "leadzero" => { let _ = Polynomial::<Rat>::new(vec![Rat::int(1), Rat::int(2), Rat::int(3)]).polydiv(&Polynomial::<Rat>::new(vec![Rat::int(1), Rat::int(0)])); }
        "leadzerof" => { let _ = Polynomial::<f64>::new(vec![1.0, 2.0, 3.0]).polydiv(&Polynomial::<f64>::new(vec![1.0, 0.0])); }
        "index" => { let p = Polynomial::<f64>::new(vec![1.0]); let _ = p[4]; }
        "trimempty" => { let mut p = Polynomial::<Rat>::new(vec![]); p.trim(); }
        _ => { let _ = Polynomial::<f64>::new(vec![7.0]).roots(false); }
    });
}

pub fn exec(case: &Value, out: &mut Out) {
    if let Some(k) = case.get("poison").and_then(|v| v.as_str()) {
        // a refused call, IMMEDIATELY followed on this thread by an ordinary division - and once more
        refuse(k);
        let mut c = case.clone(); c.as_object_mut().unwrap().remove("poison");
        exec(&c, out); exec(&c, out); return;
    }
    if case.get("steps").is_some() {
        return match gets(case, "ty") { "rat" => run_seq::<Rat>(case, out, "rat", &|x| Rat::int(x), &|c| Some(c)),
            "cxr" => run_seq::<Cmplx>(case, out, "cxr", &|x| Cmplx::new(x as f64, 0.0), &|c| if c.imag == 0.0 { f64_to_rat(c.real) } else { None }),
            _ => run_seq::<f64>(case, out, "f64x", &|x| x as f64, &|c| f64_to_rat(c)) };
    }
    match gets(case, "ty") {
        "rat" => {
            let (u, v) = (rat_poly(&case["u"]), rat_poly(&case["v"]));
            let r: DivOut<Rat> = guarded(|| u.polydiv(&v));
            exact_event(case, "rat", &coeffs(&u), &coeffs(&v), r.map(|x| x.map(|(q, r)| (coeffs(&q).into_iter().map(Some).collect(), coeffs(&r).into_iter().map(Some).collect()))), out);
        }
        "f64x" => {
            let (u, v) = (f64_poly_int(&case["u"]), f64_poly_int(&case["v"]));
            let r: DivOut<f64> = guarded(|| u.polydiv(&v));
            let ur: Vec<Rat> = ivec(&case["u"]).iter().map(|x| Rat::int(*x)).collect(); let vr: Vec<Rat> = ivec(&case["v"]).iter().map(|x| Rat::int(*x)).collect();
            exact_event(case, "f64x", &ur, &vr, r.map(|x| x.map(|(q, r)| (coeffs(&q).into_iter().map(f64_to_rat).collect(), coeffs(&r).into_iter().map(f64_to_rat).collect()))), out);
        }
        "f64" => {
            let (u, v) = if case["u"].as_array().map(|a| a.iter().all(|x| x.is_i64())).unwrap_or(false) && case["v"].as_array().map(|a| a.iter().all(|x| x.is_i64())).unwrap_or(false)
                { (f64_poly_int(&case["u"]), f64_poly_int(&case["v"])) } else { (f64_poly_hex(&case["u"]), f64_poly_hex(&case["v"])) };
            let r: DivOut<f64> = guarded(|| u.polydiv(&v));
            let p = |p: &Polynomial<f64>| coeffs(p).into_iter().map(|x| (x, 0.0)).collect::<Vec<(f64, f64)>>();
            float_event(case, "f64", &p(&u), &p(&v), r.map(|x| x.map(|(q, r)| (p(&q), p(&r)))), out);
        }
        "cx" => {
            let (u, v) = (cx_poly_hex(&case["u"], &case["ui"]), cx_poly_hex(&case["v"], &case["vi"]));
            let r: DivOut<Cmplx> = guarded(|| u.polydiv(&v));
            let p = |p: &Polynomial<Cmplx>| coeffs(p).into_iter().map(|x| (x.real, x.imag)).collect::<Vec<(f64, f64)>>();
            float_event(case, "cx", &p(&u), &p(&v), r.map(|x| x.map(|(q, r)| (p(&q), p(&r)))), out);
        }
        "cxg" => {
            // Complex<f64> with Gaussian-integer data and a divisor whose leading coefficient is a unit (1, -1, i, -i): every
            // intermediate is a Gaussian integer, exact in f64 -> logged as integers and checked exactly by TLC
            let mk = |re: &Value, im: &Value| -> Polynomial<Cmplx> { let (a, b) = (ivec(re), ivec(im)); Polynomial::new(a.iter().enumerate().map(|(k, x)| Cmplx::new(*x as f64, b.get(k).cloned().unwrap_or(0) as f64)).collect()) };
            let (u, v) = (mk(&case["u"], &case["ui"]), mk(&case["v"], &case["vi"]));
            let r: DivOut<Cmplx> = guarded(|| u.polydiv(&v));
            let gi = |x: f64| -> Option<i64> { if x.is_finite() && x == x.trunc() && x.abs() < NMAX as f64 { Some(x as i64) } else { None } };
            let pad = |v: &Value, n: usize| -> Value { let mut a = ivec(v); a.resize(n, 0); json!(a) };
            let mut e = json!({"op": "polydiv", "kind": "gexact", "ty": "cxg", "cid": geti(case, "cid"), "u": pad(&case["u"], u.size()), "ui": pad(&case["ui"], u.size()),
                               "v": pad(&case["v"], v.size()), "vi": pad(&case["vi"], v.size()), "panic": false, "ok": false, "fits": true, "q": [], "qi": [], "r": [], "ri": [], "err": ""});
            match r {
                Err(_) => e["panic"] = json!(true),
                Ok(Err(m)) => e["err"] = json!(m),
                Ok(Ok((q, r))) => {
                    e["ok"] = json!(true);
                    let parts = |p: &Polynomial<Cmplx>| -> Option<(Vec<i64>, Vec<i64>)> { let mut a = vec![]; let mut b = vec![]; for c in coeffs(p) { a.push(gi(c.real)?); b.push(gi(c.imag)?); } Some((a, b)) };
                    match (parts(&q), parts(&r)) { (Some(q), Some(r)) => { e["q"] = json!(q.0); e["qi"] = json!(q.1); e["r"] = json!(r.0); e["ri"] = json!(r.1); } _ => e["fits"] = json!(false) }
                }
            }
            out.ev(e);
        }
        t => { eprintln!("TOOL-ERROR unknown type {}", t); std::process::exit(2) }
    }
}

// ------------------------------------------------------------------ case generation
/// reference long division over exact rationals (generator side only): are all intermediates small?
fn division_is_small(u: &[Rat], v: &[Rat]) -> bool {
    let mut r: Vec<Rat> = u.to_vec();
    let dv = v.len() - 1; let lv = v[dv];
    if lv.is_zero() { return false; }
    while r.len() > dv && r.iter().any(|x| !x.is_zero()) {
        let dr = r.len() - 1;
        let t = r[dr] / lv;
        if !small(&t) { return false; }
        for j in 0..=dv { let x = r[dr - dv + j] - t * v[j]; if !small(&x) { return false; } r[dr - dv + j] = x; }
        r.pop();
        while r.len() > 1 && r[r.len() - 1].is_zero() { r.pop(); }
    }
    true
}
fn int_coeffs(rng: &mut StdRng, len: usize, lim: i64) -> Vec<i64> { (0..len).map(|_| if rng.gen_bool(0.15) { 0 } else { rng.gen_range(-lim..=lim) }).collect() }
fn general(rng: &mut StdRng, span: f64) -> f64 {
    let m: f64 = 1.0 + rng.gen::<f64>(); let e = (rng.gen::<f64>() * 2.0 - 1.0) * span;
    let x = m * 10f64.powf(e); if rng.gen_bool(0.5) { x } else { -x }
}
fn hexvec(v: &[f64]) -> Value { Value::from(v.iter().map(|x| fhex(*x)).collect::<Vec<Value>>()) }

pub fn gen(tier: &str, seed: u64, out: &mut Out) {
    let quick = tier == "quick";
    let mut rng = rng(seed, 12);
    let mut cid = 0i64;
    let mut push = |out: &mut Out, mut c: Value| { cid += 1; c["cid"] = json!(cid); c["suite"] = json!("polydiv"); out.raw(&c); };
    let reps = if quick { 1 } else { 8 };
    // (a) exact: every (len u, len v) in 0..11 x 0..7 (degree <= 10 / <= 6; empty operands; divisors longer than the dividend)
    for lu in 0..=11usize { for lv in 0..=7usize { for rep in 0..reps {
        let ty = if (lu + lv + rep) % 2 == 0 { "rat" } else { "f64x" };
        if lv == 0 { push(out, json!({"ty": ty, "u": int_coeffs(&mut rng, lu, 9), "v": []})); continue; }
        let mut done = false;
        for attempt in 0..400 {
            let lim = if attempt < 100 { 9 } else if attempt < 200 { 4 } else if attempt < 300 { 2 } else { 1 };
            let mut u = int_coeffs(&mut rng, lu, lim); let mut v = int_coeffs(&mut rng, lv, lim);
            let long = lu > lv + 6;
            v[lv - 1] = if long || attempt >= 300 { [1i64, -1][rng.gen_range(0..2)] } else { [1i64, -1, 2, -2, 4, -4][rng.gen_range(0..if ty == "rat" { 4 } else { 6 })] };
            if lu > 0 && u[lu - 1] == 0 && rng.gen_bool(0.8) { u[lu - 1] = 1; }
            let ur: Vec<Rat> = u.iter().map(|x| Rat::int(*x)).collect(); let vr: Vec<Rat> = v.iter().map(|x| Rat::int(*x)).collect();
            if division_is_small(&ur, &vr) { push(out, json!({"ty": ty, "u": u, "v": v})); done = true; break; }
        }
        if !done { eprintln!("TOOL-ERROR polydiv gen: no small exact case for lengths {} {}", lu, lv); std::process::exit(2); }
    } } }
    // (b) exact, rational coefficients and general rational leading coefficient (Polynomial<Rat> only), short quotients
    for _ in 0..(if quick { 60 } else { 800 }) {
        let lv = rng.gen_range(1..=5usize); let lu = rng.gen_range(0..=(lv + 3));
        for _ in 0..200 {
            let rc = |rng: &mut StdRng| Rat::new(rng.gen_range(-6..=6i64) as i128, [1i128, 1, 2, 3][rng.gen_range(0..4)]);
            let u: Vec<Rat> = (0..lu).map(|_| rc(&mut rng)).collect(); let mut v: Vec<Rat> = (0..lv).map(|_| rc(&mut rng)).collect();
            if v[lv - 1].is_zero() { v[lv - 1] = Rat::new(3, 2); }
            if division_is_small(&u, &v) { push(out, json!({"ty": "rat", "u": jr(&u), "v": jr(&v)})); break; }
        }
    }
    // (c) zero / empty divisors, zero dividends, divisor with a vanishing leading coefficient (outside the property)
    for lu in [0usize, 1, 3, 7] { for lv in 0..=4usize { for ty in ["rat", "f64x", "f64", "cx"] {
        let u = int_coeffs(&mut rng, lu, 9); let z = vec![0i64; lv];
        let cxv = |v: &Vec<i64>| hexvec(&v.iter().map(|x| *x as f64).collect::<Vec<f64>>());
        if ty == "cx" { push(out, json!({"ty": ty, "u": cxv(&u), "ui": cxv(&int_coeffs(&mut rng, lu, 9)), "v": cxv(&z), "vi": cxv(&z)})); }
        else { push(out, json!({"ty": ty, "u": u, "v": z})); }
        if lv >= 2 && ty != "cx" { let mut w = int_coeffs(&mut rng, lv, 3); w[0] = 1; w[lv - 1] = 0; push(out, json!({"ty": ty, "u": u, "v": w})); }
        if lv >= 1 && ty != "cx" { let mut w = int_coeffs(&mut rng, lv, 3); w[lv - 1] = 1; push(out, json!({"ty": ty, "u": vec![0i64; lu], "v": w})); }
    } } }
    // (d) general floating point: the leading term does not cancel exactly
    push(out, json!({"ty": "f64", "u": hexvec(&[0.3, -1.7, 2.9, 1.0 / 3.0, 1.0]), "v": hexvec(&[0.7, 49.0])}));        // the input of D7
    let nf = if quick { 700 } else { 12000 };
    for k in 0..nf {
        let lu = rng.gen_range(0..=11usize); let lv = rng.gen_range(1..=7usize);
        let span = [0.0, 1.0, 3.0][k % 3];                                  // coefficient ratios up to 10^(2*span) ... capped at 1e6
        let gen1 = |rng: &mut StdRng| -> f64 { match k % 5 { 4 => rng.gen_range(-9..=9i64) as f64, 3 if rng.gen_bool(0.2) => 0.0, _ => general(rng, span) } };
        let mut u: Vec<f64> = (0..lu).map(|_| gen1(&mut rng)).collect(); let mut v: Vec<f64> = (0..lv).map(|_| gen1(&mut rng)).collect();
        if v[lv - 1] == 0.0 { v[lv - 1] = general(&mut rng, span); }
        if lu > 0 && u[lu - 1] == 0.0 { u[lu - 1] = 1.0; }
        if k % 2 == 0 { push(out, json!({"ty": "f64", "u": hexvec(&u), "v": hexvec(&v)})); }
        else {
            let ui: Vec<f64> = (0..lu).map(|_| gen1(&mut rng)).collect(); let vi: Vec<f64> = (0..lv).map(|_| gen1(&mut rng)).collect();
            push(out, json!({"ty": "cx", "u": hexvec(&u), "ui": hexvec(&ui), "v": hexvec(&v), "vi": hexvec(&vi)}));
        }
    }
    gen_special(quick, &mut rng, out, &mut push);
    gen_sequences(quick, &mut rng, out, &mut push);
    gen_zero_flips(quick, &mut rng, out, &mut push);
    gen_poison(quick, &mut rng, out, &mut push);
}

// ------------------------------------------------------------------ special exact values (leads of modulus 1, monomial divisors, 0 / 1 / -1 in every position)
type Cx = (f64, f64);
fn hexparts(v: &[Cx]) -> (Value, Value) { (hexvec(&v.iter().map(|c| c.0).collect::<Vec<f64>>()), hexvec(&v.iter().map(|c| c.1).collect::<Vec<f64>>())) }
/// leading coefficients of modulus exactly (or within rounding) 1
fn unit_leads() -> Vec<Cx> { vec![(0.0, 1.0), (0.0, -1.0), (-1.0, 0.0), (1.0, 0.0), (0.6, 0.8), (-0.8, 0.6), (5.0 / 13.0, 12.0 / 13.0)] }
/// reference division over Gaussian integers for a unit leading coefficient (generator side): all intermediates small?
fn gauss_division_is_small(u: &[(i64, i64)], v: &[(i64, i64)]) -> bool {
    let mul = |a: (i128, i128), b: (i128, i128)| (a.0 * b.0 - a.1 * b.1, a.0 * b.1 + a.1 * b.0);
    let mut r: Vec<(i128, i128)> = u.iter().map(|c| (c.0 as i128, c.1 as i128)).collect();
    let vv: Vec<(i128, i128)> = v.iter().map(|c| (c.0 as i128, c.1 as i128)).collect();
    let dv = vv.len() - 1; let lc = vv[dv]; let inv = (lc.0, -lc.1);                      // 1/lc = conj(lc) for a unit
    let lim = (NMAX / 4) as i128;
    while r.len() > dv && r.iter().any(|x| *x != (0, 0)) {
        let dr = r.len() - 1; let t = mul(r[dr], inv);
        if t.0.abs() >= lim || t.1.abs() >= lim { return false; }
        for j in 0..=dv { let m = mul(t, vv[j]); let x = (r[dr - dv + j].0 - m.0, r[dr - dv + j].1 - m.1); if x.0.abs() >= lim || x.1.abs() >= lim { return false; } r[dr - dv + j] = x; }
        r.pop();
        while r.len() > 1 && r[r.len() - 1] == (0, 0) { r.pop(); }
    }
    true
}
/// force 0, 1 or -1 into the constant, an inner or the leading position (the leading one never 0)
fn special_i(rng: &mut StdRng, v: &mut Vec<i64>, k: usize, keep_lead: bool) {
    let n = v.len(); if n == 0 { return; }
    let pos = match k % 3 { 0 => 0, 1 => n - 1, _ => rng.gen_range(0..n) };
    if pos == n - 1 && keep_lead { return; }
    let val = [1i64, -1, 0][rng.gen_range(0..3)];
    v[pos] = if pos == n - 1 && val == 0 { 1 } else { val };
}
fn special_f(rng: &mut StdRng, v: &mut Vec<f64>, k: usize) {
    let n = v.len(); if n == 0 { return; }
    let pos = match k % 3 { 0 => 0, 1 => n - 1, _ => rng.gen_range(0..n) };
    let val = [1.0f64, -1.0, 0.0][rng.gen_range(0..3)];
    v[pos] = if pos == n - 1 && val == 0.0 { -1.0 } else { val };
}

fn gen_special(quick: bool, rng: &mut StdRng, out: &mut Out, push: &mut dyn FnMut(&mut Out, Value)) {
    let reps = if quick { 1 } else { 6 };
    let gi = |rng: &mut StdRng, len: usize, lim: i64| -> Vec<(i64, i64)> { (0..len).map(|_| (rng.gen_range(-lim..=lim), rng.gen_range(-lim..=lim))).collect() };
    let units: [(i64, i64); 4] = [(0, 1), (0, -1), (1, 0), (-1, 0)];
    // (s1) Complex<f64>, Gaussian-integer data, divisor lead a unit 1, -1, i, -i: exact (kind gexact); every (len u, len v)
    for lu in 0..=11usize { for lv in 1..=7usize { for rep in 0..reps {
        let lead = units[(lu + lv + rep) % 4];
        let mut done = false;
        for attempt in 0..300 {
            let lim = if attempt < 80 { 9 } else if attempt < 160 { 4 } else if attempt < 240 { 2 } else { 1 };
            let u = gi(rng, lu, lim); let mut v = gi(rng, lv, lim); v[lv - 1] = lead;
            // monomial divisor (all lower coefficients exactly zero) every third case
            if (lu + 2 * lv + rep) % 3 == 0 { for k in 0..lv - 1 { v[k] = (0, 0); } }
            if gauss_division_is_small(&u, &v) {
                push(out, json!({"ty": "cxg", "u": u.iter().map(|c| c.0).collect::<Vec<i64>>(), "ui": u.iter().map(|c| c.1).collect::<Vec<i64>>(),
                                 "v": v.iter().map(|c| c.0).collect::<Vec<i64>>(), "vi": v.iter().map(|c| c.1).collect::<Vec<i64>>()}));
                done = true; break;
            }
        }
        if !done { eprintln!("TOOL-ERROR polydiv gen: no small Gaussian case for lengths {} {}", lu, lv); std::process::exit(2); }
    } } }
    // (s2) Complex<f64>, divisor lead of modulus 1 (i, -i, -1, 1, (3+4i)/5, (-4+3i)/5, (5+12i)/13), float check; lower coefficients of v:
    //      Gaussian integers / general floats / all zero (monomial); dividend Gaussian integers or general floats
    for (li, lead) in unit_leads().iter().enumerate() { for lv in 1..=7usize { for style in 0..3usize { for rep in 0..reps {
        let lu = [lv + 2, 11, lv, (lv + 5).min(11), 1][(li + lv + style + rep) % 5];
        let u: Vec<Cx> = (0..lu).map(|_| if (style + rep) % 2 == 0 { (rng.gen_range(-9..=9i64) as f64, rng.gen_range(-9..=9i64) as f64) } else { (general(rng, 1.0), general(rng, 1.0)) }).collect();
        let mut v: Vec<Cx> = (0..lv).map(|_| match style { 0 => (rng.gen_range(-9..=9i64) as f64, rng.gen_range(-9..=9i64) as f64), 1 => (general(rng, 1.0), general(rng, 1.0)), _ => (0.0, 0.0) }).collect();
        v[lv - 1] = *lead;
        let (ur, ui) = hexparts(&u); let (vr, vi) = hexparts(&v);
        push(out, json!({"ty": "cx", "u": ur, "ui": ui, "v": vr, "vi": vi}));
    } } } }
    // (s3) monomial divisors c*x^m, m = 0 .. deg u + 3 (constant divisors with float dividends included)
    for lu in [1usize, 3, 6, 11] { for m in 0..=(lu + 2).min(9) { for rep in 0..reps {
        let uf: Vec<f64> = (0..lu).map(|_| general(rng, [0.0, 1.0, 3.0][(m + rep) % 3])).collect();
        for c in [1.0f64, -1.0, general(rng, 1.0)] { let mut v = vec![0.0f64; m + 1]; v[m] = c; push(out, json!({"ty": "f64", "u": hexvec(&uf), "v": hexvec(&v)})); }
        let uc: Vec<Cx> = (0..lu).map(|_| (general(rng, 1.0), general(rng, 1.0))).collect();
        for c in [(0.0, 1.0), (0.0, -1.0), (0.6, 0.8), (general(rng, 1.0), general(rng, 1.0))] {
            let mut v: Vec<Cx> = vec![(0.0, 0.0); m + 1]; v[m] = c; let (ur, ui) = hexparts(&uc); let (vr, vi) = hexparts(&v);
            push(out, json!({"ty": "cx", "u": ur, "ui": ui, "v": vr, "vi": vi})); }
        let ui_: Vec<i64> = int_coeffs(rng, lu, 9);
        for (k, c) in [1i64, -1, 2, -2].iter().enumerate() { let mut v = vec![0i64; m + 1]; v[m] = *c; push(out, json!({"ty": if (k + m + rep) % 2 == 0 { "rat" } else { "f64x" }, "u": ui_, "v": v})); }
    } } }
    // (s4) the special values 0, 1, -1 in the constant / an inner / the leading position of u and of v
    for lu in 1..=11usize { for lv in 1..=7usize { for rep in 0..reps {
        let k = lu + lv + rep;
        // general floats
        let mut u: Vec<f64> = (0..lu).map(|_| general(rng, 1.0)).collect(); let mut v: Vec<f64> = (0..lv).map(|_| general(rng, 1.0)).collect();
        special_f(rng, &mut u, k); special_f(rng, &mut v, k / 3);
        if v[lv - 1] == 0.0 { v[lv - 1] = 1.0; }
        if k % 2 == 0 { push(out, json!({"ty": "f64", "u": hexvec(&u), "v": hexvec(&v)})); }
        else { let ui: Vec<f64> = (0..lu).map(|_| general(rng, 1.0)).collect(); let mut vi: Vec<f64> = (0..lv).map(|_| general(rng, 1.0)).collect();
               if v[lv - 1].abs() == 1.0 { vi[lv - 1] = 0.0; }                      // lead exactly +-1 also for the complex type
               push(out, json!({"ty": "cx", "u": hexvec(&u), "ui": hexvec(&ui), "v": hexvec(&v), "vi": hexvec(&vi)})); }
        // exact integers
        for attempt in 0..300 {
            let lim = if attempt < 100 { 9 } else if attempt < 200 { 3 } else { 1 };
            let mut ue = int_coeffs(rng, lu, lim); let mut ve = int_coeffs(rng, lv, lim);
            ve[lv - 1] = [1i64, -1][rng.gen_range(0..2)];
            special_i(rng, &mut ue, k, false); special_i(rng, &mut ve, k / 3, true);
            let ur: Vec<Rat> = ue.iter().map(|x| Rat::int(*x)).collect(); let vr: Vec<Rat> = ve.iter().map(|x| Rat::int(*x)).collect();
            if division_is_small(&ur, &vr) { push(out, json!({"ty": if k % 2 == 0 { "f64x" } else { "rat" }, "u": ue, "v": ve})); break; }
        }
    } } }
}

/// (s5) sequences on one object: polydiv as dividend and as divisor, before and after every mutator
fn gen_sequences(quick: bool, rng: &mut StdRng, out: &mut Out, push: &mut dyn FnMut(&mut Out, Value)) {
    let unit = |rng: &mut StdRng| [1i64, -1][rng.gen_range(0..2)];
    let rats = |v: &[i64]| v.iter().map(|x| Rat::int(*x)).collect::<Vec<Rat>>();
    let want = if quick { 24 } else { 300 }; let mut made = 0; let mut tries = 0;
    while made < want {
        tries += 1; if tries > 100 * want { eprintln!("TOOL-ERROR polydiv gen: cannot build sequences"); std::process::exit(2); }
        let lim = if tries % 2 == 0 { 3 } else { 2 };
        let len = rng.gen_range(3..=6usize); let lw = rng.gen_range(1..=3usize);
        let mut cur = int_coeffs(rng, len, lim); cur[len - 1] = unit(rng);
        let mut w = int_coeffs(rng, lw, lim); w[lw - 1] = unit(rng);
        let wb = int_coeffs(rng, 9, lim);
        let u0 = cur.clone();
        let mut ok = true;
        let mut steps: Vec<Value> = vec![];
        let mut obs = |steps: &mut Vec<Value>, cur: &Vec<i64>, ok: &mut bool| {
            for op in ["div", "divby", "div"] { steps.push(json!({"op": op})); }
            if !division_is_small(&rats(cur), &rats(&w)) || !division_is_small(&rats(&wb), &rats(cur)) { *ok = false; }
        };
        obs(&mut steps, &cur, &mut ok);
        let order = [[0usize, 1, 2, 3], [2, 3, 0, 1], [1, 3, 2, 0], [3, 0, 1, 2]][made % 4];
        for m in order {
            match m {
                0 | 1 => { let i = rng.gen_range(0..cur.len() - 1); let v = if cur[i] >= 0 { -cur[i] - 1 } else { -cur[i] + 1 }; cur[i] = v; steps.push(json!({"op": if m == 0 { "set" } else { "cset" }, "i": i, "v": v})); }
                2 => { let v = unit(rng); cur.push(v); steps.push(json!({"op": "push", "v": v})); }
                _ => { if cur.len() > 2 { let l = cur.len() - 2; let v = unit(rng); cur[l] = v; steps.push(json!({"op": "set", "i": l, "v": v})); cur.pop(); steps.push(json!({"op": "pop"})); }
                       else { cur[0] = -cur[0] + 1; steps.push(json!({"op": "cset", "i": 0, "v": cur[0]})); } }
            }
            obs(&mut steps, &cur, &mut ok);
        }
        if cur.len() > 2 { let l = cur.len() - 1; let v = unit(rng); cur[l - 1] = v; steps.push(json!({"op": "cset", "i": l - 1, "v": v}));
            cur[l] = 0; steps.push(json!({"op": "set", "i": l, "v": 0})); cur.pop(); steps.push(json!({"op": "trim"})); obs(&mut steps, &cur, &mut ok); }
        if !ok { continue; }
        push(out, json!({"ty": if made % 2 == 0 { "rat" } else { "f64x" }, "u": u0, "w": w, "wb": wb, "v": [], "steps": steps}));
        made += 1;
    }
}

/// (s6) sequences that FLIP THE ZERO-NESS of one object through single writes, the object being used as divisor and as dividend:
///  zero -> index-write a non-zero leading coefficient -> divide (must succeed) -> ... -> write the coefficients to zero one at a time, lowest
///  first (every intermediate state is a valid divisor), dividing after each write -> all zero: Err, never panic -> non-zero again;
///  non-zero -> zero -> non-zero; empty -> coeffs().push -> divide.  is_zero() is observed before and after each write.
fn gen_zero_flips(quick: bool, rng: &mut StdRng, out: &mut Out, push: &mut dyn FnMut(&mut Out, Value)) {
    let rats = |v: &[i64]| v.iter().map(|x| Rat::int(*x)).collect::<Vec<Rat>>();
    let reps = if quick { 1 } else { 8 };
    for ty in ["rat", "f64x", "cxr"] { for n in 1..=4usize { for start in ["zero", "nonzero", "empty"] { for wr in ["set", "cset"] { for rep in 0..reps {
        'retry: for _ in 0..200 {
            let w = { let lw = rng.gen_range(1..=2usize); let mut w = int_coeffs(rng, lw, 2); let l = w.len() - 1; w[l] = [1, -1][rng.gen_range(0..2)]; w };
            let wb = int_coeffs(rng, 8, 2);
            let mut cur: Vec<i64> = match start { "zero" => vec![0; n], "empty" => vec![], _ => { let mut v: Vec<i64> = (0..n).map(|_| [1i64, -1, 2, -2][rng.gen_range(0..4)]).collect(); v[n - 1] = [1, -1][rng.gen_range(0..2)]; v } };
            let u0 = cur.clone();
            let mut steps: Vec<Value> = vec![];
            let mut small = true;
            let mut obs = |steps: &mut Vec<Value>, cur: &Vec<i64>, small: &mut bool| {
                for op in ["isz", "divby", "div", "isz", "divby"] { steps.push(json!({"op": op})); }
                let lead_ok = cur.last().map(|x| *x != 0).unwrap_or(false);
                if lead_ok && !division_is_small(&rats(&wb), &rats(cur)) { *small = false; }
                if !division_is_small(&rats(cur), &rats(&w)) { *small = false; }
            };
            obs(&mut steps, &cur, &mut small);
            if start == "empty" { for k in 0..n { let v = if k == n - 1 { [1i64, -1][rng.gen_range(0..2)] } else { rng.gen_range(-2..=2) };
                // a pushed zero would leave a vanishing leading coefficient (outside the property): push non-zero values
                let v = if v == 0 { 1 } else { v }; cur.push(v); steps.push(json!({"op": "push", "v": v})); obs(&mut steps, &cur, &mut small); } }
            if start == "zero" {
                // the leading coefficient first (zero -> valid divisor in one write), then the lower ones
                for i in (0..n).rev() { let v = if i == n - 1 { [1i64, -1][rng.gen_range(0..2)] } else { [1i64, -1, 2][rng.gen_range(0..3)] }; cur[i] = v; steps.push(json!({"op": wr, "i": i, "v": v})); obs(&mut steps, &cur, &mut small); }
            }
            // to zero, one write at a time, lowest coefficient first
            for i in 0..cur.len() { cur[i] = 0; steps.push(json!({"op": wr, "i": i, "v": 0})); obs(&mut steps, &cur, &mut small); }
            // and back: non-zero leading coefficient through the OTHER write path
            if !cur.is_empty() { let l = cur.len() - 1; let v = [1i64, -1][(rep + n) % 2]; cur[l] = v; steps.push(json!({"op": if wr == "set" { "cset" } else { "set" }, "i": l, "v": v})); obs(&mut steps, &cur, &mut small);
                cur[l] = 0; steps.push(json!({"op": "set", "i": l, "v": 0})); obs(&mut steps, &cur, &mut small); }
            if !small { continue 'retry; }
            push(out, json!({"ty": ty, "u": u0, "w": w, "wb": wb, "v": [], "steps": steps, "cls": "zeroflip"}));
            break;
        }
    } } } } }
}

/// (s7) a refused call (Err or panic inside polydiv, index out of range, ...) immediately followed by ordinary divisions on the same thread, twice
fn gen_poison(quick: bool, rng: &mut StdRng, out: &mut Out, push: &mut dyn FnMut(&mut Out, Value)) {
    for _rep in 0..(if quick { 1 } else { 5 }) { for kind in ["divempty", "divzero", "leadzero", "leadzerof", "index", "trimempty", "deg0roots"] { for lu in [1usize, 4, 8, 11] {
        let lv = 1 + (lu + kind.len()) % 4;
        // exact: small integers, divisor lead +-1
        for ty in ["rat", "f64x"] { for _ in 0..200 {
            let u = int_coeffs(rng, lu, 3); let mut v = int_coeffs(rng, lv, 3); v[lv - 1] = [1i64, -1][rng.gen_range(0..2)];
            let (ur, vr): (Vec<Rat>, Vec<Rat>) = (u.iter().map(|x| Rat::int(*x)).collect(), v.iter().map(|x| Rat::int(*x)).collect());
            if division_is_small(&ur, &vr) { push(out, json!({"ty": ty, "poison": kind, "u": u, "v": v})); break; }
        } }
        // general floats
        let uf: Vec<f64> = (0..lu).map(|_| general(rng, 1.0)).collect(); let vf: Vec<f64> = (0..lv).map(|_| general(rng, 1.0)).collect();
        push(out, json!({"ty": "f64", "poison": kind, "u": hexvec(&uf), "v": hexvec(&vf)}));
        let ui: Vec<f64> = (0..lu).map(|_| general(rng, 1.0)).collect(); let vi: Vec<f64> = (0..lv).map(|_| general(rng, 1.0)).collect();
        push(out, json!({"ty": "cx", "poison": kind, "u": hexvec(&uf), "ui": hexvec(&ui), "v": hexvec(&vf), "vi": hexvec(&vi)}));
    } } }
}
