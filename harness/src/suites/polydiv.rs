//! Suite "polydiv": Polynomial::polydiv (C12).
//!  ty "rat"  : Polynomial<Rat>, coefficients ints or [n,d]               -> exact event (TLC checks u = q*v + r)
//!  ty "f64x" : Polynomial<f64>, integer coefficients, |lc(v)| a power of 2 (every intermediate exact) -> exact event
//!  ty "f64"  : general f64 coefficients given as 16-hex-digit bit patterns -> float event (double-double residual)
//!  ty "cx"   : Complex<f64> coefficients (bit patterns re / im)            -> float event
use crate::dd::{CDD, DD};
use crate::rat::Rat;
use crate::util::*;
use ohsl::{Cmplx, Polynomial};
use rand::rngs::StdRng;
use rand::Rng;
use serde_json::{json, Value};

/// largest numerator / denominator of an exact result that is handed to TLC (keeps TLC's 32-bit arithmetic safe)
pub const NMAX: i128 = 1 << 15;
pub const DMAX: i128 = 1 << 8;

pub fn hexf(s: &Value) -> f64 { f64::from_bits(u64::from_str_radix(s.as_str().unwrap_or("0"), 16).unwrap_or_else(|_| { eprintln!("TOOL-ERROR bad f64 bits {}", s); std::process::exit(2) })) }
pub fn fhex(x: f64) -> Value { json!(bits(x)) }
/// exact conversion of a dyadic f64 to a rational (None if not finite or the denominator exceeds 2^40)
fn f64_to_rat(x: f64) -> Option<Rat> {
    if !x.is_finite() { return None; }
    let mut y = x; let mut k = 0u32;
    while y != y.trunc() { y *= 2.0; k += 1; if k > 40 { return None; } }
    if y.abs() >= 1e30 { return None; }
    Some(Rat::new(y as i128, 1i128 << k))
}
fn small(r: &Rat) -> bool { r.n.abs() < NMAX && r.d <= DMAX }

fn rat_poly(v: &Value) -> Polynomial<Rat> { Polynomial::new(v.as_array().map(|a| a.iter().map(rat_from).collect()).unwrap_or_default()) }
fn f64_poly_int(v: &Value) -> Polynomial<f64> { Polynomial::new(ivec(v).iter().map(|x| *x as f64).collect()) }
fn f64_poly_hex(v: &Value) -> Polynomial<f64> { Polynomial::new(v.as_array().map(|a| a.iter().map(hexf).collect()).unwrap_or_default()) }
fn cx_poly_hex(re: &Value, im: &Value) -> Polynomial<Cmplx> {
    let a: Vec<f64> = re.as_array().map(|a| a.iter().map(hexf).collect()).unwrap_or_default();
    let b: Vec<f64> = im.as_array().map(|a| a.iter().map(hexf).collect()).unwrap_or_default();
    Polynomial::new(a.iter().enumerate().map(|(k, x)| Cmplx::new(*x, b.get(k).cloned().unwrap_or(0.0))).collect())
}
fn coeffs<T: Copy>(p: &Polynomial<T>) -> Vec<T> { (0..p.size()).map(|i| p[i]).collect() }
fn jr(v: &[Rat]) -> Value { Value::from(v.iter().map(|x| jrat(*x)).collect::<Vec<Value>>()) }

type DivOut<T> = Result<Result<(Polynomial<T>, Polynomial<T>), &'static str>, String>;

fn exact_event(case: &Value, ty: &str, u: &[Rat], v: &[Rat], res: Result<Result<(Vec<Option<Rat>>, Vec<Option<Rat>>), &'static str>, String>, out: &mut Out) {
    let mut e = json!({"op": "polydiv", "kind": "exact", "ty": ty, "cid": geti(case, "cid"), "u": jr(u), "v": jr(v), "panic": false, "ok": false, "fits": true, "q": [], "r": [], "err": ""});
    match res {
        Err(_) => e["panic"] = json!(true),
        Ok(Err(m)) => e["err"] = json!(m),
        Ok(Ok((q, r))) => {
            e["ok"] = json!(true);
            let fits = q.iter().chain(r.iter()).all(|x| x.map(|y| small(&y)).unwrap_or(false));
            e["fits"] = json!(fits);
            if fits { e["q"] = jr(&q.iter().map(|x| x.unwrap()).collect::<Vec<Rat>>()); e["r"] = jr(&r.iter().map(|x| x.unwrap()).collect::<Vec<Rat>>()); }
        }
    }
    out.ev(e);
}

fn lead_nz_f(v: &[(f64, f64)]) -> bool { v.last().map(|x| x.0 != 0.0 || x.1 != 0.0).unwrap_or(false) }

/// float event: the identity residual in double-double, in units of eps * (||u||inf + ||q||1 * ||v||inf)
fn float_event(case: &Value, ty: &str, u: &[(f64, f64)], v: &[(f64, f64)], res: Result<Result<(Vec<(f64, f64)>, Vec<(f64, f64)>), &'static str>, String>, out: &mut Out) {
    let zerodiv = v.iter().all(|x| x.0 == 0.0 && x.1 == 0.0);
    let mut e = json!({"op": "polydiv", "kind": "float", "ty": ty, "cid": geti(case, "cid"), "degu": u.len() as i64 - 1, "degv": v.len() as i64 - 1,
                       "zerodiv": zerodiv, "lead_nz": lead_nz_f(v), "panic": false, "ok": false, "rzero": false, "degr": -1, "degq": -1, "id_units": SAT, "id_milli": SAT, "err": ""});
    match res {
        Err(_) => e["panic"] = json!(true),
        Ok(Err(m)) => e["err"] = json!(m),
        Ok(Ok((q, r))) => {
            e["ok"] = json!(true);
            e["rzero"] = json!(r.iter().all(|x| x.0 == 0.0 && x.1 == 0.0));
            // mathematical degree of r (leading zeros do not count)
            let mut dr = r.len() as i64 - 1; while dr >= 0 && r[dr as usize].0 == 0.0 && r[dr as usize].1 == 0.0 { dr -= 1; }
            e["degr"] = json!(dr); e["degq"] = json!(q.len() as i64 - 1);
            let n = u.len().max(r.len()).max(if q.is_empty() || v.is_empty() { 0 } else { q.len() + v.len() - 1 });
            let mut err = 0.0f64; let mut bad = false;
            for k in 0..n {
                let mut s = match u.get(k) { Some(x) => CDD::from(x.0, x.1), None => CDD::ZERO };
                for (i, qi) in q.iter().enumerate() { if k >= i { if let Some(vj) = v.get(k - i) {
                    // exact complex product of two f64 pairs, accumulated in double-double
                    let re = DD::prod(qi.0, vj.0).sub(DD::prod(qi.1, vj.1)); let im = DD::prod(qi.0, vj.1).add(DD::prod(qi.1, vj.0));
                    s = s.sub(CDD { re, im });
                } } }
                if let Some(x) = r.get(k) { s = s.sub(CDD::from(x.0, x.1)); }
                let a = s.abs(); if !a.is_finite() { bad = true; } else if a > err { err = a; }
            }
            let nu = u.iter().map(|x| x.0.hypot(x.1)).fold(0.0, f64::max);
            let nv = v.iter().map(|x| x.0.hypot(x.1)).fold(0.0, f64::max);
            let nq: f64 = q.iter().map(|x| x.0.hypot(x.1)).sum();
            let unit = f64::EPSILON * (nu + nq * nv);
            if bad || !unit.is_finite() { e["id_units"] = json!(SAT); e["id_milli"] = json!(SAT); }
            else { e["id_units"] = json!(units(err, unit)); e["id_milli"] = json!(units(err, unit / 1000.0)); }
        }
    }
    out.ev(e);
}

pub fn exec(case: &Value, out: &mut Out) {
    match gets(case, "ty") {
        "rat" => {
            let (u, v) = (rat_poly(&case["u"]), rat_poly(&case["v"]));
            let r: DivOut<Rat> = guarded(|| u.polydiv(&v));
            exact_event(case, "rat", &coeffs(&u), &coeffs(&v), r.map(|x| x.map(|(q, r)| (coeffs(&q).into_iter().map(Some).collect(), coeffs(&r).into_iter().map(Some).collect()))), out);
        }
        "f64x" => {
            let (u, v) = (f64_poly_int(&case["u"]), f64_poly_int(&case["v"]));
            let r: DivOut<f64> = guarded(|| u.polydiv(&v));
            let ur: Vec<Rat> = ivec(&case["u"]).iter().map(|x| Rat::int(*x)).collect(); let vr: Vec<Rat> = ivec(&case["v"]).iter().map(|x| Rat::int(*x)).collect();
            exact_event(case, "f64x", &ur, &vr, r.map(|x| x.map(|(q, r)| (coeffs(&q).into_iter().map(f64_to_rat).collect(), coeffs(&r).into_iter().map(f64_to_rat).collect()))), out);
        }
        "f64" => {
            let (u, v) = if case["u"].as_array().map(|a| a.iter().all(|x| x.is_i64())).unwrap_or(false) && case["v"].as_array().map(|a| a.iter().all(|x| x.is_i64())).unwrap_or(false)
                { (f64_poly_int(&case["u"]), f64_poly_int(&case["v"])) } else { (f64_poly_hex(&case["u"]), f64_poly_hex(&case["v"])) };
            let r: DivOut<f64> = guarded(|| u.polydiv(&v));
            let p = |p: &Polynomial<f64>| coeffs(p).into_iter().map(|x| (x, 0.0)).collect::<Vec<(f64, f64)>>();
            float_event(case, "f64", &p(&u), &p(&v), r.map(|x| x.map(|(q, r)| (p(&q), p(&r)))), out);
        }
        "cx" => {
            let (u, v) = (cx_poly_hex(&case["u"], &case["ui"]), cx_poly_hex(&case["v"], &case["vi"]));
            let r: DivOut<Cmplx> = guarded(|| u.polydiv(&v));
            let p = |p: &Polynomial<Cmplx>| coeffs(p).into_iter().map(|x| (x.real, x.imag)).collect::<Vec<(f64, f64)>>();
            float_event(case, "cx", &p(&u), &p(&v), r.map(|x| x.map(|(q, r)| (p(&q), p(&r)))), out);
        }
        t => { eprintln!("TOOL-ERROR unknown type {}", t); std::process::exit(2) }
    }
}

// ------------------------------------------------------------------ case generation
/// reference long division over exact rationals (generator side only): are all intermediates small?
fn division_is_small(u: &[Rat], v: &[Rat]) -> bool {
    let mut r: Vec<Rat> = u.to_vec();
    let dv = v.len() - 1; let lv = v[dv];
    if lv.is_zero() { return false; }
    while r.len() > dv && r.iter().any(|x| !x.is_zero()) {
        let dr = r.len() - 1;
        let t = r[dr] / lv;
        if !small(&t) { return false; }
        for j in 0..=dv { let x = r[dr - dv + j] - t * v[j]; if !small(&x) { return false; } r[dr - dv + j] = x; }
        r.pop();
        while r.len() > 1 && r[r.len() - 1].is_zero() { r.pop(); }
    }
    true
}
fn int_coeffs(rng: &mut StdRng, len: usize, lim: i64) -> Vec<i64> { (0..len).map(|_| if rng.gen_bool(0.15) { 0 } else { rng.gen_range(-lim..=lim) }).collect() }
fn general(rng: &mut StdRng, span: f64) -> f64 {
    let m: f64 = 1.0 + rng.gen::<f64>(); let e = (rng.gen::<f64>() * 2.0 - 1.0) * span;
    let x = m * 10f64.powf(e); if rng.gen_bool(0.5) { x } else { -x }
}
fn hexvec(v: &[f64]) -> Value { Value::from(v.iter().map(|x| fhex(*x)).collect::<Vec<Value>>()) }

pub fn gen(tier: &str, seed: u64, out: &mut Out) {
    let quick = tier == "quick";
    let mut rng = rng(seed, 12);
    let mut cid = 0i64;
    let mut push = |out: &mut Out, mut c: Value| { cid += 1; c["cid"] = json!(cid); c["suite"] = json!("polydiv"); out.raw(&c); };
    let reps = if quick { 1 } else { 8 };
    // (a) exact: every (len u, len v) in 0..11 x 0..7 (degree <= 10 / <= 6; empty operands; divisors longer than the dividend)
    for lu in 0..=11usize { for lv in 0..=7usize { for rep in 0..reps {
        let ty = if (lu + lv + rep) % 2 == 0 { "rat" } else { "f64x" };
        if lv == 0 { push(out, json!({"ty": ty, "u": int_coeffs(&mut rng, lu, 9), "v": []})); continue; }
        let mut done = false;
        for attempt in 0..400 {
            let lim = if attempt < 100 { 9 } else if attempt < 200 { 4 } else if attempt < 300 { 2 } else { 1 };
            let mut u = int_coeffs(&mut rng, lu, lim); let mut v = int_coeffs(&mut rng, lv, lim);
            let long = lu > lv + 6;
            v[lv - 1] = if long || attempt >= 300 { [1i64, -1][rng.gen_range(0..2)] } else { [1i64, -1, 2, -2, 4, -4][rng.gen_range(0..if ty == "rat" { 4 } else { 6 })] };
            if lu > 0 && u[lu - 1] == 0 && rng.gen_bool(0.8) { u[lu - 1] = 1; }
            let ur: Vec<Rat> = u.iter().map(|x| Rat::int(*x)).collect(); let vr: Vec<Rat> = v.iter().map(|x| Rat::int(*x)).collect();
            if division_is_small(&ur, &vr) { push(out, json!({"ty": ty, "u": u, "v": v})); done = true; break; }
        }
        if !done { eprintln!("TOOL-ERROR polydiv gen: no small exact case for lengths {} {}", lu, lv); std::process::exit(2); }
    } } }
    // (b) exact, rational coefficients and general rational leading coefficient (Polynomial<Rat> only), short quotients
    for _ in 0..(if quick { 60 } else { 800 }) {
        let lv = rng.gen_range(1..=5usize); let lu = rng.gen_range(0..=(lv + 3));
        for _ in 0..200 {
            let rc = |rng: &mut StdRng| Rat::new(rng.gen_range(-6..=6i64) as i128, [1i128, 1, 2, 3][rng.gen_range(0..4)]);
            let u: Vec<Rat> = (0..lu).map(|_| rc(&mut rng)).collect(); let mut v: Vec<Rat> = (0..lv).map(|_| rc(&mut rng)).collect();
            if v[lv - 1].is_zero() { v[lv - 1] = Rat::new(3, 2); }
            if division_is_small(&u, &v) { push(out, json!({"ty": "rat", "u": jr(&u), "v": jr(&v)})); break; }
        }
    }
    // (c) zero / empty divisors, zero dividends, divisor with a vanishing leading coefficient (outside the property)
    for lu in [0usize, 1, 3, 7] { for lv in 0..=4usize { for ty in ["rat", "f64x", "f64", "cx"] {
        let u = int_coeffs(&mut rng, lu, 9); let z = vec![0i64; lv];
        let cxv = |v: &Vec<i64>| hexvec(&v.iter().map(|x| *x as f64).collect::<Vec<f64>>());
        if ty == "cx" { push(out, json!({"ty": ty, "u": cxv(&u), "ui": cxv(&int_coeffs(&mut rng, lu, 9)), "v": cxv(&z), "vi": cxv(&z)})); }
        else { push(out, json!({"ty": ty, "u": u, "v": z})); }
        if lv >= 2 && ty != "cx" { let mut w = int_coeffs(&mut rng, lv, 3); w[0] = 1; w[lv - 1] = 0; push(out, json!({"ty": ty, "u": u, "v": w})); }
        if lv >= 1 && ty != "cx" { let mut w = int_coeffs(&mut rng, lv, 3); w[lv - 1] = 1; push(out, json!({"ty": ty, "u": vec![0i64; lu], "v": w})); }
    } } }
    // (d) general floating point: the leading term does not cancel exactly
    push(out, json!({"ty": "f64", "u": hexvec(&[0.3, -1.7, 2.9, 1.0 / 3.0, 1.0]), "v": hexvec(&[0.7, 49.0])}));        // the input of D7
    let nf = if quick { 700 } else { 12000 };
    for k in 0..nf {
        let lu = rng.gen_range(0..=11usize); let lv = rng.gen_range(1..=7usize);
        let span = [0.0, 1.0, 3.0][k % 3];                                  // coefficient ratios up to 10^(2*span) ... capped at 1e6
        let gen1 = |rng: &mut StdRng| -> f64 { match k % 5 { 4 => rng.gen_range(-9..=9i64) as f64, 3 if rng.gen_bool(0.2) => 0.0, _ => general(rng, span) } };
        let mut u: Vec<f64> = (0..lu).map(|_| gen1(&mut rng)).collect(); let mut v: Vec<f64> = (0..lv).map(|_| gen1(&mut rng)).collect();
        if v[lv - 1] == 0.0 { v[lv - 1] = general(&mut rng, span); }
        if lu > 0 && u[lu - 1] == 0.0 { u[lu - 1] = 1.0; }
        if k % 2 == 0 { push(out, json!({"ty": "f64", "u": hexvec(&u), "v": hexvec(&v)})); }
        else {
            let ui: Vec<f64> = (0..lu).map(|_| gen1(&mut rng)).collect(); let vi: Vec<f64> = (0..lv).map(|_| gen1(&mut rng)).collect();
            push(out, json!({"ty": "cx", "u": hexvec(&u), "ui": hexvec(&ui), "v": hexvec(&v), "vi": hexvec(&vi)}));
        }
    }
}
